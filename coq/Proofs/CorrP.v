(* Proofs about the correlation model (Model/Corr.v) against Spec/CorrSpec.v. *)
From Coq Require Import String Ascii.
From Coq Require Import List NArith ZArith Bool Arith Lia DecimalZ DecimalPos.
From PS Require Import Base.Chars Base.Outcome Model.Backend Spec.Target Model.BTree Model.Corr Spec.CorrSpec
                       Proofs.BackendP Proofs.BackendMainP Proofs.BackendDomP Proofs.BTreeP.
Import ListNotations.
Open Scope list_scope.
Open Scope N_scope.

(* ---------- the domain of the read-back theorem, as a boolean ---------- *)
Definition clean_fmap (f : fmap) : bool :=
  match f with
  | FMap l => forallb (fun kv : str * list str => forallb clean (snd kv)) l
  | FPrefix p => clean p
  | FSuffix s => clean s
  end.
Definition clean_info (ri : rinfo) : bool :=
  forallb wfl (ri_raw ri) && forallb wfl (ri_fin ri) && clean (ruleid ri) && forallb clean (ri_fields ri).
Definition clean_fieldref (f : fieldref) : bool :=
  match f with FNone => true | FOne x => clean x | FMany l => forallb clean l end.
Definition clean_rule (r : crule) : bool :=
  clean (r_ts r) && forallb clean (match r_gb r with Some g => g | None => [] end)
  && forallb (fun am : str * list (str * nat * str) => clean (fst am) && forallb (fun e : str * nat * str => clean (snd e)) (snd am)) (r_aliases r)
  && forallb clean (r_fields r)
  && clean_fieldref (match the_cond r with CBasic _ _ f _ => f | CExt _ => FNone end)
  && forallb (fun rf => clean_info (rr_info rf)) (referenced r)
  && forallb (fun rf => clean (rr_ref rf)) (r_xrefs r).

(* D-B: an alias entry and a rule reference name the same document iff they are spelled the same *)
Definition aliases_spelled (r : crule) : bool :=
  forallb (fun am : str * list (str * nat * str) =>
             forallb (fun e : str * nat * str =>
                        forallb (fun rf => Bool.eqb (str_eqb (fst (fst e)) (rr_ref rf)) (Nat.eqb (snd (fst e)) (rr_doc rf)))
                                (referenced r))
                     (snd am))
          (r_aliases r).
(* D-E: every pipeline item applies to the correlation rule iff it applies to each referenced rule *)
Definition uniform (P : list pitem) (r : crule) : bool :=
  let cats := flat_map (fun rf => ri_cats (rr_info rf)) (referenced r) in
  forallb (fun it => forallb (fun rf => Bool.eqb (matches it cats) (matches it (ri_cats (rr_info rf)))) (referenced r)) P.

(* the two classes of inputs on which today's code departs from the specification *)
Definition sdom (K : kcfg) (P : list pitem) (r : crule) : bool :=
  aliases_spelled r && uniform P r.
Definition dom (K : kcfg) (P : list pitem) (r : crule) : bool :=
  clean_rule r && forallb (fun it => clean_fmap (pi_f it)) P && sdom K P r.

(* extended conditions: operators have arguments, only references / not / and / or occur, every
   identifier is spelled like the name-or-id of the rule it resolves to (D-C), the backend's
   precedence tuple is a permutation *)
Fixpoint xshape (c : cond) : bool :=
  match c with
  | CAtom _ _ _ _ => true
  | CNot a => xshape a
  | CBin _ args => negb (match args with [] => true | _ => false end) &&
                   (fix all l := match l with [] => true | x :: r => xshape x && all r end) args
  | _ => false
  end.
Definition xdom (K : kcfg) (r : crule) : bool :=
  match the_cond r with
  | CExt t => cfg_ok (k_cfg K) && xshape t
              && forallb (fun rf => str_eqb (rr_ref rf) (ruleid (rr_info rf))) (r_xrefs r)
  | _ => true
  end.

(* ================================================================================================ *)
(* numbers: int(str(z)) = z *)
Lemma uint_digits_roundtrip u : uint_of_digits (str_of_uint u) = Some u.
Proof. induction u; simpl; try reflexivity; rewrite IHu; reflexivity. Qed.

Lemma str_of_uint_digits u : forallb is_digit (str_of_uint u) = true.
Proof. induction u; simpl; try reflexivity; exact IHu. Qed.

Lemma digits_us_digits l : forallb is_digit l = true -> l <> [] -> digits_us false l = Some l.
Proof.
  assert (H : forall l, forallb is_digit l = true -> digits_us true l = Some l).
  { induction l0 as [|c r IH]; intros Hd; [reflexivity|].
    simpl in Hd. apply andb_true_iff in Hd. destruct Hd as [Hc Hr].
    simpl. rewrite Hc. rewrite (IH Hr). reflexivity. }
  destruct l as [|c r]; intros Hd Hne; [congruence|].
  simpl in Hd. apply andb_true_iff in Hd. destruct Hd as [Hc Hr].
  simpl. rewrite Hc. rewrite (H r Hr). reflexivity.
Qed.

Lemma str_of_uint_nonnil u : u <> Decimal.Nil -> str_of_uint u <> [].
Proof. destruct u; simpl; congruence. Qed.

Lemma lstrip_id s : match s with c :: _ => is_ws c = false | [] => True end -> lstrip s = s.
Proof. destruct s as [|c r]; simpl; [reflexivity|]. intros ->. reflexivity. Qed.

Lemma strip_id s : forallb (fun c => negb (is_ws c)) s = true -> strip s = s.
Proof.
  intros H. unfold strip.
  assert (Hh : forall t, forallb (fun c => negb (is_ws c)) t = true ->
                         match t with c :: _ => is_ws c = false | [] => True end).
  { intros [|c t] Ht; [exact I|]. simpl in Ht. apply andb_true_iff in Ht. destruct Ht as [Hc _].
    apply negb_true_iff in Hc. exact Hc. }
  rewrite (lstrip_id s (Hh s H)).
  assert (Hr : forallb (fun c => negb (is_ws c)) (rev s) = true).
  { apply forallb_forall. intros x Hx. apply in_rev in Hx. revert x Hx. apply forallb_forall. exact H. }
  rewrite (lstrip_id (rev s) (Hh _ Hr)). apply rev_involutive.
Qed.

Lemma digit_not_ws c : is_digit c = true -> negb (is_ws c) = true.
Proof.
  unfold is_digit, is_ws. intros H. apply andb_true_iff in H. destruct H as [H1 H2].
  apply N.leb_le in H1. apply N.leb_le in H2. apply negb_true_iff. apply orb_false_iff. split.
  - apply N.eqb_neq. lia.
  - apply andb_false_iff. right. apply N.leb_gt. lia.
Qed.

Lemma digits_not_ws l : forallb is_digit l = true -> forallb (fun c => negb (is_ws c)) l = true.
Proof.
  intros H. apply forallb_forall. intros x Hx. apply digit_not_ws. revert x Hx. apply forallb_forall. exact H.
Qed.

Lemma digit_not_sign c : is_digit c = true -> (c =? 45) = false /\ (c =? 43) = false.
Proof.
  unfold is_digit. intros H. apply andb_true_iff in H. destruct H as [H1 H2].
  apply N.leb_le in H1. apply N.leb_le in H2. split; apply N.eqb_neq; lia.
Qed.

Lemma py_int_uint u : u <> Decimal.Nil -> py_int (str_of_uint u) = Some (Z.of_uint u).
Proof.
  intros Hn. unfold py_int.
  pose proof (str_of_uint_digits u) as Hd.
  rewrite (strip_id _ (digits_not_ws _ Hd)).
  destruct (str_of_uint u) as [|c r] eqn:E.
  { exfalso. apply (str_of_uint_nonnil u Hn). exact E. }
  assert (Hc : is_digit c = true) by (simpl in Hd; apply andb_true_iff in Hd; tauto).
  destruct (digit_not_sign c Hc) as [H1 H2]. rewrite H1, H2.
  rewrite <- E in *. rewrite (digits_us_digits _ Hd (str_of_uint_nonnil u Hn)).
  rewrite uint_digits_roundtrip. reflexivity.
Qed.

Lemma py_int_neg u : u <> Decimal.Nil -> py_int (45 :: str_of_uint u) = Some (- Z.of_uint u)%Z.
Proof.
  intros Hn. unfold py_int.
  pose proof (str_of_uint_digits u) as Hd.
  assert (Hs : strip (45 :: str_of_uint u) = 45 :: str_of_uint u).
  { apply strip_id. simpl. apply digits_not_ws. exact Hd. }
  rewrite Hs. replace (45 =? 45) with true by reflexivity.
  rewrite (digits_us_digits _ Hd (str_of_uint_nonnil u Hn)).
  rewrite uint_digits_roundtrip. reflexivity.
Qed.

Theorem py_int_dec z : py_int (dec_of_Z z) = Some z.
Proof.
  unfold dec_of_Z. pose proof (DecimalZ.of_to z) as H.
  destruct z as [|p|p]; cbn [Z.to_int] in *.
  - reflexivity.
  - rewrite py_int_uint by apply DecimalPos.Unsigned.to_uint_nonnil. cbn [Z.of_int] in H. rewrite H. reflexivity.
  - rewrite py_int_neg by apply DecimalPos.Unsigned.to_uint_nonnil. cbn [Z.of_int] in H. rewrite H. reflexivity.
Qed.

(* ---------- timespan ---------- *)
(* the seconds of a parsed time span are count x unit length for each of the seven units, and the
   number printed in seconds mode reads back (with Python's int) as exactly that product *)
Theorem timespan_seconds spec t : parse_ts spec = Some t ->
  exists len, unit_len (t_unit t) = Some len /\ t_seconds t = (t_count t * len)%Z /\
              py_int (render_ts TsSeconds spec t) = Some (t_count t * len)%Z /\
              (exists body, spec = body ++ [t_unit t] /\ py_int body = Some (t_count t)).
Proof.
  unfold parse_ts. intros H.
  destruct (rev spec) as [|u rc] eqn:Er; [discriminate|].
  destruct (py_int (rev rc)) as [n|] eqn:En; [|discriminate].
  destruct (unit_len u) as [len|] eqn:Eu; [|discriminate].
  inversion H; subst; clear H. cbn [t_unit t_count t_seconds]. exists len. repeat split; auto.
  - cbn [render_ts t_seconds]. apply py_int_dec.
  - exists (rev rc). split; [|exact En].
    rewrite <- (rev_involutive spec). rewrite Er. reflexivity.
Qed.

Lemma unit_table :
  unit_len 115 = Some 1%Z /\ unit_len 109 = Some 60%Z /\ unit_len 104 = Some 3600%Z /\
  unit_len 100 = Some 86400%Z /\ unit_len 119 = Some 604800%Z /\ unit_len 77 = Some 2629746%Z /\
  unit_len 121 = Some 31556952%Z /\
  (forall u, u <> 115 -> u <> 109 -> u <> 104 -> u <> 100 -> u <> 119 -> u <> 77 -> u <> 121 -> unit_len u = None).
Proof.
  repeat split; try reflexivity.
  intros u H1 H2 H3 H4 H5 H6 H7. unfold unit_len.
  repeat match goal with |- context [?a =? ?b] => destruct (N.eqb_spec a b); [congruence|] end.
  reflexivity.
Qed.

(* ---------- extended conditions ---------- *)
Lemma xshape_wfb K t : xshape t = true -> wfb (xcfg K) t = true.
Proof.
  induction t as [k f n a|args IH|f ps|a|a IH|o args IH] using cond_ind'; simpl; intros H; try discriminate; auto.
  - rewrite (IH H). reflexivity.
  - apply andb_true_iff in H. destruct H as [H1 H2]. apply andb_true_iff. split.
    + destruct args; [discriminate H1|reflexivity].
    + clear H1. induction args as [|x r IHr]; [reflexivity|].
      apply andb_true_iff in H2. destruct H2 as [Hx Hr].
      inversion IH as [|? ? Px Pr]; subst. rewrite (Px Hx). simpl. apply IHr; assumption.
Qed.

Theorem ext_structure K asg t : cfg_ok K = true -> xshape t = true ->
  exists f, pe (lvl K) asg f 3 (conv (xcfg K) false t) = Some (den asg t, []).
Proof.
  intros HK Hx.
  exact (structure_b (xcfg K) asg t HK (xshape_wfb K t Hx)).
Qed.

(* ================================================================================================ *)
(* the pipeline, step by step, is the per-name renaming of the specification *)
Lemma obind_ok {A B} (x : outcome A) (f : A -> outcome B) y :
  obind x f = Ok y -> exists a, x = Ok a /\ f a = Ok y.
Proof. destruct x; simpl; intros H; try discriminate. eauto. Qed.

Lemma mapM_ok {A B} (f : A -> outcome B) l l' : mapM f l = Ok l' -> Forall2 (fun x y => f x = Ok y) l l'.
Proof.
  revert l'. induction l as [|x r IH]; intros l' H; simpl in H.
  - inversion H. constructor.
  - apply obind_ok in H. destruct H as [y [Hy H]]. apply obind_ok in H. destruct H as [ys [Hys H]].
    inversion H; subst. constructor; auto.
Qed.

Lemma mapM_of_Forall2 {A B} (f : A -> outcome B) l l' : Forall2 (fun x y => f x = Ok y) l l' -> mapM f l = Ok l'.
Proof. induction 1 as [|x y r r' Hxy _ IH]; simpl; [reflexivity|]. rewrite Hxy. simpl. rewrite IH. reflexivity. Qed.

Lemma mapM_ext_in {A B} (f g : A -> outcome B) l : (forall x, In x l -> f x = g x) -> mapM f l = mapM g l.
Proof.
  induction l as [|x r IH]; intros H; [reflexivity|]. simpl.
  rewrite (H x (or_introl eq_refl)). destruct (g x); simpl; auto.
  rewrite IH; auto. intros y Hy. apply H. right. exact Hy.
Qed.

Lemma flat_map_flat_map {A B C} (f : A -> list B) (g : B -> list C) l :
  flat_map g (flat_map f l) = flat_map (fun x => flat_map g (f x)) l.
Proof. induction l as [|x r IH]; [reflexivity|]. simpl. rewrite flat_map_app. rewrite IH. reflexivity. Qed.

Lemma flat_map_single {A} (l : list A) : flat_map (fun x => [x]) l = l.
Proof. induction l as [|x r IH]; [reflexivity|]. simpl. rewrite IH. reflexivity. Qed.

Lemma flat_map_ext_in {A B} (f g : A -> list B) l : (forall x, In x l -> f x = g x) -> flat_map f l = flat_map g l.
Proof.
  induction l as [|x r IH]; intros H; [reflexivity|]. simpl. rewrite (H x (or_introl eq_refl)).
  rewrite IH; auto. intros y Hy. apply H. right. exact Hy.
Qed.

Definition ent_rel (g : str -> outcome str) (e e' : str * nat * str) : Prop :=
  fst e = fst e' /\ g (snd e) = Ok (snd e').
Definition al_rel (g : str -> outcome str) (am am' : str * list (str * nat * str)) : Prop :=
  fst am = fst am' /\ Forall2 (ent_rel g) (snd am) (snd am').
Definition cf_rel (g : str -> outcome str) (c c' : fieldref) : Prop :=
  match c, c' with
  | FNone, FNone => True
  | FOne x, FOne y => g x = Ok y
  | FMany l, FMany l' => Forall2 (fun x y => g x = Ok y) l l'
  | _, _ => False
  end.

Lemma al_rel_names g l l' : Forall2 (al_rel g) l l' -> map fst l' = map fst l.
Proof. induction 1 as [|x y r r' [Hxy _] _ IH]; simpl; [reflexivity|]. rewrite Hxy, IH. reflexivity. Qed.

Lemma step_spec f st st' : step f st = Ok st' ->
  ps_fields st' = flat_map f (ps_fields st) /\
  Forall2 (al_rel (fun x => single (f x))) (ps_aliases st) (ps_aliases st') /\
  ps_gb st' = option_map (flat_map (fun x => if mem_str x (map fst (ps_aliases st)) then [x] else f x)) (ps_gb st) /\
  cf_rel (fun x => single (f x)) (ps_cf st) (ps_cf st').
Proof.
  unfold step. intros H.
  apply obind_ok in H. destruct H as [ag [Hag H]].
  apply obind_ok in H. destruct H as [cf [Hcf H]]. inversion H; subst; clear H. cbn [ps_fields ps_aliases ps_gb ps_cf].
  apply obind_ok in Hag. destruct Hag as [als [Hals Hag]]. inversion Hag; subst; clear Hag. cbn [fst snd].
  split; [reflexivity|]. split; [|split; [reflexivity|]].
  - apply mapM_ok in Hals.
    induction Hals as [|am am' r r' Ham _ IH]; constructor; auto.
    apply obind_ok in Ham. destruct Ham as [mp [Hmp Ham]]. inversion Ham; subst; clear Ham.
    split; [reflexivity|]. cbn [snd].
    apply mapM_ok in Hmp. clear -Hmp.
    induction Hmp as [|e e' q q' He _ IH]; constructor; auto.
    apply obind_ok in He. destruct He as [fl [Hfl He]]. inversion He; subst. split; [reflexivity|exact Hfl].
  - destruct (ps_cf st) as [|x|l]; simpl in *.
    + inversion Hcf; subst. exact I.
    + apply obind_ok in Hcf. destruct Hcf as [y [Hy Hcf]]. inversion Hcf; subst. exact Hy.
    + apply obind_ok in Hcf. destruct Hcf as [l' [Hl Hcf]]. inversion Hcf; subst. apply mapM_ok in Hl. exact Hl.
Qed.

Lemma Forall2_compose {A} (R1 R2 R3 : A -> A -> Prop) l1 l2 l3 :
  (forall a b c, R1 a b -> R2 b c -> R3 a c) -> Forall2 R1 l1 l2 -> Forall2 R2 l2 l3 -> Forall2 R3 l1 l3.
Proof.
  intros Hc H12. revert l3. induction H12 as [|a b r1 r2 Hab _ IH]; intros l3 H23; inversion H23; subst; constructor; eauto.
Qed.

Lemma Forall2_refl {A} (R : A -> A -> Prop) l : (forall a, R a a) -> Forall2 R l l.
Proof. intros H. induction l; constructor; auto. Qed.

Theorem run_pipeline_spec P cats : forall st st', run_pipeline P cats st = Ok st' ->
  ps_fields st' = flat_map (renl P cats) (ps_fields st) /\
  Forall2 (al_rel (ren1 P cats)) (ps_aliases st) (ps_aliases st') /\
  ps_gb st' = option_map (flat_map (reng P cats (map fst (ps_aliases st)))) (ps_gb st) /\
  cf_rel (ren1 P cats) (ps_cf st) (ps_cf st').
Proof.
  induction P as [|it P IH]; intros st st' H.
  - simpl in H. inversion H; subst; clear H. cbn [renl ren1 reng].
    split; [symmetry; apply flat_map_single|].
    split; [apply Forall2_refl; intros a; split; [reflexivity|apply Forall2_refl; intros e; split; reflexivity]|].
    split.
    + destruct (ps_gb st'); simpl; [rewrite flat_map_single|]; reflexivity.
    + destruct (ps_cf st'); simpl; auto. apply Forall2_refl. reflexivity.
  - cbn [run_pipeline renl ren1 reng] in *. destruct (matches it cats) eqn:Em.
    + apply obind_ok in H. destruct H as [st1 [H1 H2]].
      apply step_spec in H1. destruct H1 as [F1 [A1 [G1 C1]]].
      apply IH in H2. destruct H2 as [F2 [A2 [G2 C2]]].
      split; [|split; [|split]].
      * rewrite F2, F1. apply flat_map_flat_map.
      * eapply Forall2_compose; [|exact A1|exact A2].
        intros a b c [Hab Eab] [Hbc Ebc]. split; [congruence|].
        eapply Forall2_compose; [|exact Eab|exact Ebc].
        intros e1 e2 e3 [H12 S12] [H23 S23]. split; [congruence|]. rewrite S12. simpl. exact S23.
      * rewrite G2, G1. rewrite (al_rel_names _ _ _ A1).
        destruct (ps_gb st); simpl; [|reflexivity]. rewrite flat_map_flat_map. reflexivity.
      * destruct (ps_cf st) as [|x|l], (ps_cf st1) as [|x1|l1], (ps_cf st') as [|x2|l2]; simpl in *; try tauto.
        -- rewrite C1. simpl. exact C2.
        -- eapply Forall2_compose; [|exact C1|exact C2]. intros a b c Hab Hbc. rewrite Hab. simpl. exact Hbc.
    + apply IH. exact H.
Qed.

Lemma ref_fields_spec P cats : forall fs, ref_fields P cats fs = flat_map (renl P cats) fs.
Proof.
  induction P as [|it P IH]; intros fs; cbn [ref_fields renl].
  - symmetry. apply flat_map_single.
  - rewrite IH. destruct (matches it cats); [apply flat_map_flat_map|reflexivity].
Qed.

(* renaming depends on the categories only through which items apply *)
Lemma ren1_ext P c1 c2 : (forall it, In it P -> matches it c1 = matches it c2) -> forall x, ren1 P c1 x = ren1 P c2 x.
Proof.
  induction P as [|it P IH]; intros H x; [reflexivity|]. cbn [ren1].
  rewrite (H it (or_introl eq_refl)).
  assert (H' : forall it', In it' P -> matches it' c1 = matches it' c2) by (intros; apply H; right; assumption).
  destruct (matches it c2); [|apply IH; exact H'].
  destruct (single (apply_name (pi_f it) x)); simpl; auto.
Qed.
Lemma renl_ext P c1 c2 : (forall it, In it P -> matches it c1 = matches it c2) -> forall x, renl P c1 x = renl P c2 x.
Proof.
  induction P as [|it P IH]; intros H x; [reflexivity|]. cbn [renl].
  rewrite (H it (or_introl eq_refl)).
  assert (H' : forall it', In it' P -> matches it' c1 = matches it' c2) by (intros; apply H; right; assumption).
  destruct (matches it c2); [|apply IH; exact H'].
  apply flat_map_ext_in. intros y _. apply IH. exact H'.
Qed.

(* ================================================================================================ *)
(* the converter's tree, normalised, is the specification's tree *)
Section Elements.
Variables (K : kcfg) (P : list pitem) (r : crule).
Hypothesis Hdom : sdom K P r = true.
Let refs := referenced r.
Let cats := flat_map (fun rf => ri_cats (rr_info rf)) refs.

Lemma sdom_parts : aliases_spelled r = true /\ uniform P r = true.
Proof. unfold sdom in Hdom. apply andb_true_iff in Hdom. exact Hdom. Qed.

Lemma uniform_matches rf it : In rf refs -> In it P -> matches it (ri_cats (rr_info rf)) = matches it cats.
Proof.
  destruct sdom_parts as [_ Hu]. unfold uniform in Hu. intros Hrf Hit.
  rewrite forallb_forall in Hu. specialize (Hu it Hit). rewrite forallb_forall in Hu. specialize (Hu rf Hrf).
  apply eqb_prop in Hu. symmetry. exact Hu.
Qed.

Lemma spelled (am : str * list (str * nat * str)) (e : str * nat * str) rf :
  In am (r_aliases r) -> In e (snd am) -> In rf refs ->
  str_eqb (fst (fst e)) (rr_ref rf) = Nat.eqb (snd (fst e)) (rr_doc rf).
Proof.
  destruct sdom_parts as [Hs _]. unfold aliases_spelled in Hs. intros Ham He Hrf.
  rewrite forallb_forall in Hs. specialize (Hs am Ham). rewrite forallb_forall in Hs. specialize (Hs e He).
  rewrite forallb_forall in Hs. specialize (Hs rf Hrf). apply eqb_prop in Hs. exact Hs.
Qed.

Lemma embed_own rf : In rf refs -> embed K (rr_info rf) = own_queries K (rr_info rf).
Proof. reflexivity. Qed.

Lemma pairs_eq : exp_pairs K refs = ref_queries K refs.
Proof.
  unfold exp_pairs, ref_queries. apply flat_map_ext_in. intros rf Hrf. rewrite (embed_own rf Hrf). reflexivity.
Qed.

Lemma pairs_in rq : In rq (ref_queries K refs) -> In (fst rq) refs.
Proof.
  unfold ref_queries. intros H. apply in_flat_map in H. destruct H as [rf [Hrf H]].
  apply in_map_iff in H. destruct H as [q [Hq _]]. subst. exact Hrf.
Qed.

Local Notation anode a fl := (E (lit "a") [E (lit "al") (txt a); E (lit "f") (txt fl)]).

Lemma norm_entry (am am' : str * list (str * nat * str)) rf :
  In am (r_aliases r) -> In rf refs -> al_rel (ren1 P cats) am am' ->
  mapM (fun e : str * nat * str =>
          obind (ren1 P (ri_cats (rr_info rf)) (snd e)) (fun fl => Ok (anode (fst am) fl)))
       (filter (fun e : str * nat * str => Nat.eqb (snd (fst e)) (rr_doc rf)) (snd am))
  = Ok (flat_map (fun e : str * nat * str =>
                    if str_eqb (fst (fst e)) (rr_ref rf) then [anode (fst am') (snd e)] else [])
                 (snd am')).
Proof.
  intros Ham Hrf [Hn Hents]. rewrite <- Hn.
  assert (Hsp : forall e, In e (snd am) -> str_eqb (fst (fst e)) (rr_ref rf) = Nat.eqb (snd (fst e)) (rr_doc rf))
    by (intros e He; apply (spelled am e rf Ham He Hrf)).
  clear Ham Hn. induction Hents as [|e e' q q' [He1 He2] _ IH]; [reflexivity|].
  cbn [filter flat_map]. rewrite <- He1.
  rewrite <- (Hsp e (or_introl eq_refl)).
  assert (IH' := IH (fun x Hx => Hsp x (or_intror Hx))). clear IH.
  destruct (str_eqb (fst (fst e)) (rr_ref rf)).
  - cbn [mapM].
    rewrite (ren1_ext P _ cats (fun it Hit => uniform_matches rf it Hrf Hit)). rewrite He2. cbn [obind].
    rewrite IH'. reflexivity.
  - exact IH'.
Qed.

Lemma norm_eq als' rf : In rf refs -> Forall2 (al_rel (ren1 P cats)) (r_aliases r) als' ->
  exp_norm K P (r_aliases r) rf = norm_nodes K als' rf.
Proof.
  intros Hrf HA. unfold exp_norm, norm_nodes.
  remember (r_aliases r) as als0 eqn:Eals.
  assert (Hin0 : forall x, In x als0 -> In x (r_aliases r)) by (subst; auto).
  clear Eals.
  destruct HA as [|am am' l l' Ham HA]; [reflexivity|].
  destruct (negb (k_norm K)); [reflexivity|].
  set (als := am :: l) in *. set (als'' := am' :: l') in *.
  assert (HA' : Forall2 (al_rel (ren1 P cats)) als als'') by (constructor; assumption).
  assert (Hin : forall x, In x als -> In x (r_aliases r)) by exact Hin0.
  clearbody als als''. clear Ham HA Hin0 am am' l l'.
  match goal with |- obind (mapM ?f als) _ = _ =>
    assert (HM : mapM f als = Ok (map (fun am' : str * list (str * nat * str) =>
                     flat_map (fun e : str * nat * str =>
                                 if str_eqb (fst (fst e)) (rr_ref rf) then [anode (fst am') (snd e)] else [])
                              (snd am')) als''))
  end.
  { induction HA' as [|am am' l l' Ham _ IH]; [reflexivity|].
    cbn [mapM map].
    rewrite (norm_entry am am' rf (Hin am (or_introl eq_refl)) Hrf Ham). cbn [obind].
    rewrite IH; [reflexivity|]. intros x Hx. apply Hin. right. exact Hx. }
  rewrite HM. cbn [obind]. rewrite <- flat_map_concat_map. reflexivity.
Qed.

Lemma alias_check als' : Forall2 (al_rel (ren1 P cats)) (r_aliases r) als' ->
  exists v, mapM (fun am : str * list (str * nat * str) =>
                   mapM (fun e : str * nat * str =>
                           ren1 P (match find (fun rf => Nat.eqb (rr_doc rf) (snd (fst e))) refs with
                                   | Some rf => ri_cats (rr_info rf)
                                   | None => cats
                                   end) (snd e))
                        (snd am))
                (r_aliases r) = Ok v.
Proof.
  intros HA. induction HA as [|am am' l l' [_ Hents] _ [v IH]]; [eexists; reflexivity|].
  cbn [mapM].
  assert (HE : exists w, mapM (fun e : str * nat * str =>
                           ren1 P (match find (fun rf => Nat.eqb (rr_doc rf) (snd (fst e))) refs with
                                   | Some rf => ri_cats (rr_info rf)
                                   | None => cats
                                   end) (snd e)) (snd am) = Ok w).
  { clear IH. induction Hents as [|e e' q q' [_ He] _ [w IHe]]; [eexists; reflexivity|].
    cbn [mapM].
    assert (Hr : ren1 P (match find (fun rf => Nat.eqb (rr_doc rf) (snd (fst e))) refs with
                         | Some rf => ri_cats (rr_info rf) | None => cats end) (snd e) = Ok (snd e')).
    { destruct (find (fun rf => Nat.eqb (rr_doc rf) (snd (fst e))) refs) as [rf|] eqn:Ef; [|exact He].
      apply find_some in Ef. destruct Ef as [Hrf _].
      rewrite (ren1_ext P _ cats (fun it Hit => uniform_matches rf it Hrf Hit)). exact He. }
    rewrite Hr. cbn [obind]. rewrite IHe. eexists. reflexivity. }
  destruct HE as [w HE]. rewrite HE. cbn [obind]. rewrite IH. eexists. reflexivity.
Qed.

Lemma fieldref_eq f f' : cf_rel (ren1 P cats) f f' -> exp_fieldref P cats f = Ok f'.
Proof.
  destruct f as [|x|l], f' as [|y|l']; simpl; try tauto.
  - intros ->. reflexivity.
  - intros H. rewrite (mapM_of_Forall2 _ _ _ H). reflexivity.
Qed.

Definition entryf (als' : list (str * list (str * nat * str))) (rq : rref * list node) : outcome node :=
  obind (norm_nodes K als' (fst rq))
        (fun n => Ok (E (lit "r") [E (lit "id") (txt (ruleid (rr_info (fst rq)))); E (lit "q") (snd rq); E (lit "n") n])).

Lemma search_norm als' sr : search K als' refs = Ok sr ->
  exists entries, mapM (entryf als') (ref_queries K refs) = Ok entries /\
                  norm_kid (first_id r) sr = E (lit "SM") entries.
Proof.
  assert (Hmulti : search_multi K als' refs = Ok sr ->
          exists entries, mapM (entryf als') (ref_queries K refs) = Ok entries /\
                          norm_kid (first_id r) sr = E (lit "SM") entries).
  { unfold search_multi. intros H. apply obind_ok in H. destruct H as [l [Hl H]]. inversion H; subst.
    exists l. split; [exact Hl|reflexivity]. }
  unfold search. fold refs.
  destruct refs as [|r1 [|r2 rest]] eqn:Er; auto.
  destruct (embed K (rr_info r1)) as [|q [|q2 qs]] eqn:Eq; auto.
  destruct (k_single K); auto.
  intros H. apply obind_ok in H. destruct H as [n [Hn H]]. inversion H; subst; clear H.
  exists [E (lit "r") [E (lit "id") (txt (ruleid (rr_info r1))); E (lit "q") q; E (lit "n") n]].
  split.
  - unfold ref_queries. cbn [flat_map]. rewrite Eq. cbn [map app mapM]. unfold entryf at 1. cbn [fst snd].
    rewrite Hn. reflexivity.
  - unfold first_id. fold refs. rewrite Er. reflexivity.
Qed.

Lemma normalize_txt id s : normalize id (txt s) = txt s.
Proof. destruct s; reflexivity. Qed.

Theorem elements t : convc K P r = Ok t -> expected K P r = Ok (normalize (first_id r) t).
Proof.
  unfold convc, expected. fold refs. fold cats.
  destruct (parse_ts (r_ts r)) as [ts|]; [|discriminate].
  intros H. apply obind_ok in H. destruct H as [st [Hst H]].
  apply run_pipeline_spec in Hst. cbn [ps_fields ps_aliases ps_gb ps_cf] in Hst.
  destruct Hst as [HF [HA [HG HC]]].
  apply obind_ok in H. destruct H as [sr [Hsr H]].
  apply obind_ok in H. destruct H as [ag [Hag H]].
  inversion H; subst t; clear H.
  destruct (alias_check _ HA) as [v Hv]. rewrite Hv. cbn [obind].
  destruct (search_norm _ _ Hsr) as [entries [Hent Hnk]].
  rewrite pairs_eq.
  assert (Hent' : mapM (fun rq : rref * list node =>
                   obind (exp_norm K P (r_aliases r) (fst rq))
                         (fun n => Ok (E (lit "r") [E (lit "id") (txt (ruleid (rr_info (fst rq))));
                                                    E (lit "q") (snd rq); E (lit "n") n])))
                (ref_queries K refs) = Ok entries).
  { rewrite <- Hent. apply mapM_ext_in. intros rq Hrq. unfold entryf.
    rewrite (norm_eq _ (fst rq) (pairs_in rq Hrq) HA). reflexivity. }
  rewrite Hent'. cbn [obind].
  assert (Hcf : (match the_cond r with CBasic _ _ f _ => exp_fieldref P cats f | CExt _ => Ok FNone end) = Ok (ps_cf st)).
  { destruct (the_cond r) as [o cnt f pct|tx].
    - apply fieldref_eq. exact HC.
    - simpl in HC. destruct (ps_cf st); first [reflexivity | tauto]. }
  rewrite Hcf. cbn [obind].
  unfold aggregate in Hag.
  assert (Hpct : (match r_type r, the_cond r with
                  | TValuePercentile, CBasic _ _ _ None => SigmaErr E_Conversion
                  | _, _ => Ok tt end) = Ok tt).
  { destruct (r_type r), (the_cond r) as [o cnt f [p|]|tx]; try reflexivity. discriminate Hag. }
  rewrite Hpct. cbn [obind].
  assert (Hag' : ag = E (lit "A." ++ ctag (r_type r) (is_ext (the_cond r)))
          [E (lit "ts") (txt (render_ts (k_ts K) (r_ts r) ts));
           E (lit "fld") (txt (match the_cond r with CBasic _ _ _ _ => field_text (ps_cf st) | CExt _ => [] end));
           E (lit "pct") (txt (match the_cond r with CBasic _ _ _ (Some p) => dec_of_Z p | _ => [] end));
           E (lit "rr") (rids refs);
           E (lit "fs") (fields_nodes K (ps_gb st)
                           (flat_map (fun rf => ref_fields P (ri_cats (rr_info rf)) (ri_fields (rr_info rf))) refs ++ ps_fields st));
           E (lit "g") (groupby_nodes K (ps_gb st))]).
  { destruct (r_type r), (the_cond r) as [o cnt f [p|]|tx]; try (inversion Hag; reflexivity); discriminate Hag. }
  clear Hag Hpct. subst ag.
  f_equal.
  unfold normalize. rewrite !map_app. fold (normalize (first_id r) (txt (fin_pre K))). fold (normalize (first_id r) (txt (fin_suf K))).
  rewrite !normalize_txt. f_equal. f_equal. cbn [map]. f_equal. f_equal.
  rewrite !map_app. cbn [map]. rewrite Hnk.
  rewrite HG, HF.
  replace (flat_map (fun rf => ref_fields P (ri_cats (rr_info rf)) (ri_fields (rr_info rf))) refs)
    with (flat_map (fun rf => flat_map (renl P (ri_cats (rr_info rf))) (ri_fields (rr_info rf))) refs)
    by (apply flat_map_ext_in; intros; symmetry; apply ref_fields_spec).
  cbn [app]. f_equal.
  assert (Hty : map (norm_kid (first_id r)) (typing K refs) =
                (if k_typing K
                 then [E (lit "TY") (map (fun rq : rref * list node =>
                                            E (lit "t") [E (lit "id") (txt (ruleid (rr_info (fst rq)))); E (lit "q") (snd rq)])
                                         (ref_queries K refs))]
                 else [])).
  { unfold typing. destruct (k_typing K); reflexivity. }
  rewrite Hty. f_equal.
  unfold condition.
  destruct (the_cond r) as [o cnt f pct|tx]; reflexivity.
Qed.
End Elements.

(* ================================================================================================ *)
(* the converter's tree is well formed, hence read back exactly (Proofs/BTreeP.v read_show) *)
Lemma clean_app a b : clean (a ++ b) = clean a && clean b.
Proof. unfold clean. rewrite existsb_app. rewrite negb_orb. reflexivity. Qed.

Definition elems_ok (l : list node) : bool := forallb (fun n => negb (is_text n) && wfn n) l.

Lemma wfl_elems l : elems_ok l = true -> wfl l = true.
Proof.
  induction l as [|x r IH]; intros H; [reflexivity|].
  simpl in H. apply andb_true_iff in H. destruct H as [Hx Hr]. apply andb_true_iff in Hx. destruct Hx as [Ht Hw].
  rewrite wfl_cons. rewrite Hw, (IH Hr). apply negb_true_iff in Ht. rewrite Ht. reflexivity.
Qed.
Lemma elems_ok_app a b : elems_ok (a ++ b) = elems_ok a && elems_ok b.
Proof. apply forallb_app. Qed.
Lemma wfl_txt s : clean s = true -> wfl (txt s) = true.
Proof. destruct s as [|c s]; intros H; [reflexivity|]. cbn [txt wfl wfn]. rewrite H. reflexivity. Qed.
Lemma ok_leaf tag s : clean_tag tag = true -> clean s = true -> negb (is_text (E tag (txt s))) && wfn (E tag (txt s)) = true.
Proof. intros Ht Hs. rewrite wfn_E, Ht, (wfl_txt s Hs). reflexivity. Qed.
Lemma ok_box tag kids : clean_tag tag = true -> wfl kids = true -> negb (is_text (E tag kids)) && wfn (E tag kids) = true.
Proof. intros Ht Hs. rewrite wfn_E, Ht, Hs. reflexivity. Qed.
Lemma elems_ok_map {A} (f : A -> node) l : (forall x, In x l -> negb (is_text (f x)) && wfn (f x) = true) -> elems_ok (map f l) = true.
Proof. intros H. unfold elems_ok. apply forallb_forall. intros n Hn. apply in_map_iff in Hn. destruct Hn as [x [<- Hx]]. auto. Qed.

Lemma dec_clean z : clean (dec_of_Z z) = true.
Proof.
  assert (H : forall u, clean (str_of_uint u) = true) by (induction u; simpl; auto).
  unfold dec_of_Z. destruct (Z.to_int z); [apply H|]. rewrite clean_cons. rewrite H. reflexivity.
Qed.
Lemma quote_clean f : clean f = true -> clean (quote_field f) = true.
Proof.
  intros H. unfold quote_field. destruct f as [|c f]; [reflexivity|].
  destruct (forallb is_word (c :: f)); [exact H|].
  change (39 :: (c :: f) ++ [39]) with ([39] ++ (c :: f) ++ [39]). rewrite !clean_app, H. reflexivity.
Qed.
Lemma join_clean sep l : clean sep = true -> forallb clean l = true -> clean (join_str sep l) = true.
Proof.
  intros Hs. induction l as [|x r IH]; intros H; [reflexivity|].
  simpl in H. apply andb_true_iff in H. destruct H as [Hx Hr].
  destruct r as [|y r']; [simpl; exact Hx|].
  change (join_str sep (x :: y :: r')) with (x ++ sep ++ join_str sep (y :: r')).
  rewrite !clean_app, Hx, Hs, (IH Hr). reflexivity.
Qed.
Lemma field_text_clean f : clean_fieldref f = true -> clean (field_text f) = true.
Proof.
  destruct f as [|x|l]; simpl; intros H; auto.
  change (91 :: join_str (lit ", ") (map (fun x => 39 :: x ++ [39]) l) ++ [93])
    with ([91] ++ join_str (lit ", ") (map (fun x => 39 :: x ++ [39]) l) ++ [93]).
  rewrite !clean_app. rewrite join_clean; [reflexivity|reflexivity|].
  apply forallb_forall. intros y Hy. apply in_map_iff in Hy. destruct Hy as [x [<- Hx]].
  rewrite forallb_forall in H. change (39 :: x ++ [39]) with ([39] ++ x ++ [39]). rewrite !clean_app, (H x Hx). reflexivity.
Qed.
Lemma render_ts_clean m spec t : clean spec = true -> clean (render_ts m spec t) = true.
Proof.
  intros H. destruct m; cbn [render_ts]; auto using dec_clean.
  unfold ts_map. repeat match goal with |- context [if ?b then _ else _] => destruct b end; auto;
    rewrite clean_app, dec_clean; reflexivity.
Qed.

(* renaming keeps names bracket-free *)
Lemma assoc_in {A} k (l : list (str * A)) v : assoc k l = Some v -> exists k', In (k', v) l.
Proof.
  induction l as [|[k' v'] r IH]; simpl; [discriminate|].
  destruct (str_eqb k k'); intros H.
  - inversion H; subst. eexists. left. reflexivity.
  - destruct (IH H) as [k2 Hk]. eexists. right. exact Hk.
Qed.
Lemma apply_name_clean f x y : clean_fmap f = true -> clean x = true -> In y (apply_name f x) -> clean y = true.
Proof.
  destruct f as [l|p|s]; simpl; intros Hf Hx Hy.
  - destruct (assoc x l) as [ys|] eqn:Ea.
    + apply assoc_in in Ea. destruct Ea as [k' Hin].
      rewrite forallb_forall in Hf. specialize (Hf _ Hin). simpl in Hf. rewrite forallb_forall in Hf. auto.
    + destruct Hy as [<-|[]]. exact Hx.
  - destruct Hy as [<-|[]]. rewrite clean_app, Hf, Hx. reflexivity.
  - destruct Hy as [<-|[]]. rewrite clean_app, Hf, Hx. reflexivity.
Qed.
Section CleanP.
Variable P : list pitem.
Hypothesis HP : forallb (fun it => clean_fmap (pi_f it)) P = true.
Lemma renl_clean cats : forall x y, clean x = true -> In y (renl P cats x) -> clean y = true.
Proof.
  induction P as [|it P' IH]; intros x y Hx Hy.
  - destruct Hy as [<-|[]]. exact Hx.
  - simpl in HP. apply andb_true_iff in HP. destruct HP as [Hit HP'].
    cbn [renl] in Hy. destruct (matches it cats).
    + apply in_flat_map in Hy. destruct Hy as [z [Hz Hy]].
      eapply (IH HP' z y); [|exact Hy]. eapply apply_name_clean; eauto.
    + eapply IH; eauto.
Qed.
Lemma reng_clean cats als : forall x y, clean x = true -> In y (reng P cats als x) -> clean y = true.
Proof.
  induction P as [|it P' IH]; intros x y Hx Hy.
  - destruct Hy as [<-|[]]. exact Hx.
  - simpl in HP. apply andb_true_iff in HP. destruct HP as [Hit HP'].
    cbn [reng] in Hy. destruct (matches it cats).
    + apply in_flat_map in Hy. destruct Hy as [z [Hz Hy]].
      eapply (IH HP' z y); [|exact Hy].
      destruct (mem_str x als); [destruct Hz as [<-|[]]; exact Hx|]. eapply apply_name_clean; eauto.
    + eapply IH; eauto.
Qed.
Lemma single_in l y : single l = Ok y -> In y l.
Proof. destruct l as [|a [|b r]]; simpl; intros H; inversion H; subst. left. reflexivity. Qed.
Lemma ren1_clean cats : forall x y, clean x = true -> ren1 P cats x = Ok y -> clean y = true.
Proof.
  induction P as [|it P' IH]; intros x y Hx Hy.
  - inversion Hy; subst. exact Hx.
  - simpl in HP. apply andb_true_iff in HP. destruct HP as [Hit HP'].
    cbn [ren1] in Hy. destruct (matches it cats).
    + apply obind_ok in Hy. destruct Hy as [z [Hz Hy]]. apply single_in in Hz.
      eapply (IH HP' z y); [|exact Hy]. eapply apply_name_clean; eauto.
    + eapply IH; eauto.
Qed.
End CleanP.

Lemma wfl_merge l :
  (forall n, In n l -> match n with T s => clean s = true | E _ _ => wfn n = true end) -> wfl (merge l) = true.
Proof.
  induction l as [|x r IH]; intros H; [reflexivity|].
  assert (IHr : wfl (merge r) = true) by (apply IH; intros n Hn; apply H; right; exact Hn).
  specialize (H x (or_introl eq_refl)).
  destruct x as [s|tag kids]; cbn [merge].
  - destruct (merge r) as [|y m] eqn:Em.
    + destruct s; [reflexivity|]. cbn [wfl wfn]. rewrite H. reflexivity.
    + destruct y as [s'|tag' kids'].
      * rewrite wfl_cons in IHr. apply andb_true_iff in IHr. destruct IHr as [H1 Hm].
        apply andb_true_iff in H1. destruct H1 as [Hw Hadj]. cbn [wfn] in Hw.
        apply andb_true_iff in Hw. destruct Hw as [Hne Hcl].
        rewrite wfl_cons. cbn [wfn is_text]. rewrite clean_app, H, Hcl, Hm.
        cbn [is_text] in Hadj. rewrite Hadj.
        destruct s'; [discriminate Hne|]. destruct s; reflexivity.
      * destruct s; [exact IHr|]. rewrite wfl_cons. cbn [wfn is_text]. rewrite H, IHr. reflexivity.
  - rewrite wfl_cons. rewrite H, IHr. reflexivity.
Qed.

Lemma ctag_clean pre ty ext : clean_tag pre = true -> clean_tag (pre ++ ctag ty ext) = true.
Proof.
  intros H. unfold clean_tag in *. rewrite existsb_app, negb_orb, H. destruct ty, ext; reflexivity.
Qed.

Lemma search_cases K als rl sr : search K als rl = Ok sr ->
  search_multi K als rl = Ok sr \/
  (exists r1 q n, rl = [r1] /\ embed K (rr_info r1) = [q] /\ norm_nodes K als r1 = Ok n /\
                  sr = E (lit "S1") [E (lit "q") q; E (lit "n") n]).
Proof.
  unfold search.
  destruct rl as [|r1 [|r2 rest]]; auto.
  destruct (embed K (rr_info r1)) as [|q [|q2 qs]] eqn:Eq; auto.
  destruct (k_single K); auto.
  intros H. apply obind_ok in H. destruct H as [n [Hn H]]. inversion H; subst; clear H.
  right. exists r1, q, n. auto.
Qed.

Section WF.
Variables (K : kcfg) (P : list pitem) (r : crule) (st : pstate) (tstext : str).
Let refs := referenced r.
Hypothesis Hrefs : forall rf, In rf refs -> clean_info (rr_info rf) = true.
Hypothesis Hgb : forallb clean (match ps_gb st with Some g => g | None => [] end) = true.
Hypothesis Hfs : forallb clean (ps_fields st) = true.
Hypothesis Hals : forallb (fun am : str * list (str * nat * str) =>
                             clean (fst am) && forallb (fun e : str * nat * str => clean (snd e)) (snd am)) (ps_aliases st) = true.
Hypothesis Hcf : clean_fieldref (ps_cf st) = true.
Hypothesis Hts : clean tstext = true.
Hypothesis Hx : forallb (fun rf => clean (rr_ref rf)) (r_xrefs r) = true.
Hypothesis HP : forallb (fun it => clean_fmap (pi_f it)) P = true.

Lemma info_parts rf : In rf refs ->
  forallb wfl (ri_raw (rr_info rf)) = true /\ forallb wfl (ri_fin (rr_info rf)) = true /\
  clean (ruleid (rr_info rf)) = true /\ forallb clean (ri_fields (rr_info rf)) = true.
Proof.
  intros H. pose proof (Hrefs rf H) as G. unfold clean_info in G.
  apply andb_true_iff in G. destruct G as [G G4].
  apply andb_true_iff in G. destruct G as [G G3].
  apply andb_true_iff in G. destruct G as [G1 G2]. auto.
Qed.

Lemma embed_wfl rf q : In rf refs -> In q (embed K (rr_info rf)) -> wfl q = true.
Proof.
  intros Hrf Hq. destruct (info_parts rf Hrf) as [H1 [H2 _]]. unfold embed in Hq.
  destruct (k_finalize K); [rewrite forallb_forall in H2; auto | rewrite forallb_forall in H1; auto].
Qed.

Lemma pairs_parts rq : In rq (ref_queries K refs) -> In (fst rq) refs /\ wfl (snd rq) = true.
Proof.
  unfold ref_queries. intros H. apply in_flat_map in H. destruct H as [rf [Hrf H]].
  apply in_map_iff in H. destruct H as [q [<- Hq]]. split; [exact Hrf|]. eapply embed_wfl; eauto.
Qed.

Lemma norm_wf rf n : norm_nodes K (ps_aliases st) rf = Ok n -> wfl n = true.
Proof.
  unfold norm_nodes.
  assert (G : forall als : list (str * list (str * nat * str)),
            forallb (fun am : str * list (str * nat * str) =>
                       clean (fst am) && forallb (fun e : str * nat * str => clean (snd e)) (snd am)) als = true ->
            wfl (flat_map (fun am : str * list (str * nat * str) =>
                    flat_map (fun e : str * nat * str =>
                                if str_eqb (fst (fst e)) (rr_ref rf)
                                then [E (lit "a") [E (lit "al") (txt (fst am)); E (lit "f") (txt (snd e))]]
                                else [])
                             (snd am)) als) = true).
  { intros als Hc. apply wfl_elems. unfold elems_ok. apply forallb_forall. intros nd Hnd.
    apply in_flat_map in Hnd. destruct Hnd as [am [Ham Hnd]].
    apply in_flat_map in Hnd. destruct Hnd as [e [He Hnd]].
    destruct (str_eqb (fst (fst e)) (rr_ref rf)); [|destruct Hnd].
    destruct Hnd as [<-|[]].
    rewrite forallb_forall in Hc. specialize (Hc am Ham). apply andb_true_iff in Hc. destruct Hc as [Ha He'].
    rewrite forallb_forall in He'. specialize (He' e He).
    apply ok_box; [reflexivity|]. apply wfl_elems. cbn [elems_ok forallb].
    rewrite (ok_leaf (lit "al") (fst am) eq_refl Ha), (ok_leaf (lit "f") (snd e) eq_refl He'). reflexivity. }
  pose proof (G _ Hals) as G'.
  destruct (ps_aliases st) as [|am0 l0]; [intros H; inversion H; reflexivity|].
  destruct (negb (k_norm K)); [discriminate|]. intros H. inversion H; subst; clear H. exact G'.
Qed.

Lemma entry_ok rq n : In rq (ref_queries K refs) -> norm_nodes K (ps_aliases st) (fst rq) = Ok n ->
  negb (is_text (E (lit "r") [E (lit "id") (txt (ruleid (rr_info (fst rq)))); E (lit "q") (snd rq); E (lit "n") n]))
  && wfn (E (lit "r") [E (lit "id") (txt (ruleid (rr_info (fst rq)))); E (lit "q") (snd rq); E (lit "n") n]) = true.
Proof.
  intros Hrq Hn. destruct (pairs_parts rq Hrq) as [Hrf Hq]. destruct (info_parts _ Hrf) as [_ [_ [Hid _]]].
  apply ok_box; [reflexivity|]. apply wfl_elems. cbn [elems_ok forallb].
  rewrite (ok_leaf (lit "id") _ eq_refl Hid), (ok_box (lit "q") _ eq_refl Hq), (ok_box (lit "n") _ eq_refl (norm_wf _ _ Hn)).
  reflexivity.
Qed.

Lemma search_ok sr : search K (ps_aliases st) refs = Ok sr -> negb (is_text sr) && wfn sr = true.
Proof.
  assert (Hmulti : search_multi K (ps_aliases st) refs = Ok sr -> negb (is_text sr) && wfn sr = true).
  { unfold search_multi. intros H. apply obind_ok in H. destruct H as [l [Hl H]]. inversion H; subst; clear H.
    apply ok_box; [reflexivity|]. apply wfl_elems. apply mapM_ok in Hl.
    unfold elems_ok. apply forallb_forall. intros nd Hnd.
    assert (G : forall l1 l2, Forall2 (fun (x : rref * list node) (y : node) =>
                  obind (norm_nodes K (ps_aliases st) (fst x))
                    (fun n => Ok (E (lit "r") [E (lit "id") (txt (ruleid (rr_info (fst x)))); E (lit "q") (snd x); E (lit "n") n])) = Ok y) l1 l2 ->
                (forall x, In x l1 -> In x (ref_queries K refs)) -> In nd l2 -> negb (is_text nd) && wfn nd = true).
    { induction 1 as [|x y l1 l2 Hxy _ IH]; intros Hin Hnd'; [destruct Hnd'|].
      destruct Hnd' as [<-|Hnd'].
      - apply obind_ok in Hxy. destruct Hxy as [n [Hn Hy]]. inversion Hy; subst.
        apply entry_ok; [apply Hin; left; reflexivity | exact Hn].
      - apply IH; auto. intros z Hz. apply Hin. right. exact Hz. }
    eapply G; eauto. }
  intros H. destruct (search_cases _ _ _ _ H) as [Hm | (r1 & q & n & Er & Eq & Hn & ->)]; [auto|].
  assert (Hr1 : In r1 refs) by (rewrite Er; left; reflexivity).
  assert (Hq : wfl q = true) by (apply (embed_wfl r1 q Hr1); rewrite Eq; left; reflexivity).
  apply ok_box; [reflexivity|]. apply wfl_elems. cbn [elems_ok forallb].
  rewrite (ok_box (lit "q") _ eq_refl Hq), (ok_box (lit "n") _ eq_refl (norm_wf _ _ Hn)). reflexivity.
Qed.

Lemma typing_ok : elems_ok (typing K refs) = true.
Proof.
  unfold typing. destruct (k_typing K); [|reflexivity]. cbn [elems_ok forallb]. rewrite andb_true_r.
  apply ok_box; [reflexivity|]. apply wfl_elems. apply elems_ok_map. intros rq Hrq.
  destruct (pairs_parts rq Hrq) as [Hrf Hq]. destruct (info_parts _ Hrf) as [_ [_ [Hid _]]].
  apply ok_box; [reflexivity|]. apply wfl_elems. cbn [elems_ok forallb].
  rewrite (ok_leaf (lit "id") _ eq_refl Hid), (ok_box (lit "q") _ eq_refl Hq). reflexivity.
Qed.

Lemma rids_ok : elems_ok (rids refs) = true.
Proof.
  unfold rids. apply elems_ok_map. intros rf Hrf. destruct (info_parts _ Hrf) as [_ [_ [Hid _]]].
  apply ok_leaf; [reflexivity|exact Hid].
Qed.

Lemma groupby_ok : elems_ok (groupby_nodes K (ps_gb st)) = true.
Proof.
  unfold groupby_nodes. destruct (ps_gb st) as [g|].
  - cbn [elems_ok forallb]. rewrite andb_true_r. apply ok_box; [reflexivity|]. apply wfl_elems.
    apply elems_ok_map. intros f Hf. apply ok_leaf; [reflexivity|]. apply quote_clean.
    rewrite forallb_forall in Hgb. auto.
  - destruct (k_nofield K); reflexivity.
Qed.

Lemma fields_ok fs : forallb clean fs = true -> elems_ok (fields_nodes K (ps_gb st) fs) = true.
Proof.
  intros Hc. unfold fields_nodes. destruct (k_fields K); [|reflexivity].
  assert (Hall : forall f, In f (all_fields (ps_gb st) fs) -> clean f = true).
  { unfold all_fields. intros f Hf.
    assert (G : forall seen l, (forall x, In x l -> clean x = true) -> forall x, In x (uniq_acc seen l) -> clean x = true).
    { intros seen l. revert seen. induction l as [|a l' IH]; intros seen Hl x Hxin; [destruct Hxin|].
      cbn [uniq_acc] in Hxin. destruct (mem_str a seen).
      - eapply IH; eauto. intros; apply Hl; right; assumption.
      - destruct Hxin as [<-|Hxin]; [apply Hl; left; reflexivity|]. eapply IH; eauto. intros; apply Hl; right; assumption. }
    eapply G; [|exact Hf]. intros x Hxin. apply filter_In in Hxin. destruct Hxin as [Hxin _].
    rewrite forallb_forall in Hc. auto. }
  destruct (all_fields (ps_gb st) fs) as [|a l] eqn:Ea; [reflexivity|]. rewrite <- Ea in *.
  cbn [elems_ok forallb]. rewrite andb_true_r. apply ok_box; [reflexivity|]. apply wfl_elems.
  apply elems_ok_map. intros f Hf. apply ok_leaf; [reflexivity|]. apply quote_clean. auto.
Qed.

Lemma reffields_clean :
  forallb clean (flat_map (fun rf => ref_fields P (ri_cats (rr_info rf)) (ri_fields (rr_info rf))) refs ++ ps_fields st) = true.
Proof.
  rewrite forallb_app, Hfs, andb_true_r. apply forallb_forall. intros y Hy.
  apply in_flat_map in Hy. destruct Hy as [rf [Hrf Hy]]. rewrite ref_fields_spec in Hy.
  apply in_flat_map in Hy. destruct Hy as [x [Hxin Hy]].
  destruct (info_parts _ Hrf) as [_ [_ [_ Hf]]]. rewrite forallb_forall in Hf.
  apply (renl_clean P HP (ri_cats (rr_info rf)) x y); [apply Hf; exact Hxin | exact Hy].
Qed.

Lemma aggregate_ok c ag : aggregate K P r st c refs tstext = Ok ag -> negb (is_text ag) && wfn ag = true.
Proof.
  unfold aggregate. intros H.
  assert (G : negb (is_text (E (lit "A." ++ ctag (r_type r) (is_ext c))
          [E (lit "ts") (txt tstext);
           E (lit "fld") (txt (match c with CBasic _ _ _ _ => field_text (ps_cf st) | CExt _ => [] end));
           E (lit "pct") (txt (match c with CBasic _ _ _ (Some p) => dec_of_Z p | _ => [] end));
           E (lit "rr") (rids refs);
           E (lit "fs") (fields_nodes K (ps_gb st) (flat_map (fun rf => ref_fields P (ri_cats (rr_info rf)) (ri_fields (rr_info rf))) refs ++ ps_fields st));
           E (lit "g") (groupby_nodes K (ps_gb st))]))
        && wfn (E (lit "A." ++ ctag (r_type r) (is_ext c))
          [E (lit "ts") (txt tstext);
           E (lit "fld") (txt (match c with CBasic _ _ _ _ => field_text (ps_cf st) | CExt _ => [] end));
           E (lit "pct") (txt (match c with CBasic _ _ _ (Some p) => dec_of_Z p | _ => [] end));
           E (lit "rr") (rids refs);
           E (lit "fs") (fields_nodes K (ps_gb st) (flat_map (fun rf => ref_fields P (ri_cats (rr_info rf)) (ri_fields (rr_info rf))) refs ++ ps_fields st));
           E (lit "g") (groupby_nodes K (ps_gb st))]) = true).
  { apply ok_box; [apply ctag_clean; reflexivity|]. apply wfl_elems. cbn [elems_ok forallb].
    rewrite (ok_leaf (lit "ts") _ eq_refl Hts).
    rewrite (ok_leaf (lit "fld")); [|reflexivity|destruct c; [apply field_text_clean; exact Hcf|reflexivity]].
    rewrite (ok_leaf (lit "pct")); [|reflexivity|destruct c as [? ? ? [p|]|]; [apply dec_clean|reflexivity|reflexivity]].
    rewrite (ok_box (lit "rr") _ eq_refl (wfl_elems _ rids_ok)).
    rewrite (ok_box (lit "fs") _ eq_refl (wfl_elems _ (fields_ok _ reffields_clean))).
    rewrite (ok_box (lit "g") _ eq_refl (wfl_elems _ groupby_ok)). reflexivity. }
  destruct (r_type r), c as [o cnt f [p|]|tx]; try (inversion H; subst; exact G); discriminate H.
Qed.

Lemma xnodes_wf t : wfl (xnodes (k_cfg K) (r_xrefs r) t) = true.
Proof.
  unfold xnodes. apply wfl_merge. intros n Hn. apply in_map_iff in Hn. destruct Hn as [tk [<- _]].
  destruct tk as [a ng | d f l | o | | ]; try destruct o; try reflexivity.
  cbn [tok_node]. rewrite wfn_E. apply andb_true_iff. split; [reflexivity|]. apply wfl_txt.
  rewrite forallb_forall in Hx.
  destruct (nth_in_or_default a (r_xrefs r) no_ref) as [Hin | Hd]; [apply Hx; exact Hin|rewrite Hd; reflexivity].
Qed.

Lemma condition_ok c : negb (is_text (condition K r st c refs)) && wfn (condition K r st c refs) = true.
Proof.
  unfold condition. destruct c as [o cnt f pct|tx].
  - apply ok_box; [apply ctag_clean; reflexivity|]. apply wfl_elems. cbn [elems_ok forallb].
    rewrite (ok_leaf (lit "op")); [|reflexivity|destruct o; reflexivity].
    rewrite (ok_leaf (lit "cnt") _ eq_refl (dec_clean cnt)).
    rewrite (ok_leaf (lit "fld") _ eq_refl (field_text_clean _ Hcf)).
    rewrite (ok_box (lit "rr") _ eq_refl (wfl_elems _ rids_ok)). reflexivity.
  - apply ok_box; [apply ctag_clean; reflexivity|]. apply wfl_elems. cbn [elems_ok forallb].
    rewrite (ok_box (lit "x") _ eq_refl (xnodes_wf tx)).
    rewrite (ok_box (lit "rr") _ eq_refl (wfl_elems _ rids_ok)). reflexivity.
Qed.
End WF.

Lemma wfl_frame pre suf n : clean pre = true -> clean suf = true -> negb (is_text n) && wfn n = true ->
  wfl (txt pre ++ [n] ++ txt suf) = true.
Proof.
  intros Hp Hs Hn. apply andb_true_iff in Hn. destruct Hn as [Ht Hw]. apply negb_true_iff in Ht.
  destruct pre as [|c p], suf as [|d s]; cbn [txt app wfl wfn is_text]; rewrite ?Hp, ?Hs, ?Hw, ?Ht; reflexivity.
Qed.

Lemma dom_parts K P r : dom K P r = true ->
  clean_rule r = true /\ forallb (fun it => clean_fmap (pi_f it)) P = true /\ sdom K P r = true.
Proof.
  unfold dom. intros H. apply andb_true_iff in H. destruct H as [H H3].
  apply andb_true_iff in H. destruct H as [H1 H2]. auto.
Qed.

Theorem convc_wf K P r t : clean_rule r = true -> forallb (fun it => clean_fmap (pi_f it)) P = true ->
  convc K P r = Ok t -> wfl t = true.
Proof.
  intros Hc HP. unfold convc.
  destruct (parse_ts (r_ts r)) as [ts|]; [|discriminate].
  intros H. apply obind_ok in H. destruct H as [st [Hst H]].
  apply run_pipeline_spec in Hst. cbn [ps_fields ps_aliases ps_gb ps_cf] in Hst.
  destruct Hst as [HF [HA [HG HC]]].
  apply obind_ok in H. destruct H as [sr [Hsr H]].
  apply obind_ok in H. destruct H as [ag [Hag H]].
  inversion H; subst t; clear H.
  unfold clean_rule in Hc.
  apply andb_true_iff in Hc. destruct Hc as [Hc C7].
  apply andb_true_iff in Hc. destruct Hc as [Hc C6].
  apply andb_true_iff in Hc. destruct Hc as [Hc C5].
  apply andb_true_iff in Hc. destruct Hc as [Hc C4].
  apply andb_true_iff in Hc. destruct Hc as [Hc C3].
  apply andb_true_iff in Hc. destruct Hc as [C1 C2].
  set (cats := flat_map (fun rf => ri_cats (rr_info rf)) (referenced r)) in *.
  assert (Hrefs : forall rf, In rf (referenced r) -> clean_info (rr_info rf) = true)
    by (rewrite forallb_forall in C6; exact C6).
  assert (Hgb : forallb clean (match ps_gb st with Some g => g | None => [] end) = true).
  { rewrite HG. destruct (r_gb r) as [g|]; [|reflexivity]. cbn [option_map].
    apply forallb_forall. intros y Hy. apply in_flat_map in Hy. destruct Hy as [x [Hx Hy]].
    rewrite forallb_forall in C2.
    exact (reng_clean P HP cats _ x y (C2 x Hx) Hy). }
  assert (Hfs : forallb clean (ps_fields st) = true).
  { rewrite HF. apply forallb_forall. intros y Hy. apply in_flat_map in Hy. destruct Hy as [x [Hx Hy]].
    rewrite forallb_forall in C4. exact (renl_clean P HP cats x y (C4 x Hx) Hy). }
  assert (Hals : forallb (fun am : str * list (str * nat * str) =>
                            clean (fst am) && forallb (fun e : str * nat * str => clean (snd e)) (snd am)) (ps_aliases st) = true).
  { clear -HA C3 HP. induction HA as [|am am' l l' [Hn He] _ IH]; [reflexivity|].
    cbn [forallb] in *. apply andb_true_iff in C3. destruct C3 as [Ca Cl].
    apply andb_true_iff in Ca. destruct Ca as [Ca1 Ca2].
    rewrite (IH Cl), andb_true_r. rewrite <- Hn, Ca1. cbn [andb].
    clear -He Ca2 HP. induction He as [|e e' q q' [_ Hr] _ IH]; [reflexivity|].
    cbn [forallb] in *. apply andb_true_iff in Ca2. destruct Ca2 as [Ce Cq].
    rewrite (IH Cq), andb_true_r. exact (ren1_clean P HP cats _ _ Ce Hr). }
  assert (Hcf : clean_fieldref (ps_cf st) = true).
  { destruct (the_cond r) as [o cnt f pct|tx]; cbn [ps_cf] in HC.
    - destruct f as [|x|l], (ps_cf st) as [|y|l']; simpl in *; try tauto.
      + exact (ren1_clean P HP cats _ _ C5 HC).
      + clear -HC C5 HP. induction HC as [|x y l l' Hxy _ IH]; [reflexivity|].
        cbn [forallb] in *. apply andb_true_iff in C5. destruct C5 as [Cx Cl].
        rewrite (IH Cl), andb_true_r. exact (ren1_clean P HP cats _ _ Cx Hxy).
    - simpl in HC. destruct (ps_cf st); first [reflexivity | tauto]. }
  assert (Hts : clean (render_ts (k_ts K) (r_ts r) ts) = true) by (apply render_ts_clean; exact C1).
  match goal with |- wfl (_ ++ [?n; _]) = true =>
    change (wfl (txt (fin_pre K) ++ [n] ++ txt (fin_suf K)) = true) end.
  apply wfl_frame.
  - unfold fin_pre. destruct (k_post K); reflexivity.
  - unfold fin_suf. destruct (k_post K); reflexivity.
  - apply ok_box.
    + destruct (k_own_frame K); [apply (ctag_clean (lit "Q.")); reflexivity|reflexivity].
    + apply wfl_elems. unfold elems_ok. cbn [forallb]. rewrite forallb_app. cbn [forallb].
      rewrite (search_ok K r st Hrefs Hals sr Hsr).
      pose proof (typing_ok K r Hrefs) as Hty. unfold elems_ok in Hty. rewrite Hty.
      rewrite (ok_leaf (lit "ts") _ eq_refl Hts).
      rewrite (aggregate_ok K P r st _ Hrefs Hgb Hfs Hcf Hts HP _ _ Hag).
      rewrite (condition_ok K r st Hrefs Hcf C7 (the_cond r)).
      rewrite (ok_box (lit "g") _ eq_refl (wfl_elems _ (groupby_ok K st Hgb))). reflexivity.
Qed.

(* C10_readback: the query text the converter emits reads back as a bracket tree which, with the
   single-rule search form rewritten into the multi-rule form and the text of an extended condition
   set aside, is exactly the tree the specification demands *)
Theorem readback K P r t : dom K P r = true -> convc K P r = Ok t ->
  exists t', readc (showc t) = Some t' /\ expected K P r = Ok (normalize (first_id r) t').
Proof.
  intros Hd Hc. destruct (dom_parts K P r Hd) as [H1 [H2 H3]].
  exists t. split.
  - apply read_show. eapply convc_wf; eauto.
  - apply elements; assumption.
Qed.

(* ================================================================================================ *)
(* C10_mapping_consistent: the new name of an alias target (and of the condition field) in the
   correlation query is the name the pipeline gives that very field in the referenced rule itself *)
Lemma single_eq l y : single l = Ok y -> l = [y].
Proof. destruct l as [|a [|b q]]; simpl; intros H; inversion H; reflexivity. Qed.
Lemma ren1_renl P c : forall x y, ren1 P c x = Ok y -> renl P c x = [y].
Proof.
  induction P as [|it P IH]; intros x y H; cbn [ren1 renl] in *.
  - inversion H. reflexivity.
  - destruct (matches it c); [|auto].
    apply obind_ok in H. destruct H as [z [Hz H]]. rewrite (single_eq _ _ Hz). cbn [flat_map].
    rewrite (IH _ _ H). reflexivity.
Qed.

Lemma Forall2_impl' {A B} (R1 R2 : A -> B -> Prop) l l' : (forall a b, R1 a b -> R2 a b) -> Forall2 R1 l l' -> Forall2 R2 l l'.
Proof. intros H. induction 1; constructor; auto. Qed.

Theorem mapping_consistent K P r st :
  sdom K P r = true ->
  run_pipeline P (flat_map (fun rf => ri_cats (rr_info rf)) (referenced r))
    {| ps_fields := r_fields r; ps_aliases := r_aliases r; ps_gb := r_gb r;
       ps_cf := match the_cond r with CBasic _ _ f _ => f | CExt _ => FNone end |} = Ok st ->
  Forall2 (fun am am' : str * list (str * nat * str) =>
             fst am = fst am' /\
             Forall2 (fun e e' : str * nat * str =>
                        fst e = fst e' /\
                        forall rf, In rf (referenced r) ->
                                   ref_fields P (ri_cats (rr_info rf)) [snd e] = [snd e'])
                     (snd am) (snd am'))
          (r_aliases r) (ps_aliases st)
  /\ match the_cond r, ps_cf st with
     | CBasic _ _ (FOne x) _, FOne y =>
         forall rf, In rf (referenced r) -> ref_fields P (ri_cats (rr_info rf)) [x] = [y]
     | _, _ => True
     end.
Proof.
  intros Hd H. apply run_pipeline_spec in H. cbn [ps_fields ps_aliases ps_gb ps_cf] in H.
  destruct H as [_ [HA [_ HC]]].
  assert (Hren : forall x y rf, In rf (referenced r) ->
            ren1 P (flat_map (fun rf => ri_cats (rr_info rf)) (referenced r)) x = Ok y ->
            ref_fields P (ri_cats (rr_info rf)) [x] = [y]).
  { intros x y rf Hrf Hxy. rewrite ref_fields_spec. cbn [flat_map]. rewrite app_nil_r.
    apply ren1_renl. rewrite (ren1_ext P _ _ (fun it Hit => uniform_matches K P r Hd rf it Hrf Hit)). exact Hxy. }
  split.
  - eapply Forall2_impl'; [|exact HA]. intros am am' [Hn He]. split; [exact Hn|].
    eapply Forall2_impl'; [|exact He]. intros e e' [H1 H2]. split; [exact H1|].
    intros rf Hrf. eapply Hren; eauto.
  - destruct (the_cond r) as [o cnt [|x|l] pct|tx]; auto.
    destruct (ps_cf st) as [|y|l']; auto; try (simpl in HC; intros rf Hrf; eapply Hren; eauto).
Qed.

(* ================================================================================================ *)
(* refutations of the full statement: the three input classes outside sdom / xdom *)
Definition K0 : kcfg :=
  {| k_cfg := {| lvl := lvl_std; parenthesize := false; or_in := false; and_in := false; in_wild := false; not_eq := false |};
     k_single := false; k_norm := true; k_typing := false; k_ts := TsMap; k_nofield := false; k_fields := false;
     k_finalize := false; k_own_frame := true; k_post := false |}.
Definition info_a : rinfo :=
  {| ri_name := Some (lit "rule_a"); ri_id := Some (lit "0e95725d-7320-415d-80f7-004da920fc11"); ri_corr := false;
     ri_raw := [[T (lit "u=1")]]; ri_fin := [[T (lit "F:u=1:F")]]; ri_fields := [lit "u"]; ri_cats := [lit "c"] |}.
Definition info_b : rinfo :=
  {| ri_name := Some (lit "rule_b"); ri_id := Some (lit "a0e95725-7320-415d-80f7-004da920fc22"); ri_corr := false;
     ri_raw := [[T (lit "u=2")]]; ri_fin := [[T (lit "F:u=2:F")]]; ri_fields := []; ri_cats := [lit "d"] |}.
Definition info_n : rinfo :=
  {| ri_name := Some (lit "corr_n"); ri_id := None; ri_corr := true;
     ri_raw := [[E (lit "Q.default") []]]; ri_fin := [[T (lit "F:"); E (lit "Q.default") []; T (lit ":F")]];
     ri_fields := []; ri_cats := [lit "c"] |}.
Definition rule0 (rules : list rref) (als : list (str * list (str * nat * str))) : crule :=
  {| r_type := TEventCount; r_rules := Some rules; r_ts := lit "5m"; r_gb := Some [lit "al"]; r_aliases := als;
     r_cond := Some (CBasic OpGte 2%Z FNone None); r_fields := []; r_xrefs := [] |}.

(* a non-trivial input inside the domain *)
Definition r_good : crule :=
  rule0 [{| rr_ref := lit "rule_a"; rr_doc := 0; rr_info := info_a |}; {| rr_ref := lit "rule_b"; rr_doc := 1; rr_info := info_b |}]
        [(lit "al", [(lit "rule_a", 0%nat, lit "u"); (lit "rule_b", 1%nat, lit "u")])].
Definition P_good : list pitem := [{| pi_f := FMap [(lit "u", [lit "mu"])]; pi_cat := None |}].

(* D-B: the rule is referenced by id, its alias entry by name *)
Definition r_other_id : crule :=
  rule0 [{| rr_ref := lit "0e95725d-7320-415d-80f7-004da920fc11"; rr_doc := 0; rr_info := info_a |}]
        [(lit "al", [(lit "rule_a", 0%nat, lit "u")])].
Theorem alias_other_identifier_refuted :
  exists K P r t, clean_rule r = true /\ convc K P r = Ok t /\ expected K P r <> Ok (normalize (first_id r) t).
Proof. exists K0, [], r_other_id. eexists. split; [reflexivity|]. split; [vm_compute; reflexivity|]. vm_compute. discriminate. Qed.

(* D-E: a renaming conditioned on log source category c; rule_b has category d *)
Definition P_cond : list pitem := [{| pi_f := FMap [(lit "u", [lit "mu"])]; pi_cat := Some (lit "c") |}].
Theorem conditioned_renaming_refuted :
  exists K P r t, clean_rule r = true /\ convc K P r = Ok t /\ expected K P r <> Ok (normalize (first_id r) t).
Proof. exists K0, P_cond, r_good. eexists. split; [reflexivity|]. split; [vm_compute; reflexivity|]. vm_compute. discriminate. Qed.

(* D-C: an extended condition that names rule_b by its id written without hyphens: the atoms of the
   printed condition cannot be matched with the tags of the search part *)
Definition r_hex : crule :=
  {| r_type := TTemporal; r_rules := None; r_ts := lit "5m"; r_gb := None; r_aliases := [];
     r_cond := Some (CExt (CBin BAnd [CAtom KOther None false 0; CNot (CAtom KOther None false 1)]));
     r_fields := [];
     r_xrefs := [{| rr_ref := lit "rule_a"; rr_doc := 0; rr_info := info_a |};
                 {| rr_ref := lit "a0e957257320415d80f7004da920fc22"; rr_doc := 1; rr_info := info_b |}] |}.
Theorem extended_reference_spelling_refuted :
  exists K r t xn, convc K [] r = Ok t /\ find_x t = Some xn /\
                   lex_nodes (map (fun rf => ruleid (rr_info rf)) (referenced r)) xn = None.
Proof. exists K0, r_hex. eexists. eexists. split; [vm_compute; reflexivity|]. split; vm_compute; reflexivity. Qed.

(* a referenced correlation rule on a backend that did not ask for finalised sub-queries: inside the
   domain since convert_correlation_rule stores the raw query for referring rules *)
Definition r_nested : crule := rule0 [{| rr_ref := lit "corr_n"; rr_doc := 0; rr_info := info_n |}] [].

(* the premises are inhabited by non-trivial inputs *)
Lemma premises_inhabited :
  dom K0 P_good r_good = true /\ (exists t, convc K0 P_good r_good = Ok t) /\
  dom K0 [] r_hex = true /\ cfg_ok (k_cfg K0) = true /\
  dom K0 [] r_nested = true /\ (exists t, convc K0 [] r_nested = Ok t).
Proof.
  split; [vm_compute; reflexivity|]. split; [eexists; vm_compute; reflexivity|].
  split; [vm_compute; reflexivity|]. split; [vm_compute; reflexivity|].
  split; [vm_compute; reflexivity|]. eexists; vm_compute; reflexivity.
Qed.
