(* C08 - proofs: the operational model of Backend.convert (Model/Collection.v) against the per-rule
   specification (Spec/Collection.v). *)
From Coq Require Import NArith List Bool Arith Lia Sorted.
From PS Require Import Base.Outcome Model.Collection Spec.Collection.
Import ListNotations.

Section Proofs.
Variables query drule crule output : Type.
Variable conv1 : drule -> outcome (list query).
Variable finq : payload drule crule -> nat -> query -> outcome query.
Variable cpre : crule -> outcome unit.
Variable cpost : crule -> list (list query) -> outcome (list query).
Variable finout : list query -> outcome output.
Variable fcs : bool.

Notation rule := (rule drule crule).
Notation dtree := (dtree drule crule).
Notation state := (state query).
Notation finish := (finish query drule crule finq fcs).
Notation alone := (alone query drule crule conv1 finq cpre cpost fcs).
Notation sopt := (sopt query drule crule conv1 finq cpre cpost fcs).
Notation mk_tree := (mk_tree drule crule).
Notation trees_from := (trees_from drule crule).
Notation trees := (trees drule crule).
Notation exp_queries := (exp_queries query drule crule conv1 finq cpre cpost fcs).
Notation exp_errors := (exp_errors query drule crule conv1 finq cpre cpost fcs).
Notation conv_raw := (conv_raw query drule crule conv1 cpre cpost).
Notation step := (step query drule crule conv1 finq cpre cpost fcs).
Notation run := (run query drule crule conv1 finq cpre cpost fcs).
Notation convert := (convert query drule crule output conv1 finq cpre cpost finout fcs).
Notation out_enabled := (out_enabled drule crule).
Notation has_backref := (has_backref drule crule).

(* ---- one rule: the conversion in the running state equals the conversion of its dependency tree ---- *)
Lemma lookup_sopt (acc : list dtree) j :
  lookup query (map sopt acc) j =
  match nth_error acc j with
  | Some t' => stored (alone t')
  | None => None
  end.
Proof.
  unfold lookup. rewrite nth_error_map. destruct (nth_error acc j) as [t'|]; simpl; [|reflexivity].
  unfold Spec.Collection.sopt. destruct (stored (alone t')); reflexivity.
Qed.

Lemma conv_raw_alone C i (r : rule) (acc : list dtree) :
  finish (payload_of drule crule r) (out_enabled C i) (has_backref C i) (conv_raw (map sopt acc) r)
  = alone (mk_tree C i r acc).
Proof.
  destruct r as [d | c refs g]; [reflexivity|].
  cbn [mk_tree Spec.Collection.mk_tree Spec.Collection.alone payload_of Collection.conv_raw].
  rewrite map_map.
  rewrite (map_ext (lookup query (map sopt acc))
                   (fun j => match nth_error acc j with
                             | Some t' => stored (alone t')
                             | None => None end)); [reflexivity|].
  intro j. apply lookup_sopt.
Qed.

(* ---- the run, replayed on the trees ---- *)
Definition st_ok (st : state) (so : option (list query)) (qs : list query) : state :=
  {| results := results st ++ [so]; errors := errors st; emitted := emitted st ++ qs |}.
Definition st_err (st : state) (so : option (list query)) (i : nat) (e : N) : state :=
  {| results := results st ++ [so]; errors := errors st ++ [(i, e)]; emitted := emitted st |}.

Fixpoint sem (collect : bool) (i : nat) (ts : list dtree) (st : state) : state * outcome unit :=
  match ts with
  | [] => (st, Ok tt)
  | t :: rest =>
      match ret (alone t) with
      | Ok qs => sem collect (S i) rest (st_ok st (sopt t) qs)
      | SigmaErr e => if collect then sem collect (S i) rest (st_err st (sopt t) i e) else (st, SigmaErr e)
      | Crash c => (st, Crash c)
      end
  end.

Lemma run_sem collect C : forall rs acc i st,
  results st = map sopt acc ->
  run collect C i rs st = sem collect i (trees_from C i rs acc) st.
Proof.
  induction rs as [|r rs IH]; intros acc i st Hres; [reflexivity|].
  cbn [Collection.run Spec.Collection.trees_from sem]. unfold Collection.step.
  assert (EQ : finish (payload_of drule crule r) (out_enabled C i) (has_backref C i) (conv_raw (results st) r)
               = alone (mk_tree C i r acc)) by (rewrite Hres; apply conv_raw_alone).
  rewrite EQ.
  destruct (ret (alone (mk_tree C i r acc))) as [qs|e|c] eqn:E.
  - apply IH. cbn [results]. rewrite map_app. cbn [map]. rewrite <- Hres. reflexivity.
  - destruct collect; [|reflexivity].
    apply IH. cbn [results]. rewrite map_app. cbn [map]. rewrite <- Hres. reflexivity.
  - reflexivity.
Qed.

(* ---- closed form ---- *)
Definition stops {A} (collect : bool) (o : outcome A) : bool :=
  match o with Ok _ => false | SigmaErr _ => negb collect | Crash _ => true end.

Definition plus (st : state) (i : nat) (ts : list dtree) : state :=
  {| results := results st ++ map sopt ts;
     errors := errors st ++ exp_errors i ts;
     emitted := emitted st ++ exp_queries ts |}.

Lemma plus_nil st i : plus st i [] = st.
Proof. unfold plus. cbn. rewrite !app_nil_r. destruct st; reflexivity. Qed.

Lemma sem_app collect : forall pre rest i st,
  forallb (fun t => negb (stops collect (ret (alone t)))) pre = true ->
  sem collect i (pre ++ rest) st = sem collect (i + length pre) rest (plus st i pre).
Proof.
  induction pre as [|t pre IH]; intros rest i st H.
  - cbn [app length]. rewrite Nat.add_0_r, plus_nil. reflexivity.
  - cbn [forallb] in H. apply andb_true_iff in H. destruct H as [Ht Hpre].
    cbn [app sem length]. rewrite Nat.add_succ_r.
    destruct (ret (alone t)) as [qs|e|c] eqn:E; cbn [stops negb] in Ht.
    + rewrite IH by exact Hpre. cbn [Nat.add]. f_equal.
      unfold plus, st_ok. cbn [results errors emitted map Spec.Collection.exp_errors Spec.Collection.exp_queries flat_map].
      rewrite E. cbn [app]. rewrite <- !app_assoc. reflexivity.
    + destruct collect; [|discriminate].
      rewrite IH by exact Hpre. cbn [Nat.add]. f_equal.
      unfold plus, st_err. cbn [results errors emitted map Spec.Collection.exp_errors Spec.Collection.exp_queries flat_map].
      rewrite E. cbn [app]. rewrite <- !app_assoc. reflexivity.
    + discriminate.
Qed.

Lemma sem_pass collect ts i st :
  forallb (fun t => negb (stops collect (ret (alone t)))) ts = true ->
  sem collect i ts st = (plus st i ts, Ok tt).
Proof.
  intros H. rewrite <- (app_nil_r ts) at 1. rewrite sem_app by exact H. reflexivity.
Qed.

Lemma sem_stop collect pre t post i st :
  forallb (fun t => negb (stops collect (ret (alone t)))) pre = true ->
  stops collect (ret (alone t)) = true ->
  sem collect i (pre ++ t :: post) st = (plus st i pre, err_of (ret (alone t))).
Proof.
  intros Hpre Ht. rewrite sem_app by exact Hpre. cbn [sem].
  destruct (ret (alone t)) as [rr|e|c]; cbn [stops] in Ht; try discriminate.
  - destruct collect; [discriminate|]. reflexivity.
  - reflexivity.
Qed.

Lemma exp_errors_all_ok : forall ts i,
  forallb (fun t => is_ok (ret (alone t))) ts = true -> exp_errors i ts = [].
Proof.
  induction ts as [|t ts IH]; intros i H; [reflexivity|].
  cbn [forallb] in H. apply andb_true_iff in H. destruct H as [Ht Hts].
  cbn [Spec.Collection.exp_errors]. destruct (ret (alone t)); try discriminate. cbn [app]. apply IH, Hts.
Qed.

Lemma forallb_impl {A} (f g : A -> bool) l :
  (forall x, f x = true -> g x = true) -> forallb f l = true -> forallb g l = true.
Proof.
  intros H. induction l as [|x l IH]; [reflexivity|]. cbn [forallb]. intro E.
  apply andb_true_iff in E. destruct E as [E1 E2]. rewrite (H _ E1), (IH E2). reflexivity.
Qed.

(* ---- Backend.convert ---- *)
Lemma init_plus ts : plus (init query) 0 ts =
  {| results := map sopt ts; errors := exp_errors 0 ts; emitted := exp_queries ts |}.
Proof. reflexivity. Qed.

Theorem convert_pass collect C :
  forallb (fun t => negb (stops collect (ret (alone t)))) (trees C) = true ->
  convert collect C =
  ({| results := map sopt (trees C); errors := exp_errors 0 (trees C); emitted := exp_queries (trees C) |},
   finout (exp_queries (trees C))).
Proof.
  intros H. unfold Collection.convert.
  rewrite (run_sem collect C C [] 0 (init query) eq_refl).
  fold (trees C). rewrite sem_pass by exact H. rewrite init_plus. reflexivity.
Qed.

Theorem convert_stop collect C pre t post :
  trees C = pre ++ t :: post ->
  forallb (fun t => negb (stops collect (ret (alone t)))) pre = true ->
  stops collect (ret (alone t)) = true ->
  convert collect C =
  ({| results := map sopt pre; errors := exp_errors 0 pre; emitted := exp_queries pre |}, err_of (ret (alone t))).
Proof.
  intros HT Hpre Ht. unfold Collection.convert.
  rewrite (run_sem collect C C [] 0 (init query) eq_refl).
  fold (trees C). rewrite HT, sem_stop by assumption. rewrite init_plus.
  destruct (ret (alone t)) as [rr|e|c]; cbn [stops] in Ht; try discriminate; reflexivity.
Qed.

(* collecting mode, no non-Sigma exception: every query accounted for, one record per failing rule *)
Theorem accounting C :
  forallb (fun t => negb (is_crash (ret (alone t)))) (trees C) = true ->
  convert true C =
  ({| results := map sopt (trees C); errors := exp_errors 0 (trees C); emitted := exp_queries (trees C) |},
   finout (exp_queries (trees C))).
Proof.
  intros H. apply convert_pass. revert H. apply forallb_impl.
  intros t. destruct (ret (alone t)); cbn; congruence.
Qed.

(* non-collecting mode *)
Theorem first_error C pre t post :
  trees C = pre ++ t :: post ->
  forallb (fun t => is_ok (ret (alone t))) pre = true ->
  is_ok (ret (alone t)) = false ->
  convert false C =
  ({| results := map sopt pre; errors := []; emitted := exp_queries pre |}, err_of (ret (alone t))).
Proof.
  intros HT Hpre Ht.
  rewrite (convert_stop false C pre t post HT).
  - rewrite exp_errors_all_ok by exact Hpre. reflexivity.
  - revert Hpre. apply forallb_impl. intros x. destruct (ret (alone x)); cbn; congruence.
  - destruct (ret (alone t)); cbn in *; congruence.
Qed.

Theorem no_error C :
  forallb (fun t => is_ok (ret (alone t))) (trees C) = true ->
  forall collect,
  convert collect C =
  ({| results := map sopt (trees C); errors := []; emitted := exp_queries (trees C) |},
   finout (exp_queries (trees C))).
Proof.
  intros H collect. rewrite convert_pass.
  - rewrite exp_errors_all_ok by exact H. reflexivity.
  - revert H. apply forallb_impl. intros x. destruct (ret (alone x)); cbn; congruence.
Qed.

(* collecting mode: a non-Sigma exception is not caught; what was collected before it stays *)
Theorem crash_propagates C pre t post c :
  trees C = pre ++ t :: post ->
  forallb (fun t => negb (is_crash (ret (alone t)))) pre = true ->
  ret (alone t) = Crash c ->
  convert true C =
  ({| results := map sopt pre; errors := exp_errors 0 pre; emitted := exp_queries pre |}, Crash c).
Proof.
  intros HT Hpre Ht.
  rewrite (convert_stop true C pre t post HT).
  - rewrite Ht. reflexivity.
  - revert Hpre. apply forallb_impl. intros x. destruct (ret (alone x)); cbn; congruence.
  - rewrite Ht. reflexivity.
Qed.


(* ---- backend.errors: exactly one record per failing rule, in collection order ---- *)
Lemma exp_errors_In : forall ts i k e,
  In (k, e) (exp_errors i ts) <->
  (i <= k /\ exists t, nth_error ts (k - i) = Some t /\ ret (alone t) = SigmaErr e).
Proof.
  induction ts as [|t ts IH]; intros i k e; cbn [Spec.Collection.exp_errors].
  - split; [intros []|]. intros [_ [t [H _]]]. destruct (k - i); discriminate.
  - rewrite in_app_iff, IH. split.
    + intros [H | [Hle [t' [Hn Ha]]]].
      * destruct (ret (alone t)) as [rr|e'|c] eqn:E; try (destruct H; fail).
        destruct H as [H|[]]. inversion H; subst. split; [lia|].
        exists t. rewrite Nat.sub_diag. split; [reflexivity|exact E].
      * split; [lia|]. exists t'. replace (k - i) with (S (k - S i)) by lia. split; assumption.
    + intros [Hle [t' [Hn Ha]]]. destruct (Nat.eq_dec k i) as [->|Hne].
      * left. rewrite Nat.sub_diag in Hn. cbn in Hn. inversion Hn; subst. rewrite Ha. left. reflexivity.
      * right. split; [lia|]. exists t'. replace (k - i) with (S (k - S i)) in Hn by lia. split; assumption.
Qed.

Lemma exp_errors_lb : forall ts i k e, In (k, e) (exp_errors i ts) -> i <= k.
Proof. intros ts i k e H. apply exp_errors_In in H. tauto. Qed.

Lemma exp_errors_sorted : forall ts i, StronglySorted (fun a b => fst a < fst b) (exp_errors i ts).
Proof.
  induction ts as [|t ts IH]; intros i; cbn [Spec.Collection.exp_errors]; [constructor|].
  destruct (ret (alone t)) as [rr|e|c]; cbn [app]; try apply IH.
  constructor; [apply IH|]. apply Forall_forall. intros [k e'] H. apply exp_errors_lb in H. cbn. lia.
Qed.

(* ---- the trees: a rule's tree mentions only the rule, its flags and what it refers to ---- *)
Lemma trees_from_length C : forall rs i acc, length (trees_from C i rs acc) = length rs.
Proof. induction rs as [|r rs IH]; intros; cbn; [reflexivity|]. rewrite IH. reflexivity. Qed.

Lemma trees_length C : length (trees C) = length C.
Proof. apply trees_from_length. Qed.

Lemma tree_det_from C d : forall rs k i acc,
  nth_error rs k = Some (Det d) ->
  nth_error (trees_from C i rs acc) k = Some (Leaf d (out_enabled C (i + k)) (has_backref C (i + k))).
Proof.
  induction rs as [|r rs IH]; intros k i acc H; [destruct k; discriminate|].
  destruct k as [|k]; cbn [nth_error] in H |- *.
  - inversion H; subst. cbn. rewrite Nat.add_0_r. reflexivity.
  - cbn [Spec.Collection.trees_from nth_error]. rewrite (IH k (S i) _ H).
    rewrite Nat.add_succ_r. reflexivity.
Qed.

Theorem tree_det C i d :
  nth_error C i = Some (Det d) ->
  nth_error (trees C) i = Some (Leaf d (out_enabled C i) (has_backref C i)).
Proof. intros H. exact (tree_det_from C d C i 0 [] H). Qed.

Lemma same_shape_refs (r r' : rule) : same_shape drule crule r r' -> refs_of drule crule r = refs_of drule crule r'.
Proof. destruct r, r'; cbn; tauto. Qed.

Lemma same_shape_flags C C' i :
  Forall2 (same_shape drule crule) C C' ->
  out_enabled C i = out_enabled C' i /\ has_backref C i = has_backref C' i.
Proof.
  unfold Collection.out_enabled, Collection.has_backref.
  induction 1 as [|r r' C C' Hr HC IH]; [split; reflexivity|].
  destruct IH as [IH1 IH2]. cbn [existsb]. split.
  - apply (f_equal negb) in IH1. rewrite !negb_involutive in IH1. rewrite IH1. f_equal. f_equal.
    destruct r, r'; cbn in Hr; try tauto. destruct Hr as [_ [-> ->]]. reflexivity.
  - rewrite IH2, (same_shape_refs _ _ Hr). reflexivity.
Qed.

(* isolation: whatever is done to the other rules' contents (made to fail at any stage, repaired, replaced),
   a detection rule's dependency tree - hence its outcome, stored result and emitted queries - is the same *)
Theorem isolation C C' i d :
  Forall2 (same_shape drule crule) C C' ->
  nth_error C i = Some (Det d) -> nth_error C' i = Some (Det d) ->
  nth_error (trees C) i = nth_error (trees C') i.
Proof.
  intros HS H H'. rewrite (tree_det C i d H), (tree_det C' i d H').
  destruct (same_shape_flags C C' i HS) as [-> ->]. reflexivity.
Qed.

(* what is stored for the referring correlation rules does not depend on the rule's own output switch *)
Lemma stored_out_irrelevant p out out' br raw :
  stored (finish p out br raw) = stored (finish p out' br raw).
Proof.
  unfold Collection.finish. destruct raw as [qs|e|c]; try reflexivity.
  destruct (fcs || negb br); [|reflexivity].
  destruct (fin_all query drule crule finq p 0 qs); reflexivity.
Qed.

(* converting a detection rule as the only member of a collection *)
Theorem alone_singleton d collect :
  convert collect [Det d] =
  let rr := alone (Leaf d true false) in
  match ret rr with
  | Ok qs => ({| results := [stored rr]; errors := []; emitted := qs |}, finout qs)
  | SigmaErr e => if collect then ({| results := [stored rr]; errors := [(0, e)]; emitted := [] |}, finout [])
                  else (init query, SigmaErr e)
  | Crash c => (init query, Crash c)
  end.
Proof.
  unfold Collection.convert, Collection.run, Collection.step.
  cbn -[Collection.finish].
  destruct (ret (finish (PD d) true false (conv1 d))) as [rr|e|c]; [reflexivity| |reflexivity].
  destruct collect; reflexivity.
Qed.

End Proofs.
