From Coq Require Import ZArith NArith List Bool Lia.
From PS Require Import Base.Chars Base.Outcome Model.SString Model.Slice Spec.Items Proofs.SStringP.
Import ListNotations.
Local Open Scope Z_scope.

Lemma items_cons p v : items (p :: v) = part_items p ++ items v.
Proof. reflexivity. Qed.

Lemma items_snoc r p : items (r ++ [p]) = items r ++ part_items p.
Proof. rewrite items_app. simpl. rewrite app_nil_r. reflexivity. Qed.

Lemma firstn_map_Lit n (s : str) : map Lit (firstn n s) = firstn n (map Lit s).
Proof. symmetry. apply firstn_map. Qed.

(* the second loop appends exactly the first `stop` items of what is left *)
Lemma take_end_some v : forall stop result, 0 <= stop ->
  items (take_end v (Some stop) result) = items result ++ firstn (Z.to_nat stop) (items v).
Proof.
  induction v as [|e v IH]; intros stop result Hs.
  - simpl. rewrite firstn_nil, app_nil_r. reflexivity.
  - cbn [take_end oz_gt0]. destruct (0 <? stop) eqn:E0.
    + apply Z.ltb_lt in E0. destruct e as [s| | |n].
      * cbn [oz_sub oz_lt]. unfold zlen.
        assert (Hm: length (map Lit s) = length s) by apply map_length.
        destruct (stop <? Z.of_nat (length s)) eqn:El.
        -- apply Z.ltb_lt in El.
           rewrite items_cons. cbn [part_items]. rewrite firstn_app.
           replace (Z.to_nat stop - length (map Lit s))%nat with 0%nat by lia.
           rewrite firstn_O, app_nil_r.
           destruct v as [|e2 v2].
           ++ cbn [take_end]. rewrite items_snoc. cbn [part_items]. unfold zfirstn.
              rewrite firstn_map_Lit. reflexivity.
           ++ cbn [take_end oz_gt0].
              replace (0 <? stop - Z.of_nat (length s)) with false by (symmetry; apply Z.ltb_ge; lia).
              rewrite items_snoc. cbn [part_items]. unfold zfirstn. rewrite firstn_map_Lit. reflexivity.
        -- apply Z.ltb_ge in El. rewrite IH by lia. rewrite items_snoc. cbn [part_items].
           rewrite items_cons. cbn [part_items]. rewrite firstn_app, <- app_assoc.
           rewrite (firstn_all2 (map Lit s)) by lia.
           replace (Z.to_nat stop - length (map Lit s))%nat with (Z.to_nat (stop - Z.of_nat (length s))) by lia.
           reflexivity.
      * cbn [oz_sub]. rewrite IH by lia. rewrite items_snoc, items_cons. cbn [part_items].
        rewrite <- app_assoc. replace (Z.to_nat stop) with (S (Z.to_nat (stop - 1))) by lia. reflexivity.
      * cbn [oz_sub]. rewrite IH by lia. rewrite items_snoc, items_cons. cbn [part_items].
        rewrite <- app_assoc. replace (Z.to_nat stop) with (S (Z.to_nat (stop - 1))) by lia. reflexivity.
      * cbn [oz_sub]. rewrite IH by lia. rewrite items_snoc, items_cons. cbn [part_items].
        rewrite <- app_assoc. replace (Z.to_nat stop) with (S (Z.to_nat (stop - 1))) by lia. reflexivity.
    + apply Z.ltb_ge in E0. replace stop with 0 by lia. simpl. rewrite app_nil_r. reflexivity.
Qed.

Lemma take_end_none v : forall result, items (take_end v None result) = items result ++ items v.
Proof.
  induction v as [|e v IH]; intros result.
  - simpl. rewrite app_nil_r. reflexivity.
  - cbn [take_end oz_gt0]. destruct e as [s| | |n]; cbn [oz_sub oz_lt];
      rewrite IH, items_snoc, items_cons, <- app_assoc; reflexivity.
Qed.

Lemma slen_items v : slen v = length (items v).
Proof.
  induction v as [|p v IH]; [reflexivity|]. rewrite items_cons, app_length. simpl. rewrite IH.
  destruct p; simpl; try rewrite map_length; reflexivity.
Qed.

Lemma find_start_zero v stop : find_start v 0 stop [] = Cont [] 0 stop v.
Proof. destruct v; reflexivity. Qed.

Lemma Ok_inj {A} (a b : A) : Ok a = Ok b -> a = b.
Proof. intros H. injection H. auto. Qed.

Ltac kill_ltb :=
  repeat match goal with
  | |- context [?a <? ?b] => let E := fresh "E" in destruct (a <? b) eqn:E;
        [apply Z.ltb_lt in E | apply Z.ltb_ge in E]; try lia
  | |- context [?a <=? ?b] => let E := fresh "E" in destruct (a <=? b) eqn:E;
        [apply Z.leb_le in E | apply Z.leb_gt in E]; try lia
  end.

(* v[:k]: exactly the first k items *)
Theorem slice_prefix v k r : 0 <= k <= Z.of_nat (slen v) ->
  getitem v None (Some k) = Ok r -> items r = firstn (Z.to_nat k) (items v).
Proof.
  intros Hk. unfold getitem. cbv zeta. change (0 <? 0) with false. cbv iota.
  kill_ltb; cbn [orb]; intros H.
  - inversion H; subst.
    assert (Hz: length (items v) = 0%nat) by (rewrite <- slen_items; lia).
    destruct (items v); [rewrite firstn_nil; reflexivity | discriminate].
  - rewrite find_start_zero in H. inversion H; subst. rewrite take_end_some by lia. reflexivity.
Qed.

(* v[:-k]: all but the last k items (the slice the backend takes for startswith is v[:-1]) *)
Theorem slice_prefix_neg v k r : 0 < k <= Z.of_nat (slen v) ->
  getitem v None (Some (- k)) = Ok r -> items r = firstn (length (items v) - Z.to_nat k) (items v).
Proof.
  intros Hk. unfold getitem. cbv zeta. change (0 <? 0) with false. cbv iota.
  kill_ltb; cbn [orb]; intros H.
  rewrite find_start_zero in H. inversion H; subst. rewrite take_end_some by lia. cbn [items flat_map app].
  f_equal. rewrite <- slen_items. lia.
Qed.

Lemma find_start_nonpos v start stop result : start <= 0 ->
  find_start v start stop result = Cont result start stop v.
Proof.
  intros H. destruct v; [reflexivity|]. cbn [find_start].
  replace (0 <? start) with false by (symmetry; apply Z.ltb_ge; lia). reflexivity.
Qed.

Lemma skipn_map_Lit n (s : str) : map Lit (skipn n s) = skipn n (map Lit s).
Proof. symmetry. apply skipn_map. Qed.

(* with an open end the first loop never returns early and skips exactly `start` items *)
Lemma find_start_none v : forall start result, 0 <= start ->
  exists result' start' rest, find_start v start None result = Cont result' start' None rest /\
    items result' ++ items rest = items result ++ skipn (Z.to_nat start) (items v).
Proof.
  induction v as [|e v IH]; intros start result Hs.
  - exists result, start, []. split; [reflexivity|]. rewrite skipn_nil. reflexivity.
  - cbn [find_start]. destruct (0 <? start) eqn:E0.
    + apply Z.ltb_lt in E0. destruct e as [s| | |n].
      * cbn [oz_lt oz_sub]. unfold zlen.
        assert (Hm: length (map Lit s) = length s) by apply map_length.
        rewrite items_cons. cbn [part_items].
        destruct (start <? Z.of_nat (length s)) eqn:El.
        -- apply Z.ltb_lt in El. rewrite find_start_nonpos by lia.
           eexists _, _, _. split; [reflexivity|]. rewrite items_snoc. cbn [part_items].
           unfold zskipn. rewrite skipn_map_Lit, <- app_assoc. f_equal.
           rewrite skipn_app. replace (Z.to_nat start - length (map Lit s))%nat with 0%nat by lia.
           reflexivity.
        -- apply Z.ltb_ge in El. destruct (IH (start - Z.of_nat (length s)) result ltac:(lia)) as [r' [s' [rest [H1 H2]]]].
           exists r', s', rest. split; [exact H1|]. rewrite H2. f_equal.
           rewrite skipn_app. rewrite (skipn_all2 (map Lit s)) by lia. cbn [app]. f_equal. lia.
      * cbn [oz_sub]. destruct (IH (start - 1) result ltac:(lia)) as [r' [s' [rest [H1 H2]]]].
        exists r', s', rest. split; [exact H1|]. rewrite H2. f_equal. rewrite items_cons. cbn [part_items].
        replace (Z.to_nat start) with (S (Z.to_nat (start - 1))) by lia. reflexivity.
      * cbn [oz_sub]. destruct (IH (start - 1) result ltac:(lia)) as [r' [s' [rest [H1 H2]]]].
        exists r', s', rest. split; [exact H1|]. rewrite H2. f_equal. rewrite items_cons. cbn [part_items].
        replace (Z.to_nat start) with (S (Z.to_nat (start - 1))) by lia. reflexivity.
      * cbn [oz_sub]. destruct (IH (start - 1) result ltac:(lia)) as [r' [s' [rest [H1 H2]]]].
        exists r', s', rest. split; [exact H1|]. rewrite H2. f_equal. rewrite items_cons. cbn [part_items].
        replace (Z.to_nat start) with (S (Z.to_nat (start - 1))) by lia. reflexivity.
    + apply Z.ltb_ge in E0. exists result, start, (e :: v). split; [reflexivity|].
      replace start with 0 by lia. reflexivity.
Qed.

(* v[k:]: all but the first k items (the backend takes v[1:] for endswith) *)
Theorem slice_suffix v k r : 0 <= k ->
  getitem v (Some k) None = Ok r -> items r = skipn (Z.to_nat k) (items v).
Proof.
  intros Hk. unfold getitem. cbv zeta.
  kill_ltb; cbn [orb]; intros H.
  - inversion H; subst. rewrite skipn_all2; [reflexivity|]. rewrite <- slen_items. lia.
  - destruct (find_start_none v k [] Hk) as [r' [s' [rest [H1 H2]]]]. rewrite H1 in H.
    inversion H; subst. rewrite take_end_none. exact H2.
Qed.

(* v[1:-1] of a value that starts with a wildcard: all but the first and the last item (contains) *)
Theorem slice_strip p v r : (match p with PStr _ => False | _ => True end) ->
  getitem (p :: v) (Some 1) (Some (-1)) = Ok r -> items r = removelast (tl (items (p :: v))).
Proof.
  intros Hp.
  assert (Hl: Z.of_nat (slen (p :: v)) = 1 + Z.of_nat (slen v)).
  { destruct p; try contradiction; cbn [slen fold_right part_len]; fold (slen v); lia. }
  assert (Ht: tl (items (p :: v)) = items v) by (destruct p; try contradiction; reflexivity).
  rewrite Ht.
  assert (Hf: forall st, find_start (p :: v) 1 (Some st) [] = Cont [] 0 (Some (st - 1)) v).
  { intros st. cbn [find_start]. change (0 <? 1) with true. cbv iota.
    destruct p; try contradiction; cbn [oz_sub]; change (1 - 1) with 0;
      rewrite find_start_nonpos by lia; reflexivity. }
  unfold getitem. cbv zeta. rewrite Hl. change (1 <? 0) with false. change (-1 <? 0) with true. cbv iota.
  kill_ltb; cbn [orb]; intros H;
  first [ discriminate H
        | inversion H; subst;
          assert (Hz: length (items v) = 0%nat) by (rewrite <- slen_items; lia);
          destruct (items v); [reflexivity | discriminate Hz]
        | rewrite Hf in H; apply Ok_inj in H; subst r; rewrite take_end_some by lia;
          change (items []) with (@nil item); cbn [app];
          rewrite removelast_firstn_len; f_equal; rewrite <- slen_items, <- Nat.sub_1_r; lia ].
Qed.
