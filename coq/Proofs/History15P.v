(* C15 - proofs: every reachable world satisfies an invariant (class templates original, parse
   cache sound); under it, a conversion whose pipeline items all point to the backend's own pipeline
   object refines the history-free specification. *)
From Coq Require Import NArith List Bool Arith Lia.
From PS Require Import Base.Chars Base.Outcome Model.History Spec.Frame.
Import ListNotations.
Open Scope N_scope.

(* ---------- invariant ---------- *)
Definition cache_sound (E : env) (c : list (str * ptree)) : Prop :=
  forall k t, lookup k c = Some t -> e_parse E k = Some t.
Definition tpl_orig (tp : N -> tpls) : Prop := forall c, tp c = tpl0.
Definition wf0 (E : env) (w : world) : Prop := tpl_orig (w_tpl w) /\ cache_sound E (w_cache w).
(* a cached value list of an external-source transformation object is what its source yields *)
Definition vcs (E : env) (w : world) : Prop :=
  forall i it d v, w_vc w i = Some v -> valid_pair E i it -> i_tr it = TFile d -> e_src E d = Ok v.
(* the vars dict of a backend's pipeline object is what init wrote into it; pipeline objects are numbered below w_next *)
Definition lasts (E : env) (w : world) : Prop :=
  forall b bk L f, nth_error (w_bks w) b = Some bk -> b_last bk = Some (L, f) ->
    (L < w_next w)%nat /\ w_pvars w L = init_vars E (b_cls bk) (b_user bk) (b_opts bk) f.
Definition wf (E : env) (w : world) : Prop := wf0 E w /\ vcs E w /\ lasts E w.

(* everything but the per-rule fields, the counters and the type-hint cache is untouched *)
Definition same_frame (w w' : world) : Prop :=
  w_tpl w' = w_tpl w /\ w_cache w' = w_cache w /\ w_owner w' = w_owner w /\ w_bks w' = w_bks w
  /\ w_next w' = w_next w /\ w_pvars w' = w_pvars w.
Lemma same_frame_refl w : same_frame w w.
Proof. repeat split. Qed.
Lemma same_frame_trans a b c : same_frame a b -> same_frame b c -> same_frame a c.
Proof. unfold same_frame. intuition congruence. Qed.
Lemma same_frame_set_ps w p v : same_frame w (set_ps w p v).
Proof. repeat split. Qed.

(* ---------- rendering ---------- *)
Section CtreeInd.
  Variable P : ctree -> Prop.
  Hypothesis Hl : forall d, P (CLeaf d).
  Hypothesis Hn : forall c, P c -> P (CNot c).
  Hypothesis Ha : forall l, Forall P l -> P (CAnd l).
  Hypothesis Ho : forall l, Forall P l -> P (COr l).
  Fixpoint ctree_ind' (c : ctree) : P c :=
    match c with
    | CLeaf d => Hl d
    | CNot a => Hn a (ctree_ind' a)
    | CAnd l => Ha l ((fix go (l : list ctree) : Forall P l :=
                         match l with [] => Forall_nil P | a :: r => Forall_cons a (ctree_ind' a) (go r) end) l)
    | COr l => Ho l ((fix go (l : list ctree) : Forall P l :=
                        match l with [] => Forall_nil P | a :: r => Forall_cons a (ctree_ind' a) (go r) end) l)
    end.
End CtreeInd.

Lemma set_tpl_restore tp cls v : tpl_orig tp -> tpl_orig (set_tpl (set_tpl tp cls v) cls (tp cls)).
Proof.
  intros H c. unfold set_tpl. destruct (N.eqb c cls) eqn:Ec; [apply H | apply H].
Qed.

Lemma render_leaf_ideal ne cls neg d tp : tpl_orig tp ->
  tpl_orig (fst (render_leaf ne cls neg d tp)) /\ snd (render_leaf ne cls neg d tp) = ideal_leaf ne neg d.
Proof.
  intros H. unfold render_leaf, ideal_leaf. destruct (neg && ne) eqn:Eb; simpl.
  - split; [apply set_tpl_restore; exact H |].
    unfold set_tpl. rewrite N.eqb_refl. reflexivity.
  - split; [exact H | rewrite H; reflexivity].
Qed.

Lemma render_args_ideal f g wrap l :
  Forall (fun a => forall tp, tpl_orig tp -> tpl_orig (fst (f a tp)) /\ snd (f a tp) = g a) l ->
  forall tp, tpl_orig tp ->
  tpl_orig (fst (render_args f wrap l tp)) /\
  snd (render_args f wrap l tp) = omap (fun a => obind (g a) (fun s => Ok (wrap a s))) l.
Proof.
  induction 1 as [|a l Ha Hl IH]; intros tp Htp; simpl.
  - split; [exact Htp | reflexivity].
  - destruct (Ha tp Htp) as [H1 H2]. destruct (f a tp) as [tp1 x] eqn:Ef. simpl in H1, H2. subst x.
    destruct (g a) as [s|e|e]; simpl.
    + destruct (IH tp1 H1) as [H3 H4]. destruct (render_args f wrap l tp1) as [tp2 y]. simpl in H3, H4.
      subst y. simpl. split; [exact H3 |].
      destruct (omap _ l); reflexivity.
    + split; [exact H1 | reflexivity].
    + split; [exact H1 | reflexivity].
Qed.

Lemma render_ideal ne cls : forall c neg tp, tpl_orig tp ->
  tpl_orig (fst (render ne cls neg c tp)) /\ snd (render ne cls neg c tp) = ideal_render ne neg c.
Proof.
  induction c as [d|a IH|l IH|l IH] using ctree_ind'; intros neg tp Htp.
  - apply render_leaf_ideal. exact Htp.
  - simpl. destruct (IH true tp Htp) as [H1 H2]. destruct (render ne cls true a tp) as [tp1 r].
    simpl in *. subst r. split; [exact H1 | reflexivity].
  - simpl.
    assert (HF : Forall (fun a => forall tp, tpl_orig tp ->
                  tpl_orig (fst (render ne cls neg a tp)) /\ snd (render ne cls neg a tp) = ideal_render ne neg a) l).
    { eapply Forall_impl; [|exact IH]. intros a Ha tp0 H0. apply Ha. exact H0. }
    destruct (render_args_ideal _ _ wrap_and l HF tp Htp) as [H1 H2].
    destruct (render_args (render ne cls neg) wrap_and l tp) as [tp1 r]. simpl in *. subst r.
    split; [exact H1 | reflexivity].
  - simpl.
    assert (HF : Forall (fun a => forall tp, tpl_orig tp ->
                  tpl_orig (fst (render ne cls neg a tp)) /\ snd (render ne cls neg a tp) = ideal_render ne neg a) l).
    { eapply Forall_impl; [|exact IH]. intros a Ha tp0 H0. apply Ha. exact H0. }
    destruct (render_args_ideal _ _ wrap_or l HF tp Htp) as [H1 H2].
    destruct (render_args (render ne cls neg) wrap_or l tp) as [tp1 r]. simpl in *. subst r.
    split; [exact H1 | reflexivity].
Qed.

(* ---------- parse cache ---------- *)
Lemma cache_parse_ideal E w k : cache_sound E (w_cache w) ->
  let w' := fst (cache_parse E w k) in
  snd (cache_parse E w k) = (if mem c_pipe k then SigmaErr E_Condition else
                             match e_parse E k with Some t => Ok t | None => SigmaErr E_Condition end)
  /\ cache_sound E (w_cache w') /\ w_tpl w' = w_tpl w /\ w_owner w' = w_owner w /\ w_ps w' = w_ps w
  /\ w_bks w' = w_bks w /\ w_next w' = w_next w /\ w_vc w' = w_vc w /\ w_pvars w' = w_pvars w.
Proof.
  intros Hc. unfold cache_parse. destruct (mem c_pipe k); [simpl; repeat split; try reflexivity; exact Hc|].
  destruct (lookup k (w_cache w)) as [t|] eqn:El.
  - simpl. rewrite (Hc k t El). repeat split; try reflexivity. exact Hc.
  - destruct (e_parse E k) as [t|] eqn:Ep; simpl; repeat split; try reflexivity; try exact Hc.
    intros k' t'. simpl. destruct (str_eqb k' k) eqn:Ek.
    + intros H. inversion H; subst. apply str_eqb_eq in Ek. subst. exact Ep.
    + apply Hc.
Qed.

(* ---------- conditions ---------- *)
(* what the rest of a world looks like after converting conditions *)
Definition same_conv (w w' : world) : Prop :=
  w_owner w' = w_owner w /\ w_ps w' = w_ps w /\ w_bks w' = w_bks w /\ w_next w' = w_next w /\ w_vc w' = w_vc w
  /\ w_pvars w' = w_pvars w.

Lemma conv_conds_ideal E cls dets fin : forall ks w, wf0 E w ->
  let w' := fst (conv_conds E cls dets fin w ks) in
  snd (conv_conds E cls dets fin w ks) = omap (ideal_cond E (e_ne E cls) dets fin) ks
  /\ wf0 E w' /\ same_conv w w'.
Proof.
  induction ks as [|k ks IH]; intros w [Ht Hc]; simpl.
  - split; [reflexivity|]. split; [split; assumption | repeat split].
  - destruct (cache_parse_ideal E w k Hc) as [Hp [Hc1 [Ht1 [Ho1 [Hps1 [Hb1 [Hn1 [Hv1 Hpv1]]]]]]]].
    destruct (cache_parse E w k) as [w1 pt]. simpl in *. subst pt.
    unfold ideal_cond at 1. destruct (mem c_pipe k); simpl;
      [split; [reflexivity|]; split; [split; [rewrite Ht1; exact Ht | exact Hc1]|];
       unfold same_conv; repeat split; assumption|].
    destruct (e_parse E k) as [t|]; simpl.
    + destruct (resolve dets t) as [ct|e|e]; simpl.
      * assert (Ht1' : tpl_orig (w_tpl w1)) by (rewrite Ht1; exact Ht).
        destruct (render_ideal (e_ne E cls) cls ct false (w_tpl w1) Ht1') as [H1 H2].
        destruct (render (e_ne E cls) cls false ct (w_tpl w1)) as [tp q]. simpl in H1, H2. subst q.
        assert (Hwf2 : wf0 E (set_tplw w1 tp)) by (split; [exact H1 | exact Hc1]).
        destruct (obind (ideal_render (e_ne E cls) false ct) fin) as [s|e|e]; simpl.
        -- specialize (IH (set_tplw w1 tp) Hwf2).
           destruct (conv_conds E cls dets fin (set_tplw w1 tp) ks) as [w3 r]. simpl in IH.
           destruct IH as [Hr [Hwf3 [Ho3 [Hps3 [Hb3 [Hn3 [Hv3 Hpv3]]]]]]]. simpl. subst r.
           split; [destruct (omap _ ks); reflexivity|]. split; [exact Hwf3|].
           unfold same_conv. simpl in *. repeat split; congruence.
        -- split; [reflexivity|]. split; [exact Hwf2|]. unfold same_conv; simpl; repeat split; assumption.
        -- split; [reflexivity|]. split; [exact Hwf2|]. unfold same_conv; simpl; repeat split; assumption.
      * split; [reflexivity|]. split; [split; [rewrite Ht1; exact Ht | exact Hc1]|].
        unfold same_conv; repeat split; assumption.
      * split; [reflexivity|]. split; [split; [rewrite Ht1; exact Ht | exact Hc1]|].
        unfold same_conv; repeat split; assumption.
    + split; [reflexivity|]. split; [split; [rewrite Ht1; exact Ht | exact Hc1]|].
      unfold same_conv; repeat split; assumption.
Qed.

(* ---------- pipeline application ---------- *)
Lemma wr_owner_frame w o f : same_frame w (wr_owner w o f).
Proof. destruct o; simpl; [apply same_frame_set_ps | apply same_frame_refl]. Qed.
Lemma wr_owner_vc w o f : w_vc (wr_owner w o f) = w_vc w.
Proof. destruct o; reflexivity. Qed.

Lemma vcs_ext E w w' : w_vc w' = w_vc w -> vcs E w -> vcs E w'.
Proof. intros H Hv i it d v Hc. rewrite H in Hc. apply (Hv i it d v Hc). Qed.

Lemma iid_eqb_eq a b : iid_eqb a b = true -> a = b.
Proof.
  destruct a as [s n], b as [t m]. unfold iid_eqb. simpl. intros H. apply andb_true_iff in H. destruct H as [H1 H2].
  apply Nat.eqb_eq in H2. subst m. f_equal.
  destruct s, t; simpl in H1; try discriminate;
    repeat (apply andb_true_iff in H1; destruct H1 as [? H1]);
    repeat match goal with H : N.eqb _ _ = true |- _ => apply N.eqb_eq in H end; subst; reflexivity.
Qed.

(* _get_values: nothing but the value cache changes; the cache stays sound; the caller gets what the
   source yields now *)
Lemma fetch_vals_facts E w i it rd pv r : vcs E w -> valid_pair E i it ->
  let w0 := fst (fetch_vals E w i it rd r) in
  same_frame w w0 /\ w_ps w0 = w_ps w /\ vcs E w0 /\
  item_step rd pv r it (snd (fetch_vals E w i it rd r)) = item_step rd pv r it (src_vals E it).
Proof.
  intros Hv Hval. unfold fetch_vals, src_vals. destruct (i_tr it) as [k v|m| |d| |l|l|l|k v|p0|pp] eqn:Et;
    try (simpl; split; [apply same_frame_refl|]; split; [reflexivity|]; split; [exact Hv | reflexivity]).
  destruct (wants_values rd r it) eqn:Ew.
  - unfold get_values. destruct (w_vc w i) as [v|] eqn:Ec.
    + simpl. split; [apply same_frame_refl|]. split; [reflexivity|]. split; [exact Hv|].
      rewrite (Hv i it d v Ec Hval Et). reflexivity.
    + destruct (e_src E d) as [v|e|e] eqn:Es; simpl;
        try (split; [apply same_frame_refl|]; split; [reflexivity|]; split; [exact Hv | reflexivity]).
      split; [repeat split|]. split; [reflexivity|]. split; [|reflexivity].
      intros j jt d' v' Hc Hvj Hj. simpl in Hc. destruct (iid_eqb j i) eqn:Ej.
      * apply iid_eqb_eq in Ej. subst j. inversion Hc; subst v'.
        unfold valid_pair in Hval, Hvj. rewrite Hval in Hvj. inversion Hvj; subst jt.
        rewrite Et in Hj. inversion Hj; subst d'. exact Es.
      * apply (Hv j jt d' v' Hc Hvj Hj).
  - simpl. split; [apply same_frame_refl|]. split; [reflexivity|]. split; [exact Hv|].
    unfold wants_values in Ew. rewrite Et in Ew. unfold item_step. rewrite Et.
    destruct (eval_rcond rd r (i_cond it)); [|reflexivity]. simpl in Ew. rewrite Ew. reflexivity.
Qed.

Lemma fetch_vals_frame E w i it rd r :
  same_frame w (fst (fetch_vals E w i it rd r)) /\ w_ps (fst (fetch_vals E w i it rd r)) = w_ps w.
Proof.
  unfold fetch_vals. destruct (i_tr it); try (split; [apply same_frame_refl | reflexivity]).
  destruct (wants_values rd r it); [|split; [apply same_frame_refl | reflexivity]].
  unfold get_values. destruct (w_vc w i); [split; [apply same_frame_refl | reflexivity]|].
  destruct (e_src E d); simpl; split; try apply same_frame_refl; try reflexivity. repeat split.
Qed.

Lemma apply_items_frame E : forall its w L r, same_frame w (fst (apply_items E w L r its)).
Proof.
  induction its as [|[i it] its IH]; intros w L r; simpl; [apply same_frame_refl|].
  destruct (is_post it); [apply IH|].
  destruct (fetch_vals_frame E w i it (rd_owner w (w_owner w i)) r) as [F _].
  destruct (fetch_vals E w i it (rd_owner w (w_owner w i)) r) as [w0 vals]. simpl in F.
  destruct (is_res (item_step (rd_owner w (w_owner w i)) (rd_vars w (w_owner w i)) r it vals)) as [r'|e]; simpl.
  - eapply same_frame_trans; [exact F|]. eapply same_frame_trans; [|apply IH].
    eapply same_frame_trans; [apply wr_owner_frame | apply same_frame_set_ps].
  - eapply same_frame_trans; [exact F | apply wr_owner_frame].
Qed.

Lemma apply_items_vcs E : forall its w L r, vcs E w ->
  (forall p, In p its -> valid_pair E (fst p) (snd p)) -> vcs E (fst (apply_items E w L r its)).
Proof.
  induction its as [|[i it] its IH]; intros w L r Hv Hval; simpl; [exact Hv|].
  destruct (is_post it); [apply IH; [exact Hv | intros p Hp; apply Hval; right; exact Hp]|].
  destruct (fetch_vals_facts E w i it (rd_owner w (w_owner w i)) [] r Hv (Hval (i, it) (or_introl eq_refl))) as [_ [_ [Hv0 _]]].
  destruct (fetch_vals E w i it (rd_owner w (w_owner w i)) r) as [w0 vals]. simpl in Hv0.
  destruct (is_res (item_step (rd_owner w (w_owner w i)) (rd_vars w (w_owner w i)) r it vals)) as [r'|e]; simpl.
  - apply IH; [|intros p Hp; apply Hval; right; exact Hp].
    eapply vcs_ext; [|exact Hv0]. simpl. apply wr_owner_vc.
  - eapply vcs_ext; [apply wr_owner_vc | exact Hv0].
Qed.

(* when every item points to the pipeline being applied, the loop is the specification's loop on
   that pipeline's own fields, and a cached value list is what the source yields *)
Lemma apply_items_ideal E V : forall its w L r,
  (forall p, In p its -> w_owner w (fst p) = Some L) -> vcs E w -> w_pvars w L = V ->
  (forall p, In p its -> valid_pair E (fst p) (snd p)) ->
  snd (apply_items E w L r its) = snd (ideal_items E V (w_ps w L) r (map snd its)) /\
  w_ps (fst (apply_items E w L r its)) L = fst (ideal_items E V (w_ps w L) r (map snd its)).
Proof.
  induction its as [|[i it] its IH]; intros w L r Hown Hv Hpv Hval; simpl; [split; reflexivity|].
  destruct (is_post it);
    [apply IH; [intros p Hp; apply Hown; right; exact Hp | exact Hv | exact Hpv | intros p Hp; apply Hval; right; exact Hp]|].
  pose proof (Hown (i, it) (or_introl eq_refl)) as Hi. simpl in Hi. rewrite Hi. simpl. rewrite Hpv.
  destruct (fetch_vals_facts E w i it (w_ps w L) V r Hv (Hval (i, it) (or_introl eq_refl))) as [[_ [_ [Fo [_ [_ Fpv]]]]] [Fps [Hv0 Hst]]].
  destruct (fetch_vals E w i it (w_ps w L) r) as [w0 vals]. simpl in Fo, Fpv, Fps, Hv0, Hst. rewrite Hst.
  set (st := item_step (w_ps w L) V r it (src_vals E it)).
  destruct (is_res st) as [r'|e] eqn:Er; simpl.
  - set (w1 := set_ps (set_ps w0 L (is_upd st (w_ps w0 L))) L
                      (note_applied it (is_match st) (w_ps (set_ps w0 L (is_upd st (w_ps w0 L))) L))).
    assert (Hps : w_ps w1 L = note_applied it (is_match st) (is_upd st (w_ps w L))).
    { unfold w1. simpl. rewrite Nat.eqb_refl, Fps. reflexivity. }
    assert (Hown1 : forall p, In p its -> w_owner w1 (fst p) = Some L).
    { intros p Hp. unfold w1. simpl. rewrite Fo. apply Hown. right. exact Hp. }
    assert (Hv1 : vcs E w1) by (eapply vcs_ext; [|exact Hv0]; reflexivity).
    assert (Hpv1 : w_pvars w1 L = V) by (unfold w1; simpl; rewrite Fpv; exact Hpv).
    destruct (IH w1 L r' Hown1 Hv1 Hpv1 (fun p Hp => Hval p (or_intror Hp))) as [H1 H2].
    rewrite Hps in H1, H2. split; assumption.
  - split; [reflexivity|]. rewrite Nat.eqb_refl, Fps. reflexivity.
Qed.

Lemma tagp_map_snd s its : map snd (tagp s its) = its.
Proof.
  unfold tagp. generalize (seq 0 (List.length its)) (seq_length (List.length its) 0).
  intros l Hl. revert l Hl. induction its as [|x its IH]; intros [|k l] Hl; simpl in *; try discriminate; try reflexivity.
  f_equal. apply IH. lia.
Qed.
Lemma pipe_pairs_defs E cls user fmt : map snd (pipe_pairs E cls user fmt) = pipe_defs E cls user fmt.
Proof.
  unfold pipe_pairs, pipe_defs. rewrite !map_app, !tagp_map_snd.
  destruct user; simpl; [rewrite tagp_map_snd|]; reflexivity.
Qed.

Lemma tagp_valid_gen (s : src) : forall (its : list item) (a : nat) (p : iid * item),
  In p (combine (map (fun k => (s, k)) (seq a (List.length its))) its) ->
  fst (fst p) = s /\ (a <= snd (fst p))%nat /\ nth_error its (snd (fst p) - a) = Some (snd p).
Proof.
  induction its as [|x its IH]; intros a p H; simpl in H; [destruct H|].
  destruct H as [H|H].
  - subst p. simpl. split; [reflexivity|]. split; [lia|]. rewrite Nat.sub_diag. reflexivity.
  - destruct (IH (S a) p H) as [H1 [H2 H3]]. split; [exact H1|]. split; [lia|].
    replace (snd (fst p) - a)%nat with (S (snd (fst p) - S a)) by lia. simpl. exact H3.
Qed.
Lemma tagp_valid (s : src) (its : list item) (p : iid * item) : In p (tagp s its) -> fst (fst p) = s /\ nth_error its (snd (fst p)) = Some (snd p).
Proof.
  intros H. destruct (tagp_valid_gen s its 0%nat p H) as [H1 [_ H3]]. rewrite Nat.sub_0_r in H3. tauto.
Qed.
Lemma pipe_pairs_valid E cls user fmt p : In p (pipe_pairs E cls user fmt) -> valid_pair E (fst p) (snd p).
Proof.
  unfold pipe_pairs. rewrite !in_app_iff. unfold valid_pair. intros [H|[H|H]].
  - apply tagp_valid in H. destruct H as [H1 H2]. rewrite H1. exact H2.
  - destruct user as [o|]; [|destruct H]. apply tagp_valid in H. destruct H as [H1 H2]. rewrite H1. exact H2.
  - apply tagp_valid in H. destruct H as [H1 H2]. rewrite H1. exact H2.
Qed.

(* ---------- one rule ---------- *)
Definition owned (E : env) (w : world) (bk : backend) (L : nat) (f : N) : Prop :=
  forall p, In p (pipe_pairs E (b_cls bk) (b_user bk) f) -> w_owner w (fst p) = Some L.

(* ---------- query postprocessing ---------- *)
(* between operations every nested pipeline object of a `nest` item is untouched: no state, nothing applied *)
Definition nest0 (w : world) : Prop := forall i, w_nest w i = ([], []).
Lemma nest0_ext w w' : w_nest w' = w_nest w -> nest0 w -> nest0 w'.
Proof. unfold nest0. intros ->. tauto. Qed.
Lemma wr_owner_nest w o f : w_nest (wr_owner w o f) = w_nest w.
Proof. destruct o; reflexivity. Qed.

Lemma post_items_frame : forall its w L r q,
  same_frame w (fst (post_items w L r q its)) /\ w_vc (fst (post_items w L r q its)) = w_vc w
  /\ w_hints (fst (post_items w L r q its)) = w_hints w.
Proof.
  induction its as [|[i it] its IH]; intros w L r q; simpl; [split; [apply same_frame_refl | split; reflexivity]|].
  destruct (i_tr it) as [| | | | | | | | | |p]; try apply IH.
  destruct (eval_rcond (rd_owner w (w_owner w i)) r (i_cond it)); [|apply IH].
  destruct p as [p0|l].
  - destruct (IH (set_ps w L (add_ids [i_id it] (w_ps w L))) L r (post0_apply (ps_state (rd_owner w (w_owner w i))) p0 q)) as [A [B C]].
    split; [eapply same_frame_trans; [apply same_frame_set_ps | exact A] | split; [rewrite B | rewrite C]; reflexivity].
  - destruct (nest_run (fst (w_nest w i)) r q l (snd (w_nest w i))) as [q' nids].
    set (w1 := set_nest (wr_owner w (w_owner w i) (add_ids nids)) i (fst (w_nest w i), [])).
    destruct (IH (set_ps w1 L (add_ids [i_id it] (w_ps w1 L))) L r q') as [A [B C]].
    assert (F1 : same_frame w w1).
    { unfold w1. eapply same_frame_trans; [apply wr_owner_frame | repeat split]. }
    split; [eapply same_frame_trans; [exact F1|]; eapply same_frame_trans; [apply same_frame_set_ps | exact A]|].
    split; [rewrite B | rewrite C]; unfold w1; simpl; destruct (w_owner w i); reflexivity.
Qed.

Lemma post_items_nest0 : forall its w L r q, nest0 w -> nest0 (fst (post_items w L r q its)).
Proof.
  induction its as [|[i it] its IH]; intros w L r q H; simpl; [exact H|].
  destruct (i_tr it) as [| | | | | | | | | |p]; try (apply IH; exact H).
  destruct (eval_rcond (rd_owner w (w_owner w i)) r (i_cond it)); [|apply IH; exact H].
  destruct p as [p0|l].
  - apply IH. exact H.
  - destruct (nest_run (fst (w_nest w i)) r q l (snd (w_nest w i))) as [q' nids]. apply IH.
    intros j. simpl. destruct (iid_eqb j i); [rewrite (H i); reflexivity|]. rewrite wr_owner_nest. apply H.
Qed.

(* when every entry points to the pipeline being applied and the nested pipelines are untouched, postprocessing is the
   specification's postprocessing on that pipeline's own fields *)
Lemma post_items_ideal : forall its w L r q,
  (forall p, In p its -> w_owner w (fst p) = Some L) -> nest0 w ->
  snd (post_items w L r q its) = snd (ideal_post (w_ps w L) r q (map snd its)) /\
  w_ps (fst (post_items w L r q its)) L = fst (ideal_post (w_ps w L) r q (map snd its)).
Proof.
  induction its as [|[i it] its IH]; intros w L r q Hown Hn; simpl; [split; reflexivity|].
  assert (Hown' : forall p, In p its -> w_owner w (fst p) = Some L) by (intros p Hp; apply Hown; right; exact Hp).
  destruct (i_tr it) as [| | | | | | | | | |p]; try (apply IH; assumption).
  pose proof (Hown (i, it) (or_introl eq_refl)) as Hi. simpl in Hi. rewrite Hi. simpl.
  destruct (eval_rcond (w_ps w L) r (i_cond it)); [|apply IH; assumption].
  destruct p as [p0|l].
  - set (w1 := set_ps w L (add_ids [i_id it] (w_ps w L))).
    assert (Hps : w_ps w1 L = add_ids [i_id it] (w_ps w L)) by (unfold w1; simpl; rewrite Nat.eqb_refl; reflexivity).
    destruct (IH w1 L r (post0_apply (ps_state (w_ps w L)) p0 q) Hown' Hn) as [H1 H2].
    rewrite Hps in H1, H2. split; assumption.
  - rewrite (Hn i). simpl.
    destruct (nest_run [] r q l []) as [q' nids].
    set (w0 := set_nest (set_ps w L (add_ids nids (w_ps w L))) i ([], [])).
    set (w1 := set_ps w0 L (add_ids [i_id it] (w_ps w0 L))).
    assert (Hps : w_ps w1 L = add_ids [i_id it] (add_ids nids (w_ps w L))).
    { unfold w1, w0. simpl. rewrite !Nat.eqb_refl. reflexivity. }
    assert (Hn1 : nest0 w1).
    { intros j. unfold w1, w0. simpl. destruct (iid_eqb j i); [reflexivity | apply Hn]. }
    destruct (IH w1 L r q' Hown' Hn1) as [H1 H2]. rewrite Hps in H1, H2. split; assumption.
Qed.

Lemma post_all_frame its L r : forall qs w,
  same_frame w (fst (post_all w L r qs its)) /\ w_vc (fst (post_all w L r qs its)) = w_vc w
  /\ w_hints (fst (post_all w L r qs its)) = w_hints w.
Proof.
  induction qs as [|q qs IH]; intros w; simpl; [split; [apply same_frame_refl | split; reflexivity]|].
  destruct (post_items_frame its w L r q) as [A [B C]]. destruct (post_items w L r q its) as [w1 q1]. simpl in A, B, C.
  destruct (IH w1) as [A2 [B2 C2]]. destruct (post_all w1 L r qs its) as [w2 l]. simpl in *.
  split; [eapply same_frame_trans; eassumption | split; congruence].
Qed.
Lemma post_all_nest0 its L r : forall qs w, nest0 w -> nest0 (fst (post_all w L r qs its)).
Proof.
  induction qs as [|q qs IH]; intros w H; simpl; [exact H|].
  pose proof (post_items_nest0 its w L r q H) as H1. destruct (post_items w L r q its) as [w1 q1]. simpl in H1.
  specialize (IH w1 H1). destruct (post_all w1 L r qs its) as [w2 l]. exact IH.
Qed.
Lemma post_all_ideal its L r : forall qs w,
  (forall p, In p its -> w_owner w (fst p) = Some L) -> nest0 w ->
  snd (post_all w L r qs its) = snd (ideal_post_all (w_ps w L) r qs (map snd its)) /\
  w_ps (fst (post_all w L r qs its)) L = fst (ideal_post_all (w_ps w L) r qs (map snd its)).
Proof.
  induction qs as [|q qs IH]; intros w Hown Hn; simpl; [split; reflexivity|].
  destruct (post_items_ideal its w L r q Hown Hn) as [H1 H2].
  pose proof (post_items_nest0 its w L r q Hn) as Hn1.
  destruct (post_items_frame its w L r q) as [[_ [_ [Fo _]]] _].
  destruct (post_items w L r q its) as [w1 q1]. destruct (ideal_post (w_ps w L) r q (map snd its)) as [ps1 q1'].
  simpl in *. subst q1' ps1.
  assert (Hown1 : forall p, In p its -> w_owner w1 (fst p) = Some L) by (intros p Hp; rewrite Fo; apply Hown; exact Hp).
  destruct (IH w1 Hown1 Hn1) as [H3 H4].
  destruct (post_all w1 L r qs its) as [w2 l]. destruct (ideal_post_all (w_ps w1 L) r qs (map snd its)) as [ps2 l'].
  simpl in *. subst l' ps2. split; reflexivity.
Qed.

(* nothing but postprocessing touches the nested pipelines *)
Lemma cache_parse_nest E w k : w_nest (fst (cache_parse E w k)) = w_nest w.
Proof.
  unfold cache_parse. destruct (mem c_pipe k); [reflexivity|].
  destruct (lookup k (w_cache w)); [reflexivity|]. destruct (e_parse E k); reflexivity.
Qed.
Lemma conv_conds_nest E cls dets fin : forall ks w, w_nest (fst (conv_conds E cls dets fin w ks)) = w_nest w.
Proof.
  induction ks as [|k ks IH]; intros w; simpl; [reflexivity|].
  pose proof (cache_parse_nest E w k) as Hc. destruct (cache_parse E w k) as [w1 pt]. simpl in Hc.
  destruct (obind pt (resolve dets)) as [ct|e|e]; simpl; try exact Hc.
  destruct (render (e_ne E cls) cls false ct (w_tpl w1)) as [tp q].
  destruct (obind q fin) as [s|e|e]; simpl; try exact Hc.
  specialize (IH (set_tplw w1 tp)). destruct (conv_conds E cls dets fin (set_tplw w1 tp) ks) as [w3 r]. simpl in *.
  rewrite IH. exact Hc.
Qed.
Lemma fetch_vals_nest E w i it rd r : w_nest (fst (fetch_vals E w i it rd r)) = w_nest w.
Proof.
  unfold fetch_vals. destruct (i_tr it); try reflexivity. destruct (wants_values rd r it); [|reflexivity].
  unfold get_values. destruct (w_vc w i); [reflexivity|]. destruct (e_src E d); reflexivity.
Qed.
Lemma apply_items_nest E : forall its w L r, w_nest (fst (apply_items E w L r its)) = w_nest w.
Proof.
  induction its as [|[i it] its IH]; intros w L r; simpl; [reflexivity|].
  destruct (is_post it); [apply IH|].
  pose proof (fetch_vals_nest E w i it (rd_owner w (w_owner w i)) r) as Hf.
  destruct (fetch_vals E w i it (rd_owner w (w_owner w i)) r) as [w0 vals]. simpl in Hf.
  destruct (is_res (item_step (rd_owner w (w_owner w i)) (rd_vars w (w_owner w i)) r it vals)) as [r'|e]; simpl.
  - rewrite IH. simpl. rewrite wr_owner_nest. exact Hf.
  - rewrite wr_owner_nest. exact Hf.
Qed.

Lemma lasts_ext E w w' : w_bks w' = w_bks w -> w_next w' = w_next w -> w_pvars w' = w_pvars w -> lasts E w -> lasts E w'.
Proof. intros Hb Hn Hp H b bk L f. rewrite Hb, Hn, Hp. apply H. Qed.

Lemma conv_with_ideal E w L lfmt bk fmt r : wf E w -> nest0 w -> owned E w bk L lfmt ->
  w_pvars w L = init_vars E (b_cls bk) (b_user bk) (b_opts bk) lfmt ->
  let w' := fst (conv_with E w L lfmt bk fmt r) in
  snd (conv_with E w L lfmt bk fmt r) = snd (ideal_rule E (b_cls bk) (b_user bk) (b_opts bk) lfmt fmt r)
  /\ w_ps w' L = fst (ideal_rule E (b_cls bk) (b_user bk) (b_opts bk) lfmt fmt r)
  /\ wf E w' /\ w_owner w' = w_owner w /\ w_bks w' = w_bks w /\ w_next w' = w_next w /\ w_pvars w' = w_pvars w
  /\ nest0 w'.
Proof.
  intros [[Ht Hc] [Hv Hl]] Hn Hown Hpv. unfold conv_with, ideal_rule.
  set (w2 := set_ps w L ps0).
  assert (Hown2 : forall p, In p (pipe_pairs E (b_cls bk) (b_user bk) lfmt) -> w_owner w2 (fst p) = Some L)
    by (intros p Hp; apply Hown; exact Hp).
  assert (Hv2 : vcs E w2) by (eapply vcs_ext; [|exact Hv]; reflexivity).
  assert (Hpv2 : w_pvars w2 L = init_vars E (b_cls bk) (b_user bk) (b_opts bk) lfmt) by exact Hpv.
  destruct (apply_items_ideal E _ _ w2 L r Hown2 Hv2 Hpv2 (pipe_pairs_valid E _ _ _)) as [H1 H2].
  pose proof (apply_items_frame E (pipe_pairs E (b_cls bk) (b_user bk) lfmt) w2 L r) as [F1 [F2 [F3 [F4 [F5 F6]]]]].
  pose proof (apply_items_vcs E (pipe_pairs E (b_cls bk) (b_user bk) lfmt) w2 L r Hv2 (pipe_pairs_valid E _ _ _)) as Hv3.
  pose proof (apply_items_nest E (pipe_pairs E (b_cls bk) (b_user bk) lfmt) w2 L r) as Hn3.
  rewrite pipe_pairs_defs in H1, H2.
  assert (Hps2 : w_ps w2 L = ps0) by (unfold w2; simpl; rewrite Nat.eqb_refl; reflexivity).
  rewrite Hps2 in H1, H2.
  destruct (apply_items E w2 L r (pipe_pairs E (b_cls bk) (b_user bk) lfmt)) as [w3 res].
  destruct (ideal_items E (init_vars E (b_cls bk) (b_user bk) (b_opts bk) lfmt) ps0 r (pipe_defs E (b_cls bk) (b_user bk) lfmt)) as [ps res'].
  simpl in *. subst res' ps.
  assert (Hl3 : lasts E w3) by (apply (lasts_ext E w w3 F4 F5 F6 Hl)).
  assert (Hn3' : nest0 w3) by (apply (nest0_ext w w3 Hn3 Hn)).
  destruct res as [r'|e]; simpl.
  - assert (Hwf3 : wf0 E w3) by (split; [rewrite F1; exact Ht | rewrite F2; exact Hc]).
    destruct (conv_conds_ideal E (b_cls bk) (r_dets r') (finish_query E (b_cls bk) (ps_state (w_ps w3 L))) (r_conds r') w3 Hwf3) as [Hq [Hwf4 [Ho4 [Hps4 [Hb4 [Hn4 [Hv4 Hpv4]]]]]]].
    pose proof (conv_conds_nest E (b_cls bk) (r_dets r') (finish_query E (b_cls bk) (ps_state (w_ps w3 L))) (r_conds r') w3) as Hne4.
    destruct (conv_conds E (b_cls bk) (r_dets r') (finish_query E (b_cls bk) (ps_state (w_ps w3 L))) w3 (r_conds r')) as [w4 qs]. simpl in *. subst qs.
    assert (Hv4' : vcs E w4) by (eapply vcs_ext; [exact Hv4 | exact Hv3]).
    assert (Hl4 : lasts E w4) by (apply (lasts_ext E w3 w4 Hb4 Hn4 Hpv4 Hl3)).
    assert (Hn4' : nest0 w4) by (apply (nest0_ext w3 w4 Hne4 Hn3')).
    destruct (omap (ideal_cond E (e_ne E (b_cls bk)) (r_dets r') (finish_query E (b_cls bk) (ps_state (w_ps w3 L)))) (r_conds r')) as [l|e|e]; simpl.
    + set (fl := map (finalize fmt (ps_state (w_ps w3 L)) r') l).
      assert (Hown4 : forall p, In p (pipe_pairs E (b_cls bk) (b_user bk) lfmt) -> w_owner w4 (fst p) = Some L)
        by (intros p Hp; rewrite Ho4, F3; apply Hown; exact Hp).
      destruct (post_all_ideal (pipe_pairs E (b_cls bk) (b_user bk) lfmt) L r' fl w4 Hown4 Hn4') as [P1 P2].
      destruct (post_all_frame (pipe_pairs E (b_cls bk) (b_user bk) lfmt) L r' fl w4) as [[G1 [G2 [G3 [G4 [G5 G6]]]]] [G7 _]].
      pose proof (post_all_nest0 (pipe_pairs E (b_cls bk) (b_user bk) lfmt) L r' fl w4 Hn4') as Hn5.
      rewrite pipe_pairs_defs in P1, P2. rewrite Hps4 in P1, P2.
      destruct (post_all w4 L r' fl (pipe_pairs E (b_cls bk) (b_user bk) lfmt)) as [w5 l'].
      destruct (ideal_post_all (w_ps w3 L) r' fl (pipe_defs E (b_cls bk) (b_user bk) lfmt)) as [ps2 l2].
      simpl in *. subst l2 ps2.
      split; [reflexivity|]. split; [reflexivity|].
      split; [split; [split; [rewrite G1; apply Hwf4 | rewrite G2; apply Hwf4] |
                      split; [eapply vcs_ext; [exact G7 | exact Hv4'] | apply (lasts_ext E w4 w5 G4 G5 G6 Hl4)]]|].
      split; [congruence|]. split; [congruence|]. split; [congruence|]. split; [congruence | exact Hn5].
    + split; [reflexivity|]. split; [rewrite Hps4; reflexivity|].
      split; [split; [exact Hwf4 | split; [exact Hv4' | exact Hl4]]|].
      split; [congruence|]. split; [congruence|]. split; [congruence|]. split; [congruence | exact Hn4'].
    + split; [reflexivity|]. split; [rewrite Hps4; reflexivity|].
      split; [split; [exact Hwf4 | split; [exact Hv4' | exact Hl4]]|].
      split; [congruence|]. split; [congruence|]. split; [congruence|]. split; [congruence | exact Hn4'].
  - split; [reflexivity|]. split; [reflexivity|].
    split; [split; [split; [rewrite F1; exact Ht | rewrite F2; exact Hc] | split; [exact Hv3 | exact Hl3]]|].
    split; [assumption|]. split; [assumption|]. split; [assumption|]. split; [assumption | exact Hn3'].
Qed.

(* without any assumption on the owner links the invariants are still kept *)
Lemma conv_with_wf E w L lfmt bk fmt r : wf E w ->
  let w' := fst (conv_with E w L lfmt bk fmt r) in
  wf E w' /\ w_owner w' = w_owner w /\ w_bks w' = w_bks w /\ w_next w' = w_next w.
Proof.
  intros [[Ht Hc] [Hv Hl]]. unfold conv_with. set (w2 := set_ps w L ps0).
  assert (Hv2 : vcs E w2) by (eapply vcs_ext; [|exact Hv]; reflexivity).
  pose proof (apply_items_frame E (pipe_pairs E (b_cls bk) (b_user bk) lfmt) w2 L r) as [F1 [F2 [F3 [F4 [F5 F6]]]]].
  pose proof (apply_items_vcs E (pipe_pairs E (b_cls bk) (b_user bk) lfmt) w2 L r Hv2 (pipe_pairs_valid E _ _ _)) as Hv3.
  destruct (apply_items E w2 L r (pipe_pairs E (b_cls bk) (b_user bk) lfmt)) as [w3 res]. simpl in *.
  assert (Hwf3 : wf0 E w3) by (split; [rewrite F1; exact Ht | rewrite F2; exact Hc]).
  assert (Hl3 : lasts E w3) by (apply (lasts_ext E w w3 F4 F5 F6 Hl)).
  destruct res as [r'|e]; simpl.
  - destruct (conv_conds_ideal E (b_cls bk) (r_dets r') (finish_query E (b_cls bk) (ps_state (w_ps w3 L))) (r_conds r') w3 Hwf3) as [_ [Hwf4 [Ho4 [Hps4 [Hb4 [Hn4 [Hv4 Hpv4]]]]]]].
    destruct (conv_conds E (b_cls bk) (r_dets r') (finish_query E (b_cls bk) (ps_state (w_ps w3 L))) w3 (r_conds r')) as [w4 qs]. simpl in *.
    assert (Hv4' : vcs E w4) by (eapply vcs_ext; [exact Hv4 | exact Hv3]).
    assert (Hl4 : lasts E w4) by (apply (lasts_ext E w3 w4 Hb4 Hn4 Hpv4 Hl3)).
    destruct qs as [l|e|e]; simpl.
    + set (fl := map (finalize fmt (ps_state (w_ps w3 L)) r') l).
      destruct (post_all_frame (pipe_pairs E (b_cls bk) (b_user bk) lfmt) L r' fl w4) as [[G1 [G2 [G3 [G4 [G5 G6]]]]] [G7 _]].
      destruct (post_all w4 L r' fl (pipe_pairs E (b_cls bk) (b_user bk) lfmt)) as [w5 l']. simpl in *.
      split; [split; [split; [rewrite G1; apply Hwf4 | rewrite G2; apply Hwf4] |
                      split; [eapply vcs_ext; [exact G7 | exact Hv4'] | apply (lasts_ext E w4 w5 G4 G5 G6 Hl4)]]|].
      split; [congruence|]. split; congruence.
    + split; [split; [exact Hwf4 | split; [exact Hv4' | exact Hl4]]|]. repeat split; congruence.
    + split; [split; [exact Hwf4 | split; [exact Hv4' | exact Hl4]]|]. repeat split; congruence.
  - split; [split; [exact Hwf3 | split; [exact Hv3 | exact Hl3]]|]. repeat split; assumption.
Qed.

(* the nested pipelines are untouched after a conversion, whatever the owner links are *)
Lemma conv_with_nest0 E w L lfmt bk fmt r : nest0 w -> nest0 (fst (conv_with E w L lfmt bk fmt r)).
Proof.
  intros Hn. unfold conv_with.
  pose proof (apply_items_nest E (pipe_pairs E (b_cls bk) (b_user bk) lfmt) (set_ps w L ps0) L r) as Hn3.
  destruct (apply_items E (set_ps w L ps0) L r (pipe_pairs E (b_cls bk) (b_user bk) lfmt)) as [w3 res]. simpl in Hn3.
  assert (H3 : nest0 w3) by (apply (nest0_ext w w3 Hn3 Hn)).
  destruct res as [r'|e]; simpl; [|exact H3].
  pose proof (conv_conds_nest E (b_cls bk) (r_dets r') (finish_query E (b_cls bk) (ps_state (w_ps w3 L))) (r_conds r') w3) as Hn4.
  destruct (conv_conds E (b_cls bk) (r_dets r') (finish_query E (b_cls bk) (ps_state (w_ps w3 L))) w3 (r_conds r')) as [w4 qs].
  simpl in Hn4. assert (H4 : nest0 w4) by (apply (nest0_ext w3 w4 Hn4 H3)).
  destruct qs as [l|e|e]; simpl; try exact H4.
  pose proof (post_all_nest0 (pipe_pairs E (b_cls bk) (b_user bk) lfmt) L r' (map (finalize fmt (ps_state (w_ps w3 L)) r') l) w4 H4) as H5.
  destruct (post_all w4 L r' (map (finalize fmt (ps_state (w_ps w3 L)) r') l) (pipe_pairs E (b_cls bk) (b_user bk) lfmt)) as [w5 l'].
  exact H5.
Qed.

(* ---------- init ---------- *)
Lemma iid_eqb_refl i : iid_eqb i i = true.
Proof.
  destruct i as [s n]. unfold iid_eqb. simpl. rewrite Nat.eqb_refl, andb_true_r.
  destruct s; simpl; rewrite ?N.eqb_refl; reflexivity.
Qed.
Lemma init_owned E w b bk fmt :
  owned E (init_pipeline E w b bk fmt) bk (w_next w) fmt.
Proof.
  intros p Hp. unfold init_pipeline. simpl.
  assert (H : existsb (iid_eqb (fst p)) (map fst (pipe_pairs E (b_cls bk) (b_user bk) fmt)) = true).
  { apply existsb_exists. exists (fst p). split; [apply in_map; exact Hp | apply iid_eqb_refl]. }
  rewrite H. reflexivity.
Qed.
Lemma init_pvars E w b bk fmt :
  w_pvars (init_pipeline E w b bk fmt) (w_next w) = init_vars E (b_cls bk) (b_user bk) (b_opts bk) fmt.
Proof. unfold init_pipeline. simpl. rewrite Nat.eqb_refl. reflexivity. Qed.

Lemma nth_error_set_nth {A} (l : list A) : forall n x y, nth_error l n = Some y -> nth_error (set_nth n x l) n = Some x.
Proof.
  induction l as [|a l IH]; intros [|n] x y H; simpl in *; try discriminate; [reflexivity|].
  eapply IH. exact H.
Qed.
Lemma nth_error_set_nth_same {A} (l : list A) : forall n x y, nth_error (set_nth n x l) n = Some y -> y = x.
Proof.
  induction l as [|a l IH]; intros [|n] x y H; simpl in *; try discriminate; [congruence|].
  eapply IH. exact H.
Qed.
Lemma nth_error_set_nth_neq {A} (l : list A) : forall n m x, n <> m -> nth_error (set_nth n x l) m = nth_error l m.
Proof.
  induction l as [|a l IH]; intros [|n] [|m] x H; simpl; try reflexivity; try congruence.
  apply IH. congruence.
Qed.

Lemma init_wf E w b bk fmt : wf E w -> wf E (init_pipeline E w b bk fmt).
Proof.
  intros [[H1 H2] [H3 H4]]. split; [split; assumption|]. split; [exact H3|].
  intros b' bk' L f Hb Hl. unfold init_pipeline in Hb |- *. simpl in Hb |- *.
  destruct (Nat.eq_dec b b') as [->|Hne].
  - apply nth_error_set_nth_same in Hb. subst bk'. simpl in Hl. inversion Hl; subst L f. simpl.
    split; [lia|]. rewrite Nat.eqb_refl. reflexivity.
  - rewrite nth_error_set_nth_neq in Hb by exact Hne. destruct (H4 b' bk' L f Hb Hl) as [A B].
    split; [lia|]. destruct (Nat.eqb L (w_next w)) eqn:Ee; [apply Nat.eqb_eq in Ee; lia | exact B].
Qed.

(* ---------- the frame property ---------- *)
Lemma owns_ok_owned E w bk L f : b_last bk = Some (L, f) -> owns_ok E w bk = true -> owned E w bk L f.
Proof.
  intros Hl H p Hp. unfold owns_ok in H. rewrite Hl in H.
  rewrite forallb_forall in H. specialize (H p Hp).
  destruct (w_owner w (fst p)) as [o|]; [|discriminate]. apply Nat.eqb_eq in H. subst. reflexivity.
Qed.

Lemma snap_set w b bk L f : nth_error (w_bks w) b = Some bk -> b_last bk = Some (L, f) ->
  snap w b = Some (w_ps w L).
Proof. intros H1 H2. unfold snap. rewrite H1, H2. reflexivity. Qed.

Lemma load_wf E w r : wf E w -> wf E (load w r).
Proof. intros H. exact H. Qed.

Lemma frame_rule E w b bk fmt r :
  wf E w -> nest0 w -> nth_error (w_bks w) b = Some bk -> owns_ok E w bk = true -> fmt_ok bk fmt = true ->
  out_obs (snd (step E w (OConvRule b r fmt))) =
  ideal_obs_rule E (b_cls bk) (b_user bk) (b_collect bk) (b_opts bk) fmt r.
Proof.
  intros Hwf Hn0 Hb Hown Hfmt. simpl. rewrite Hb. unfold conv_rule_raw, ideal_obs_rule.
  destruct (b_last bk) as [[L f]|] eqn:El.
  - unfold fmt_ok in Hfmt. rewrite El in Hfmt. apply N.eqb_eq in Hfmt. subst f.
    assert (Ho : owned E (load w r) bk L fmt) by (apply (owns_ok_owned E w bk L fmt El Hown)).
    assert (Hpv : w_pvars (load w r) L = init_vars E (b_cls bk) (b_user bk) (b_opts bk) fmt).
    { destruct Hwf as [_ [_ Hl]]. apply (Hl b bk L fmt Hb El). }
    destruct (conv_with_ideal E (load w r) L fmt bk fmt r (load_wf E w r Hwf) Hn0 Ho Hpv) as [Hq [Hps [_ [_ [Hbk _]]]]].
    destruct (conv_with E (load w r) L fmt bk fmt r) as [w1 q]. simpl in *.
    assert (Hsnap : snap w1 b = Some (w_ps w1 L)).
    { apply (snap_set w1 b bk L fmt); [rewrite Hbk; exact Hb | exact El]. }
    destruct (ideal_rule E (b_cls bk) (b_user bk) (b_opts bk) fmt fmt r) as [ps q']. simpl in *. subst q' ps.
    rewrite Hsnap. destruct q as [l|e|e]; [reflexivity | destruct (b_collect bk); reflexivity | reflexivity].
  - set (w0 := init_pipeline E (load w r) b bk fmt).
    assert (Hwf0 : wf E w0) by (apply init_wf; exact Hwf).
    pose proof (init_owned E (load w r) b bk fmt) as Ho.
    pose proof (init_pvars E (load w r) b bk fmt) as Hpv.
    destruct (conv_with_ideal E w0 (w_next (load w r)) fmt bk fmt r Hwf0 Hn0 Ho Hpv) as [Hq [Hps [_ [_ [Hbk _]]]]].
    fold w0. destruct (conv_with E w0 (w_next (load w r)) fmt bk fmt r) as [w1 q]. simpl in Hq, Hps, Hbk.
    assert (Hsnap : snap w1 b = Some (w_ps w1 (w_next (load w r)))).
    { unfold snap. rewrite Hbk. unfold w0, init_pipeline. simpl.
      erewrite nth_error_set_nth; [reflexivity | exact Hb]. }
    destruct (ideal_rule E (b_cls bk) (b_user bk) (b_opts bk) fmt fmt r) as [ps q']. simpl in *. subst q' ps.
    rewrite Hsnap. destruct q as [l|e|e]; [reflexivity | destruct (b_collect bk); reflexivity | reflexivity].
Qed.

(* convert(): the pipeline object is rebuilt first, so nothing has to be assumed about owner links *)
Lemma conv_rules_ideal E b fmt collect L cls user opts : forall rs w acc errs,
  wf E w -> nest0 w ->
  (exists bk, nth_error (w_bks w) b = Some bk /\ b_last bk = Some (L, fmt) /\ b_cls bk = cls /\ b_user bk = user
              /\ b_opts bk = opts /\ owned E w bk L fmt) ->
  let '(w', q, errs') := conv_rules E w b fmt collect rs acc errs in
  {| o_res := q; o_errs := errs'; o_snap := snap w' b |} = ideal_rules E cls user collect opts fmt rs acc errs (w_ps w L).
Proof.
  induction rs as [|r rs IH]; intros w acc errs Hwf Hn0 [bk [Hb [Hl [Hc [Hu [Hop Ho]]]]]]; simpl.
  - rewrite (snap_set w b bk L fmt Hb Hl). reflexivity.
  - rewrite Hb. unfold conv_rule_raw. rewrite Hl.
    assert (Hpv : w_pvars w L = init_vars E (b_cls bk) (b_user bk) (b_opts bk) fmt).
    { destruct Hwf as [_ [_ Hls]]. apply (Hls b bk L fmt Hb Hl). }
    destruct (conv_with_ideal E w L fmt bk fmt r Hwf Hn0 Ho Hpv) as [Hq [Hps [Hwf1 [Hown1 [Hbk1 [_ [_ Hn1]]]]]]].
    destruct (conv_with E w L fmt bk fmt r) as [w1 q]. simpl in Hq, Hps, Hwf1, Hown1, Hbk1, Hn1.
    rewrite Hc, Hu, Hop in Hq, Hps.
    destruct (ideal_rule E cls user opts fmt fmt r) as [ps q']. simpl in Hq, Hps. subst q' ps.
    assert (Hex : exists bk0, nth_error (w_bks w1) b = Some bk0 /\ b_last bk0 = Some (L, fmt) /\ b_cls bk0 = cls
                              /\ b_user bk0 = user /\ b_opts bk0 = opts /\ owned E w1 bk0 L fmt).
    { exists bk. rewrite Hbk1. repeat split; try assumption. intros p Hp. rewrite Hown1. apply Ho. exact Hp. }
    assert (Hsnap : snap w1 b = Some (w_ps w1 L)) by (apply (snap_set w1 b bk L fmt); [rewrite Hbk1; exact Hb | exact Hl]).
    destruct q as [l|e|e].
    + apply (IH w1 (acc ++ l) errs Hwf1 Hn1 Hex).
    + destruct collect.
      * apply (IH w1 acc (errs ++ [e]) Hwf1 Hn1 Hex).
      * rewrite Hsnap. reflexivity.
    + rewrite Hsnap. reflexivity.
Qed.

Lemma fold_load_frame rs : forall w, w_tpl (fold_left load rs w) = w_tpl w /\ w_cache (fold_left load rs w) = w_cache w
  /\ w_bks (fold_left load rs w) = w_bks w.
Proof. induction rs as [|r rs IH]; intros w; simpl; [repeat split | apply (IH (load w r))]. Qed.
Lemma fold_load_wf E rs : forall w, wf E w -> wf E (fold_left load rs w).
Proof. induction rs as [|r rs IH]; intros w H; simpl; [exact H | apply IH; apply load_wf; exact H]. Qed.

Lemma fold_load_nest rs : forall w, w_nest (fold_left load rs w) = w_nest w.
Proof. induction rs as [|r rs IH]; intros w; simpl; [reflexivity | rewrite IH; reflexivity]. Qed.

Lemma frame_coll E w b bk fmt rs :
  wf E w -> nest0 w -> nth_error (w_bks w) b = Some bk ->
  out_obs (snd (step E w (OConvColl b rs fmt))) =
  ideal_obs_coll E (b_cls bk) (b_user bk) (b_collect bk) (b_opts bk) fmt rs.
Proof.
  intros Hwf Hn0 Hb. simpl. rewrite Hb.
  assert (Hnl : nest0 (init_pipeline E (fold_left load rs w) b bk fmt)).
  { intros i. simpl. rewrite fold_load_nest. apply Hn0. }
  set (wl := fold_left load rs w). destruct (fold_load_frame rs w) as [F1 [F2 F3]]. fold wl in F1, F2, F3.
  set (w0 := init_pipeline E wl b bk fmt).
  assert (Hwf0 : wf E w0) by (apply init_wf; apply fold_load_wf; exact Hwf).
  set (bk0 := {| b_cls := b_cls bk; b_user := b_user bk; b_collect := b_collect bk; b_opts := b_opts bk;
                 b_last := Some (w_next wl, fmt) |}).
  assert (Hex : exists bk1, nth_error (w_bks w0) b = Some bk1 /\ b_last bk1 = Some (w_next wl, fmt) /\ b_cls bk1 = b_cls bk
                            /\ b_user bk1 = b_user bk /\ b_opts bk1 = b_opts bk /\ owned E w0 bk1 (w_next wl) fmt).
  { exists bk0. split; [|repeat split].
    - unfold w0, init_pipeline. simpl. eapply nth_error_set_nth. rewrite F3. exact Hb.
    - apply (init_owned E wl b bk fmt). }
  pose proof (conv_rules_ideal E b fmt (b_collect bk) (w_next wl) (b_cls bk) (b_user bk) (b_opts bk) rs w0 [] [] Hwf0 Hnl Hex) as H.
  destruct (conv_rules E w0 b fmt (b_collect bk) rs [] []) as [[w1 q] errs]. simpl.
  rewrite H. unfold ideal_obs_coll.
  assert (Hps : w_ps w0 (w_next wl) = ps0) by (unfold w0, init_pipeline; simpl; rewrite Nat.eqb_refl; reflexivity).
  rewrite Hps. reflexivity.
Qed.

(* ---------- every reachable world satisfies the invariant ---------- *)
Lemma conv_rules_wf E b fmt collect : forall rs w acc errs, wf E w ->
  wf E (fst (fst (conv_rules E w b fmt collect rs acc errs))).
Proof.
  induction rs as [|r rs IH]; intros w acc errs Hwf; simpl; [exact Hwf|].
  destruct (nth_error (w_bks w) b) as [bk|]; [|exact Hwf].
  assert (Hwf1 : wf E (fst (conv_rule_raw E w b bk fmt r))).
  { unfold conv_rule_raw. destruct (b_last bk) as [[L f]|].
    - apply conv_with_wf. exact Hwf.
    - apply conv_with_wf. apply init_wf. exact Hwf. }
  destruct (conv_rule_raw E w b bk fmt r) as [w1 q]. simpl in Hwf1.
  destruct q as [l|e|e]; [apply IH; exact Hwf1 | destruct collect; [apply IH; exact Hwf1 | exact Hwf1] | exact Hwf1].
Qed.

Lemma step_wf E w o : wf E w -> wf E (fst (step E w o)).
Proof.
  intros Hwf. destruct o as [r|cls user collect opts|b fmt|b rs fmt|b r fmt]; simpl.
  - exact Hwf.
  - destruct Hwf as [H0 [Hv Hl]]. split; [exact H0|]. split; [exact Hv|].
    intros b bk L f Hb Hla. simpl in Hb.
    destruct (Nat.lt_ge_cases b (List.length (w_bks w))) as [Hlt|Hge].
    + rewrite nth_error_app1 in Hb by exact Hlt. apply (Hl b bk L f Hb Hla).
    + rewrite nth_error_app2 in Hb by exact Hge. destruct (b - List.length (w_bks w))%nat as [|k]; simpl in Hb.
      * inversion Hb; subst bk. discriminate.
      * destruct k; discriminate.
  - destruct (nth_error (w_bks w) b); simpl; [apply init_wf|]; exact Hwf.
  - destruct (nth_error (w_bks w) b) as [bk|]; simpl; [|exact Hwf].
    assert (H0 : wf E (init_pipeline E (fold_left load rs w) b bk fmt)) by (apply init_wf; apply fold_load_wf; exact Hwf).
    pose proof (conv_rules_wf E b fmt (b_collect bk) rs _ [] [] H0) as H.
    destruct (conv_rules E (init_pipeline E (fold_left load rs w) b bk fmt) b fmt (b_collect bk) rs [] []) as [[w1 q] errs].
    exact H.
  - destruct (nth_error (w_bks w) b) as [bk|]; simpl; [|exact Hwf].
    assert (Hwf1 : wf E (fst (conv_rule_raw E (load w r) b bk fmt r))).
    { unfold conv_rule_raw. destruct (b_last bk) as [[L f]|].
      - apply conv_with_wf. exact Hwf.
      - apply conv_with_wf. apply init_wf. exact Hwf. }
    destruct (conv_rule_raw E (load w r) b bk fmt r) as [w1 q]. exact Hwf1.
Qed.

Lemma init_world_wf E : wf E init.
Proof.
  split; [split; [intros c; reflexivity | intros k t H; discriminate]|].
  split; [intros i it d v H; discriminate | intros b bk L f H; destruct b; discriminate].
Qed.

Lemma run_wf E : forall ops w, wf E w -> wf E (fst (run E w ops)).
Proof.
  induction ops as [|o ops IH]; intros w Hwf; simpl; [exact Hwf|].
  pose proof (step_wf E w o Hwf) as H1. destruct (step E w o) as [w1 x]. simpl in H1.
  specialize (IH w1 H1). destruct (run E w1 ops) as [w2 xs]. exact IH.
Qed.

Lemma conv_rule_raw_nest0 E w b bk fmt r : nest0 w -> nest0 (fst (conv_rule_raw E w b bk fmt r)).
Proof.
  intros H. unfold conv_rule_raw. destruct (b_last bk) as [[L f]|]; apply conv_with_nest0; exact H.
Qed.
Lemma conv_rules_nest0 E b fmt collect : forall rs w acc errs, nest0 w ->
  nest0 (fst (fst (conv_rules E w b fmt collect rs acc errs))).
Proof.
  induction rs as [|r rs IH]; intros w acc errs H; simpl; [exact H|].
  destruct (nth_error (w_bks w) b) as [bk|]; [|exact H].
  pose proof (conv_rule_raw_nest0 E w b bk fmt r H) as H1. destruct (conv_rule_raw E w b bk fmt r) as [w1 q]. simpl in H1.
  destruct q as [l|e|e]; [apply IH; exact H1 | destruct collect; [apply IH; exact H1 | exact H1] | exact H1].
Qed.
Lemma step_nest0 E w o : nest0 w -> nest0 (fst (step E w o)).
Proof.
  intros H. destruct o as [r|cls user collect opts|b fmt|b rs fmt|b r fmt]; simpl.
  - exact H.
  - exact H.
  - destruct (nth_error (w_bks w) b); simpl; exact H.
  - destruct (nth_error (w_bks w) b) as [bk|]; simpl; [|exact H].
    assert (H0 : nest0 (init_pipeline E (fold_left load rs w) b bk fmt)).
    { intros i. simpl. rewrite fold_load_nest. apply H. }
    pose proof (conv_rules_nest0 E b fmt (b_collect bk) rs _ [] [] H0) as H1.
    destruct (conv_rules E (init_pipeline E (fold_left load rs w) b bk fmt) b fmt (b_collect bk) rs [] []) as [[w1 q] errs].
    exact H1.
  - destruct (nth_error (w_bks w) b) as [bk|]; simpl; [|exact H].
    pose proof (conv_rule_raw_nest0 E (load w r) b bk fmt r H) as H1.
    destruct (conv_rule_raw E (load w r) b bk fmt r) as [w1 q]. exact H1.
Qed.
Lemma run_nest0 E : forall ops w, nest0 w -> nest0 (fst (run E w ops)).
Proof.
  induction ops as [|o ops IH]; intros w H; simpl; [exact H|].
  pose proof (step_nest0 E w o H) as H1. destruct (step E w o) as [w1 x]. simpl in H1.
  specialize (IH w1 H1). destruct (run E w1 ops) as [w2 xs]. exact IH.
Qed.
Lemma init_nest0 : nest0 init.
Proof. intros i. reflexivity. Qed.

(* ---------- main theorems ---------- *)
Theorem frame_rule_reachable E ops b bk fmt r :
  let w := fst (run E init ops) in
  nth_error (w_bks w) b = Some bk -> owns_ok E w bk = true -> fmt_ok bk fmt = true ->
  out_obs (snd (step E w (OConvRule b r fmt))) =
  ideal_obs_rule E (b_cls bk) (b_user bk) (b_collect bk) (b_opts bk) fmt r.
Proof. intros w. apply frame_rule; [apply run_wf; apply init_world_wf | apply run_nest0; apply init_nest0]. Qed.

Theorem frame_coll_reachable E ops b bk fmt rs :
  let w := fst (run E init ops) in
  nth_error (w_bks w) b = Some bk ->
  out_obs (snd (step E w (OConvColl b rs fmt))) =
  ideal_obs_coll E (b_cls bk) (b_user bk) (b_collect bk) (b_opts bk) fmt rs.
Proof. intros w. apply frame_coll; [apply run_wf; apply init_world_wf | apply run_nest0; apply init_nest0]. Qed.

(* the same probe in a world where nothing has happened: one new backend of the same configuration *)
Definition fresh_world (E : env) (bk : backend) : world :=
  fst (step E init (ONew (b_cls bk) (b_user bk) (b_collect bk) (b_opts bk))).

Theorem fresh_rule E ops b bk fmt r :
  let w := fst (run E init ops) in
  nth_error (w_bks w) b = Some bk -> owns_ok E w bk = true -> fmt_ok bk fmt = true ->
  out_obs (snd (step E w (OConvRule b r fmt))) = out_obs (snd (step E (fresh_world E bk) (OConvRule 0 r fmt))).
Proof.
  intros w Hb Ho Hf. subst w. rewrite (frame_rule_reachable E ops b bk fmt r Hb Ho Hf).
  symmetry.
  apply (frame_rule E (fresh_world E bk) 0
           {| b_cls := b_cls bk; b_user := b_user bk; b_collect := b_collect bk; b_opts := b_opts bk; b_last := None |} fmt r).
  - apply (step_wf E init). apply init_world_wf.
  - apply (step_nest0 E init). apply init_nest0.
  - reflexivity.
  - reflexivity.
  - reflexivity.
Qed.

Theorem fresh_coll E ops b bk fmt rs :
  let w := fst (run E init ops) in
  nth_error (w_bks w) b = Some bk ->
  out_obs (snd (step E w (OConvColl b rs fmt))) = out_obs (snd (step E (fresh_world E bk) (OConvColl 0 rs fmt))).
Proof.
  intros w Hb. subst w. rewrite (frame_coll_reachable E ops b bk fmt rs Hb).
  symmetry.
  apply (frame_coll E (fresh_world E bk) 0
           {| b_cls := b_cls bk; b_user := b_user bk; b_collect := b_collect bk; b_opts := b_opts bk; b_last := None |} fmt rs).
  - apply (step_wf E init). apply init_world_wf.
  - apply (step_nest0 E init). apply init_nest0.
  - reflexivity.
Qed.

(* class templates, parse cache, external-source value caches and pipeline variables after any history *)
Theorem invariant_reachable E ops :
  let w := fst (run E init ops) in
  (forall c, w_tpl w c = tpl0) /\ (forall k t, lookup k (w_cache w) = Some t -> e_parse E k = Some t) /\
  (forall i it d v, w_vc w i = Some v -> valid_pair E i it -> i_tr it = TFile d -> e_src E d = Ok v) /\
  (forall b bk L f, nth_error (w_bks w) b = Some bk -> b_last bk = Some (L, f) ->
     w_pvars w L = init_vars E (b_cls bk) (b_user bk) (b_opts bk) f) /\
  (forall i, w_nest w i = ([], [])).
Proof.
  intros w. destruct (run_wf E ops init (init_world_wf E)) as [[H1 H2] [H3 H4]].
  split; [exact H1|]. split; [exact H2|]. split; [exact H3|].
  split; [intros b bk L f Hb Hl; apply (H4 b bk L f Hb Hl) | apply run_nest0; apply init_nest0].
Qed.
