(* C20 - the redraw loop of SigmaFilter.apply_on_rule makes the result independent of the draw sequence:
   for EVERY sequence of candidate draws per filter application (repeated draws, the same draw first in every
   application, ...) in which the loop finds an acceptable prefix, the prefixes it accepts are fresh, and the rule
   with its filters resolves to the nameless specification. *)
From Coq Require Import Arith NArith List Bool Permutation Lia.
From PS Require Import Base.Chars Model.Determinism Spec.DetSpec Proofs.DeterminismP Proofs.NamesP.
Import ListNotations.
Open Scope N_scope.

Lemma pick_spec s m p rest : pick s m = Some (p, rest) -> In p s /\ prefix_free p m = true.
Proof.
  induction s as [|x s IH]; simpl; [discriminate|].
  destruct (prefix_free x m) eqn:E.
  - intros H. inversion H; subst. split; [left; reflexivity | exact E].
  - intros H. destruct (IH H) as [H1 H2]. split; [right; exact H1 | exact H2].
Qed.

Lemma prefix_free_spec p m : prefix_free p m = true <-> forall k, In k (map fst m) -> prefixb p k = false.
Proof.
  unfold prefix_free. rewrite forallb_forall. split.
  - intros H k Hk. apply in_map_iff in Hk. destruct Hk as [kv [<- Hkv]]. apply negb_true_iff. apply H. exact Hkv.
  - intros H kv Hkv. apply negb_true_iff. apply H. apply in_map. exact Hkv.
Qed.

Lemma pfx_inj p a b : pfx p a = pfx p b -> a = b.
Proof. unfold pfx. intros H. apply app_inv_head in H. inversion H. reflexivity. Qed.

Lemma NoDup_app_intro {A} (a b : list A) :
  NoDup a -> NoDup b -> (forall x, In x a -> ~ In x b) -> NoDup (a ++ b).
Proof.
  induction a as [|x a IH]; simpl; intros Ha Hb Hd; [exact Hb|].
  inversion Ha as [|? ? Hx Ha']; subst. constructor.
  - rewrite in_app_iff. intros [H|H]; [exact (Hx H) | exact (Hd x (or_introl eq_refl) H)].
  - apply IH; auto.
Qed.

Lemma NoDup_map_inj {A B} (f : A -> B) l : (forall a b, f a = f b -> a = b) -> NoDup l -> NoDup (map f l).
Proof.
  intros Hi. induction l as [|x l IH]; simpl; intros H; [constructor|].
  inversion H as [|? ? Hx Hl]; subst. constructor; [|apply IH; exact Hl].
  intros Hin. apply in_map_iff in Hin. destruct Hin as [y [E Hy]]. apply Hi in E. subst. exact (Hx Hy).
Qed.

Lemma NoDup_nodupb l : NoDup l -> nodupb l = true.
Proof.
  induction l as [|x l IH]; simpl; intros H; [reflexivity|].
  inversion H as [|? ? Hx Hl]; subst. rewrite IH by exact Hl. rewrite andb_true_r. apply negb_true_iff.
  destruct (smem x l) eqn:E; [|reflexivity]. apply smem_In in E. contradiction.
Qed.

Lemma block_keys p f : map fst (block (p, f)) = map (pfx p) (map fst (f_dets f)).
Proof. unfold block. simpl. rewrite !map_map. reflexivity. Qed.

(* static (draw independent) premise on a filter *)
Definition filter_okb (f : sfilter) : bool :=
  nodupb (map fst (f_dets f)) && negb (match f_dets f with [] => true | _ => false end) && closedb f.

Lemma apply_filter_dets p f r :
  NoDup (map fst (r_dets r)) -> NoDup (map fst (f_dets f)) -> prefix_free p (r_dets r) = true ->
  r_dets (apply_filter p f r) = r_dets r ++ block (p, f) /\ NoDup (map fst (r_dets r ++ block (p, f))).
Proof.
  intros Hr Hf Hp.
  assert (Hnd : NoDup (map fst (r_dets r ++ block (p, f)))).
  { rewrite map_app. apply NoDup_app_intro; [exact Hr | |].
    - rewrite block_keys. apply NoDup_map_inj; [apply pfx_inj | exact Hf].
    - intros k Hk Hb. rewrite block_keys in Hb. apply in_map_iff in Hb. destruct Hb as [n [<- _]].
      rewrite prefix_free_spec in Hp. specialize (Hp _ Hk). unfold pfx in Hp. rewrite prefixb_app in Hp. discriminate. }
  split; [|exact Hnd].
  unfold apply_filter. simpl. rewrite block_fold. apply fold_dset_fresh. exact Hnd.
Qed.

Lemma choose_props : forall fs streams r ch,
  choose streams fs r = Some ch ->
  NoDup (map fst (r_dets r)) ->
  forallb filter_okb fs = true ->
  length ch = length fs /\
  NoDup (map fst (r_dets r ++ concat (map block (combine (map fst ch) fs)))) /\
  (forall p, In p (map fst ch) -> prefix_free p (r_dets r) = true /\ exists s, In s streams /\ In p s) /\
  NoDup (map fst ch).
Proof.
  induction fs as [|f fs IH]; intros streams r ch Hch Hr Hok.
  - destruct streams; simpl in Hch; [|discriminate]. inversion Hch; subst. simpl. rewrite app_nil_r.
    repeat split; auto; try contradiction. constructor.
  - destruct streams as [|s ss]; simpl in Hch; [discriminate|].
    destruct (pick s (r_dets r)) as [[p rest]|] eqn:Ep; [|discriminate].
    destruct (choose ss fs (apply_filter p f r)) as [ch'|] eqn:Ec; [|discriminate].
    simpl in Hch. inversion Hch; subst ch. clear Hch.
    simpl in Hok. apply andb_true_iff in Hok. destruct Hok as [Hf Hok].
    unfold filter_okb in Hf. rewrite !andb_true_iff in Hf. destruct Hf as [[Hf1 Hf2] Hf3].
    apply nodupb_NoDup in Hf1.
    destruct (pick_spec _ _ _ _ Ep) as [Hin Hfree].
    destruct (apply_filter_dets p f r Hr Hf1 Hfree) as [Ed Hnd1].
    specialize (IH ss (apply_filter p f r) ch' Ec).
    rewrite Ed in IH. destruct (IH Hnd1 Hok) as [Hlen [Hnd [Hps Hndp]]].
    simpl. split; [lia|]. split; [rewrite <- app_assoc in Hnd; exact Hnd|]. split.
    + intros q [<-|Hq].
      * split; [exact Hfree | exists s; split; [left; reflexivity | exact Hin]].
      * destruct (Hps q Hq) as [H1 [s' [Hs' Hq']]]. split.
        -- unfold prefix_free in *. rewrite forallb_app in H1. apply andb_true_iff in H1. apply H1.
        -- exists s'. split; [right; exact Hs' | exact Hq'].
    + constructor; [|exact Hndp]. intros Hq. destruct (Hps p Hq) as [H1 _].
      unfold prefix_free in H1. rewrite forallb_app in H1. apply andb_true_iff in H1. destruct H1 as [_ H1].
      destruct (f_dets f) as [|[n v] l] eqn:Ef; [discriminate|].
      unfold block in H1. simpl in H1. rewrite Ef in H1. simpl in H1. apply andb_true_iff in H1. destruct H1 as [H1 _].
      unfold pfx in H1. rewrite prefixb_app in H1. discriminate.
Qed.

(* draw independent premise: shape of every candidate draw, dict keys unique, the rule's condition names no
   identifier and no pattern starting with '_', filters define at least one detection and only name their own *)
Definition static_okb (L : nat) (r : rule) (streams : list (list str)) (fs : list sfilter) : bool :=
  forallb (forallb (draw_okb L)) streams
  && nodupb (map fst (r_dets r))
  && forallb (fun n => negb (starts_us n)) (ids (r_cond r))
  && forallb (fun p => negb (starts_us p)) (pats (r_cond r))
  && forallb filter_okb fs.

Lemma internal_starts_us L D k :
  (forall d, In d D -> draw_okb L d = true) -> internalb D k = true -> starts_us k = true.
Proof.
  intros HD H. unfold internalb in H. apply existsb_exists in H. destruct H as [d [Hd Hp]].
  specialize (HD d Hd). unfold draw_okb in HD. rewrite !andb_true_iff in HD. destruct HD as [[_ Hu] _].
  destruct d as [|c d]; [discriminate|]. destruct k as [|c' k]; [discriminate|].
  simpl in *. apply andb_true_iff in Hp. destruct Hp as [Hp _]. apply N.eqb_eq in Hp. subst. exact Hu.
Qed.

Theorem redraw_makes_fresh L r streams fs ch :
  choose streams fs r = Some ch -> static_okb L r streams fs = true ->
  freshb L r (combine (map fst ch) fs) [] = true.
Proof.
  intros Hch Hst. unfold static_okb in Hst. rewrite !andb_true_iff in Hst.
  destruct Hst as [[[[Hs Hr] Hi] Hp] Hf].
  apply nodupb_NoDup in Hr.
  destruct (choose_props fs streams r ch Hch Hr Hf) as [Hlen [Hnd [Hps Hndp]]].
  assert (ED : drawn (combine (map fst ch) fs) [] = map fst ch).
  { unfold drawn. simpl. rewrite app_nil_r. clear - Hlen. revert fs Hlen.
    induction ch as [|c ch IH]; intros [|f fs] H; simpl in *; try discriminate; [reflexivity|].
    f_equal. apply IH. lia. }
  assert (HD : forall d, In d (map fst ch) -> draw_okb L d = true).
  { intros d Hd. destruct (Hps d Hd) as [_ [s [Hs1 Hs2]]]. rewrite forallb_forall in Hs.
    specialize (Hs s Hs1). rewrite forallb_forall in Hs. apply Hs. exact Hs2. }
  unfold freshb. rewrite ED. rewrite !andb_true_iff. repeat split.
  - apply forallb_forall. exact HD.
  - apply NoDup_nodupb. exact Hndp.
  - apply NoDup_nodupb. unfold all_dets. simpl. rewrite app_nil_r. exact Hnd.
  - apply forallb_forall. intros [k v] Hkv. simpl. apply negb_true_iff.
    destruct (internalb (map fst ch) k) eqn:E; [|reflexivity]. unfold internalb in E.
    apply existsb_exists in E. destruct E as [d [Hd Hpk]]. destruct (Hps d Hd) as [Hfree _].
    rewrite prefix_free_spec in Hfree. rewrite (Hfree k) in Hpk; [discriminate|].
    apply in_map_iff. exists (k, v). split; [reflexivity | exact Hkv].
  - apply forallb_forall. intros n Hn. apply negb_true_iff.
    destruct (internalb (map fst ch) n) eqn:E; [|reflexivity].
    apply (internal_starts_us L) in E; [|exact HD]. rewrite forallb_forall in Hi. specialize (Hi n Hn).
    rewrite E in Hi. discriminate.
  - exact Hp.
  - apply forallb_forall. intros [p f] Hpf. simpl. apply in_combine_r in Hpf.
    rewrite forallb_forall in Hf. specialize (Hf f Hpf). unfold filter_okb in Hf.
    rewrite !andb_true_iff in Hf. apply Hf.
Qed.

(* for every draw sequence the loop terminates on, the result is the nameless specification *)
Theorem filters_any_draws L r streams fs ch :
  choose streams fs r = Some ch -> static_okb L r streams fs = true ->
  names_run r (combine (map fst ch) fs) [] = spec_names r fs [].
Proof.
  intros Hch Hst. rewrite (names_spec L) by (eapply redraw_makes_fresh; eauto).
  f_equal. destruct (choose_props fs streams r ch Hch) as [Hlen _].
  - unfold static_okb in Hst. rewrite !andb_true_iff in Hst. apply nodupb_NoDup. apply Hst.
  - unfold static_okb in Hst. rewrite !andb_true_iff in Hst. apply Hst.
  - clear - Hlen. revert fs Hlen. induction ch as [|c ch IH]; intros [|f fs] H; simpl in *; try discriminate; [reflexivity|].
    f_equal. apply IH. lia.
Qed.

Corollary filters_draw_sequence_free L r fs streams streams' ch ch' :
  choose streams fs r = Some ch -> choose streams' fs r = Some ch' ->
  static_okb L r streams fs = true -> static_okb L r streams' fs = true ->
  names_run r (combine (map fst ch) fs) [] = names_run r (combine (map fst ch') fs) [].
Proof.
  intros H1 H2 S1 S2. rewrite (filters_any_draws L r streams fs ch H1 S1), (filters_any_draws L r streams' fs ch' H2 S2).
  reflexivity.
Qed.

(* the weaker acceptance test of the seeded change - "none of THIS filter's renamed identifiers exists yet" -
   lets two filters with different detection names share a prefix; the result then depends on the draws *)
Definition own_free (p : str) (f : sfilter) (m : list (str * str)) : bool :=
  forallb (fun kv => negb (haskey (pfx p (fst kv)) m)) (f_dets f).
Fixpoint pick_weak (stream : list str) (f : sfilter) (m : list (str * str)) : option (str * list str) :=
  match stream with
  | [] => None
  | p :: rest => if own_free p f m then Some (p, rest) else pick_weak rest f m
  end.
Fixpoint choose_weak (streams : list (list str)) (fs : list sfilter) (r : rule) : option (list (str * list str)) :=
  match streams, fs with
  | [], [] => Some []
  | s :: ss, f :: fs' =>
      match pick_weak s f (r_dets r) with
      | Some (p, rest) => option_map (cons (p, rest)) (choose_weak ss fs' (apply_filter p f r))
      | None => None
      end
  | _, _ => None
  end.

Definition w_fa : sfilter :=
  {| f_dets := [([97], [65]); ([98], [66])]; f_cond := CNot (CSel false them) |}.
Definition w_fb : sfilter := {| f_dets := [([99], [67])]; f_cond := CNot (CId [99]) |}.
Definition w_pa := dn s_filt 97.
Definition w_pb := dn s_filt 98.

Theorem weak_redraw_refuted :
  exists r fs streams streams' ch ch',
    choose_weak streams fs r = Some ch /\ choose_weak streams' fs r = Some ch' /\
    static_okb 16 r streams fs = true /\ static_okb 16 r streams' fs = true /\
    names_run r (combine (map fst ch) fs) [] <> names_run r (combine (map fst ch') fs) [].
Proof.
  exists w_rule2, [w_fa; w_fb], [[w_pa]; [w_pa; w_pb]], [[w_pa]; [w_pb]].
  eexists. eexists. split; [vm_compute; reflexivity|]. split; [vm_compute; reflexivity|].
  split; [vm_compute; reflexivity|]. split; [vm_compute; reflexivity|]. vm_compute. discriminate.
Qed.

(* the real loop on the same adversarial sequences *)
Example redraw_same_draw_first :
  option_map (map fst) (choose [[w_pa]; [w_pa; w_pb]] [w_fa; w_fb] w_rule2) = Some [w_pa; w_pb].
Proof. vm_compute. reflexivity. Qed.
