From Coq Require Import NArith ZArith List Bool Lia.
From PS Require Import Base.Chars Base.Outcome Model.SString Spec.Items Proofs.SStringP
                       Model.Serialize Spec.RoundTrip.
Import ListNotations.
Open Scope N_scope.

(* ---------- tables ---------- *)
Lemma lookup_canon : forall m, lookup_mod modifier_mapping (canon_id m) = Some m.
Proof. destruct m; vm_compute; reflexivity. Qed.

Lemma canon_nopipe : forall m, mem c_pipe (canon_id m) = false.
Proof. destruct m; vm_compute; reflexivity. Qed.

Lemma mcls_eqb_refl m : mcls_eqb m m = true.
Proof. destruct m; reflexivity. Qed.

(* ---------- outcome / mapM ---------- *)
Lemma obind_ok {A B} (x : outcome A) (f : A -> outcome B) b :
  obind x f = Ok b -> exists a, x = Ok a /\ f a = Ok b.
Proof. destruct x; simpl; intros H; try discriminate. eauto. Qed.

Lemma mapM_ok_cons {A B} (f : A -> outcome B) x r ys :
  mapM f (x :: r) = Ok ys -> exists y ys', f x = Ok y /\ mapM f r = Ok ys' /\ ys = y :: ys'.
Proof.
  simpl. intros H. apply obind_ok in H. destruct H as [y [Hy H]].
  apply obind_ok in H. destruct H as [ys' [Hys H]]. inversion H; subst. eauto.
Qed.

Lemma mapM_map_ok {A B} (f : A -> outcome B) (g : B -> A) l :
  (forall x, In x l -> f (g x) = Ok x) -> mapM f (map g l) = Ok l.
Proof.
  induction l as [|x l IH]; intros H; simpl; [reflexivity|].
  rewrite (H x (or_introl eq_refl)). simpl. rewrite IH; [reflexivity|].
  intros y Hy. apply H. right. exact Hy.
Qed.

(* ---------- split / key ---------- *)
Lemma mem_cons c x l : mem c (x :: l) = N.eqb c x || mem c l.
Proof. reflexivity. Qed.
Lemma nopipe_cons c x : mem c_pipe (c :: x) = false -> N.eqb c c_pipe = false /\ mem c_pipe x = false.
Proof. rewrite mem_cons. intros H. apply orb_false_iff in H. rewrite N.eqb_sym. exact H. Qed.
Lemma split_nopipe x : mem c_pipe x = false -> split_pipe x = [x].
Proof.
  induction x as [|c x IH]; intros H; [reflexivity|].
  apply nopipe_cons in H. destruct H as [Hc Hx].
  cbn [split_pipe]. rewrite Hc. rewrite (IH Hx). reflexivity.
Qed.

Lemma split_app x y : mem c_pipe x = false -> split_pipe (x ++ c_pipe :: y) = x :: split_pipe y.
Proof.
  induction x as [|c x IH]; intros H.
  - cbn [app split_pipe]. rewrite N.eqb_refl. reflexivity.
  - apply nopipe_cons in H. destruct H as [Hc Hx].
    cbn [split_pipe app]. rewrite Hc. rewrite (IH Hx). reflexivity.
Qed.

Lemma split_ids x ms : mem c_pipe x = false ->
  split_pipe (x ++ flat_map (fun m => c_pipe :: canon_id m) ms) = x :: map canon_id ms.
Proof.
  revert x. induction ms as [|m ms IH]; intros x Hx.
  - simpl. rewrite app_nil_r. apply split_nopipe. exact Hx.
  - simpl. rewrite split_app by exact Hx. rewrite IH by apply canon_nopipe. reflexivity.
Qed.

Lemma split_head_nopipe s : match split_pipe s with h :: _ => mem c_pipe h = false | [] => False end.
Proof.
  induction s as [|c s IH]; simpl; [reflexivity|].
  destruct (N.eqb c c_pipe) eqn:E; [reflexivity|].
  destruct (split_pipe s) as [|h t]; [contradiction|].
  rewrite mem_cons. rewrite N.eqb_sym, E. exact IH.
Qed.

Lemma parse_key_field k f ms : parse_key k = Ok (f, ms) -> field_ok f.
Proof.
  unfold parse_key. pose proof (split_head_nopipe k) as Hs.
  destruct (split_pipe k) as [|h ids]; [discriminate|].
  intros H. apply obind_ok in H. destruct H as [ms' [_ H]]. inversion H; subst.
  destruct h; simpl; [exact I|]. split; [discriminate | exact Hs].
Qed.

Lemma parse_key_of f ms : field_ok f -> parse_key (key_of f ms) = Ok (f, ms).
Proof.
  intros Hf. unfold parse_key, key_of.
  assert (Hx : mem c_pipe (match f with Some x => x | None => [] end) = false).
  { destruct f; [apply Hf | reflexivity]. }
  rewrite split_ids by exact Hx.
  rewrite mapM_map_ok.
  - simpl. destruct f as [x|]; [|reflexivity]. destruct x; [destruct Hf as [Hf _]; congruence | reflexivity].
  - intros m _. rewrite lookup_canon. reflexivity.
Qed.

(* ---------- values ---------- *)
Lemma value_roundtrip re v p :
  inv_val re v -> sval_dom re v = true -> value_plain re v = Ok p -> sigma_of re p = v.
Proof.
  intros Hi Hd Hp. destruct re.
  - destruct Hi as [s ->].
    simpl in Hp. inversion Hp; subst. simpl. rewrite app_nil_r. reflexivity.
  - destruct v; cbn [inv_val value_plain] in Hi, Hp; try contradiction; inversion Hp; subst; try reflexivity.
    destruct Hi as [t ->]. cbn [sval_dom orb] in Hd. cbn [sigma_of].
    rewrite parse_items in Hd. rewrite (parse_canon t).
    rewrite plain_roundtrip by exact Hd. reflexivity.
Qed.

Lemma values_roundtrip re o : forall vs,
  Forall (inv_val re) o -> forallb (sval_dom re) o = true ->
  mapM (value_plain re) o = Ok vs -> map (sigma_of re) vs = o.
Proof.
  induction o as [|v o IH]; intros vs Hi Hd Hp.
  - simpl in Hp. inversion Hp. reflexivity.
  - apply mapM_ok_cons in Hp. destruct Hp as [p [vs' [Hp [Hps ->]]]].
    inversion Hi; subst. simpl in Hd. apply andb_true_iff in Hd. destruct Hd as [Hd1 Hd2].
    simpl. rewrite (value_roundtrip _ _ _ H1 Hd1 Hp). rewrite (IH _ H2 Hd2 Hps). reflexivity.
Qed.

(* ---------- merge ---------- *)
Lemma str_eqb_sym a b : str_eqb a b = str_eqb b a.
Proof.
  destruct (str_eqb a b) eqn:E1, (str_eqb b a) eqn:E2; try reflexivity.
  - apply str_eqb_eq in E1. subst. rewrite str_eqb_refl in E2. discriminate.
  - apply str_eqb_eq in E2. subst. rewrite str_eqb_refl in E1. discriminate.
Qed.

Lemma notin_app k a b : notin k (a ++ b) = notin k a && notin k b.
Proof. induction a as [|x a IH]; simpl; [reflexivity|]. rewrite IH, andb_assoc. reflexivity. Qed.

Lemma nodupb_mid a k b : nodupb (a ++ k :: b) = true -> notin k a = true.
Proof.
  induction a as [|x a IH]; intros H; [reflexivity|].
  simpl in H. apply andb_true_iff in H. destruct H as [H1 H2].
  rewrite notin_app in H1. apply andb_true_iff in H1. destruct H1 as [_ H1].
  simpl in H1. apply andb_true_iff in H1. destruct H1 as [H1 _].
  simpl. rewrite (IH H2), andb_true_r. rewrite str_eqb_sym. exact H1.
Qed.

Lemma md_get_notin k md : notin k (map fst md) = true -> md_get k md = None.
Proof.
  induction md as [|[k' v] md IH]; intros H; [reflexivity|].
  simpl in H. apply andb_true_iff in H. destruct H as [H1 H2].
  simpl. apply negb_true_iff in H1. rewrite H1. apply IH. exact H2.
Qed.

Lemma md_set_notin k v md : notin k (map fst md) = true -> md_set k v md = md ++ [(k, v)].
Proof.
  induction md as [|[k' v'] md IH]; intros H; [reflexivity|].
  simpl in H. apply andb_true_iff in H. destruct H as [H1 H2].
  simpl. apply negb_true_iff in H1. rewrite H1. rewrite IH by exact H2. reflexivity.
Qed.

Lemma merge_nodup es : forall md,
  nodupb (map fst md ++ map fst es) = true -> merge_all md es = Ok (md ++ es).
Proof.
  induction es as [|[k v] es IH]; intros md H.
  - simpl. rewrite app_nil_r. reflexivity.
  - simpl in H. pose proof (nodupb_mid _ _ _ H) as Hk.
    cbn [merge_all merge_step]. rewrite (md_get_notin _ _ Hk). rewrite (md_set_notin _ _ _ Hk).
    simpl. rewrite IH.
    + rewrite <- app_assoc. reflexivity.
    + rewrite map_app, <- app_assoc. exact H.
Qed.

Section Main.
Context {T : Type}.
Variable apply_mods : option str -> list mcls -> list sval -> outcome T.
Notation load_item := (load_item apply_mods).
Notation load_def := (load_def apply_mods).
Notation inv_item := (inv_item apply_mods).
Notation inv := (inv apply_mods).

(* ---------- loading establishes the invariant ---------- *)
Lemma sigma_of_inv re p : (re = true -> is_str p = true) -> inv_val re (sigma_of re p).
Proof.
  unfold inv_val, sigma_of. destruct re.
  - intros H. specialize (H eq_refl). destruct p; try discriminate. eauto.
  - intros _. destruct p; simpl; eauto.
Qed.

Lemma load_item_inv key v i : load_item key v = Ok i -> inv_item i.
Proof.
  unfold Serialize.load_item. intros H. apply obind_ok in H. destruct H as [[f ms] [Hk H]].
  destruct (has_mod M_RegularExpression ms && negb (forallb is_str (vals_of v))) eqn:Ere; [discriminate|].
  apply obind_ok in H. destruct H as [t [Ha H]]. inversion H; subst. clear H.
  split; simpl.
  - destruct key as [k|]; [eapply parse_key_field; eauto | inversion Hk; exact I].
  - eexists. split; [reflexivity|]. split; [exact Ha|].
    apply Forall_forall. intros x Hx. apply in_map_iff in Hx. destruct Hx as [p [<- Hin]].
    apply sigma_of_inv. intros Hre. unfold has_re in Hre. rewrite Hre in Ere. simpl in Ere.
    apply negb_false_iff in Ere. rewrite forallb_forall in Ere. apply Ere. exact Hin.
Qed.

Lemma mapM_load_items_inv m : forall l,
  mapM (fun kv : str * mval => load_item (Some (fst kv)) (snd kv)) m = Ok l -> Forall inv_item l.
Proof.
  induction m as [|kv m IH]; intros l H.
  - inversion H. constructor.
  - apply mapM_ok_cons in H. destruct H as [y [ys [Hy [Hys ->]]]].
    constructor; [eapply load_item_inv; eauto | apply IH; exact Hys].
Qed.

Section DdefInd.
  Variable P : ddef -> Prop.
  Hypothesis Hv : forall v, P (DVal v).
  Hypothesis Hl : forall l, Forall P l -> P (DList l).
  Hypothesis Hm : forall m, P (DMap m).
  Fixpoint ddef_ind' (d : ddef) : P d :=
    match d with
    | DVal v => Hv v
    | DList l => Hl l ((fix go (l : list ddef) : Forall P l :=
                          match l with [] => Forall_nil P | x :: r => Forall_cons x (ddef_ind' x) (go r) end) l)
    | DMap m => Hm m
    end.
End DdefInd.

Section DetInd.
  Variable P : det T -> Prop.
  Hypothesis Hi : forall l, P (DItems l).
  Hypothesis Hs : forall l, Forall P l -> P (DSubs l).
  Hypothesis Hx : P DMixed.
  Hypothesis Ho : forall l, P (DItemsOr l).
  Fixpoint det_ind' (d : det T) : P d :=
    match d with
    | DMixed => Hx
    | DItemsOr l => Ho l
    | DItems l => Hi l
    | DSubs l => Hs l ((fix go (l : list (det T)) : Forall P l :=
                          match l with [] => Forall_nil P | x :: r => Forall_cons x (det_ind' x) (go r) end) l)
    end.
End DetInd.

Definition load_list :=
  fix go (l : list ddef) : outcome (list (det T)) :=
    match l with
    | [] => Ok []
    | x :: r => obind (load_def x) (fun y => obind (go r) (fun ys => Ok (y :: ys)))
    end.
Lemma load_list_mapM l : load_list l = mapM load_def l.
Proof. induction l as [|x l IH]; simpl; [reflexivity|]. rewrite IH. reflexivity. Qed.

Lemma load_def_list l :
  load_def (DList l) =
  if forallb is_plain l then obind (load_item None (MMany (plains l))) (fun i => mk_items [i])
  else obind (mapM load_def l) mk_subs.
Proof. cbn [Serialize.load_def]. destruct (forallb is_plain l); [reflexivity|]. fold load_list. rewrite load_list_mapM. reflexivity. Qed.

Definition inv_list := fix go (l : list (det T)) : Prop := match l with [] => True | x :: r => inv x /\ go r end.
Lemma inv_subs l : inv (DSubs l) = inv_list l.
Proof. reflexivity. Qed.

Lemma mk_items_ok (l : list (item T)) r : mk_items l = Ok r -> r = DItems l /\ l <> [].
Proof. destruct l; simpl; intros H; inversion H. split; [reflexivity | discriminate]. Qed.
Lemma mk_subs_ok (l : list (det T)) r : mk_subs l = Ok r -> r = DSubs l /\ l <> [].
Proof. destruct l; simpl; intros H; inversion H. split; [reflexivity | discriminate]. Qed.

Theorem load_inv : forall d r, load_def d = Ok r -> inv r.
Proof.
  induction d as [v | l IH | m] using ddef_ind'; intros r H.
  - cbn [Serialize.load_def] in H. apply obind_ok in H. destruct H as [i [Hi H]].
    apply mk_items_ok in H. destruct H as [-> _]. simpl. constructor; [|constructor].
    eapply load_item_inv; eauto.
  - rewrite load_def_list in H. destruct (forallb is_plain l).
    + apply obind_ok in H. destruct H as [i [Hi H]].
      apply mk_items_ok in H. destruct H as [-> _]. simpl. constructor; [|constructor].
      eapply load_item_inv; eauto.
    + apply obind_ok in H. destruct H as [ds [Hds H]].
      apply mk_subs_ok in H. destruct H as [-> _]. rewrite inv_subs.
      clear -IH Hds. revert ds Hds. induction l as [|x l IHl]; intros ds Hds.
      * inversion Hds. exact I.
      * apply mapM_ok_cons in Hds. destruct Hds as [y [ys [Hy [Hys ->]]]].
        inversion IH; subst. split; [apply H1; exact Hy | apply IHl; assumption].
  - cbn [Serialize.load_def] in H. apply obind_ok in H. destruct H as [its [Hits H]].
    apply mk_items_ok in H. destruct H as [-> _]. simpl.
    eapply mapM_load_items_inv; eauto.
Qed.

(* ---------- items are read back from their plain form ---------- *)
Definition reload_pres (p : pres) : outcome (item T) :=
  match p with PRv v => load_item None v | PRd k v => load_item (Some k) v end.

Definition value_of (vs : list pv) : mval := match vs with [x] => MOne x | _ => MMany vs end.
Lemma vals_value vs : vals_of (value_of vs) = vs.
Proof. destruct vs as [|x [|y r]]; reflexivity. Qed.
Lemma unwrap_value vs : unwrap1 (value_of vs) = value_of vs.
Proof. destruct vs as [|x [|y r]]; reflexivity. Qed.

Lemma item_plain_shape (i : item T) p : item_plain i = Ok p ->
  exists o vs, i_orig i = Some o /\ mapM (value_plain (has_re (i_mods i))) o = Ok vs /\
    ((i_field i = None /\ i_mods i = [] /\ p = PRv (value_of vs)) \/
     (p = PRd (item_key i) (value_of vs) /\ (i_field i <> None \/ i_mods i <> []))).
Proof.
  unfold item_plain. destruct (i_orig i) as [o|]; [|discriminate]. intros H.
  apply obind_ok in H. destruct H as [vs [Hvs H]]. exists o, vs. split; [reflexivity|]. split; [exact Hvs|].
  unfold item_key. fold (value_of vs) in H.
  destruct (i_field i) as [f|]; [|destruct (i_mods i) as [|m ms]]; inversion H; subst.
  - right. split; [reflexivity | left; discriminate].
  - left. auto.
  - right. split; [reflexivity | right; discriminate].
Qed.

Lemma re_values_str re o : forall vs,
  Forall (inv_val re) o -> mapM (value_plain re) o = Ok vs -> re && negb (forallb is_str vs) = false.
Proof.
  destruct re; [|reflexivity]. induction o as [|v o IH]; intros vs Hi Hp.
  - inversion Hp. reflexivity.
  - apply mapM_ok_cons in Hp. destruct Hp as [p [ps [Hp [Hps ->]]]]. inversion Hi; subst.
    destruct H1 as [s ->]. simpl in Hp. inversion Hp; subst. simpl.
    specialize (IH _ H2 Hps). simpl in IH. exact IH.
Qed.

Lemma item_reload i p : inv_item i -> dom_item i = true -> item_plain i = Ok p -> reload_pres p = Ok i.
Proof.
  intros [Hf [o [Ho [Ha Hv]]]] Hd Hp.
  destruct (item_plain_shape _ _ Hp) as [o' [vs [Ho' [Hvs Hs]]]].
  rewrite Ho in Ho'. inversion Ho'; subst o'. clear Ho'.
  unfold dom_item in Hd. rewrite Ho in Hd. apply andb_true_iff in Hd. destruct Hd as [_ Hd].
  pose proof (values_roundtrip _ _ _ Hv Hd Hvs) as Hrt.
  destruct i as [f ms oo t]. simpl in *. subst oo.
  destruct Hs as [[-> [-> ->]] | [-> _]]; unfold reload_pres, Serialize.load_item.
  - cbn [obind]. cbv zeta. rewrite vals_value.
    change (has_mod M_RegularExpression []) with false. cbn [andb].
    change (has_re []) with false in Hrt. rewrite Hrt, Ha. reflexivity.
  - unfold item_key. cbn [i_field i_mods]. rewrite parse_key_of by exact Hf. cbn [obind]. cbv zeta. rewrite vals_value.
    change (has_mod M_RegularExpression ms) with (has_re ms).
    rewrite (re_values_str _ _ _ Hv Hvs). rewrite Hrt, Ha. reflexivity.
Qed.

Lemma item_not_none (i : item T) p : dom_item i = true -> item_plain i = Ok p -> is_none p = false.
Proof.
  intros Hd Hp. destruct (item_plain_shape _ _ Hp) as [o [vs [Ho [Hvs Hs]]]].
  destruct Hs as [[Hf [Hm ->]] | [-> _]]; [|reflexivity].
  unfold dom_item in Hd. apply andb_true_iff in Hd. destruct Hd as [Hn _].
  unfold null_kw in Hn. rewrite Hf, Hm, Ho in Hn. rewrite Hm in Hvs.
  destruct (is_none (PRv (value_of vs))) eqn:E0; [|reflexivity]. exfalso.
  destruct vs as [|x [|y r]]; simpl in E0; try discriminate. destruct x; try discriminate.
  destruct o as [|v o]; [inversion Hvs|].
  apply mapM_ok_cons in Hvs. destruct Hvs as [p [ps [Hp1 [Hps E]]]]. inversion E; subst.
  destruct o as [|v2 o].
  - destruct v; simpl in Hp1; try discriminate.
  - apply mapM_ok_cons in Hps. destruct Hps as [p2 [ps2 [_ [_ E2]]]]. discriminate.
Qed.

Lemma filter_id {A} (f : A -> bool) l : forallb f l = true -> filter f l = l.
Proof.
  induction l as [|x l IH]; simpl; intros H; [reflexivity|].
  apply andb_true_iff in H. destruct H as [H1 H2]. rewrite H1, IH by exact H2. reflexivity.
Qed.

Lemma items_filter_id (l : list (item T)) : forall rs, forallb dom_item l = true -> mapM item_plain l = Ok rs ->
  filter (fun p => negb (is_none p)) rs = rs.
Proof.
  intros rs Hd Hp. apply filter_id. revert rs Hp. induction l as [|i l IH]; intros rs Hp.
  - inversion Hp. reflexivity.
  - apply mapM_ok_cons in Hp. destruct Hp as [p [ps [Hp1 [Hps ->]]]].
    simpl in Hd. apply andb_true_iff in Hd. destruct Hd as [Hd1 Hd2].
    simpl. rewrite (item_not_none _ _ Hd1 Hp1). simpl. apply IH; assumption.
Qed.

Definition items_result (rs : list pres) : outcome ddef :=
  match rs with
  | [] => SigmaErr E_Detection
  | [x] => Ok (pres_ddef x)
  | _ =>
    if existsb is_dict rs && existsb (fun p => negb (is_dict p)) rs then SigmaErr E_Value
    else if forallb is_dict rs then
      obind (merge_all [] (dict_entries rs)) (fun md =>
        Ok (DMap (map (fun kv => (fst kv, unwrap1 (snd kv))) md)))
    else Ok (DList (map DVal (flat_map (fun p => match p with PRv v => aslist v | _ => [] end) rs)))
  end.
Lemma det_plain_items (l : list (item T)) :
  det_plain (DItems l) = obind (mapM item_plain l) (fun rs0 => items_result (filter (fun p => negb (is_none p)) rs0)).
Proof. reflexivity. Qed.

Definition plain_list :=
  fix go (l : list (det T)) : outcome (list ddef) :=
    match l with
    | [] => Ok []
    | x :: r => obind (det_plain x) (fun y => obind (go r) (fun ys => Ok (y :: ys)))
    end.
Lemma plain_list_mapM (l : list (det T)) : plain_list l = mapM det_plain l.
Proof. induction l as [|x l IH]; simpl; [reflexivity|]. rewrite IH. reflexivity. Qed.
Lemma det_plain_subs (l : list (det T)) :
  det_plain (DSubs l) = obind (mapM det_plain l) (fun rs => Ok (DList (filter (fun x => negb (is_null_def x)) rs))).
Proof. cbn [det_plain]. fold plain_list. rewrite plain_list_mapM. reflexivity. Qed.

Lemma plains_map vs : forallb is_plain (map DVal vs) = true /\ plains (map DVal vs) = vs.
Proof.
  induction vs as [|v vs [IH1 IH2]]; [split; reflexivity|]. split.
  - cbn [map forallb is_plain]. exact IH1.
  - unfold plains in *. cbn [map flat_map app]. rewrite IH2. reflexivity.
Qed.

(* all-dict results: entries carry the item keys and are read back as the items *)
Lemma dict_items_reload l : forall rs,
  Forall inv_item l -> forallb dom_item l = true -> mapM item_plain l = Ok rs -> forallb is_dict rs = true ->
  map fst (dict_entries rs) = map item_key l /\
  mapM (fun kv : str * mval => load_item (Some (fst kv)) (snd kv))
       (map (fun kv => (fst kv, unwrap1 (snd kv))) (dict_entries rs)) = Ok l.
Proof.
  induction l as [|i l IH]; intros rs Hi Hd Hp Hdict.
  - inversion Hp. simpl. auto.
  - apply mapM_ok_cons in Hp. destruct Hp as [p [ps [Hp1 [Hps ->]]]].
    inversion Hi; subst. simpl in Hd. apply andb_true_iff in Hd. destruct Hd as [Hd1 Hd2].
    simpl in Hdict. apply andb_true_iff in Hdict. destruct Hdict as [Hx Hdict].
    destruct (IH _ H2 Hd2 Hps Hdict) as [IHa IHb].
    pose proof (item_reload _ _ H1 Hd1 Hp1) as Hr.
    destruct (item_plain_shape _ _ Hp1) as [o [vs [Ho [Hvs Hs]]]].
    destruct Hs as [[_ [_ ->]] | [-> _]]; [discriminate|].
    simpl. rewrite IHa. split; [reflexivity|].
    rewrite unwrap_value. simpl in Hr. rewrite Hr. cbn [obind]. rewrite IHb. reflexivity.
Qed.

Lemma nondict_key (i : item T) p : item_plain i = Ok p -> is_dict p = false -> item_key i = [].
Proof.
  intros Hp Hn. destruct (item_plain_shape _ _ Hp) as [o [vs [Ho [Hvs Hs]]]].
  destruct Hs as [[Hf [Hm _]] | [-> _]]; [|discriminate].
  unfold item_key. rewrite Hf, Hm. reflexivity.
Qed.

Lemma forallb_false_exists {A} (f : A -> bool) l : forallb f l = false -> existsb (fun x => negb (f x)) l = true.
Proof.
  induction l as [|x l IH]; simpl; [discriminate|]. destruct (f x); simpl; [exact IH | reflexivity].
Qed.

Lemma items_result_multi x y rest :
  items_result (x :: y :: rest) =
  let rs := x :: y :: rest in
  if existsb is_dict rs && existsb (fun p => negb (is_dict p)) rs then SigmaErr E_Value
  else if forallb is_dict rs then
    obind (merge_all [] (dict_entries rs)) (fun md =>
      Ok (DMap (map (fun kv => (fst kv, unwrap1 (snd kv))) md)))
  else Ok (DList (map DVal (flat_map (fun p => match p with PRv v => aslist v | _ => [] end) rs))).
Proof. reflexivity. Qed.

Lemma items_reload l d' :
  Forall inv_item l -> forallb dom_item l = true -> nodupb (map item_key l) = true ->
  det_plain (DItems l) = Ok d' -> load_def d' = Ok (DItems l).
Proof.
  intros Hi Hd Hk H. rewrite det_plain_items in H. apply obind_ok in H. destruct H as [rs [Hrs H]].
  rewrite (items_filter_id _ _ Hd Hrs) in H.
  destruct rs as [|x [|y rest]].
  - discriminate.
  - (* one result *)
    destruct l as [|i [|j l]]; [inversion Hrs | | ].
    2:{ apply mapM_ok_cons in Hrs. destruct Hrs as [? [? [_ [Hrs E]]]]. inversion E; subst.
        apply mapM_ok_cons in Hrs. destruct Hrs as [? [? [_ [_ E2]]]]. discriminate. }
    apply mapM_ok_cons in Hrs. destruct Hrs as [p [ps [Hp [_ E]]]]. inversion E; subst p ps. clear E.
    inversion Hi; subst. simpl in Hd. rewrite andb_true_r in Hd.
    pose proof (item_reload _ _ H2 Hd Hp) as Hr.
    simpl in H. inversion H; subst d'. clear H.
    destruct x as [[v|vs]|k v]; cbn [pres_ddef reload_pres] in Hr |- *.
    + cbn [Serialize.load_def]. rewrite Hr. reflexivity.
    + rewrite load_def_list. destruct (plains_map vs) as [E1 E2]. rewrite E1, E2, Hr. reflexivity.
    + cbn [Serialize.load_def mapM fst snd]. rewrite Hr. reflexivity.
  - (* several results *)
    rewrite items_result_multi in H. cbv zeta in H. remember (x :: y :: rest) as rs eqn:Ers.
    destruct (forallb is_dict rs) eqn:Hall.
    + destruct (existsb is_dict rs && existsb (fun p => negb (is_dict p)) rs); [discriminate|].
      destruct (dict_items_reload _ _ Hi Hd Hrs Hall) as [Hkeys Hload].
      rewrite merge_nodup in H by (change (map fst (@nil (str * mval)) ++ map fst (dict_entries rs)) with (map fst (dict_entries rs)); rewrite Hkeys; exact Hk).
      cbn [obind app] in H. inversion H; subst d'. clear H.
      cbn [Serialize.load_def]. rewrite Hload. cbn [obind].
      destruct l; [inversion Hrs; subst; discriminate | reflexivity].
    + exfalso.
      destruct (existsb is_dict rs && existsb (fun p => negb (is_dict p)) rs) eqn:Hmix; [discriminate|].
      pose proof (forallb_false_exists _ _ Hall) as Hex. rewrite Hex, andb_true_r in Hmix.
      (* no result is a dict: the first two items both have the empty key *)
      destruct l as [|i [|j l]]; [inversion Hrs; subst; discriminate | | ].
      { apply mapM_ok_cons in Hrs. destruct Hrs as [? [? [_ [Hrs E]]]]. inversion Hrs; subst. discriminate. }
      apply mapM_ok_cons in Hrs. destruct Hrs as [p [ps [Hp [Hrs E]]]].
      apply mapM_ok_cons in Hrs. destruct Hrs as [q [qs [Hq [_ E2]]]]. subst ps. subst rs.
      inversion E; subst p q qs. clear E.
      simpl in Hmix. apply orb_false_iff in Hmix. destruct Hmix as [Hx Hmix].
      apply orb_false_iff in Hmix. destruct Hmix as [Hy _].
      simpl in Hk. rewrite (nondict_key _ _ Hp Hx), (nondict_key _ _ Hq Hy) in Hk. discriminate.
Qed.

(* ---------- nested detections ---------- *)
Lemma det_plain_not_null (d : det T) y : det_plain d = Ok y -> is_null_def y = false.
Proof.
  destruct d as [l|l| |l]; intros H; [| |discriminate|].
  - rewrite det_plain_items in H. apply obind_ok in H. destruct H as [rs0 [_ H]].
    remember (filter (fun p => negb (is_none p)) rs0) as rs eqn:E.
    destruct rs as [|x [|x2 rest]].
    + discriminate.
    + simpl in H. inversion H; subst y.
      assert (Hin : In x (filter (fun p => negb (is_none p)) rs0)) by (rewrite <- E; left; reflexivity).
      apply filter_In in Hin. destruct Hin as [_ Hn]. apply negb_true_iff in Hn.
      destruct x as [[v|vs]|k v]; try reflexivity. destruct v; try reflexivity. discriminate.
    + rewrite items_result_multi in H. cbv zeta in H.
      destruct (existsb is_dict (x :: x2 :: rest) && existsb (fun p => negb (is_dict p)) (x :: x2 :: rest)); [discriminate|].
      destruct (forallb is_dict (x :: x2 :: rest)).
      * apply obind_ok in H. destruct H as [md [_ H]]. inversion H. reflexivity.
      * inversion H. reflexivity.
  - rewrite det_plain_subs in H. apply obind_ok in H. destruct H as [rs [_ H]]. inversion H. reflexivity.
  - cbn [det_plain] in H. apply obind_ok in H. destruct H as [rs0 [_ H]].
    remember (filter (fun p => negb (is_none p)) rs0) as rs eqn:E.
    destruct rs as [|x [|x2 rest]].
    + discriminate.
    + inversion H; subst y.
      assert (Hin : In x (filter (fun p => negb (is_none p)) rs0)) by (rewrite <- E; left; reflexivity).
      apply filter_In in Hin. destruct Hin as [_ Hn]. apply negb_true_iff in Hn.
      destruct x as [[v|vs]|k v]; try reflexivity. destruct v; try reflexivity. discriminate.
    + inversion H. reflexivity.
Qed.

Lemma plain_is_single (d : det T) y : dom d = true -> det_plain d = Ok y -> is_plain y = true -> plain_single d = true.
Proof.
  destruct d as [l|l| |l]; intros Hd H Hp; [| |discriminate|discriminate].
  - cbn [dom] in Hd. apply andb_true_iff in Hd. destruct Hd as [Hd _].
    rewrite det_plain_items in H. apply obind_ok in H. destruct H as [rs [Hrs H]].
    rewrite (items_filter_id _ _ Hd Hrs) in H.
    destruct rs as [|x [|x2 rest]].
    + discriminate.
    + destruct l as [|i [|j l]]; [inversion Hrs | | ].
      2:{ apply mapM_ok_cons in Hrs. destruct Hrs as [? [? [_ [Hrs E]]]]. inversion E; subst.
          apply mapM_ok_cons in Hrs. destruct Hrs as [? [? [_ [_ E2]]]]. discriminate. }
      apply mapM_ok_cons in Hrs. destruct Hrs as [p [ps [Hpi [_ E]]]]. inversion E; subst p ps. clear E.
      simpl in H. inversion H; subst y. clear H.
      destruct (item_plain_shape _ _ Hpi) as [o [vs [Ho [Hvs Hs]]]].
      destruct Hs as [[Hf [Hm ->]] | [-> _]]; [|discriminate].
      cbn [plain_single]. rewrite Hf, Hm, Ho.
      destruct vs as [|v [|v2 vs]]; try discriminate.
      destruct o as [|s o]; [inversion Hvs|].
      apply mapM_ok_cons in Hvs. destruct Hvs as [p [ps [_ [Hps E]]]]. inversion E; subst.
      destruct o as [|s2 o]; [reflexivity|].
      apply mapM_ok_cons in Hps. destruct Hps as [? [? [_ [_ E2]]]]. discriminate.
    + exfalso. rewrite items_result_multi in H. cbv zeta in H.
      destruct (existsb is_dict (x :: x2 :: rest) && existsb (fun p => negb (is_dict p)) (x :: x2 :: rest)); [discriminate|].
      destruct (forallb is_dict (x :: x2 :: rest)).
      * apply obind_ok in H. destruct H as [md [_ H]]. inversion H; subst. discriminate.
      * inversion H; subst. discriminate.
  - rewrite det_plain_subs in H. apply obind_ok in H. destruct H as [rs [_ H]]. inversion H; subst. discriminate.
Qed.

Lemma subs_filter_id (l : list (det T)) : forall rs, mapM det_plain l = Ok rs ->
  filter (fun x => negb (is_null_def x)) rs = rs.
Proof.
  intros rs H. apply filter_id. revert rs H. induction l as [|d l IH]; intros rs H.
  - inversion H. reflexivity.
  - apply mapM_ok_cons in H. destruct H as [y [ys [Hy [Hys ->]]]].
    simpl. rewrite (det_plain_not_null _ _ Hy). simpl. apply IH. exact Hys.
Qed.

Lemma subs_not_all_plain (l : list (det T)) : forall rs,
  forallb dom l = true -> existsb (fun s => negb (plain_single s)) l = true ->
  mapM det_plain l = Ok rs -> forallb is_plain rs = false.
Proof.
  induction l as [|d l IH]; intros rs Hd He H; [discriminate|].
  apply mapM_ok_cons in H. destruct H as [y [ys [Hy [Hys ->]]]].
  simpl in Hd. apply andb_true_iff in Hd. destruct Hd as [Hd1 Hd2].
  simpl. destruct (is_plain y) eqn:Ep; [|reflexivity]. simpl.
  simpl in He. rewrite (plain_is_single _ _ Hd1 Hy Ep) in He. simpl in He.
  apply IH; assumption.
Qed.

(* MAIN: on the domain, the plain form of a loaded detection is read back as the same object *)
Theorem plain_reload : forall (r : det T) d',
  inv r -> dom r = true -> det_plain r = Ok d' -> load_def d' = Ok r.
Proof.
  induction r as [l | l IH | | l] using det_ind'; intros d' Hi Hd H; [| |discriminate|discriminate].
  - cbn [dom] in Hd. apply andb_true_iff in Hd. destruct Hd as [Hd Hk].
    apply items_reload; assumption.
  - cbn [dom] in Hd. apply andb_true_iff in Hd. destruct Hd as [Hd He].
    rewrite det_plain_subs in H. apply obind_ok in H. destruct H as [rs [Hrs H]].
    rewrite (subs_filter_id _ _ Hrs) in H. inversion H; subst d'. clear H.
    rewrite load_def_list. rewrite (subs_not_all_plain _ _ Hd He Hrs).
    assert (Hl : mapM load_def rs = Ok l).
    { rewrite inv_subs in Hi. clear He. revert rs Hrs.
      induction l as [|d l IHl]; intros rs Hrs.
      - inversion Hrs. reflexivity.
      - apply mapM_ok_cons in Hrs. destruct Hrs as [y [ys [Hy [Hys ->]]]].
        inversion IH; subst. destruct Hi as [Hi1 Hi2].
        simpl in Hd. apply andb_true_iff in Hd. destruct Hd as [Hd1 Hd2].
        simpl. rewrite (H1 _ Hi1 Hd1 Hy). cbn [obind]. rewrite (IHl H2 Hi2 Hd2 _ Hys). reflexivity. }
    rewrite Hl. cbn [obind]. destruct l; [discriminate He | reflexivity].
Qed.

(* ---------- the detections section ---------- *)
Notation load_dets := (load_dets apply_mods).

Lemma load_named_inv defs : forall ds,
  mapM (fun nd : str * ddef => obind (load_def (snd nd)) (fun d => Ok (fst nd, d))) defs = Ok ds ->
  Forall (fun nd : str * det T => inv (snd nd)) ds.
Proof.
  induction defs as [|nd defs IH]; intros ds Hds.
  - inversion Hds. constructor.
  - apply mapM_ok_cons in Hds. destruct Hds as [y [ys [Hy [Hys ->]]]].
    apply obind_ok in Hy. destruct Hy as [d [Hd Hy]]. inversion Hy; subst.
    constructor; [simpl; eapply load_inv; eauto | apply IH; exact Hys].
Qed.

Lemma named_reload (ds : list (str * det T)) :
  Forall (fun nd => inv (snd nd)) ds -> forallb (fun nd => dom (snd nd)) ds = true -> forall out,
  mapM (fun nd : str * det T => obind (det_plain (snd nd)) (fun d => Ok (fst nd, d))) ds = Ok out ->
  mapM (fun nd : str * ddef => obind (load_def (snd nd)) (fun d => Ok (fst nd, d))) out = Ok ds.
Proof.
  induction ds as [|[n d] ds IH]; intros Hi Hd out Ho.
  - inversion Ho. reflexivity.
  - apply mapM_ok_cons in Ho. destruct Ho as [y [ys [Hy [Hys ->]]]].
    apply obind_ok in Hy. destruct Hy as [pd [Hpd Hy]]. inversion Hy; subst.
    inversion Hi; subst. simpl in Hd. apply andb_true_iff in Hd. destruct Hd as [Hd1 Hd2].
    simpl in H1, Hpd. cbn [mapM fst snd]. rewrite (plain_reload _ _ H1 Hd1 Hpd). cbn [obind].
    rewrite (IH H2 Hd2 _ Hys). reflexivity.
Qed.

Lemma dets_reload : forall defs c (r : dets T) defs' c',
  load_dets defs c = Ok r -> dom_dets r = true -> dets_plain r = Ok (defs', c') ->
  load_dets defs' c' = Ok r.
Proof.
  intros defs c r defs' c' Hl Hd Hp.
  unfold Serialize.load_dets in Hl.
  assert (Hx : exists ds cl, mapM (fun nd : str * ddef => obind (load_def (snd nd)) (fun d => Ok (fst nd, d))) defs = Ok ds
            /\ ds <> [] /\ cl <> [] /\ r = mkDets ds cl).
  { destruct c as [|c0|cl0]; [discriminate| |].
    - apply obind_ok in Hl. destruct Hl as [ds [Hds Hl]]. destruct ds; [discriminate|].
      inversion Hl. eexists _, _. split; [exact Hds|]. repeat split; discriminate.
    - apply obind_ok in Hl. destruct Hl as [ds [Hds Hl]]. destruct ds; [discriminate|].
      destruct cl0; [discriminate|]. inversion Hl. eexists _, _. split; [exact Hds|]. repeat split; discriminate. }
  destruct Hx as [ds [cl [Hds [Hne [Hcl ->]]]]].
  unfold dets_plain in Hp. cbn [ds_dets ds_cond] in Hp.
  apply obind_ok in Hp. destruct Hp as [out [Hout Hp]]. inversion Hp; subst defs' c'. clear Hp.
  unfold dom_dets in Hd. cbn [ds_dets] in Hd.
  pose proof (named_reload ds (load_named_inv _ _ Hds) Hd _ Hout) as Hre.
  unfold Serialize.load_dets.
  destruct cl as [|c1 [|c2 cl]]; [congruence| |]; rewrite Hre; cbn [obind];
    (destruct ds; [congruence | reflexivity]).
Qed.

(* without original values (disable_conversion_to_plain) serialisation fails with SigmaValueError *)
Lemma mapM_err_exists {A B} (f : A -> outcome B) (p : A -> bool) l :
  (forall x, p x = true -> is_err (f x) = true) -> existsb p l = true -> is_err (mapM f l) = true.
Proof.
  intros Hf. induction l as [|x l IH]; [discriminate|]. simpl. intros H.
  destruct (p x) eqn:E.
  - apply Hf in E. destruct (f x); [discriminate | reflexivity | reflexivity].
  - simpl in H. specialize (IH H). destruct (f x); [|reflexivity|reflexivity]. simpl.
    destruct (mapM f l); [discriminate | reflexivity | reflexivity].
Qed.

Theorem disabled_fails : forall r : det T, has_disabled r = true -> is_err (det_plain r) = true.
Proof.
  induction r as [l | l IH | | l] using det_ind'; intros H; [| |discriminate|].
  - rewrite det_plain_items. cbn [has_disabled] in H.
    assert (E : is_err (mapM item_plain l) = true).
    { eapply mapM_err_exists; [|exact H]. intros i Hi. unfold item_plain.
      revert Hi. cbv beta. destruct (i_orig i); intros Hi; [discriminate Hi | reflexivity]. }
    revert E. destruct (mapM item_plain l); simpl; intros E; [discriminate E | reflexivity | reflexivity].
  - rewrite det_plain_subs. cbn [has_disabled] in H.
    assert (E : is_err (mapM det_plain l) = true).
    { clear -IH H. induction l as [|d l IHl]; [discriminate|].
      inversion IH; subst. simpl in H. simpl.
      destruct (has_disabled d) eqn:Ed.
      - specialize (H2 eq_refl). revert H2. destruct (det_plain d); simpl; intros H2; [discriminate H2 | reflexivity | reflexivity].
      - simpl in H. specialize (IHl H3 H). destruct (det_plain d); [|reflexivity|reflexivity]. simpl.
        revert IHl. destruct (mapM det_plain l); simpl; intros IHl; [discriminate IHl | reflexivity | reflexivity]. }
    revert E. destruct (mapM det_plain l); simpl; intros E; [discriminate E | reflexivity | reflexivity].
  - cbn [det_plain]. cbn [has_disabled] in H.
    assert (E : is_err (mapM item_plain l) = true).
    { eapply mapM_err_exists; [|exact H]. intros i Hi. unfold item_plain.
      revert Hi. cbv beta. destruct (i_orig i); intros Hi; [discriminate Hi | reflexivity]. }
    revert E. destruct (mapM item_plain l); simpl; intros E; [discriminate E | reflexivity | reflexivity].
Qed.

End Main.

(* ---------- the identity statement is false outside the domain (faithful model) ---------- *)
Definition apply_any (f : option str) (ms : list mcls) (o : list sval) : outcome unit := Ok tt.
Definition rt_differs (defs : list (str * ddef)) (c : cval) : Prop :=
  exists r d', load_dets apply_any defs c = Ok r /\ dets_plain r = Ok d' /\
               load_dets apply_any (fst d') (snd d') <> Ok r.

(* D10: sel: {f: '\\*'}  (literal backslash followed by a wildcard) is written as '\*' *)
Lemma refuted_backslash : rt_differs [([115], DMap [([102], MOne (PStrV [92; 92; 42]))])] (COne [115]).
Proof. eexists _, _. split; [vm_compute; reflexivity|]. split; [vm_compute; reflexivity|]. vm_compute. discriminate. Qed.

(* modifier aliases: {f|re|i: a, f|re|ignorecase: b} is written as {f|re|ignorecase|all: [a, b]} *)
Lemma refuted_alias_merge :
  rt_differs [([115], DMap [([102;124;114;101;124;105], MOne (PStrV [97]));
                            ([102;124;114;101;124;105;103;110;111;114;101;99;97;115;101], MOne (PStrV [98]))])] (COne [115]).
Proof. eexists _, _. split; [vm_compute; reflexivity|]. split; [vm_compute; reflexivity|]. vm_compute. discriminate. Qed.

(* the unbound null keyword next to another item is dropped: {'': null, f: x} is written as {f: x} *)
Lemma refuted_null_keyword :
  rt_differs [([115], DMap [([], MOne PNull); ([102], MOne (PStrV [120]))])] (COne [115]).
Proof. eexists _, _. split; [vm_compute; reflexivity|]. split; [vm_compute; reflexivity|]. vm_compute. discriminate. Qed.

(* nested one-value lists: [[a], [b]] is written as [a, b] and read back as one keyword item *)
Lemma refuted_nested_singles :
  rt_differs [([115], DList [DList [DVal (PStrV [97])]; DList [DVal (PStrV [98])]])] (COne [115]).
Proof. eexists _, _. split; [vm_compute; reflexivity|]. split; [vm_compute; reflexivity|]. vm_compute. discriminate. Qed.

(* the premises are inhabited by a detection that uses every shape *)
Definition sample_defs : list (str * ddef) :=
  [([115], DMap [([102;124;99;111;110;116;97;105;110;115;124;97;108;108], MMany [PStrV [97;42]; PStrV [92;120]]);
                 ([103;124;114;101;124;115], MOne (PStrV [92;92;42]));
                 ([104], MMany []); ([105], MOne PNull)]);
   ([117], DMap [([], MMany [PInt 1; PFloatInt 2; PBool true])]);
   ([116], DList [DList [DVal (PStrV [97]); DVal PNull]; DMap [([102], MOne (PFloat [49;46;53]))]; DVal (PStrV [98])])].
Lemma premises_inhabited :
  exists r d', load_dets apply_any sample_defs (CMany [[115]; [116]]) = Ok r /\ dom_dets r = true /\
               dets_plain r = Ok d'.
Proof. eexists _, _. split; [vm_compute; reflexivity|]. split; vm_compute; reflexivity. Qed.

(* ---------- the merge of two items written under the same key ---------- *)
Lemma str_eqb_app_ne k s : s <> [] -> str_eqb k (k ++ s) = false.
Proof.
  intros Hs. induction k as [|c k IH]; simpl.
  - destruct s; [congruence | reflexivity].
  - rewrite N.eqb_refl. exact IH.
Qed.

(* two single values under one key without |all and |neq: one item key|all with both values
   (AND-linked, which is what two items of one mapping mean) *)
Lemma merge_two_singles k a b :
  infixb s_neq k = false -> infixb s_all k = false ->
  merge_all [] [(k, MOne a); (k, MOne b)] = Ok [(k ++ s_all, MMany [a; b])].
Proof.
  intros Hn Ha.
  cbn [merge_all merge_step md_get md_set obind].
  rewrite str_eqb_refl. rewrite Hn, Ha. cbn [is_empty_list orb unwrap1 is_many aslist vals_of app].
  cbn [md_get].
  match goal with |- context [str_eqb k ?x] =>
    assert (E : str_eqb k x = false) by (apply str_eqb_app_ne; discriminate) end.
  rewrite E. cbn [md_del obind]. rewrite str_eqb_refl. reflexivity.
Qed.

(* negated items, and an empty value list (null check), are never merged: serialisation fails *)
Lemma merge_neq_refused k v1 v2 md :
  infixb s_neq k = true -> md_get k md = Some v1 -> merge_step md (k, v2) = SigmaErr E_Value.
Proof. intros Hn Hg. unfold merge_step. rewrite Hg, Hn. reflexivity. Qed.

(* ====================================================================================
   The merge path preserves the meaning of the mapping: AND of all entries
   ==================================================================================== *)
Lemma split_nonempty s : exists x t, split_pipe s = x :: t.
Proof.
  induction s as [|c s [x [t IH]]]; simpl; [eauto|].
  destruct (N.eqb c c_pipe); [eauto|]. rewrite IH. eauto.
Qed.

Lemma split_pipe_app a b : split_pipe (a ++ c_pipe :: b) = split_pipe a ++ split_pipe b.
Proof.
  induction a as [|c a IH].
  - cbn [app split_pipe]. rewrite N.eqb_refl. reflexivity.
  - cbn [app split_pipe]. destruct (N.eqb c c_pipe).
    + rewrite IH. reflexivity.
    + rewrite IH. destruct (split_nonempty a) as [x [t E]]. rewrite E. reflexivity.
Qed.

Lemma split_all k : split_pipe (k ++ s_all) = split_pipe k ++ [s_allid].
Proof. change s_all with (c_pipe :: s_allid). rewrite split_pipe_app. reflexivity. Qed.

Lemma segs_all_app k : segs_all (k ++ s_all) = true.
Proof.
  unfold segs_all. rewrite split_all. destruct (split_nonempty k) as [x [t E]]. rewrite E.
  cbn [app tl]. rewrite existsb_app. simpl. rewrite orb_true_r. reflexivity.
Qed.

Lemma base_key_app k : base_key (k ++ s_all) = base_key k.
Proof.
  unfold base_key. rewrite split_all. destruct (split_nonempty k) as [x [t E]]. rewrite E.
  cbn [app]. rewrite filter_app. simpl. rewrite app_nil_r. reflexivity.
Qed.

Lemma infixb_app_r p a : infixb p (a ++ p) = true.
Proof.
  induction a as [|c a IH].
  - cbn [app]. destruct p; simpl.
    + reflexivity.
    + rewrite N.eqb_refl. replace (prefixb p p) with true; [reflexivity|].
      symmetry. rewrite <- (app_nil_r p) at 2. apply prefixb_app.
  - cbn [app infixb]. rewrite IH. apply orb_true_r.
Qed.

Section MergeMeaning.
Variable h : list str -> pv -> bool.
Notation den_entry := (den_entry h).
Notation den := (den_map h).

Lemma den_get_del k : forall md ev, md_get k md = Some ev ->
  den md = den_entry (k, ev) && den (md_del k md).
Proof.
  induction md as [|[k' v'] md IH]; intros ev H; [discriminate|].
  cbn [md_get md_del] in *. destruct (str_eqb k' k) eqn:E.
  - apply str_eqb_eq in E. subst k'. inversion H; subst. reflexivity.
  - unfold den_map in *. cbn [forallb]. rewrite (IH _ H).
    destruct (den_entry (k', v')), (den_entry (k, ev)); reflexivity.
Qed.

Lemma den_set_present k w : forall md ev, md_get k md = Some ev ->
  den (md_set k w md) = den_entry (k, w) && den (md_del k md).
Proof.
  induction md as [|[k' v'] md IH]; intros ev H; [discriminate|].
  cbn [md_get md_set md_del] in *. destruct (str_eqb k' k) eqn:E.
  - apply str_eqb_eq in E. subst k'. reflexivity.
  - unfold den_map in *. cbn [forallb]. rewrite (IH _ H).
    destruct (den_entry (k', v')), (den_entry (k, w)); reflexivity.
Qed.

Lemma md_set_absent k w : forall md, md_get k md = None -> md_set k w md = md ++ [(k, w)].
Proof.
  induction md as [|[k' v'] md IH]; intros H; [reflexivity|].
  cbn [md_get md_set] in *. destruct (str_eqb k' k); [discriminate|]. rewrite IH by exact H. reflexivity.
Qed.

Lemma den_app a b : den (a ++ b) = den a && den b.
Proof. unfold den_map. apply forallb_app. Qed.

Lemma get_del_other k k2 : str_eqb k k2 = false -> forall md, md_get k2 (md_del k md) = md_get k2 md.
Proof.
  intros Hne. induction md as [|[k' v'] md IH]; [reflexivity|].
  cbn [md_del md_get]. destruct (str_eqb k' k) eqn:E.
  - apply str_eqb_eq in E. subst k'. rewrite Hne. reflexivity.
  - cbn [md_get]. rewrite IH. reflexivity.
Qed.

Lemma del_set_comm k ak w : str_eqb k ak = false -> forall md mak, md_get ak md = Some mak ->
  md_del k (md_set ak w md) = md_set ak w (md_del k md).
Proof.
  intros Hne. induction md as [|[k' v'] md IH]; intros mak H; [discriminate|].
  cbn [md_get md_set md_del] in *. destruct (str_eqb k' ak) eqn:Ea.
  - apply str_eqb_eq in Ea. subst k'. cbn [md_del]. rewrite str_eqb_sym, Hne. cbn [md_set]. rewrite str_eqb_refl. reflexivity.
  - cbn [md_del]. destruct (str_eqb k' k) eqn:Ek.
    + apply str_eqb_eq in Ek. subst k'.
      (* the entry of k is removed; ak lies behind it *)
      clear IH. revert mak H. generalize md. induction md0 as [|[k2 v2] md0 IH0]; intros mak H; [discriminate|].
      reflexivity.
    + cbn [md_set]. rewrite Ea. rewrite (IH _ H). reflexivity.
Qed.

Lemma del_app_present k : forall md ev tl, md_get k md = Some ev -> md_del k (md ++ tl) = md_del k md ++ tl.
Proof.
  induction md as [|[k' v'] md IH]; intros ev tl H; [discriminate|].
  cbn [md_get md_del app] in *. destruct (str_eqb k' k); [reflexivity|].
  rewrite (IH _ _ H). reflexivity.
Qed.

Lemma vals_unwrap v : vals_of (unwrap1 v) = vals_of v.
Proof. destruct v as [x|[|x [|y l]]]; reflexivity. Qed.

Lemma not_many_one v : is_many (unwrap1 v) = false -> exists x, vals_of v = [x].
Proof. destruct v as [x|[|x [|y l]]]; simpl; intros H; try discriminate; eauto. Qed.

Lemma den_entry_all k v : segs_all k = true -> den_entry (k, v) = forallb (h (base_key k)) (vals_of v).
Proof. intros H. unfold RoundTrip.den_entry. cbn [fst snd]. rewrite H. reflexivity. Qed.
Lemma den_entry_any k v : segs_all k = false -> den_entry (k, v) = existsb (h (base_key k)) (vals_of v).
Proof. intros H. unfold RoundTrip.den_entry. cbn [fst snd]. rewrite H. reflexivity. Qed.

(* one round of the merge loop keeps the meaning: old mapping AND the new entry *)
Lemma merge_step_sound md k v md' :
  key_wf k -> merge_step md (k, v) = Ok md' -> den md' = den md && den_entry (k, v).
Proof.
  intros Hwf H. unfold merge_step in H. destruct (md_get k md) as [ev|] eqn:Hg.
  2:{ inversion H; subst. rewrite (md_set_absent _ _ _ Hg), den_app. unfold den_map at 2. simpl.
      rewrite andb_true_r. reflexivity. }
  destruct (infixb s_neq k); [discriminate|].
  destruct (is_empty_list v || is_empty_list ev); [discriminate|].
  destruct (infixb s_all k) eqn:Hall.
  - (* key with all: value lists are concatenated *)
    inversion H; subst. clear H. unfold key_wf in Hwf. rewrite Hall in Hwf. symmetry in Hwf.
    rewrite (den_set_present _ _ _ _ Hg), (den_get_del _ _ _ Hg).
    rewrite !den_entry_all by exact Hwf. cbn [vals_of]. unfold aslist. rewrite forallb_app.
    destruct (forallb (h (base_key k)) (vals_of ev)), (forallb (h (base_key k)) (vals_of v)), (den (md_del k md)); reflexivity.
  - (* two single values: moved to key|all *)
    unfold key_wf in Hwf. rewrite Hall in Hwf. symmetry in Hwf.
    destruct (is_many (unwrap1 ev) || is_many (unwrap1 v)) eqn:Hm; [discriminate|].
    apply orb_false_iff in Hm. destruct Hm as [Hm1 Hm2].
    destruct (not_many_one _ Hm1) as [x Hx]. destruct (not_many_one _ Hm2) as [y Hy].
    unfold aslist in H. rewrite !vals_unwrap, Hx, Hy in H. cbn [app] in H.
    assert (Hne : str_eqb k (k ++ s_all) = false) by (apply str_eqb_app_ne; discriminate).
    assert (Ek : den_entry (k, ev) = h (base_key k) x) by (rewrite den_entry_any, Hx by exact Hwf; simpl; apply orb_false_r).
    assert (Ev : den_entry (k, v) = h (base_key k) y) by (rewrite den_entry_any, Hy by exact Hwf; simpl; apply orb_false_r).
    rewrite (den_get_del _ _ _ Hg), Ek, Ev.
    destruct (md_get (k ++ s_all) md) as [mak|] eqn:Ha; inversion H; subst; clear H.
    + rewrite (del_set_comm _ _ _ Hne _ _ Ha).
      assert (Ha' : md_get (k ++ s_all) (md_del k md) = Some mak) by (rewrite get_del_other; assumption).
      rewrite (den_set_present _ _ _ _ Ha'), (den_get_del _ _ _ Ha').
      rewrite !den_entry_all by apply segs_all_app. rewrite base_key_app. cbn [vals_of]. rewrite forallb_app. simpl.
      destruct (forallb (h (base_key k)) (vals_of mak)), (h (base_key k) x), (h (base_key k) y),
               (den (md_del (k ++ s_all) (md_del k md))); reflexivity.
    + rewrite (md_set_absent _ _ _ Ha), (del_app_present _ _ _ _ Hg), den_app.
      unfold den_map at 2. cbn [forallb]. rewrite den_entry_all by apply segs_all_app. rewrite base_key_app. simpl.
      destruct (h (base_key k) x), (h (base_key k) y), (den (md_del k md)); reflexivity.
Qed.

Theorem merge_sound : forall es md0 md,
  Forall (fun kv => key_wf (fst kv)) es -> merge_all md0 es = Ok md -> den md = den md0 && den es.
Proof.
  induction es as [|[k v] es IH]; intros md0 md Hwf H.
  - inversion H; subst. unfold den_map at 3. simpl. rewrite andb_true_r. reflexivity.
  - cbn [merge_all] in H. apply obind_ok in H. destruct H as [md1 [H1 H2]].
    inversion Hwf; subst. rewrite (IH _ _ H4 H2). rewrite (merge_step_sound _ _ _ _ H3 H1).
    unfold den_map at 4. cbn [forallb]. fold (den es). rewrite andb_assoc. reflexivity.
Qed.
End MergeMeaning.

(* the keys to_plain writes are read the same way by the substring test and by from_mapping *)
Lemma infixb_skip_nopipe q x y : mem c_pipe x = false -> infixb (c_pipe :: q) (x ++ y) = infixb (c_pipe :: q) y.
Proof.
  induction x as [|c x IH]; intros H; [reflexivity|].
  apply nopipe_cons in H. destruct H as [Hc Hx].
  cbn [app infixb prefixb]. rewrite N.eqb_sym, Hc. cbn [andb orb]. apply IH. exact Hx.
Qed.

Lemma all_prefix m y : prefixb s_allid (canon_id m ++ y) = mcls_eqb M_All m.
Proof. destruct m; reflexivity. Qed.
Lemma all_id m : str_eqb s_allid (canon_id m) = mcls_eqb M_All m.
Proof. destruct m; reflexivity. Qed.

Lemma infixb_ids ms : infixb s_all (flat_map (fun m => c_pipe :: canon_id m) ms) = has_mod M_All ms.
Proof.
  induction ms as [|m ms IH]; [reflexivity|].
  cbn [flat_map]. change ((c_pipe :: canon_id m) ++ ?y) with (c_pipe :: (canon_id m ++ y)).
  change s_all with (c_pipe :: s_allid). cbn [infixb prefixb]. rewrite N.eqb_refl. cbn [andb].
  rewrite all_prefix. rewrite infixb_skip_nopipe by apply canon_nopipe.
  change (c_pipe :: s_allid) with s_all. rewrite IH. reflexivity.
Qed.

Lemma key_of_wf f ms : field_ok f -> key_wf (key_of f ms).
Proof.
  intros Hf. unfold key_wf, key_of, segs_all.
  assert (Hx : mem c_pipe (match f with Some x => x | None => [] end) = false).
  { destruct f; [apply Hf | reflexivity]. }
  rewrite split_ids by exact Hx. cbn [tl].
  change s_all with (c_pipe :: s_allid). rewrite infixb_skip_nopipe by exact Hx.
  change (c_pipe :: s_allid) with s_all. rewrite infixb_ids.
  unfold has_mod. induction ms as [|m ms IH]; [reflexivity|]. cbn [existsb map]. rewrite all_id, IH. reflexivity.
Qed.

Lemma den_unwrap h md : den_map h (map (fun kv => (fst kv, unwrap1 (snd kv))) md) = den_map h md.
Proof.
  unfold den_map. induction md as [|[k v] md IH]; [reflexivity|].
  cbn [map forallb fst snd]. rewrite IH. unfold den_entry. cbn [fst snd]. rewrite vals_unwrap. reflexivity.
Qed.

(* the mapping written by SigmaDetection.to_plain for all-dict results means the AND of the items' entries *)
Theorem merge_written_sound h es md :
  Forall (fun kv => key_wf (fst kv)) es -> merge_all [] es = Ok md ->
  den_map h (map (fun kv => (fst kv, unwrap1 (snd kv))) md) = den_map h es.
Proof. intros Hwf H. rewrite den_unwrap. rewrite (merge_sound h es [] md Hwf H). reflexivity. Qed.
