(* Proofs about the gates of processing items (Model/PipeCond.v) against Spec/PipeSpec.v. *)
From Coq Require Import NArith ZArith List Bool Arith Lia.
From PS Require Import Base.Chars Base.Outcome Model.PipeExpr Model.PipeCond Spec.PipeSpec Proofs.PipeExprP.
Import ListNotations.
Open Scope N_scope.

(* ------------------------------------------------------------------------------------- *)
(* small facts *)
Lemma assoc_in {A} k (m : list (str * A)) v : assoc k m = Some v -> In (k, v) m.
Proof.
  induction m as [|[k' v'] m IH]; simpl; [discriminate|].
  destruct (str_eqb k k') eqn:E.
  - intros H. inversion H; subst. apply str_eqb_eq in E. subst. left. reflexivity.
  - intros H. right. apply IH. exact H.
Qed.

Lemma in_assoc {A} k (m : list (str * A)) v : NoDup (map fst m) -> In (k, v) m -> assoc k m = Some v.
Proof.
  induction m as [|[k' v'] m IH]; simpl; intros Hnd Hin; [contradiction|].
  inversion Hnd as [|? ? Hni Hnd']; subst.
  destruct Hin as [E|Hin].
  - inversion E; subst. rewrite str_eqb_refl. reflexivity.
  - destruct (str_eqb k k') eqn:E.
    + apply str_eqb_eq in E. subst. exfalso. apply Hni. apply (in_map fst) in Hin. exact Hin.
    + apply IH; assumption.
Qed.

Lemma smem_In x l : smem x l = true <-> In x l.
Proof.
  unfold smem. rewrite existsb_exists. split.
  - intros [y [Hy E]]. apply str_eqb_eq in E. subst. exact Hy.
  - intros H. exists x. split; [exact H | apply str_eqb_refl].
Qed.

Lemma sadd_In x id l : In x (sadd id l) <-> x = id \/ In x l.
Proof.
  unfold sadd. destruct (smem id l) eqn:E.
  - split; [auto|]. intros [->|H]; [apply smem_In; exact E | exact H].
  - rewrite in_app_iff. simpl. split; [intros [H|[H|[]]]; auto | intros [H|H]; auto].
Qed.

Lemma ids_nonempty e : ids e <> [].
Proof.
  induction e as [w|a IH|a IHa b _|a IHa b _]; simpl; try discriminate; try exact IH;
    intros H; apply app_eq_nil in H; destruct H as [H _]; exact (IHa H).
Qed.

Lemma obind_assoc {A B D} (x : outcome A) (f : A -> outcome B) (g : B -> outcome D) :
  obind (obind x f) g = obind x (fun a => obind (f a) g).
Proof. destruct x; reflexivity. Qed.

(* ------------------------------------------------------------------------------------- *)
(* gates, for any kind of condition *)
Section GateP.
  Context {C : Type}.

  (* what __post_init__ guarantees (identifiers resolved, every condition referenced) plus what a
     YAML mapping guarantees (distinct keys) *)
  Definition wf_ngroup (g : ngroup C) : Prop :=
    match n_mode g with
    | MExpr e => (forall i, In i (ids e) -> assoc i (n_conds g) <> None)
                 /\ (forall kv, In kv (n_conds g) -> In (fst kv) (ids e))
                 /\ NoDup (map fst (n_conds g))
    | MLink _ => True
    end.

  Variable ev : C -> outcome bool.

  Lemma eval_all_ok l h : (forall c, In c l -> ev c = Ok (h c)) -> eval_all ev l = Ok (map h l).
  Proof.
    induction l as [|c l IH]; simpl; intros H; [reflexivity|].
    rewrite (H c) by (left; reflexivity). simpl. rewrite IH by (intros; apply H; right; assumption).
    reflexivity.
  Qed.

  Lemma eval_all_inv l bs : eval_all ev l = Ok bs -> forall c, In c l -> exists b, ev c = Ok b.
  Proof.
    revert bs. induction l as [|c l IH]; simpl; intros bs H c0 Hin; [contradiction|].
    destruct (ev c) eqn:E; try discriminate. simpl in H.
    destruct (eval_all ev l) eqn:E2; try discriminate.
    destruct Hin as [<-|Hin]; [eauto | eapply IH; eauto].
  Qed.

  Lemma gate_raw_ok g h :
    wf_ngroup g -> n_conds g <> [] ->
    (forall kv, In kv (n_conds g) -> ev (snd kv) = Ok (h (snd kv))) ->
    gate_raw ev g = Ok (group_holds h g).
  Proof.
    intros Hwf Hne Hall. unfold gate_raw, group_holds.
    destruct (n_conds g) as [|kv0 rest] eqn:Ec; [congruence|]. rewrite <- Ec in *.
    unfold wf_ngroup in Hwf. destruct (n_mode g) as [l|e].
    - rewrite (eval_all_ok _ h).
      + simpl. rewrite map_map. unfold link_fn, link_holds. destruct (n_neg g); [reflexivity | rewrite xorb_false_l; reflexivity].
      + intros c Hin. apply in_map_iff in Hin. destruct Hin as [kv [<- Hin]]. apply Hall. exact Hin.
    - destruct Hwf as [Hres _].
      rewrite (eval_den _ (lookup_holds h (n_conds g))).
      + simpl. destruct (n_neg g); [reflexivity | rewrite xorb_false_l; reflexivity].
      + intros w Hin. unfold env_of, lookup_holds. specialize (Hres w Hin).
        destruct (assoc w (n_conds g)) as [c|] eqn:Ea; [|congruence].
        apply assoc_in in Ea. apply (Hall (w, c)). exact Ea.
  Qed.

  Theorem gate_ok g h :
    wf_ngroup g ->
    (forall kv, In kv (n_conds g) -> ev (snd kv) = Ok (h (snd kv))) ->
    gate ev g = Ok (group_holds h g).
  Proof.
    intros Hwf Hall. unfold gate.
    destruct (n_conds g) as [|kv0 rest] eqn:Ec.
    - (* no conditions: always holds *)
      unfold gate_raw, group_holds, no_conds. rewrite Ec.
      unfold wf_ngroup in Hwf. destruct (n_mode g) as [l|e].
      + simpl. reflexivity.
      + exfalso. destruct Hwf as [Hres _]. rewrite Ec in Hres.
        destruct (ids e) as [|i r] eqn:Ei; [exact (ids_nonempty e Ei)|].
        apply (Hres i); [left; reflexivity | reflexivity].
    - rewrite (gate_raw_ok g h Hwf); [|rewrite Ec; discriminate|rewrite Ec; exact Hall].
      simpl. unfold no_conds. rewrite Ec. reflexivity.
  Qed.

  Theorem gate_inv g b :
    wf_ngroup g -> gate ev g = Ok b -> forall kv, In kv (n_conds g) -> exists x, ev (snd kv) = Ok x.
  Proof.
    intros Hwf H kv Hin. unfold gate, gate_raw in H. unfold wf_ngroup in Hwf.
    destruct (n_mode g) as [l|e].
    - destruct (eval_all ev (map snd (n_conds g))) eqn:E; try discriminate.
      eapply eval_all_inv; [exact E|]. apply in_map. exact Hin.
    - destruct Hwf as [_ [Href Hnd]].
      destruct (eval_ex (env_of ev (n_conds g)) e) eqn:E; try discriminate.
      destruct (eval_ok_ids _ _ _ E (fst kv) (Href kv Hin)) as [x Hx].
      unfold env_of in Hx. destruct kv as [k c]. simpl in *.
      rewrite (in_assoc k _ c Hnd Hin) in Hx. eauto.
  Qed.

  (* the specification's group_eval: defined iff all conditions are, and then group_holds *)
  Lemma first_error_none l :
    first_error ev l = None <-> forall c, In c l -> exists b, ev c = Ok b.
  Proof.
    unfold first_error. induction l as [|c l IH]; simpl.
    - split; [intros _ c []|reflexivity].
    - destruct (ev c) eqn:E; simpl.
      + rewrite IH. split.
        * intros H c0 [<-|Hin]; [eauto | apply H; exact Hin].
        * intros H c0 Hin. apply H. right. exact Hin.
      + split; [discriminate|]. intros H. destruct (H c (or_introl eq_refl)) as [b Hb]. congruence.
      + split; [discriminate|]. intros H. destruct (H c (or_introl eq_refl)) as [b Hb]. congruence.
  Qed.

  Lemma first_error_some l o : first_error ev l = Some o -> match o with Ok _ => False | _ => True end.
  Proof.
    unfold first_error. intros H. apply find_some in H. destruct H as [_ H]. destruct o; [discriminate|exact I|exact I].
  Qed.

  Lemma group_eval_ok g b :
    group_eval ev g = Ok b <->
    (forall kv, In kv (n_conds g) -> exists x, ev (snd kv) = Ok x) /\ b = group_holds (fun c => truth (ev c)) g.
  Proof.
    unfold group_eval. destruct (first_error ev (map snd (n_conds g))) as [o|] eqn:E.
    - pose proof (first_error_some _ _ E) as Ho.
      split.
      + destruct o; [contradiction|discriminate|discriminate].
      + intros [Hall _]. exfalso.
        assert (N : first_error ev (map snd (n_conds g)) = None).
        { apply first_error_none. intros c Hin. apply in_map_iff in Hin. destruct Hin as [kv [<- Hin]]. apply Hall. exact Hin. }
        congruence.
    - pose proof (proj1 (first_error_none _) E) as E'. split.
      + intros H. inversion H; subst. split; [|reflexivity].
        intros kv Hin. apply E'. apply in_map. exact Hin.
      + intros [_ ->]. reflexivity.
  Qed.

  (* the gate computes exactly the specification's truth value of the group, and is defined exactly
     when the specification's is *)
  Theorem gate_spec g b : wf_ngroup g -> gate ev g = Ok b <-> group_eval ev g = Ok b.
  Proof.
    intros Hwf. rewrite group_eval_ok. split.
    - intros H. pose proof (gate_inv g b Hwf H) as Hall. split; [exact Hall|].
      rewrite (gate_ok g (fun c => truth (ev c)) Hwf) in H.
      + inversion H. reflexivity.
      + intros kv Hin. destruct (Hall kv Hin) as [x Hx]. rewrite Hx. reflexivity.
    - intros [Hall ->]. apply gate_ok; [exact Hwf|].
      intros kv Hin. destruct (Hall kv Hin) as [x Hx]. rewrite Hx. reflexivity.
  Qed.
End GateP.

(* an item without conditions of some kind always passes that gate *)
Theorem empty_group_always {C} (ev : C -> outcome bool) (g : ngroup C) :
  wf_ngroup g -> n_conds g = [] -> gate ev g = Ok true.
Proof.
  intros Hwf He. rewrite (gate_ok ev g (fun _ => true) Hwf).
  - unfold group_holds. rewrite He. reflexivity.
  - rewrite He. intros kv [].
Qed.

Lemma group_holds_ext {C} (h h' : C -> bool) (g : ngroup C) :
  (forall kv, In kv (n_conds g) -> h (snd kv) = h' (snd kv)) -> group_holds h g = group_holds h' g.
Proof.
  intros H. unfold group_holds. destruct (n_conds g) as [|kv0 r] eqn:Ec; [reflexivity|]. rewrite <- Ec in *.
  f_equal. destruct (n_mode g) as [l|e].
  - f_equal. apply map_ext_in. exact H.
  - assert (L : forall w, lookup_holds h (n_conds g) w = lookup_holds h' (n_conds g) w).
    { intros w. unfold lookup_holds. destruct (assoc w (n_conds g)) as [c|] eqn:Ea; [|reflexivity].
      apply assoc_in in Ea. apply (H (w, c)). exact Ea. }
    clear -L. induction e as [w|a IH|a IHa b IHb|a IHa b IHb]; simpl; [apply L| f_equal; exact IH | f_equal; assumption | f_equal; assumption].
Qed.

Lemma group_eval_ext {C} (ev ev' : C -> outcome bool) (g : ngroup C) :
  (forall kv, In kv (n_conds g) -> ev (snd kv) = ev' (snd kv)) -> group_eval ev g = group_eval ev' g.
Proof.
  intros H. unfold group_eval, first_error.
  assert (E : map ev (map snd (n_conds g)) = map ev' (map snd (n_conds g))).
  { rewrite !map_map. apply map_ext_in. exact H. }
  rewrite E. rewrite (group_holds_ext (fun c => truth (ev c)) (fun c => truth (ev' c))); [reflexivity|].
  intros kv Hin. rewrite (H kv Hin). reflexivity.
Qed.

(* ------------------------------------------------------------------------------------- *)
(* the searching / shortcutting condition classes against their declarative meaning *)
Section TreeInd.
  Variable P : dtree -> Prop.
  Hypothesis Hl : forall d, P (DLeaf d).
  Hypothesis Hn : forall l, Forall P l -> P (DNode l).
  Fixpoint dtree_ind' (t : dtree) : P t :=
    match t with
    | DLeaf d => Hl d
    | DNode l => Hn l ((fix go (l : list dtree) : Forall P l :=
                          match l with [] => Forall_nil P | x :: r => Forall_cons x (dtree_ind' x) (go r) end) l)
    end.
End TreeInd.

Lemma leaves_node l : leaves (DNode l) = flat_map leaves l.
Proof. simpl. induction l as [|x r IH]; [reflexivity|]. simpl. rewrite <- IH. reflexivity. Qed.

Lemma find_item_leaves P t : find_item P t = existsb P (leaves t).
Proof.
  induction t as [d|l IH] using dtree_ind'.
  - simpl. rewrite orb_false_r. reflexivity.
  - rewrite leaves_node. simpl. induction IH as [|x r Hx _ IHr]; [reflexivity|].
    simpl. rewrite existsb_app. rewrite Hx. f_equal. exact IHr.
Qed.

Lemma rule_find_leaves P r : rule_find P r = existsb P (rule_leaves r).
Proof.
  unfold rule_find, rule_leaves. induction (r_dets r) as [|d l IH]; [reflexivity|].
  simpl. rewrite existsb_app. rewrite find_item_leaves. f_equal. exact IH.
Qed.

Lemma ls_eq_ok c r : opt_str_eqb c r = true -> ls_field_ok c r = true.
Proof. destruct c; simpl; auto. Qed.

Lemma logsource_shortcut c p s r :
  logsource_match c p s r = (let '(rc, rp, rs) := r in ls_field_ok c rc && ls_field_ok p rp && ls_field_ok s rs).
Proof.
  destruct r as [[rc rp] rs]. unfold logsource_match.
  destruct (opt_str_eqb c rc) eqn:E1; simpl; [|reflexivity].
  destruct (opt_str_eqb p rp) eqn:E2; simpl; [|reflexivity].
  destruct (opt_str_eqb s rs) eqn:E3; simpl; [|reflexivity].
  rewrite (ls_eq_ok _ _ E1), (ls_eq_ok _ _ E2), (ls_eq_ok _ _ E3). reflexivity.
Qed.

Lemma r_holds_eq w c : r_holds w c = rcond_eval w c.
Proof.
  destruct c; simpl; try reflexivity.
  - rewrite logsource_shortcut. destruct (r_ls (w_rule w)) as [[rc rp] rs]. reflexivity.
  - rewrite rule_find_leaves. reflexivity.
  - rewrite rule_find_leaves. reflexivity.
Qed.

Lemma opt_str_eqb_eq a b : opt_str_eqb a b = true <-> a = b.
Proof.
  destruct a, b; simpl; split; intro H; try discriminate; try reflexivity.
  - apply str_eqb_eq in H. congruence.
  - inversion H. apply str_eqb_refl.
Qed.

Lemma ls_field_ok_spec c r : ls_field_ok c r = true <-> (c = None \/ c = r).
Proof.
  destruct c as [x|]; unfold ls_field_ok.
  - rewrite opt_str_eqb_eq. split; [auto|intros [H|H]; [discriminate|exact H]].
  - split; auto.
Qed.

Theorem logsource_meaning c p s w :
  rcond_eval w (RLogsource c p s) = Ok true <-> logsource_spec c p s (r_ls (w_rule w)).
Proof.
  simpl. rewrite logsource_shortcut. unfold logsource_spec. destruct (r_ls (w_rule w)) as [[rc rp] rs].
  split.
  - intros H. injection H as H1. apply andb_true_iff in H1. destruct H1 as [H1 H3].
    apply andb_true_iff in H1. destruct H1 as [H1 H2].
    rewrite ls_field_ok_spec in H1, H2, H3. auto.
  - intros [H1 [H2 H3]]. rewrite <- ls_field_ok_spec in H1, H2, H3. rewrite H1, H2, H3. reflexivity.
Qed.

Theorem contains_field_meaning f w :
  rcond_eval w (RContainsField f) = Ok true <-> contains_field_spec f (w_rule w).
Proof.
  simpl. rewrite rule_find_leaves. unfold contains_field_spec. split.
  - intros H. injection H as H1. apply existsb_exists in H1. destruct H1 as [it [Hin Hf]].
    unfold field_is in Hf. destruct (d_field it) as [a|] eqn:Ea; [|discriminate]. destruct f as [b|]; [|discriminate].
    apply str_eqb_eq in Hf. subst. exists it, b. repeat split; auto.
  - intros [it [x [Hin [-> Hf]]]]. f_equal. apply existsb_exists. exists it. split; [exact Hin|].
    unfold field_is. rewrite Hf. apply str_eqb_refl.
Qed.

Theorem contains_item_meaning f v w :
  rcond_eval w (RContainsItem f v) = Ok true <-> contains_item_spec f v (w_rule w).
Proof.
  simpl. rewrite rule_find_leaves. unfold contains_item_spec. split.
  - intros H. injection H as H1. apply existsb_exists in H1. destruct H1 as [it [Hin Hf]].
    apply andb_true_iff in Hf. destruct Hf as [Hf Hv].
    unfold field_is in Hf. destruct (d_field it) as [a|] eqn:Ea; [|discriminate]. destruct f as [b|]; [|discriminate].
    apply str_eqb_eq in Hf. subst. apply existsb_exists in Hv. destruct Hv as [y [Hy Hv]].
    exists it, b, y. repeat split; auto.
  - intros [it [x [y [Hin [-> [Hf [Hy Hv]]]]]]]. f_equal. apply existsb_exists. exists it. split; [exact Hin|].
    apply andb_true_iff. split.
    + unfold field_is. rewrite Hf. apply str_eqb_refl.
    + apply existsb_exists. exists y. auto.
Qed.

(* --- field name conditions on a detection item --- *)
Lemma any_lazy_pure (bs : list bool) : any_lazy (map Ok bs) = Ok (existsb (fun b => b) bs).
Proof. induction bs as [|b bs IH]; [reflexivity|]. simpl. destruct b; [reflexivity|exact IH]. Qed.

Lemma existsb_refs (p : str -> bool) vs :
  existsb (fun b => b) (map (fun v => match v with VRef f => p f | _ => false end) vs)
  = existsb p (flat_map (fun v => match v with VRef f => [f] | _ => [] end) vs).
Proof.
  induction vs as [|v vs IH]; [reflexivity|]. simpl. rewrite existsb_app. rewrite IH.
  destruct v; simpl; try reflexivity. rewrite orb_false_r. reflexivity.
Qed.

Lemma any_lazy_same o (l : list sval) :
  (forall b, o = Ok b -> True) ->
  any_lazy (o :: map (fun v => match v with VRef _ => o | _ => Ok false end) l) = o.
Proof.
  intros _. destruct o as [b| |]; try reflexivity. simpl. destruct b; [reflexivity|].
  induction l as [|v l IH]; [reflexivity|]. simpl. destruct v; simpl; exact IH.
Qed.

Lemma f_holds_item_eq T ps d c : f_holds_item T ps d c = fcond_item ps d c.
Proof.
  assert (P : forall (p : option str -> bool),
             any_lazy (Ok (p (d_field d)) :: map (fun v => match v with VRef f => Ok (p (Some f)) | _ => Ok false end) (d_vals d))
             = Ok (p (d_field d) || existsb (fun f => p (Some f)) (refs d))).
  { intros p.
    replace (Ok (p (d_field d)) :: map (fun v => match v with VRef f => Ok (p (Some f)) | _ => Ok false end) (d_vals d))
      with (map (@Ok bool) (p (d_field d) :: map (fun v => match v with VRef f => p (Some f) | _ => false end) (d_vals d))).
    - rewrite any_lazy_pure. simpl. f_equal. f_equal. unfold refs. apply (existsb_refs (fun f => p (Some f))).
    - simpl. f_equal. rewrite map_map. apply map_ext. intros v. destruct v; reflexivity. }
  destruct c; unfold f_holds_item, fcond_item; try reflexivity.
  - symmetry. exact (P (fun f => include_holds fs f)).
  - symmetry. exact (P (fun f => include_re_holds ps0 f)).
  - symmetry. exact (P (fun f => negb (include_holds fs f))).
  - symmetry. exact (P (fun f => negb (include_re_holds ps0 f))).
  - simpl fcond_name. symmetry. apply (any_lazy_same (match_state (p_state ps) k v op)). auto.
Qed.

(* a field name condition on a name: the specification reads the ghost history, the code its bookkeeping *)
Definition ghost_agrees (T : ghost) (ps : pstate) : Prop :=
  forall f id, smem id (ghist T f) = smem id (ftracked ps f).

Lemma f_holds_eq T ps f c :
  (match c with FApplied _ => ghost_agrees T ps | _ => True end) -> f_holds T ps f c = fcond_name ps f c.
Proof.
  destruct c; simpl; intros H; try reflexivity; try (destruct f; reflexivity).
  destruct f as [x|]; [|reflexivity]. rewrite (H x id). reflexivity.
Qed.

Definition no_fapplied (g : ngroup fcond) : Prop :=
  forall kv, In kv (n_conds g) -> match snd kv with FApplied _ => False | _ => True end.

(* ------------------------------------------------------------------------------------- *)
(* the three gates *)
Theorem rule_gate it w b :
  wf_ngroup (i_rule it) -> match_rule_conditions it w = Ok b <-> applies_rule it w = Ok b.
Proof.
  intros Hwf. unfold match_rule_conditions, applies_rule.
  rewrite (group_eval_ext (r_holds w) (rcond_eval w)) by (intros; apply r_holds_eq).
  apply gate_spec. exact Hwf.
Qed.

Lemma mdi_as_gates it ps d :
  match_detection_item it ps d =
  obind (gate (dcond_eval ps d) (i_det it)) (fun a => obind (gate (fcond_item ps d) (i_field it)) (fun b => Ok (a && b))).
Proof.
  unfold match_detection_item, gate. rewrite obind_assoc.
  destruct (gate_raw (dcond_eval ps d) (i_det it)); try reflexivity. simpl.
  rewrite obind_assoc. destruct (gate_raw (fcond_item ps d) (i_field it)); reflexivity.
Qed.

Theorem detitem_gate it T ps d b :
  wf_ngroup (i_det it) -> wf_ngroup (i_field it) ->
  match_detection_item it ps d = Ok b <-> applies_item it T ps d = Ok b.
Proof.
  intros Hd Hf. rewrite mdi_as_gates. unfold applies_item. change (d_holds ps d) with (dcond_eval ps d).
  rewrite (group_eval_ext (f_holds_item T ps d) (fcond_item ps d)) by (intros; apply f_holds_item_eq).
  split.
  - intros H. destruct (gate (dcond_eval ps d) (i_det it)) as [a| |] eqn:Ea; try discriminate.
    apply (gate_spec _ _ _ Hd) in Ea. rewrite Ea. simpl in *.
    destruct (gate (fcond_item ps d) (i_field it)) as [c| |] eqn:Ec; try discriminate.
    apply (gate_spec _ _ _ Hf) in Ec. rewrite Ec. exact H.
  - intros H. destruct (group_eval (dcond_eval ps d) (i_det it)) as [a| |] eqn:Ea; try discriminate.
    apply (gate_spec _ _ _ Hd) in Ea. rewrite Ea. simpl in *.
    destruct (group_eval (fcond_item ps d) (i_field it)) as [c| |] eqn:Ec; try discriminate.
    apply (gate_spec _ _ _ Hf) in Ec. rewrite Ec. exact H.
Qed.

Theorem field_gate it T ps f b :
  wf_ngroup (i_field it) -> (no_fapplied (i_field it) \/ ghost_agrees T ps) ->
  match_field_name it ps f = Ok b <-> applies_field it T ps f = Ok b.
Proof.
  intros Hwf Hg. unfold match_field_name, applies_field.
  rewrite (group_eval_ext (f_holds T ps f) (fcond_name ps f)).
  - apply gate_spec. exact Hwf.
  - intros kv Hin. apply f_holds_eq. destruct Hg as [Hn|Ha].
    + specialize (Hn kv Hin). destruct (snd kv); auto. contradiction.
    + destruct (snd kv); auto.
Qed.

(* match_field_in_value on a field reference is the same gate *)
Theorem field_in_value_gate it ps f : match_field_in_value it ps f = match_field_name it ps (Some f).
Proof. reflexivity. Qed.

(* ------------------------------------------------------------------------------------- *)
(* _check_conditions / _resolve_condition_expression *)
Theorem build_group_spec {C} (g : rgroup C) (n : ngroup C) :
  build_group g = Ok n ->
  n_neg n = g_neg g /\
  match g_expr g with
  | None => n_conds n = form_conds (g_form g) /\
            n_mode n = MLink (match g_link g with Some l => l | None => LAnd end)
  | Some s => exists e m, parse_expr s = Some e /\ g_link g = None /\ g_form g = CMap m /\
                          n_conds n = m /\ n_mode n = MExpr e /\
                          (forall i, In i (ids e) -> assoc i m <> None) /\
                          (forall kv, In kv m -> In (fst kv) (ids e))
  end.
Proof.
  unfold build_group. destruct (g_expr g) as [s|].
  - destruct (parse_expr s) as [e|]; [|discriminate].
    destruct (g_link g); [discriminate|]. destruct (g_form g) as [l|m]; [discriminate|].
    destruct (forallb _ (ids e)) eqn:E1; [|discriminate].
    destruct (forallb _ m) eqn:E2; [|discriminate].
    intros H. inversion H; subst; simpl. split; [reflexivity|].
    exists e, m. repeat split; try reflexivity.
    + intros i Hin. rewrite forallb_forall in E1. specialize (E1 i Hin). destruct (assoc i m); [discriminate|discriminate].
    + intros kv Hin. rewrite forallb_forall in E2. specialize (E2 kv Hin). apply smem_In. exact E2.
  - intros H. inversion H; subst; simpl. auto.
Qed.

Theorem build_group_errors {C} (g : rgroup C) : forall t, build_group g <> Crash t.
Proof.
  intros t. unfold build_group. destruct (g_expr g) as [s|]; [|discriminate].
  destruct (parse_expr s); [|discriminate]. destruct (g_link g); [discriminate|].
  destruct (g_form g); [discriminate|]. destruct (forallb _ (ids e)); [|discriminate].
  destruct (forallb _ m); discriminate.
Qed.

Lemma build_group_wf {C} (g : rgroup C) n :
  build_group g = Ok n -> NoDup (map fst (form_conds (g_form g))) -> wf_ngroup n.
Proof.
  intros H Hnd. pose proof (build_group_spec g n H) as [_ S]. unfold wf_ngroup.
  destruct (g_expr g) as [s|].
  - destruct S as [e [m [_ [_ [Hf [Hc [Hm [Hr Hu]]]]]]]]. rewrite Hm, Hc.
    rewrite Hf in Hnd. simpl in Hnd. auto.
  - destruct S as [_ Hm]. rewrite Hm. exact I.
Qed.

(* ------------------------------------------------------------------------------------- *)
(* history on the rule: processing_item_applied(id) holds iff an item with that id was applied *)
Lemma transform_applied it w w' :
  transform it w = Ok w' -> r_applied (w_rule w') = sadd (i_id it) (r_applied (w_rule w)).
Proof.
  unfold transform. destruct (i_tr it) as [k v|c p s|a v|v|s|s|m].
  - intros H; inversion H; reflexivity.
  - destruct c, p, s; intros H; inversion H; reflexivity.
  - intros H; inversion H; reflexivity.
  - destruct (apply_dets it (w_ps w) (r_dets (w_rule w))); try discriminate. intros H; inversion H; reflexivity.
  - destruct (map_fields it (w_ps w) (r_fields (w_rule w))) as [fl| |]; try discriminate. simpl.
    destruct (apply_dets it (snd fl) (r_dets (w_rule w))); try discriminate. intros H; inversion H; reflexivity.
  - destruct (map_fields it (w_ps w) (r_fields (w_rule w))) as [fl| |]; try discriminate. simpl.
    destruct (apply_dets it (snd fl) (r_dets (w_rule w))); try discriminate. intros H; inversion H; reflexivity.
  - destruct (map_fields it (w_ps w) (r_fields (w_rule w))) as [fl| |]; try discriminate. simpl.
    destruct (apply_dets it (snd fl) (r_dets (w_rule w))); try discriminate. intros H; inversion H; reflexivity.
Qed.

Lemma step_inv it w w' b :
  step it w = Ok (w', b) ->
  match_rule_conditions it w = Ok b /\
  (if b then transform it w = Ok w' else w' = w).
Proof.
  unfold step. destruct (match_rule_conditions it w) as [x| |]; try discriminate. simpl.
  destruct x.
  - destruct (transform it w) as [w1| |]; try discriminate. simpl. intros H; inversion H; subst. auto.
  - intros H; inversion H; subst. auto.
Qed.

(* the ids of the items whose rule conditions held at their turn *)
Fixpoint fired (its : list item) (w : world) : list str :=
  match its with
  | [] => []
  | it :: r => match step it w with
               | Ok (w', b) => (if b then [i_id it] else []) ++ fired r w'
               | _ => []
               end
  end.

Lemma last_cons {A} (l : list A) : forall a d, last (a :: l) d = last l a.
Proof.
  induction l as [|b l IH]; intros a d; [reflexivity|].
  change (last (a :: b :: l) d) with (last (b :: l) d). rewrite (IH b d), (IH b a). reflexivity.
Qed.

Definition final (w : world) (snaps : list (world * bool)) : world := last (map fst snaps) w.

Theorem history_rule its w snaps err id :
  run its w = (snaps, err) ->
  (In id (r_applied (w_rule (final w snaps))) <-> In id (r_applied (w_rule w)) \/ In id (fired its w)).
Proof.
  revert w snaps err. induction its as [|it r IH]; intros w snaps err H; simpl in H.
  - inversion H; subst. simpl. tauto.
  - simpl fired. destruct (step it w) as [[w' b]| |] eqn:E.
    + destruct (run r w') as [l e] eqn:Er. injection H as Hs He. subst snaps err.
      assert (F : final w ((w', b) :: l) = final w' l).
      { unfold final. simpl map. apply last_cons. }
      rewrite F. rewrite (IH w' l e Er). rewrite in_app_iff.
      apply step_inv in E. destruct E as [_ E]. destruct b.
      * apply transform_applied in E. rewrite E. rewrite sadd_In. simpl. intuition.
      * subst. simpl. tauto.
    + inversion H; subst. simpl. tauto.
    + inversion H; subst. simpl. tauto.
Qed.

(* "fired" spelled out: an item with that id met its rule conditions in the state reached by the items before it *)
Inductive reaches : list item -> world -> world -> Prop :=
| reach_nil w : reaches [] w w
| reach_cons it r w w' b w'' : step it w = Ok (w', b) -> reaches r w' w'' -> reaches (it :: r) w w''.

Theorem fired_spec its w id :
  In id (fired its w) <->
  exists pre it post wk w' , its = pre ++ it :: post /\ reaches pre w wk /\ i_id it = id /\
                             step it wk = Ok (w', true).
Proof.
  revert w. induction its as [|it r IH]; intros w; simpl.
  - split; [contradiction|]. intros [pre [it [post [wk [w' [H _]]]]]]. destruct pre; discriminate.
  - destruct (step it w) as [[w' b]| |] eqn:E.
    + rewrite in_app_iff. rewrite IH. split.
      * intros [H|[pre [it0 [post [wk [w1 [-> [Hr [Hid Hs]]]]]]]]].
        -- destruct b; [|contradiction]. destruct H as [<-|[]].
           exists [], it, r, w, w'. repeat split; auto. constructor.
        -- exists (it :: pre), it0, post, wk, w1. repeat split; auto. econstructor; eauto.
      * intros [pre [it0 [post [wk [w1 [Heq [Hr [Hid Hs]]]]]]]].
        destruct pre as [|p pre]; simpl in Heq; inversion Heq; subst.
        -- inversion Hr; subst. rewrite E in Hs. inversion Hs; subst. left. left. reflexivity.
        -- inversion Hr as [|? ? ? ? ? ? Hst Hre]; subst. rewrite E in Hst. inversion Hst; subst.
           right. exists pre, it0, post, wk, w1. auto.
    + split; [contradiction|]. intros [pre [it0 [post [wk [w1 [Heq [Hr [Hid Hs]]]]]]]].
      destruct pre as [|p pre]; simpl in Heq; inversion Heq; subst.
      * inversion Hr; subst. congruence.
      * inversion Hr as [|? ? ? ? ? ? Hst Hre]; subst. congruence.
    + split; [contradiction|]. intros [pre [it0 [post [wk [w1 [Heq [Hr [Hid Hs]]]]]]]].
      destruct pre as [|p pre]; simpl in Heq; inversion Heq; subst.
      * inversion Hr; subst. congruence.
      * inversion Hr as [|? ? ? ? ? ? Hst Hre]; subst. congruence.
Qed.
