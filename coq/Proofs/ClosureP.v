(* C08 - isolation for every rule (correlation rules included): a rule's dependency tree is determined by the
   rules reachable from it through backward references. *)
From Coq Require Import NArith List Bool Arith Lia.
From PS Require Import Base.Outcome Model.Collection Spec.Collection Proofs.CollectionP.
Import ListNotations.

Section Closure.
Variables drule crule : Type.
Notation rule := (rule drule crule).
Notation dtree := (dtree drule crule).
Notation mk_tree := (mk_tree drule crule).
Notation trees_from := (trees_from drule crule).
Notation trees := (trees drule crule).
Notation out_enabled := (out_enabled drule crule).
Notation has_backref := (has_backref drule crule).

Lemma trees_from_nth C : forall rs k i acc,
  nth_error (trees_from C i rs acc) k =
  option_map (fun r => mk_tree C (i + k) r (acc ++ firstn k (trees_from C i rs acc))) (nth_error rs k).
Proof.
  induction rs as [|r rs IH]; intros k i acc; [destruct k; reflexivity|].
  destruct k as [|k].
  - cbn. rewrite Nat.add_0_r, app_nil_r. reflexivity.
  - cbn [Spec.Collection.trees_from nth_error firstn]. rewrite IH.
    rewrite Nat.add_succ_r. cbn [Nat.add].
    destruct (nth_error rs k) as [r'|]; [|reflexivity]. cbn [option_map].
    rewrite <- app_assoc. reflexivity.
Qed.

Lemma tree_nth C i r :
  nth_error C i = Some r ->
  nth_error (trees C) i = Some (mk_tree C i r (firstn i (trees C))).
Proof.
  intros H. unfold Spec.Collection.trees. rewrite trees_from_nth, H. reflexivity.
Qed.

Lemma nth_error_firstn {A} (l : list A) : forall i j,
  nth_error (firstn i l) j = if j <? i then nth_error l j else None.
Proof.
  induction l as [|x l IH]; intros i j.
  - rewrite firstn_nil. destruct j; destruct (_ <? _); reflexivity.
  - destruct i as [|i]; [destruct j; reflexivity|].
    destruct j as [|j]; [reflexivity|]. cbn [firstn nth_error]. rewrite IH.
    reflexivity.
Qed.

Lemma shape_refs (r r' : rule) : same_shape drule crule r r' -> refs_of drule crule r = refs_of drule crule r'.
Proof. destruct r, r'; cbn; tauto. Qed.

Lemma shape_flags C C' i :
  Forall2 (same_shape drule crule) C C' ->
  out_enabled C i = out_enabled C' i /\ has_backref C i = has_backref C' i.
Proof.
  unfold Collection.out_enabled, Collection.has_backref.
  induction 1 as [|r r' C0 C0' Hr HC IH]; [split; reflexivity|].
  destruct IH as [IH1 IH2]. cbn [existsb]. split.
  - apply (f_equal negb) in IH1. rewrite !negb_involutive in IH1. rewrite IH1. f_equal. f_equal.
    destruct r, r'; cbn in Hr; try tauto. destruct Hr as [_ [-> ->]]. reflexivity.
  - rewrite IH2, (shape_refs _ _ Hr). reflexivity.
Qed.

Lemma F2_length {A B} (R : A -> B -> Prop) l l' : Forall2 R l l' -> length l = length l'.
Proof. induction 1; cbn; congruence. Qed.

Notation reach := (reach drule crule).

Theorem closure_isolation C C' :
  Forall2 (same_shape drule crule) C C' ->
  forall i, (forall k, reach C i k -> nth_error C k = nth_error C' k) ->
  nth_error (trees C) i = nth_error (trees C') i.
Proof.
  intros HS i. induction i as [i IH] using lt_wf_ind. intros Hag.
  pose proof (Hag i (reach_refl drule crule C i)) as Hi.
  destruct (nth_error C i) as [r|] eqn:Er.
  - symmetry in Hi. rewrite (tree_nth C i r Er), (tree_nth C' i r Hi).
    destruct (shape_flags C C' i HS) as [Ho Hb].
    destruct r as [d | c refs g]; cbn [Spec.Collection.mk_tree]; rewrite Ho, Hb; [reflexivity|].
    f_equal. f_equal. apply map_ext_in. intros j Hj. rewrite !nth_error_firstn.
    destruct (j <? i) eqn:Hlt; [|reflexivity]. apply Nat.ltb_lt in Hlt.
    apply IH; [exact Hlt|]. intros k Hk. apply Hag.
    eapply reach_step; [exact Er | exact Hj | exact Hlt | exact Hk].
  - assert (Hlen : length C = length C') by (eapply F2_length; exact HS).
    transitivity (@None dtree); [|symmetry]; apply nth_error_None; rewrite (trees_length drule crule).
    + apply nth_error_None. exact Er.
    + rewrite <- Hlen. apply nth_error_None. exact Er.
Qed.

End Closure.
