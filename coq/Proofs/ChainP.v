(* Chains of encoding modifiers applied by SigmaDetectionItem.from_mapping: end-to-end statements
   for [wide | utf16be]? followed by base64 / base64offset, and "no outcome other than a value or a
   Sigma error". *)
From Coq Require Import NArith List Bool Lia Arith.
From PS Require Import Base.Chars Base.Outcome Model.SString Spec.Items Spec.Utf Spec.B64 Model.Enc
     Proofs.SStringP Proofs.B64P Proofs.UtfP Proofs.EncP.
Import ListNotations.
Open Scope N_scope.

Lemma omap_cons {A B} (f : A -> outcome B) y r :
  omap f (y :: r) = obind (f y) (fun a => obind (omap f r) (fun b => Ok (a :: b))).
Proof. reflexivity. Qed.

(* ---------- no crash ---------- *)
Lemma mod_str_no_crash m v c : mod_str m v <> Crash c.
Proof.
  destruct m; unfold mod_str.
  - destruct (contains_special v); [discriminate|]. destruct (bytes_of v); discriminate.
  - destruct (contains_special v); [discriminate|]. destruct (bytes_of v); discriminate.
  - destruct (recode utf16le v) eqn:E; cbn [obind]; try discriminate. exfalso. eapply recode_no_crash; eauto.
  - destruct (recode utf16be v) eqn:E; cbn [obind]; try discriminate. exfalso. eapply recode_no_crash; eauto.
  - destruct (recode utf16le v) eqn:E; cbn [obind]; try discriminate. exfalso. eapply recode_no_crash; eauto.
  - discriminate.
Qed.

Fixpoint vsize (x : sval) : nat :=
  match x with VExp l => S (list_sum (map vsize l)) | _ => 1%nat end.

Lemma omap_no_crash {A B} (f : A -> outcome B) l :
  (forall y, In y l -> forall c, f y <> Crash c) -> forall c, omap f l <> Crash c.
Proof.
  induction l as [|y r IH]; intros H c; [discriminate|]. rewrite omap_cons.
  destruct (f y) as [a|e|c'] eqn:E; cbn [obind]; [|discriminate|exfalso; exact (H y (or_introl eq_refl) c' E)].
  assert (G := IH (fun y' Hy => H y' (or_intror Hy))).
  destruct (omap f r) as [b|e|c'] eqn:E2; cbn [obind]; try discriminate.
  exfalso. exact (G c' eq_refl).
Qed.

Lemma vsize_in y l : In y l -> (vsize y <= list_sum (map vsize l))%nat.
Proof.
  induction l as [|z r IH]; intros H; [destruct H|].
  change (list_sum (map vsize (z :: r))) with (vsize z + list_sum (map vsize r))%nat.
  destruct H as [->|H]; [lia|]. specialize (IH H). lia.
Qed.

Lemma apply_val_no_crash_n m : forall n x, (vsize x <= n)%nat -> forall c, apply_val m x <> Crash c.
Proof.
  induction n as [|n IH]; intros x Hn c.
  - destruct x; simpl in Hn; lia.
  - destruct x as [v|l|]; cbn [apply_val].
    + apply mod_str_no_crash.
    + cbn [vsize] in Hn.
      assert (G : forall c', omap (apply_val m) l <> Crash c').
      { apply omap_no_crash. intros y Hy c'. apply IH. pose proof (vsize_in y l Hy). lia. }
      destruct (omap (apply_val m) l) as [b|e|c'] eqn:E; cbn [obind]; try discriminate.
      exfalso. exact (G c' eq_refl).
    + discriminate.
Qed.

Lemma apply_chain_no_crash ms : forall xs c, apply_chain ms xs <> Crash c.
Proof.
  induction ms as [|m ms IH]; intros xs c; [discriminate|]. cbn [apply_chain].
  destruct (apply_all m xs) as [b|e|c'] eqn:E; cbn [obind]; [apply IH|discriminate|].
  exfalso. unfold apply_all in E. revert E. apply omap_no_crash.
  intros y _ c''. apply (apply_val_no_crash_n m (vsize y)). lia.
Qed.

Theorem from_mapping_no_crash ms ps c : from_mapping ms ps <> Crash c.
Proof. apply apply_chain_no_crash. Qed.

(* ---------- the character-encoding stage of a chain ---------- *)
Definition enc_fun (e : list emod) : option (char -> list N) :=
  match e with
  | [] => Some utf8_char
  | [MWide] => Some utf16le_char
  | [MUtf16be] => Some utf16be_char
  | _ => None
  end.

Lemma recode_src_scalar enc v w : recode enc v = Ok w -> forallb scalar (lits (items v)) = true.
Proof.
  revert w. induction v as [|p v IH]; intros w H; [reflexivity|].
  rewrite items_cons, lits_app, forallb_app. apply andb_true_iff.
  destruct p as [s| | |n]; cbn [recode] in H.
  - destruct (py_encode enc s) as [bs|] eqn:E1; [|discriminate].
    destruct (utf8_dec bs); [|discriminate].
    destruct (recode enc v) as [r| |]; try discriminate.
    split; [|apply (IH r eq_refl)]. cbn [part_items]. rewrite lits_map_Lit.
    apply py_encode_some in E1. apply E1.
  - destruct (recode enc v) as [r| |]; try discriminate. split; [reflexivity | apply (IH r eq_refl)].
  - destruct (recode enc v) as [r| |]; try discriminate. split; [reflexivity | apply (IH r eq_refl)].
  - destruct (recode enc v) as [r| |]; try discriminate. split; [reflexivity | apply (IH r eq_refl)].
Qed.

Lemma flat_map_char_ok (f : char -> list N) :
  f = utf8_char \/ f = utf16le_char \/ f = utf16be_char ->
  forall s, forallb scalar s = true -> bytes_ok (flat_map f s) = true.
Proof.
  intros Hf s H. destruct Hf as [Hf|[Hf|Hf]]; subst f;
    [apply utf8_ok | apply utf16le_ok | apply utf16be_ok]; exact H.
Qed.

Lemma enc_stage e f s rest xs : enc_fun e = Some f ->
  from_mapping (e ++ rest) [PVStr s] = Ok xs ->
  exists w, apply_chain rest [VStr w] = Ok xs /\ contains_placeholder w = false
            /\ vstream w = stream f (iparse s)
            /\ (forall b, all_lit (iparse s) = true -> bytes_of w = Some b ->
                          b = flat_map f (lits (iparse s)) /\ bytes_ok b = true).
Proof.
  intros He H. unfold from_mapping in H. cbn [map sigma_type] in H.
  destruct e as [|m [|m' e']]; [| |destruct m; discriminate].
  - inversion He; subst f. cbn [app] in H. exists (parse true s).
    split; [exact H|]. split; [apply parse_no_placeholder|].
    split; [unfold vstream; rewrite parse_items; reflexivity|].
    intros b A Hb. rewrite <- parse_items in A.
    destruct (bytes_of_lits _ _ A Hb) as [-> Hs]. rewrite parse_items in *.
    split; [reflexivity | apply utf8_ok, Hs].
  - assert (M : (m = MWide /\ f = utf16le_char) \/ (m = MUtf16be /\ f = utf16be_char))
      by (destruct m; inversion He; auto).
    cbn [app apply_chain] in H. unfold apply_all in H. rewrite omap_cons in H. cbn [apply_val omap] in H.
    assert (R : exists r, recode (flat_map f) (parse true s) = Ok r /\ apply_chain rest [VStr r] = Ok xs).
    { destruct M as [[-> ->]|[-> ->]]; unfold mod_str in H.
      - change utf16le with (flat_map utf16le_char) in H.
        destruct (recode (flat_map utf16le_char) (parse true s)) as [r| |] eqn:Er; try discriminate.
        exists r. split; [exact Er | exact H].
      - change utf16be with (flat_map utf16be_char) in H.
        destruct (recode (flat_map utf16be_char) (parse true s)) as [r| |] eqn:Er; try discriminate.
        exists r. split; [exact Er | exact H]. }
    destruct R as [r [Hr Hc]]. exists r. split; [exact Hc|].
    split; [rewrite (recode_placeholder _ _ _ Hr); apply parse_no_placeholder|].
    split; [rewrite (recode_stream _ _ _ Hr), parse_items; reflexivity|].
    intros b A Hb. rewrite <- parse_items in A.
    destruct (recode_bytes _ _ _ Hr A) as [_ Hb']. rewrite Hb' in Hb. inversion Hb; subst b.
    split; [rewrite parse_items; reflexivity|].
    apply flat_map_char_ok; [destruct M as [[_ ->]|[_ ->]]; auto|].
    apply (recode_src_scalar _ _ _ Hr).
Qed.

Lemma all_lit_of_stream f g l l' : stream f l = stream g l' -> all_lit l = all_lit l'.
Proof.
  intros H. pose proof (stream_wild f l) as A. rewrite H, stream_wild in A.
  destruct (all_lit l), (all_lit l'); try reflexivity; discriminate.
Qed.

(* ---------- [wide | utf16be]? base64 ---------- *)
Theorem chain_base64 e f s xs : enc_fun e = Some f ->
  from_mapping (e ++ [MBase64]) [PVStr s] = Ok xs ->
  exists w, xs = [VStr w] /\ all_lit (iparse s) = true
            /\ items w = map Lit (rfc4648 (flat_map f (lits (iparse s)))).
Proof.
  intros He H. destruct (enc_stage e f s _ xs He H) as [w0 [Hc [Hp [Hs Hb]]]].
  cbn [apply_chain] in Hc. unfold apply_all in Hc. rewrite omap_cons in Hc. cbn [apply_val omap] in Hc.
  destruct (mod_str MBase64 w0) as [a| |] eqn:E; try discriminate. cbn [obind] in Hc. inversion Hc; subst xs.
  unfold mod_str in E. destruct (contains_special w0) eqn:Sp; [discriminate|].
  destruct (bytes_of w0) as [b|] eqn:B; [|discriminate]. inversion E; subst a.
  assert (A0 : all_lit (items w0) = true) by (rewrite all_lit_items, Sp, Hp; reflexivity).
  assert (A : all_lit (iparse s) = true).
  { unfold vstream in Hs. rewrite <- (all_lit_of_stream _ _ _ _ Hs). exact A0. }
  destruct (Hb b A eq_refl) as [-> Ok_b].
  eexists. split; [reflexivity|]. split; [exact A|].
  rewrite b64_rfc4648 by exact Ok_b. apply items_parse_plain, rfc4648_plain.
Qed.

(* ---------- [wide | utf16be]? base64offset: the property, end to end ---------- *)
Theorem chain_base64offset e f s xs : enc_fun e = Some f ->
  from_mapping (e ++ [MBase64Offset]) [PVStr s] = Ok xs ->
  let B := flat_map f (lits (iparse s)) in
  exists w0 w1 w2, xs = [VExp [VStr w0; VStr w1; VStr w2]] /\ all_lit (iparse s) = true
    /\ items w0 = map Lit (variant 0 B) /\ items w1 = map Lit (variant 1 B) /\ items w2 = map Lit (variant 2 B)
    /\ (forall pre suf, bytes_ok pre = true -> bytes_ok suf = true ->
          exists w, In w [w0; w1; w2] /\ infix (lits (items w)) (rfc4648 (pre ++ B ++ suf))).
Proof.
  intros He H B. destruct (enc_stage e f s _ xs He H) as [v0 [Hc [Hp [Hs Hb]]]].
  cbn [apply_chain] in Hc. unfold apply_all in Hc. rewrite omap_cons in Hc. cbn [apply_val omap] in Hc.
  destruct (mod_str MBase64Offset v0) as [a| |] eqn:E; try discriminate. cbn [obind] in Hc. inversion Hc; subst xs.
  unfold mod_str in E. destruct (contains_special v0) eqn:Sp; [discriminate|].
  destruct (bytes_of v0) as [b|] eqn:Bv; [|discriminate]. inversion E; subst a.
  assert (A0 : all_lit (items v0) = true) by (rewrite all_lit_items, Sp, Hp; reflexivity).
  assert (A : all_lit (iparse s) = true).
  { unfold vstream in Hs. rewrite <- (all_lit_of_stream _ _ _ _ Hs). exact A0. }
  destruct (Hb b A eq_refl) as [Eb Ok_b]. fold B in Eb. subst b.
  assert (I : forall i, (i < 3)%nat -> items (parse true (variant i B)) = map Lit (variant i B)).
  { intros i Hi. apply items_parse_plain. rewrite variant_payload_text by assumption. apply full6_plain. }
  do 3 eexists. split; [reflexivity|]. split; [exact A|].
  split; [apply I; lia|]. split; [apply I; lia|]. split; [apply I; lia|].
  intros pre suf Hpre Hsuf.
  assert (Hok : bytes_ok (pre ++ B ++ suf) = true).
  { apply bytes_ok_app. split; [exact Hpre|]. apply bytes_ok_app. split; assumption. }
  destruct (offset_hit pre B suf Hok) as [i [Hi Hinf]].
  rewrite b64_rfc4648 in Hinf by exact Hok.
  exists (parse true (variant i B)). split.
  - destruct i as [|[|[|i]]]; try lia; cbn [In]; auto.
  - rewrite I by exact Hi. rewrite lits_map_Lit. exact Hinf.
Qed.
