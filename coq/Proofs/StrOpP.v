From Coq Require Import ZArith NArith List Bool Lia.
From PS Require Import Base.Chars Base.Outcome Model.SString Model.Slice Model.StrOp Spec.Items
  Proofs.SStringP Proofs.SliceP.
Import ListNotations.

(* the pattern an operator with its (sliced) value denotes *)
Definition pattern (o : sop) (l : list item) : list item :=
  match o with
  | OpStartswith => l ++ [Multi]
  | OpEndswith => Multi :: l
  | OpContains => Multi :: l ++ [Multi]
  | OpWildMatch | OpEq => l
  end.

Lemma ends_multi_items v : ends_multi v = true -> exists l, items v = l ++ [Multi] /\ (1 <= slen v)%nat.
Proof.
  unfold ends_multi. destruct (rev v) as [|p r] eqn:E; [discriminate|].
  destruct p; try discriminate. intros _.
  assert (Hv: v = rev r ++ [PMulti]) by (rewrite <- (rev_involutive v), E; reflexivity).
  exists (items (rev r)). split.
  - rewrite Hv, items_app. reflexivity.
  - rewrite slen_items, Hv, items_app, app_length. simpl. lia.
Qed.

Lemma firstn_app_exact {A} (l : list A) x : firstn (length (l ++ [x]) - 1) (l ++ [x]) = l.
Proof.
  rewrite app_length. simpl. replace (length l + 1 - 1)%nat with (length l + 0)%nat by lia.
  rewrite firstn_app_2. simpl. apply app_nil_r.
Qed.

(* collapsing adjacent multi-character wildcards does not change what a pattern matches *)
Lemma wild_multi_multi l s : wild_match (Multi :: Multi :: l) s = wild_match (Multi :: l) s.
Proof.
  induction s as [|c s IH].
  - simpl. rewrite orb_false_r. reflexivity.
  - change (wild_match (Multi :: Multi :: l) (c :: s)) with
      (wild_match (Multi :: l) (c :: s) || wild_match (Multi :: Multi :: l) s).
    rewrite IH.
    change (wild_match (Multi :: l) (c :: s)) with (wild_match l (c :: s) || wild_match (Multi :: l) s).
    destruct (wild_match l (c :: s)), (wild_match (Multi :: l) s); reflexivity.
Qed.

Theorem str_op_pattern K v o x : str_op K v = (o, Ok x) ->
  pattern o (items x) = items v \/
  (* degenerate: the value is a single '*' rendered as contains "" *)
  (o = OpContains /\ items v = [Multi] /\ items x = []).
Proof.
  unfold str_op.
  destruct (has_sw K && ends_multi v && (sw_special K || no_special_in (getitem v None (Some (-1)%Z)))) eqn:E1.
  { intros H. inversion H as [[Ho Hx]]. left. subst o.
    apply andb_true_iff in E1. destruct E1 as [E1 _]. apply andb_true_iff in E1. destruct E1 as [_ E1].
    destruct (ends_multi_items v E1) as [l [Hl Hn]].
    pose proof (slice_prefix_neg v 1 x ltac:(lia) Hx) as Hs. simpl in Hs.
    rewrite Hl in Hs. change (Pos.to_nat 1) with 1%nat in Hs. rewrite firstn_app_exact in Hs.
    cbn [pattern]. rewrite Hs, Hl. reflexivity. }
  destruct (has_ew K && starts_multi v && (ew_special K || no_special_in (getitem v (Some 1%Z) None))) eqn:E2.
  { intros H. inversion H as [[Ho Hx]]. left. subst o.
    apply andb_true_iff in E2. destruct E2 as [E2 _]. apply andb_true_iff in E2. destruct E2 as [_ E2].
    unfold starts_multi in E2. destruct v as [|[| | |] v']; try discriminate.
    pose proof (slice_suffix (PMulti :: v') 1 x ltac:(lia) Hx) as Hs.
    cbn [pattern]. rewrite Hs. reflexivity. }
  destruct (has_ct K && starts_multi v && ends_multi v &&
            (ct_special K || no_special_in (getitem v (Some 1%Z) (Some (-1)%Z)))) eqn:E3.
  { intros H. inversion H as [[Ho Hx]]. subst o.
    apply andb_true_iff in E3. destruct E3 as [E3 _]. apply andb_true_iff in E3. destruct E3 as [E3 Ee].
    apply andb_true_iff in E3. destruct E3 as [_ Es].
    unfold starts_multi in Es. destruct v as [|[| | |] v']; try discriminate.
    pose proof (slice_strip PMulti v' x I Hx) as Hs.
    destruct (ends_multi_items _ Ee) as [l [Hl Hn]].
    change (items (PMulti :: v')) with (Multi :: items v') in *. cbn [tl] in Hs.
    destruct l as [|i l'].
    - (* the leading wildcard is also the trailing one *)
      right. simpl in Hl. inversion Hl as [Hv]. rewrite Hv in Hs. simpl in Hs.
      repeat split; congruence.
    - left. simpl in Hl. inversion Hl as [[Hi Hv]]. subst i. rewrite Hv in Hs.
      rewrite removelast_last in Hs. cbn [pattern]. rewrite Hs, Hv. reflexivity. }
  destruct (has_wm K && contains_special v); intros H; inversion H; subst; left; reflexivity.
Qed.

(* in every case the chosen operator and value match exactly the subjects the source pattern matches *)
Theorem str_op_sem K v o x : str_op K v = (o, Ok x) ->
  forall s, wild_match (pattern o (items x)) s = wild_match (items v) s.
Proof.
  intros H s. destruct (str_op_pattern K v o x H) as [E|[Eo [Ev Ex]]].
  - rewrite E. reflexivity.
  - subst o. rewrite Ev, Ex. cbn [pattern app]. apply wild_multi_multi.
Qed.
