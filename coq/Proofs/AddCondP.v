(* C12: add_condition. With a fresh name (not defined in the rule, not referenced by the condition, not
   matched by any selector of the condition) the rewritten rule `name and (cond)` / `not name and (cond)`
   means: the added detection (negated) AND the original condition evaluated in the original rule. *)
From Coq Require Import NArith List Bool.
From PS Require Import Base.Chars Model.SString Model.Transform Spec.Rewrite.
Import ListNotations.
Open Scope N_scope.

Section CInd.
  Variable P : cexpr -> Prop.
  Hypothesis HId : forall n, P (CId n).
  Hypothesis HSel : forall a p, P (CSel a p).
  Hypothesis HNot : forall c, P c -> P (CNotE c).
  Hypothesis HAnd : forall l, Forall P l -> P (CAndE l).
  Hypothesis HOr : forall l, Forall P l -> P (COrE l).
  Fixpoint cexpr_ind' (c : cexpr) : P c :=
    let go := fix go (l : list cexpr) : Forall P l :=
                match l with [] => Forall_nil P | x :: r => Forall_cons x (cexpr_ind' x) (go r) end in
    match c with
    | CId n => HId n
    | CSel a p => HSel a p
    | CNotE c => HNot c (cexpr_ind' c)
    | CAndE l => HAnd l (go l)
    | COrE l => HOr l (go l)
    end.
End CInd.

Section AddCond.
Variable selm : str -> str -> bool.

Fixpoint fresh_in (name : str) (c : cexpr) : bool :=
  match c with
  | CId n => negb (str_eqb n name)
  | CSel _ pat => negb (selm pat name)
  | CNotE a => fresh_in name a
  | CAndE l | COrE l => forallb (fresh_in name) l
  end.
Definition fresh_env (name : str) (env : list (str * option bool)) : bool :=
  forallb (fun p => negb (str_eqb (fst p) name)) env.

Lemma str_eqb_sym a b : str_eqb a b = str_eqb b a.
Proof.
  destruct (str_eqb a b) eqn:E1, (str_eqb b a) eqn:E2; try reflexivity.
  - apply str_eqb_eq in E1. subst. rewrite str_eqb_refl in E2. discriminate.
  - apply str_eqb_eq in E2. subst. rewrite str_eqb_refl in E1. discriminate.
Qed.

Lemma lookup_snoc env name m n : str_eqb n name = false ->
  lookup_env (env ++ [(name, m)]) n = lookup_env env n.
Proof.
  intros H. unfold lookup_env. induction env as [|[k v] env IH]; cbn [app find fst].
  - rewrite str_eqb_sym, H. reflexivity.
  - destruct (str_eqb k n); [reflexivity | exact IH].
Qed.

Lemma ceval_fresh name m env c : fresh_in name c = true ->
  ceval selm (env ++ [(name, m)]) c = ceval selm env c.
Proof.
  induction c as [n | a p | c IH | l IH | l IH] using cexpr_ind'; cbn [fresh_in ceval]; intros H.
  - apply lookup_snoc. apply negb_true_iff, H.
  - rewrite flat_map_app. cbn [flat_map fst snd]. apply negb_true_iff in H. rewrite H. rewrite !app_nil_r. reflexivity.
  - rewrite (IH H). reflexivity.
  - f_equal. induction IH as [|x l' Hx _ IHl]; [reflexivity|]. cbn [forallb] in H. apply andb_true_iff in H.
    destruct H as [H1 H2]. cbn [flat_map]. rewrite (Hx H1), (IHl H2). reflexivity.
  - f_equal. induction IH as [|x l' Hx _ IHl]; [reflexivity|]. cbn [forallb] in H. apply andb_true_iff in H.
    destruct H as [H1 H2]. cbn [flat_map]. rewrite (Hx H1), (IHl H2). reflexivity.
Qed.

Lemma lookup_new env name m : fresh_env name env = true -> lookup_env (env ++ [(name, m)]) name = m.
Proof.
  unfold lookup_env, fresh_env. induction env as [|[k v] env IH]; cbn [app find fst forallb]; intros H.
  - rewrite str_eqb_refl. reflexivity.
  - apply andb_true_iff in H. destruct H as [H1 H2]. apply negb_true_iff in H1. rewrite H1. exact (IH H2).
Qed.

Lemma dict_set_fresh {A} name (v : A) (l : list (str * A)) :
  forallb (fun p => negb (str_eqb (fst p) name)) l = true -> dict_set name v l = l ++ [(name, v)].
Proof.
  induction l as [|[k x] l IH]; cbn [dict_set forallb fst app]; intros H; [reflexivity|].
  apply andb_true_iff in H. destruct H as [H1 H2]. apply negb_true_iff in H1.
  rewrite str_eqb_sym, H1, (IH H2). reflexivity.
Qed.

(* the added detection means m (None: it is empty); neg: the `negated` parameter *)
Theorem add_condition_sem (name : str) (m : option bool) (neg : bool) (env : list (str * option bool)) (c : cexpr) :
  fresh_env name env = true -> fresh_in name c = true ->
  ceval selm (dict_set name m env) (CAndE [(if neg then CNotE (CId name) else CId name); c])
  = comb true (opt_list (option_map (xorb neg) m) ++ opt_list (ceval selm env c)).
Proof.
  intros He Hc. rewrite (dict_set_fresh name m env He). cbn [ceval flat_map]. rewrite app_nil_r.
  rewrite (ceval_fresh name m env c Hc). f_equal. f_equal.
  destruct neg; cbn [ceval]; rewrite (lookup_new env name m He); destruct m as [b|]; try destruct b; reflexivity.
Qed.

(* without freshness the statement fails: condition `1 of them`, added name captured by the selector *)
Lemma add_condition_captured_refuted :
  exists name m env c, fresh_env name env = true /\
    ceval (fun _ _ => true) (dict_set name m env) (CAndE [CId name; c])
    <> comb true (opt_list m ++ opt_list (ceval (fun _ _ => true) env c)).
Proof.
  exists [120], (Some true), [([115], Some false)], (CSel false [116]). split; [reflexivity|].
  vm_compute. discriminate.
Qed.
End AddCond.
