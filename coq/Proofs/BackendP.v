From Coq Require Import List Arith Bool Lia.
From PS Require Import Model.Backend Spec.Target.
Import ListNotations.
Open Scope nat_scope.

Lemma op_eqb_eq a b : op_eqb a b = true <-> a = b.
Proof. destruct a, b; simpl; split; congruence. Qed.

Section S.
Variable K : cfg.
Variable asg : nat -> bool.
Hypothesis lvl_range : forall o, 1 <= lvl K o <= 3.
Hypothesis lvl_inj : forall a b, lvl K a = lvl K b -> a = b.

Notation pe := (pe (lvl K) asg).
Notation loop := (loop (lvl K) asg).
Notation opat := (opat (lvl K)).
Notation den := (den asg).

Lemma pe_S f i ts : pe (S f) i ts =
    match i with
    | 0 => match ts with
           | TAtom a n :: r => Some (xorb (asg a) n, r)
           | TIn d _ l :: r => Some ((if d then existsb asg l else forallb asg l), r)
           | TL :: r => match pe f 3 r with
                        | Some (v, TR :: r') => Some (v, r')
                        | _ => None end
           | _ => None end
    | S k => match opat i with
             | None => pe f k ts
             | Some ONot => match ts with
                            | TOp ONot :: r => match pe f i r with
                                               | Some (v, r') => Some (negb v, r')
                                               | None => None end
                            | _ => pe f k ts end
             | Some o => match pe f k ts with
                         | Some (v, r) => loop f o k v r
                         | None => None end
             end
    end.
Proof. reflexivity. Qed.
Lemma loop_S f o k v r : loop (S f) o k v r =
    match r with
    | TOp o' :: r' => if op_eqb o' o then
                        match pe f k r' with
                        | Some (v', r'') => loop f o k (comb o v v') r''
                        | None => None end
                      else Some (v, r)
    | _ => Some (v, r)
    end.
Proof. reflexivity. Qed.

(* ---------- fuel monotonicity ---------- *)
Lemma mono : forall f,
  (forall i ts x f', pe f i ts = Some x -> f <= f' -> pe f' i ts = Some x) /\
  (forall o k v r x f', loop f o k v r = Some x -> f <= f' -> loop f' o k v r = Some x).
Proof.
  induction f as [|f [IHp IHl]]; split; intros; try discriminate.
  - destruct f' as [|f']; [lia|]. assert (Hle: f <= f') by lia.
    simpl in H |- *. destruct i as [|k].
    + destruct ts as [|[a n|d fl l|o| |] r]; auto.
      destruct (pe f 3 r) as [[v [|[| | | |] r']]|] eqn:E; try discriminate;
      rewrite (IHp _ _ _ _ E Hle); auto.
    + destruct (opat (S k)) as [[| |]|].
      * destruct ts as [|[a n|d fl l|[| |]| |] r]; eauto.
        destruct (pe f (S k) r) as [[v r']|] eqn:E; try discriminate.
        rewrite (IHp _ _ _ _ E Hle); auto.
      * destruct (pe f k ts) as [[v r]|] eqn:E; try discriminate.
        rewrite (IHp _ _ _ _ E Hle). eauto.
      * destruct (pe f k ts) as [[v r]|] eqn:E; try discriminate.
        rewrite (IHp _ _ _ _ E Hle). eauto.
      * eauto.
  - destruct f' as [|f']; [lia|]. assert (Hle: f <= f') by lia.
    simpl in H |- *. destruct r as [|[a n|d fl l|o'| |] r']; auto.
    destruct (op_eqb o' o); auto.
    destruct (pe f k r') as [[v' r'']|] eqn:E; try discriminate.
    rewrite (IHp _ _ _ _ E Hle). eauto.
Qed.

Definition PE i ts v r := exists f, pe f i ts = Some (v, r).
Definition LOOP o k v r v' r' := exists f, loop f o k v r = Some (v', r').

Lemma pe_mono f f' i ts x : pe f i ts = Some x -> f <= f' -> pe f' i ts = Some x.
Proof. intros; eapply (proj1 (mono f)); eauto. Qed.
Lemma loop_mono f f' o k v r x : loop f o k v r = Some x -> f <= f' -> loop f' o k v r = Some x.
Proof. intros; eapply (proj2 (mono f)); eauto. Qed.

Definition binary (o : op) := o <> ONot.
Definition hd_is (t : tok) (ts : list tok) := match ts with x :: _ => x = t | [] => False end.

Lemma PE_atom a n r : PE 0 (TAtom a n :: r) (xorb (asg a) n) r.
Proof. exists 1. reflexivity. Qed.
Lemma PE_in d fl l r : PE 0 (TIn d fl l :: r) (if d then existsb asg l else forallb asg l) r.
Proof. exists 1. reflexivity. Qed.
Lemma PE_group ts v r : PE 3 ts v (TR :: r) -> PE 0 (TL :: ts) v r.
Proof. intros [f H]. exists (S f). simpl. rewrite H. reflexivity. Qed.
Lemma PE_none k ts v r : opat (S k) = None -> PE k ts v r -> PE (S k) ts v r.
Proof. intros Ho [f H]. exists (S f). simpl. rewrite Ho. exact H. Qed.
Lemma PE_not_skip k ts v r :
  opat (S k) = Some ONot -> ~ hd_is (TOp ONot) ts -> PE k ts v r -> PE (S k) ts v r.
Proof.
  intros Ho Hh [f H]. exists (S f). simpl. rewrite Ho.
  destruct ts as [|[a n|d fl l|[| |]| |] r0]; auto. exfalso. apply Hh. reflexivity.
Qed.
Lemma PE_not_take k ts v r :
  opat (S k) = Some ONot -> PE (S k) ts v r -> PE (S k) (TOp ONot :: ts) (negb v) r.
Proof. intros Ho [f H]. exists (S f). rewrite pe_S. rewrite Ho. rewrite H. reflexivity. Qed.
Lemma PE_bin k o ts v r v' r' : opat (S k) = Some o -> binary o ->
  PE k ts v r -> LOOP o k v r v' r' -> PE (S k) ts v' r'.
Proof.
  intros Ho Hb [f1 H1] [f2 H2]. exists (S (f1 + f2)). rewrite pe_S. rewrite Ho.
  destruct o; [exfalso; apply Hb; reflexivity| |];
  rewrite (pe_mono _ (f1+f2) _ _ _ H1) by lia;
  rewrite (loop_mono _ (f1+f2) _ _ _ _ _ H2) by lia; reflexivity.
Qed.
Lemma LOOP_stop o k v r : ~ hd_is (TOp o) r -> LOOP o k v r v r.
Proof.
  intros Hh. exists 1. simpl. destruct r as [|[a n|d fl l|o'| |] r']; auto.
  destruct (op_eqb o' o) eqn:E; auto. apply op_eqb_eq in E. subst. exfalso. apply Hh. reflexivity.
Qed.
Lemma LOOP_step o k v r1 v1 r2 v' r' :
  PE k r1 v1 r2 -> LOOP o k (comb o v v1) r2 v' r' -> LOOP o k v (TOp o :: r1) v' r'.
Proof.
  intros [f1 H1] [f2 H2]. exists (S (f1+f2)). rewrite loop_S.
  replace (op_eqb o o) with true by (symmetry; apply op_eqb_eq; reflexivity).
  rewrite (pe_mono _ (f1+f2) _ _ _ H1) by lia.
  apply (loop_mono _ (f1+f2) _ _ _ _ _ H2). lia.
Qed.

(* where parsing at level i stops *)
Definition stops (i : nat) (rest : list tok) : Prop :=
  match rest with
  | [] => True | TR :: _ => True
  | TOp o :: _ => binary o /\ i < lvl K o
  | _ => False end.
Lemma stops_le i j r : stops i r -> j <= i -> stops j r.
Proof. destruct r as [|[a n|d fl l|o| |] r]; simpl; auto. intros [? ?] ?. split; auto. lia. Qed.
Lemma stops_not_hd i r o : stops i r -> lvl K o <= i -> ~ hd_is (TOp o) r.
Proof.
  destruct r as [|[a n|d fl l|o'| |] r]; simpl; auto; try congruence.
  intros [? ?] ? E. inversion E; subst. lia.
Qed.

Lemma opat_lvl o : opat (lvl K o) = Some o.
Proof.
  unfold Target.opat. destruct o.
  - now rewrite Nat.eqb_refl.
  - destruct (lvl K ONot =? lvl K OAnd) eqn:E.
    { apply Nat.eqb_eq in E. apply lvl_inj in E. discriminate. }
    now rewrite Nat.eqb_refl.
  - destruct (lvl K ONot =? lvl K OOr) eqn:E.
    { apply Nat.eqb_eq in E. apply lvl_inj in E. discriminate. }
    destruct (lvl K OAnd =? lvl K OOr) eqn:E2.
    { apply Nat.eqb_eq in E2. apply lvl_inj in E2. discriminate. }
    now rewrite Nat.eqb_refl.
Qed.
Lemma opat_some i o : opat i = Some o -> lvl K o = i.
Proof.
  unfold Target.opat.
  destruct (lvl K ONot =? i) eqn:E1; [intros H; inversion H; subst; now apply Nat.eqb_eq|].
  destruct (lvl K OAnd =? i) eqn:E2; [intros H; inversion H; subst; now apply Nat.eqb_eq|].
  destruct (lvl K OOr =? i) eqn:E3; [intros H; inversion H; subst; now apply Nat.eqb_eq|].
  discriminate.
Qed.

(* lifting a parse from level j to a looser level j + d *)
Lemma lift ts v rest : forall d j, PE j ts v rest -> j + d <= 3 -> stops (j + d) rest ->
  (forall m, j < m <= j + d -> lvl K ONot = m -> ~ hd_is (TOp ONot) ts) ->
  PE (j + d) ts v rest.
Proof.
  induction d as [|d IH]; intros j H Hle Hs Hn.
  - now rewrite Nat.add_0_r.
  - replace (j + S d) with (S (j + d)) in * by lia.
    assert (P: PE (j + d) ts v rest).
    { apply IH; auto; try lia. eapply stops_le; eauto. intros m Hm; apply Hn; lia. }
    destruct (opat (S (j + d))) as [o|] eqn:Eo.
    + destruct o.
      * apply PE_not_skip; auto. apply (Hn (S (j+d))); [lia|]. now apply opat_some.
      * eapply PE_bin; eauto; [discriminate|]. apply LOOP_stop.
        eapply stops_not_hd; eauto. apply opat_some in Eo. lia.
      * eapply PE_bin; eauto; [discriminate|]. apply LOOP_stop.
        eapply stops_not_hd; eauto. apply opat_some in Eo. lia.
    + now apply PE_none.
Qed.

(* ---------- operand sequences ---------- *)
Definition Operand (j : nat) (ts : list tok) (v : bool) :=
  forall rest, stops j rest -> PE j (ts ++ rest) v rest.

Inductive OpSeq (o : op) (k : nat) : list tok -> bool -> Prop :=
| os1 ts v : Operand k ts v -> OpSeq o k ts v
| osS ts v ts' v' : Operand k ts v -> OpSeq o k ts' v' ->
    OpSeq o k (ts ++ TOp o :: ts') (comb o v v').

Lemma comb_assoc o a b c : comb o (comb o a b) c = comb o a (comb o b c).
Proof. destruct o, a, b, c; reflexivity. Qed.

Lemma OpSeq_loop o k ts v : OpSeq o k ts v -> binary o -> lvl K o = S k ->
  forall acc rest, stops (S k) rest ->
  LOOP o k acc (TOp o :: ts ++ rest) (comb o acc v) rest.
Proof.
  induction 1 as [ts v Hop | ts v ts' v' Hop Hs IH]; intros Hb Hl acc rest Hst.
  - eapply LOOP_step.
    + apply Hop. eapply stops_le; eauto.
    + apply LOOP_stop. eapply stops_not_hd; eauto. lia.
  - rewrite <- app_assoc. cbn [app]. eapply LOOP_step.
    + apply Hop. simpl. split; auto. lia.
    + rewrite <- comb_assoc. apply IH; auto.
Qed.

Lemma OpSeq_head o k ts v : OpSeq o k ts v -> binary o -> lvl K o = S k ->
  forall rest, stops (S k) rest -> PE (S k) (ts ++ rest) v rest.
Proof.
  intros H Hb Hl rest Hst.
  assert (Ho: opat (S k) = Some o) by (rewrite <- Hl; apply opat_lvl).
  destruct H as [ts v Hop | ts v ts' v' Hop Hs].
  - eapply PE_bin; eauto.
    + apply Hop. eapply stops_le; eauto.
    + apply LOOP_stop. eapply stops_not_hd; eauto. lia.
  - rewrite <- app_assoc. cbn [app]. eapply PE_bin; eauto.
    + apply Hop. simpl. split; auto. lia.
    + eapply OpSeq_loop; eauto.
Qed.

Lemma OpSeq_app o k a va b vb : OpSeq o k a va -> OpSeq o k b vb ->
  OpSeq o k (a ++ TOp o :: b) (comb o va vb).
Proof.
  induction 1 as [ts v Hop | ts v ts' v' Hop Hs IH]; intros Hb.
  - now apply osS.
  - rewrite <- app_assoc. cbn [app]. rewrite comb_assoc. apply osS; auto.
Qed.

Lemma lvl_pos o : exists k, lvl K o = S k.
Proof. destruct (lvl_range o). destruct (lvl K o); [lia|eauto]. Qed.
Lemma lvl_le3 o : lvl K o <= 3.
Proof. destruct (lvl_range o); lia. Qed.
Lemma of_binary o : binary (of_bop o). Proof. destruct o; discriminate. Qed.

End S.
