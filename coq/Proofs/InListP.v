(* field in (v1, ..., vn) rendered by the verification backend reads back as the list of the values' keys
   and is one lexical unit (theorem inlist_faithful). *)
From Coq Require Import ZArith NArith List Bool Lia String Ascii.
From PS Require Import Base.Chars Base.Outcome Model.SString Model.StrOp Model.FieldName Model.Leaf
  Spec.Items Spec.Atom Spec.Lex Spec.Query Proofs.LeafP Proofs.LexP Proofs.LeafLexP.
Import ListNotations.
Open Scope N_scope.

Definition in_val_okb (v : lval * bool) : bool :=
  match fst v with
  | LStr false _ => true
  | LNum txt => inlist_num txt && rawtxt txt
  | _ => false
  end.

Lemma nors_dq_conv_chars s0 : nors c_dq (flat_map (conv_char vb_q) s0) = true.
Proof.
  induction s0 as [|c s0 IH]; [reflexivity|].
  cbn [flat_map]. unfold conv_char at 1. change (mem c (e_filter vb_q)) with false. cbv iota.
  destruct (mem c (escaped_chars vb_q)) eqn:E.
  - change (e_esc vb_q) with (Some c_bs). cbv iota. cbn [app nors]. change (N.eqb c_bs c_bs) with true. cbv iota. exact IH.
  - cbn [app nors].
    assert (N.eqb c c_bs = false) as ->.
    { destruct (N.eqb c c_bs) eqn:Eb; auto. apply N.eqb_eq in Eb. subst c. vm_compute in E. discriminate. }
    assert (N.eqb c c_dq = false) as ->.
    { destruct (N.eqb c c_dq) eqn:Eb; auto. apply N.eqb_eq in Eb. subst c. vm_compute in E. discriminate. }
    exact IH.
Qed.
Lemma nors_dq_convert x c : convert vb_q x = Ok c -> nors c_dq c = true.
Proof.
  revert c. induction x as [|p x IH]; intros c H.
  - inversion H. reflexivity.
  - cbn [convert] in H. destruct p as [s0| | |n].
    + destruct (convert vb_q x) as [r| |]; try discriminate. cbn [obind] in H. inversion H; subst c.
      apply nors_app2; [apply nors_dq_conv_chars|apply IH; reflexivity].
    + cbn [vb_q with_quote vb_e e_multi] in H. destruct (convert vb_q x) as [r| |]; try discriminate.
      cbn [obind] in H. inversion H; subst c. apply (nors_app2 c_dq [c_star] r); [reflexivity|apply IH; reflexivity].
    + cbn [vb_q with_quote vb_e e_single] in H. destruct (convert vb_q x) as [r| |]; try discriminate.
      cbn [obind] in H. inversion H; subst c. apply (nors_app2 c_dq [c_qm] r); [reflexivity|apply IH; reflexivity].
    + discriminate.
Qed.

Section InList.
Variable W : char -> bool.
Hypothesis HW : Wspec W.
Variable k : vbk.
Hypothesis Hq : k_qpat k = None.

(* a quoted literal: its text, how the list reader scans it, what it denotes, and that it is delimiter-safe *)
Lemma value_str_elem pm x vs : value_str (vb k) pm x = Ok vs ->
  exists body, vs = c_dq :: body ++ [c_dq] /\ nors c_dq body = true /\
               str_read (c_dq :: body ++ [c_dq]) = Some (items x) /\ nors c_rq vs = true.
Proof.
  intros H. pose proof (nors_value_str k pm x vs Hq H) as Hr.
  destruct (value_str_vb k pm x vs Hq H) as [b [Hb Hs]].
  unfold value_str in H.
  assert (Hc: value_cfg (vb k) = vb_q) by reflexivity. rewrite Hc in H.
  assert (Hd: decide_quoting (vb k) pm = true).
  { unfold decide_quoting. cbn [vb l_quote l_quote_pat]. rewrite Hq. reflexivity. }
  rewrite Hd in H. cbn [vb l_quote] in H.
  destruct (convert vb_q x) as [c| |] eqn:Ec; try discriminate. cbn [obind] in H. rewrite Hb in H.
  cbn [app] in H. inversion H as [Hbc]. subst b. subst vs.
  exists c. split; [reflexivity|]. split; [exact (nors_dq_convert x c Ec)|]. split; [exact Hs|exact Hr].
Qed.

Lemma in_after_end rec key : in_after rec key [c_rpar] = Some [key].
Proof. reflexivity. Qed.
Lemma in_after_more rec key r : in_after rec key (c_comma :: c_space :: r) = match rec r with Some l => Some (key :: l) | None => None end.
Proof. reflexivity. Qed.

(* one element followed by the rest of the list text *)
Lemma in_elems_step fuel f v pm t rest key : in_val_okb (v, pm) = true ->
  match v with LStr _ sv => value_str (vb k) pm sv | LNum txt => Ok txt | _ => Crash C_TypeError end = Ok t ->
  key_of_val f v = Some key ->
  (rest = [c_rpar] \/ exists r, rest = c_comma :: c_space :: r) ->
  in_elems (S fuel) f (t ++ rest) = in_after (in_elems fuel f) key rest.
Proof.
  intros Hok Ht Hk Hrest. destruct v as [cased sv|num| | | | | | | | | |]; try discriminate.
  - destruct cased; [discriminate|]. cbn in Hk. inversion Hk; subst key. clear Hk.
    destruct (value_str_elem pm sv t Ht) as [body [Hb [Hn [Hs _]]]]. subst t.
    cbn [app in_elems]. change (N.eqb c_dq c_dq) with true. cbv iota.
    rewrite <- app_assoc. cbn [app].
    pose proof (scan_nors c_dq body rest eq_refl Hn) as E. unfold char, str in *. rewrite E.
    rewrite Hs. reflexivity.
  - cbn in Hk. inversion Hk; subst key. clear Hk. inversion Ht; subst t. clear Ht.
    unfold in_val_okb in Hok. cbn [fst] in Hok. apply andb_true_iff in Hok. destruct Hok as [Hnum _].
    unfold inlist_num in Hnum. destruct num as [|c num']; [discriminate|].
    apply andb_true_iff in Hnum. destruct Hnum as [Hc Hall]. apply negb_true_iff in Hc.
    cbn [app in_elems]. rewrite Hc.
    change (c :: num' ++ rest) with ((c :: num') ++ rest).
    rewrite (span_pred (fun d => negb (N.eqb d c_comma || N.eqb d c_rpar)) (c :: num') rest Hall).
    + reflexivity.
    + destruct Hrest as [->|[r ->]]; reflexivity.
Qed.

Lemma in_texts_cons v pm r ts : in_texts (vb k) ((v, pm) :: r) = Ok ts ->
  exists t ts', ts = t :: ts' /\
    match v with LStr _ sv => value_str (vb k) pm sv | LNum txt => Ok txt | _ => Crash C_TypeError end = Ok t /\
    in_texts (vb k) r = Ok ts'.
Proof.
  cbn [in_texts]. intros H.
  destruct (match v with LStr _ sv => value_str (vb k) pm sv | LNum txt => Ok txt | _ => Crash C_TypeError end) as [t| |] eqn:Et;
    try discriminate. cbn [obind] in H.
  destruct (in_texts (vb k) r) as [ts'| |]; try discriminate. cbn [obind] in H. inversion H; subst ts.
  exists t, ts'. repeat split; reflexivity.
Qed.

Lemma in_elems_list f vals : vals <> [] -> forallb in_val_okb vals = true ->
  forall ts, in_texts (vb k) vals = Ok ts ->
  exists es, all_some (map (fun v => key_of_val f (fst v)) vals) = Some es /\
  forall fuel, (List.length vals <= fuel)%nat ->
    in_elems fuel f (join_texts (s ", ") ts ++ [c_rpar]) = Some es.
Proof.
  induction vals as [|[v pm] r IH]; intros Hne Hall ts Hts; [congruence|].
  cbn [forallb] in Hall. apply andb_true_iff in Hall. destruct Hall as [Hv Hr].
  destruct (in_texts_cons v pm r ts Hts) as [t [ts' [-> [Ht Hts']]]].
  assert (Hk: exists key, key_of_val f v = Some key).
  { unfold in_val_okb in Hv. cbn [fst] in Hv. destruct v as [cased sv|num| | | | | | | | | |]; try discriminate.
    - destruct cased; [discriminate|]. eexists. reflexivity.
    - eexists. reflexivity. }
  destruct Hk as [key Hk].
  destruct r as [|v2 r'].
  - (* last element *)
    cbn [in_texts] in Hts'. inversion Hts'; subst ts'.
    exists [key]. split; [cbn [map all_some fst]; rewrite Hk; reflexivity|].
    intros fuel Hf. destruct fuel as [|fuel]; [simpl in Hf; lia|].
    cbn [join_texts].
    rewrite (in_elems_step fuel f v pm t [c_rpar] key Hv Ht Hk (or_introl eq_refl)). reflexivity.
  - destruct (IH ltac:(discriminate) Hr ts' Hts') as [es [Hes Hfuel]].
    exists (key :: es). split.
    + cbn [map all_some fst] in *. rewrite Hk. rewrite Hes. reflexivity.
    + intros fuel Hf. destruct fuel as [|fuel]; [simpl in Hf; lia|].
      assert (Hts2: exists t2 ts2, ts' = t2 :: ts2).
      { destruct v2 as [v2' pm2]. destruct (in_texts_cons v2' pm2 r' ts' Hts') as [t2 [ts2 [-> _]]]. eauto. }
      destruct Hts2 as [t2 [ts2 ->]].
      change (join_texts (s ", ") (t :: t2 :: ts2)) with (t ++ s ", " ++ join_texts (s ", ") (t2 :: ts2)).
      rewrite <- !app_assoc.
      change (s ", " ++ join_texts (s ", ") (t2 :: ts2) ++ [c_rpar])
        with (c_comma :: c_space :: (join_texts (s ", ") (t2 :: ts2) ++ [c_rpar])).
      rewrite (in_elems_step fuel f v pm t _ key Hv Ht Hk (or_intror (ex_intro _ _ eq_refl))).
      rewrite in_after_more. rewrite Hfuel by (simpl in Hf; simpl; lia). reflexivity.
Qed.

Lemma in_texts_nors vals ts : forallb in_val_okb vals = true -> in_texts (vb k) vals = Ok ts ->
  nors c_rq (join_texts (s ", ") ts) = true.
Proof.
  revert ts. induction vals as [|[v pm] r IH]; intros ts Hall Hts.
  - cbn [in_texts] in Hts. inversion Hts. reflexivity.
  - cbn [forallb] in Hall. apply andb_true_iff in Hall. destruct Hall as [Hv Hr].
    destruct (in_texts_cons v pm r ts Hts) as [t [ts' [-> [Ht Hts']]]].
    assert (Hn: nors c_rq t = true).
    { unfold in_val_okb in Hv. cbn [fst] in Hv. destruct v as [cased sv|num| | | | | | | | | |]; try discriminate.
      - exact (nors_value_str k pm sv t Hq Ht).
      - inversion Ht; subst t. apply andb_true_iff in Hv. destruct Hv as [_ Hraw]. exact (rawtxt_nors num Hraw). }
    destruct ts' as [|t2 ts2]; [exact Hn|].
    change (join_texts (s ", ") (t :: t2 :: ts2)) with (t ++ s ", " ++ join_texts (s ", ") (t2 :: ts2)).
    apply nors_app2; [exact Hn|]. apply (nors_app2 c_rq (s ", ")); [reflexivity|]. exact (IH _ Hr Hts').
Qed.

Lemma in_texts_length vals ts : in_texts (vb k) vals = Ok ts -> List.length vals = List.length ts.
Proof.
  revert ts. induction vals as [|[v pm] r IH]; intros ts H.
  - cbn [in_texts] in H. inversion H. reflexivity.
  - destruct (in_texts_cons v pm r ts H) as [t [ts2 [-> [_ H2]]]]. simpl. rewrite (IH ts2 H2). reflexivity.
Qed.
Lemma join_length (ts : list str) : (List.length ts <= S (List.length (join_texts (s ", ") ts)))%nat.
Proof.
  induction ts as [|t r IH]; [simpl; lia|].
  destruct r as [|t2 r']; [simpl; lia|].
  change (join_texts (s ", ") (t :: t2 :: r')) with (t ++ s ", " ++ join_texts (s ", ") (t2 :: r')).
  rewrite !app_length. change (List.length (s ", ")) with 2%nat. simpl List.length at 1. simpl List.length in IH at 1. lia.
Qed.

Theorem inlist_faithful disj f fo vals txt :
  fo_ok W f fo = true -> vals <> [] -> forallb in_val_okb vals = true ->
  render_in (vb k) disj f fo vals = Ok txt ->
  shapeb txt = true /\
  exists es, all_some (map (fun v => key_of_val f (fst v)) vals) = Some es /\ in_decode W txt = Some (disj, es).
Proof.
  intros Hf Hne Hall H. unfold render_in in H. cbn [vb l_in l_list_sep l_or_in_op l_and_in_op] in H.
  destruct (in_texts (vb k) vals) as [ts| |] eqn:Ets; try discriminate. cbn [obind] in H.
  set (J := join_texts (s ", ") ts) in *.
  set (op := if disj then s "in" else s "contains-all") in *.
  assert (Ht: txt = [c_lq] ++ (qfield (vb k) fo f ++ c_space :: op ++ s " (" ++ J ++ [c_rpar]) ++ c_rq :: []).
  { cbn -[qfield] in H. inversion H. repeat progress (cbn -[qfield]; rewrite <- ?app_assoc). reflexivity. }
  subst txt. clear H.
  destruct (nors_qfield W k c_rq fo f ltac:(simpl; tauto) Hf) as [_ Hnf].
  pose proof (in_texts_nors vals ts Hall Ets) as HnJ. fold J in HnJ.
  split.
  - apply shapeb_delim; [|reflexivity].
    apply nors_app2; [exact Hnf|]. apply (nors_app2 c_rq [c_space]); [reflexivity|].
    apply nors_app2; [unfold op; destruct disj; reflexivity|].
    apply (nors_app2 c_rq (s " (")); [reflexivity|]. apply nors_app2; [exact HnJ|reflexivity].
  - destruct (in_elems_list f vals Hne Hall ts Ets) as [es [Hes Hfuel]].
    exists es. split; [exact Hes|].
    unfold in_decode. cbn [app]. change (N.eqb c_lq c_lq) with true. cbv iota.
    rewrite (split_last_app _ []) by (intros []).
    rewrite (fprefix_qfield W HW k fo f _ Hf) by (cbn [stop]; rewrite (W_space W HW); reflexivity).
    fold J in Hfuel.
    destruct disj; unfold op.
    + change (prefixb (s " in (") (c_space :: s "in" ++ s " (" ++ J ++ [c_rpar])) with true. cbv iota.
      change (skipn 5 (c_space :: s "in" ++ s " (" ++ J ++ [c_rpar])) with (J ++ [c_rpar]).
      rewrite Hfuel; [reflexivity|].
      pose proof (in_texts_length vals ts Ets) as Hl. pose proof (join_length ts) as Hj. fold J in Hj.
      cbn [List.length]. rewrite !app_length. lia.
    + change (prefixb (s " in (") (c_space :: s "contains-all" ++ s " (" ++ J ++ [c_rpar])) with false. cbv iota.
      change (prefixb (s " contains-all (") (c_space :: s "contains-all" ++ s " (" ++ J ++ [c_rpar])) with true. cbv iota.
      change (skipn 15 (c_space :: s "contains-all" ++ s " (" ++ J ++ [c_rpar])) with (J ++ [c_rpar]).
      rewrite Hfuel; [reflexivity|].
      pose proof (in_texts_length vals ts Ets) as Hl. pose proof (join_length ts) as Hj. fold J in Hj.
      cbn [List.length]. rewrite !app_length. lia.
Qed.
End InList.
