(* Proofs about the condition-expression parser and evaluator (Model/PipeExpr.v). *)
From Coq Require Import NArith List Bool Arith Lia.
From PS Require Import Base.Chars Base.Outcome Model.PipeExpr Model.PipeCond Spec.PipeSpec.
Import ListNotations.
Local Open Scope nat_scope.

(* ------------------------------------------------------------------------------------- *)
(* one unfolding step of the mutual fixpoint *)
Lemma pe_S f lv ts :
  pe (S f) lv ts =
  match lv with
  | O => match ts with
         | TW w :: r => Parsed (EId w) r
         | TL :: r => match pe f 3 r with
                      | Parsed e (TR :: r') => Parsed e r'
                      | Parsed _ _ => Fail
                      | x => x end
         | _ => Fail end
  | 1%nat => match ts with
         | TW w :: r =>
           if str_eqb w w_not then
             match pe f 1 r with
             | Parsed e r' => Parsed (ENot e) r'
             | Fail => pe f 0 ts
             | OutOfFuel => OutOfFuel end
           else pe f 0 ts
         | _ => pe f 0 ts end
  | S k => match pe f k ts with
           | Parsed e r => loop f lv e r
           | x => x end
  end.
Proof. destruct lv as [|[|k]]; reflexivity. Qed.

Lemma loop_S f lv acc ts :
  loop (S f) lv acc ts =
  match ts with
  | TW w :: r =>
    if str_eqb w (op_word lv) then
      match pe f (Nat.pred lv) r with
      | Parsed e r' => loop f lv (mk_bin lv acc e) r'
      | Fail => Parsed acc ts
      | OutOfFuel => OutOfFuel end
    else Parsed acc ts
  | _ => Parsed acc ts
  end.
Proof. reflexivity. Qed.

(* ------------------------------------------------------------------------------------- *)
(* more fuel never changes an answer *)
Lemma mono : forall f,
  (forall lv ts f', f <= f' -> pe f lv ts <> OutOfFuel -> pe f' lv ts = pe f lv ts) /\
  (forall lv acc ts f', f <= f' -> loop f lv acc ts <> OutOfFuel -> loop f' lv acc ts = loop f lv acc ts).
Proof.
  induction f as [|f [IHp IHl]]; split; intros; try (exfalso; apply H0; reflexivity).
  - destruct f' as [|f']; [lia|]. assert (Hle : f <= f') by lia.
    rewrite (pe_S f'). rewrite (pe_S f) in *. destruct lv as [|[|k]].
    + destruct ts as [|[w| |] r]; try reflexivity.
      destruct (pe f 3 r) eqn:E; try (exfalso; apply H0; reflexivity);
        rewrite (IHp 3%nat r f' Hle) by (rewrite E; discriminate); rewrite E; reflexivity.
    + destruct ts as [|[w| |] r]; try (apply IHp; assumption).
      destruct (str_eqb w w_not); [|apply IHp; assumption].
      destruct (pe f 1 r) eqn:E; try (exfalso; apply H0; reflexivity);
        rewrite (IHp 1%nat r f' Hle) by (rewrite E; discriminate); rewrite E; [|reflexivity].
      apply IHp; assumption.
    + destruct (pe f (S k) ts) eqn:E; try (exfalso; apply H0; reflexivity);
        rewrite (IHp (S k) ts f' Hle) by (rewrite E; discriminate); rewrite E; [reflexivity|].
      apply IHl; assumption.
  - destruct f' as [|f']; [lia|]. assert (Hle : f <= f') by lia.
    rewrite (loop_S f'). rewrite (loop_S f) in *. destruct ts as [|[w| |] r]; try reflexivity.
    destruct (str_eqb w (op_word lv)); [|reflexivity].
    destruct (pe f (Nat.pred lv) r) eqn:E; try (exfalso; apply H0; reflexivity);
      rewrite (IHp (Nat.pred lv) r f' Hle) by (rewrite E; discriminate); rewrite E; [reflexivity|].
    apply IHl; assumption.
Qed.

Lemma pe_mono f f' lv ts e r : pe f lv ts = Parsed e r -> f <= f' -> pe f' lv ts = Parsed e r.
Proof. intros H Hle. rewrite (proj1 (mono f) lv ts f' Hle); [exact H | rewrite H; discriminate]. Qed.
Lemma loop_mono f f' lv acc ts e r : loop f lv acc ts = Parsed e r -> f <= f' -> loop f' lv acc ts = Parsed e r.
Proof. intros H Hle. rewrite (proj2 (mono f) lv acc ts f' Hle); [exact H | rewrite H; discriminate]. Qed.

(* ------------------------------------------------------------------------------------- *)
(* enough fuel never runs out, and a successful parse consumes input *)
Lemma enough : forall f,
  (forall lv ts, lv <= 3 -> 4 * length ts + lv + 1 <= f ->
     pe f lv ts <> OutOfFuel /\ (forall e r, pe f lv ts = Parsed e r -> length r < length ts)) /\
  (forall lv acc ts, 2 <= lv <= 3 -> 4 * length ts + 4 <= f ->
     loop f lv acc ts <> OutOfFuel /\ (forall e r, loop f lv acc ts = Parsed e r -> length r <= length ts)).
Proof.
  induction f as [|f [IHp IHl]]; split; intros; try lia.
  - rewrite pe_S. destruct lv as [|[|k]].
    + destruct ts as [|[w| |] r]; simpl length in *; try (split; [discriminate|intros; discriminate]).
      * split; [discriminate|]. intros e r0 E. inversion E; subst. lia.
      * destruct (IHp 3 r) as [N L]; [lia|lia|].
        destruct (pe f 3 r) as [| |e0 [|[w| |] r']] eqn:E; try (split; [discriminate|intros; discriminate]).
        -- exfalso; apply N; reflexivity.
        -- split; [discriminate|]. intros e r0 E'. inversion E'; subst.
           specialize (L _ _ eq_refl). simpl in L. lia.
    + assert (A0 : pe f 0 ts <> OutOfFuel /\ (forall e r, pe f 0 ts = Parsed e r -> length r < length ts))
        by (apply IHp; lia).
      destruct ts as [|[w| |] r]; try exact A0.
      destruct (str_eqb w w_not); [|exact A0].
      simpl length in *. destruct (IHp 1 r) as [N L]; [lia|lia|].
      destruct (pe f 1 r) eqn:E; try exact A0.
      * exfalso; apply N; reflexivity.
      * split; [discriminate|]. intros e0 r0 E'. inversion E'; subst. specialize (L _ _ eq_refl). lia.
    + destruct (IHp (S k) ts) as [N L]; [lia|lia|].
      destruct (pe f (S k) ts) eqn:E.
      * split; [discriminate|intros; discriminate].
      * exfalso; apply N; reflexivity.
      * specialize (L _ _ eq_refl).
        destruct (IHl (S (S k)) e rest) as [N2 L2]; [lia|lia|].
        split; [exact N2|]. intros e0 r0 E'. specialize (L2 _ _ E'). lia.
  - rewrite loop_S. destruct ts as [|[w| |] r]; try (split; [discriminate|]; intros e r0 E; inversion E; subst; lia).
    destruct (str_eqb w (op_word lv)); [|split; [discriminate|]; intros e r0 E; inversion E; subst; lia].
    simpl length in *. destruct (IHp (Nat.pred lv) r) as [N L]; [lia|lia|].
    destruct (pe f (Nat.pred lv) r) eqn:E.
    + split; [discriminate|]; intros e r0 E'; inversion E'; subst; simpl; lia.
    + exfalso; apply N; reflexivity.
    + specialize (L _ _ eq_refl).
      destruct (IHl lv (mk_bin lv acc e) rest) as [N2 L2]; [lia|lia|].
      split; [exact N2|]. intros e0 r0 E'. specialize (L2 _ _ E'). lia.
Qed.

(* if some fuel gives a result, the entry point's fuel gives the same result *)
Lemma entry_fuel ts e r f : pe f 3 ts = Parsed e r -> pe (fuel_for ts) 3 ts = Parsed e r.
Proof.
  intros H.
  assert (N : pe (fuel_for ts) 3 ts <> OutOfFuel).
  { apply (proj1 (enough (fuel_for ts))); unfold fuel_for; lia. }
  pose proof (pe_mono _ (Nat.max f (fuel_for ts)) _ _ _ _ H (Nat.le_max_l _ _)) as H1.
  rewrite <- H1. symmetry.
  apply (proj1 (mono (fuel_for ts))); [apply Nat.le_max_r | exact N].
Qed.

(* ------------------------------------------------------------------------------------- *)
(* fuel-free view *)
Definition PE lv ts e r := exists f, pe f lv ts = Parsed e r.
Definition LP lv acc ts e r := exists f, loop f lv acc ts = Parsed e r.

Definition nothead (w : str) (ts : list tok) : Prop :=
  match ts with TW w' :: _ => str_eqb w' w = false | _ => True end.

Lemma PE_id w r : PE 0 (TW w :: r) (EId w) r.
Proof. exists 1. reflexivity. Qed.

Lemma PE_par ts e r : PE 3 ts e (TR :: r) -> PE 0 (TL :: ts) e r.
Proof. intros [f H]. exists (S f). rewrite pe_S. rewrite H. reflexivity. Qed.

Lemma PE_not ts e r : PE 1 ts e r -> PE 1 (TW w_not :: ts) (ENot e) r.
Proof. intros [f H]. exists (S f). rewrite pe_S. rewrite str_eqb_refl. rewrite H. reflexivity. Qed.

Lemma PE_skip1 ts e r : PE 0 ts e r -> nothead w_not ts -> PE 1 ts e r.
Proof.
  intros [f H] Hh. exists (S f). rewrite pe_S.
  destruct ts as [|[w| |] r0]; try exact H. simpl in Hh. rewrite Hh. exact H.
Qed.

Lemma PE_bin k ts e0 r0 e r : PE (S k) ts e0 r0 -> LP (S (S k)) e0 r0 e r -> PE (S (S k)) ts e r.
Proof.
  intros [f1 H1] [f2 H2]. exists (S (f1 + f2)). rewrite pe_S.
  rewrite (pe_mono _ (f1 + f2) _ _ _ _ H1) by lia.
  apply (loop_mono _ (f1 + f2) _ _ _ _ _ H2). lia.
Qed.

Lemma LP_stop lv acc ts : nothead (op_word lv) ts -> LP lv acc ts acc ts.
Proof.
  intros Hh. exists 1. rewrite loop_S. destruct ts as [|[w| |] r]; try reflexivity.
  simpl in Hh. rewrite Hh. reflexivity.
Qed.

Lemma LP_step lv acc r e1 r1 e r' :
  PE (Nat.pred lv) r e1 r1 -> LP lv (mk_bin lv acc e1) r1 e r' -> LP lv acc (TW (op_word lv) :: r) e r'.
Proof.
  intros [f1 H1] [f2 H2]. exists (S (f1 + f2)). rewrite loop_S. rewrite str_eqb_refl.
  rewrite (pe_mono _ (f1 + f2) _ _ _ _ H1) by lia.
  apply (loop_mono _ (f1 + f2) _ _ _ _ _ H2). lia.
Qed.

(* ------------------------------------------------------------------------------------- *)
(* the parser accepts every expression of the grammar and builds the tree it spells *)
Lemma atom_head ts e rest : SAtom ts e -> nothead w_not (ts ++ rest).
Proof.
  intros H. destruct H as [w H0|ts e H0]; simpl; [|exact I].
  unfold ident_ok, is_kw in H0. apply orb_false_iff in H0. destruct H0 as [H0 _].
  apply orb_false_iff in H0. destruct H0 as [H0 _]. exact H0.
Qed.

Lemma spells_complete :
  (forall ts e, SAtom ts e -> forall rest, PE 0 (ts ++ rest) e rest) /\
  (forall ts e, SNot ts e -> forall rest, PE 1 (ts ++ rest) e rest) /\
  (forall ts e, SAnd ts e -> forall rest, exists e0 r0,
       PE 1 (ts ++ rest) e0 r0 /\ forall x r, LP 2 e rest x r -> LP 2 e0 r0 x r) /\
  (forall ts e, SOr ts e -> forall rest, nothead w_and rest -> exists e0 r0,
       PE 2 (ts ++ rest) e0 r0 /\ forall x r, LP 3 e rest x r -> LP 3 e0 r0 x r).
Proof.
  apply spells_ind.
  - (* identifier *) intros w Hw rest. apply PE_id.
  - (* parentheses *) intros ts e _ IH rest. simpl. rewrite <- app_assoc. simpl.
    apply PE_par. destruct (IH (TR :: rest) I) as [e0 [r0 [P C]]].
    apply (PE_bin 1 _ e0 r0); [exact P|]. apply C. apply (LP_stop 3). exact I.
  - (* atom as not-level *) intros ts e Ha IH rest. apply PE_skip1; [apply IH | eapply atom_head; eauto].
  - (* not *) intros ts e _ IH rest. simpl. apply PE_not. apply IH.
  - (* not-level as and-level *) intros ts e _ IH rest. exists e, rest. split; [apply IH | auto].
  - (* and *) intros ts1 e1 ts2 e2 _ IH1 _ IH2 rest.
    destruct (IH1 (TW w_and :: ts2 ++ rest)) as [e0 [r0 [P C]]].
    exists e0, r0. rewrite <- app_assoc. simpl. split; [exact P|].
    intros x r L. apply C. apply (LP_step 2 e1 (ts2 ++ rest) e2 rest); [apply IH2 | exact L].
  - (* and-level as or-level *) intros ts e _ IH rest Hh.
    destruct (IH rest) as [e0 [r0 [P C]]].
    exists e, rest. split; [|auto].
    apply (PE_bin 0 _ e0 r0); [exact P|]. apply C. apply (LP_stop 2). exact Hh.
  - (* or *) intros ts1 e1 ts2 e2 _ IH1 _ IH2 rest Hh.
    destruct (IH1 (TW w_or :: ts2 ++ rest)) as [e0 [r0 [P C]]]; [reflexivity|].
    exists e0, r0. rewrite <- app_assoc. simpl. split; [exact P|].
    intros x r L. apply C. apply (LP_step 3 e1 (ts2 ++ rest) e2 rest); [|exact L].
    destruct (IH2 rest) as [e0' [r0' [P' C']]].
    apply (PE_bin 0 _ e0' r0'); [exact P'|]. apply C'. apply (LP_stop 2). exact Hh.
Qed.

Theorem parse_tokens_complete ts e : SOr ts e -> parse_tokens ts = Some e.
Proof.
  intros H. destruct (proj2 (proj2 (proj2 spells_complete)) ts e H [] I) as [e0 [r0 [P C]]].
  rewrite app_nil_r in P.
  assert (P3 : PE 3 ts e []).
  { apply (PE_bin 1 _ e0 r0); [exact P|]. apply C. apply (LP_stop 3). exact I. }
  destruct P3 as [f Hf]. unfold parse_tokens. rewrite (entry_fuel _ _ _ _ Hf). reflexivity.
Qed.

(* ------------------------------------------------------------------------------------- *)
(* text level: tokens written with single blanks between them are read back by the lexer *)
Definition word_ok (w : str) : Prop := w <> [] /\ forallb is_ident_char w = true.
Definition tok_ok (t : tok) : Prop := match t with TW w => word_ok w | _ => True end.

Definition tok_text (t : tok) : str := match t with TW w => w | TL => [c_lpar] | TR => [c_rpar] end.
Fixpoint unlex (ts : list tok) : str :=
  match ts with [] => [] | t :: r => tok_text t ++ c_space :: unlex r end.

Lemma lex_word w cur s : forallb is_ident_char w = true -> lex cur (w ++ s) = lex (rev w ++ cur) s.
Proof.
  revert cur. induction w as [|c w IH]; intros cur H; simpl; [reflexivity|].
  simpl in H. apply andb_true_iff in H. destruct H as [Hc Hw]. rewrite Hc.
  rewrite IH by exact Hw. simpl. rewrite <- app_assoc. reflexivity.
Qed.

Lemma lex_unlex ts : Forall tok_ok ts -> lex [] (unlex ts) = Some ts.
Proof.
  induction 1 as [|t ts Ht _ IH]; [reflexivity|].
  destruct t as [w| |]; simpl.
  - destruct Ht as [Hne Hid]. rewrite lex_word by exact Hid. rewrite app_nil_r. simpl.
    rewrite IH. simpl. unfold flush. rewrite rev_involutive.
    destruct (rev w) eqn:E; [|reflexivity].
    exfalso. apply Hne. rewrite <- (rev_involutive w). rewrite E. reflexivity.
  - rewrite IH. reflexivity.
  - rewrite IH. reflexivity.
Qed.

Theorem parse_expr_complete ts e : Forall tok_ok ts -> SOr ts e -> parse_expr (unlex ts) = Some e.
Proof.
  intros Hok Hs. unfold parse_expr. rewrite lex_unlex by exact Hok. apply parse_tokens_complete. exact Hs.
Qed.

(* ------------------------------------------------------------------------------------- *)
(* the evaluator computes the boolean meaning of the tree; it raises iff an identifier's condition raises *)
Lemma eval_den env benv e :
  (forall w, In w (ids e) -> env w = Ok (benv w)) -> eval_ex env e = Ok (den benv e).
Proof.
  induction e as [w|a IH|a IHa b IHb|a IHa b IHb]; simpl; intros H.
  - apply H. left. reflexivity.
  - rewrite IH by exact H. reflexivity.
  - rewrite IHa by (intros; apply H; apply in_or_app; auto).
    rewrite IHb by (intros; apply H; apply in_or_app; auto). reflexivity.
  - rewrite IHa by (intros; apply H; apply in_or_app; auto).
    rewrite IHb by (intros; apply H; apply in_or_app; auto). reflexivity.
Qed.

Lemma eval_ok_ids env e b : eval_ex env e = Ok b -> forall w, In w (ids e) -> exists x, env w = Ok x.
Proof.
  revert b. induction e as [w|a IH|a IHa c IHc|a IHa c IHc]; simpl; intros b H w0 Hin.
  - destruct Hin as [<-|[]]. eauto.
  - destruct (eval_ex env a) eqn:E; try discriminate. eapply IH; eauto.
  - destruct (eval_ex env a) eqn:Ea; try discriminate. simpl in H.
    destruct (eval_ex env c) eqn:Ec; try discriminate.
    apply in_app_or in Hin. destruct Hin; [eapply IHa | eapply IHc]; eauto.
  - destruct (eval_ex env a) eqn:Ea; try discriminate. simpl in H.
    destruct (eval_ex env c) eqn:Ec; try discriminate.
    apply in_app_or in Hin. destruct Hin; [eapply IHa | eapply IHc]; eauto.
Qed.
