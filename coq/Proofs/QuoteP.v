From Coq Require Import NArith List Bool Lia.
From PS Require Import Base.Chars Base.Outcome Model.SString Spec.Items Proofs.ConvertP.
Import ListNotations.
Open Scope N_scope.

Definition QDec (K : ecfg) (q : char) (rest : str) (l : list item) : Prop :=
  forall fuel, (length rest < fuel)%nat -> qdecode fuel K q rest = Some l.

Lemma qdec_close K q e : e_esc K = Some e -> N.eqb e q = false -> QDec K q [q] [].
Proof.
  intros He Hne [|f] Hf; [inversion Hf|]. cbn [qdecode]. rewrite He, Hne, N.eqb_refl. reflexivity.
Qed.

Lemma qdec_esc K q e c rest l :
  e_esc K = Some e -> QDec K q rest l -> QDec K q (e :: c :: rest) (Lit c :: l).
Proof.
  intros He HD [|f] Hf; [inversion Hf|]. cbn [qdecode]. rewrite He, N.eqb_refl.
  rewrite HD by (simpl in Hf; lia). reflexivity.
Qed.

Lemma qdec_lit K q e c rest l :
  e_esc K = Some e -> N.eqb e c = false -> N.eqb c q = false -> mem c (escaped_chars K) = false ->
  QDec K q rest l -> QDec K q (c :: rest) (Lit c :: l).
Proof.
  intros He Hne Hq Hm HD [|f] Hf; [inversion Hf|]. cbn [qdecode]. rewrite He, Hne, Hq.
  rewrite starts_fail_hd, starts_fail_hd.
  - rewrite HD by (simpl in Hf; lia). reflexivity.
  - destruct (e_single K) as [[|y w]|] eqn:E; auto.
    destruct (N.eqb y c) eqn:Ey; auto. apply N.eqb_eq in Ey. subst y.
    rewrite (hd_escaped_single _ _ _ E) in Hm. discriminate.
  - destruct (e_multi K) as [[|y w]|] eqn:E; auto.
    destruct (N.eqb y c) eqn:Ey; auto. apply N.eqb_eq in Ey. subst y.
    rewrite (hd_escaped_multi _ _ _ E) in Hm. discriminate.
Qed.

Lemma qdec_multi K q e m ms rest l :
  e_esc K = Some e -> e_multi K = Some (m :: ms) -> N.eqb m e = false -> N.eqb m q = false ->
  QDec K q rest l -> QDec K q ((m :: ms) ++ rest) (Multi :: l).
Proof.
  intros He Hm Hne Hq HD [|f] Hf; [inversion Hf|].
  change ((m :: ms) ++ rest) with (m :: ms ++ rest) in *. cbn [qdecode].
  rewrite He. rewrite N.eqb_sym, Hne, Hq. rewrite Hm.
  unfold starts. change (m :: ms ++ rest) with ((m :: ms) ++ rest).
  rewrite prefixb_app, skipn_app_len.
  rewrite HD; [reflexivity|]. simpl in Hf. rewrite app_length in Hf. lia.
Qed.

Lemma qdec_single K q e m ms rest l :
  e_esc K = Some e -> e_single K = Some (m :: ms) -> N.eqb m e = false -> N.eqb m q = false ->
  hd_differ (e_multi K) (e_single K) = true ->
  QDec K q rest l -> QDec K q ((m :: ms) ++ rest) (Single :: l).
Proof.
  intros He Hs Hne Hq Hd HD [|f] Hf; [inversion Hf|].
  change ((m :: ms) ++ rest) with (m :: ms ++ rest) in *. cbn [qdecode].
  rewrite He. rewrite N.eqb_sym, Hne, Hq.
  rewrite starts_fail_hd.
  - rewrite Hs. unfold starts. change (m :: ms ++ rest) with ((m :: ms) ++ rest).
    rewrite prefixb_app, skipn_app_len.
    rewrite HD; [reflexivity|]. simpl in Hf. rewrite app_length in Hf. lia.
  - rewrite Hs in Hd. destruct (e_multi K) as [[|y w]|]; auto. simpl in Hd.
    apply negb_true_iff in Hd. exact Hd.
Qed.

(* quoting configuration: as wf_escaping for the configuration with the quote added to the escaped
   characters, and the quote is neither the escape character nor the first character of a wildcard *)
Definition wf_quoting (K : ecfg) (q : char) : bool :=
  wf_escaping (with_quote K q) &&
  match e_esc K with Some e => negb (N.eqb e q) | None => false end &&
  match e_multi K with Some (m :: _) => negb (N.eqb m q) | _ => true end &&
  match e_single K with Some (m :: _) => negb (N.eqb m q) | _ => true end.

Lemma qdec_chars K q e s :
  e_esc K = Some e -> (mem e (escaped_chars K) || mem e (e_filter K)) = true ->
  mem q (escaped_chars K) = true ->
  forall rest l, QDec K q rest l ->
  QDec K q (flat_map (conv_char K) s ++ rest) (filter_items K (map Lit s) ++ l).
Proof.
  intros He Hself Hq. induction s as [|c s IH]; intros rest l HD; [exact HD|].
  cbn [flat_map map]. unfold filter_items in *. cbn [filter].
  unfold conv_char at 1. destruct (mem c (e_filter K)) eqn:Ef; cbn [negb].
  - cbn [app]. apply IH. exact HD.
  - rewrite <- app_assoc. destruct (mem c (escaped_chars K)) eqn:Ee.
    + rewrite He. cbn [app]. eapply qdec_esc; eauto.
    + cbn [app]. eapply qdec_lit; eauto.
      * destruct (N.eqb e c) eqn:Eec; auto. apply N.eqb_eq in Eec. subst c.
        rewrite Ee, Ef in Hself. discriminate.
      * destruct (N.eqb c q) eqn:Ecq; auto. apply N.eqb_eq in Ecq. subst c.
        rewrite Hq in Ee. discriminate.
Qed.

Lemma mem_with_quote K q : mem q (escaped_chars (with_quote K q)) = true.
Proof.
  unfold escaped_chars, with_quote. cbn [e_multi e_single e_add]. rewrite !mem_app.
  simpl. rewrite N.eqb_refl. rewrite !orb_true_r. reflexivity.
Qed.

Theorem quoted_decode K q v s :
  wf_quoting K q = true -> convert_quoted K q v = Ok s ->
  qread (with_quote K q) q s = Some (filter_items K (items v)).
Proof.
  unfold wf_quoting, convert_quoted. intros Hwf Hs.
  apply andb_true_iff in Hwf. destruct Hwf as [Hwf Hqs].
  apply andb_true_iff in Hwf. destruct Hwf as [Hwf Hqm].
  apply andb_true_iff in Hwf. destruct Hwf as [Hwf Hqe].
  set (K' := with_quote K q) in *.
  destruct (convert K' v) as [body| |] eqn:Eb; try discriminate. simpl in Hs. inversion Hs; subst s. clear Hs.
  unfold qread. rewrite N.eqb_refl.
  assert (He': e_esc K' = e_esc K) by reflexivity.
  destruct (e_esc K) as [e|] eqn:He; [|discriminate].
  apply negb_true_iff in Hqe.
  unfold wf_escaping in Hwf. rewrite He' in Hwf.
  apply andb_true_iff in Hwf. destruct Hwf as [Hwf Hdiff].
  apply andb_true_iff in Hwf. destruct Hwf as [Hwf Hsg].
  apply andb_true_iff in Hwf. destruct Hwf as [Hself Hmu].
  assert (G: forall v body, convert K' v = Ok body ->
             forall rest l, QDec K' q rest l -> QDec K' q (body ++ rest) (filter_items K' (items v) ++ l)).
  { clear v body Eb. induction v as [|p v IH]; intros body Hb rest l HD.
    - inversion Hb; subst. exact HD.
    - cbn [convert] in Hb. change (items (p :: v)) with (part_items p ++ items v).
      rewrite filter_items_app, <- app_assoc.
      destruct p as [s| | |n].
      + destruct (convert K' v) as [r| |] eqn:Er; try discriminate. simpl in Hb.
        inversion Hb; subst body. rewrite <- app_assoc.
        apply qdec_chars with (e := e); auto. apply mem_with_quote.
      + destruct (e_multi K') as [w|] eqn:Em; [|discriminate].
        destruct (convert K' v) as [r| |] eqn:Er; try discriminate. simpl in Hb.
        inversion Hb; subst body. rewrite <- app_assoc.
        destruct w as [|m ms]; [discriminate|]. simpl in Hmu. apply negb_true_iff in Hmu.
        change (filter_items K' (part_items PMulti)) with [Multi]. cbn [app].
        eapply qdec_multi; eauto.
        change (e_multi K') with (e_multi K) in Em. rewrite Em in Hqm. apply negb_true_iff in Hqm. exact Hqm.
      + destruct (e_single K') as [w|] eqn:Es; [|discriminate].
        destruct (convert K' v) as [r| |] eqn:Er; try discriminate. simpl in Hb.
        inversion Hb; subst body. rewrite <- app_assoc.
        destruct w as [|m ms]; [discriminate|]. simpl in Hsg. apply negb_true_iff in Hsg.
        change (filter_items K' (part_items PSingle)) with [Single]. cbn [app].
        eapply qdec_single; eauto.
        * change (e_single K') with (e_single K) in Es. rewrite Es in Hqs. apply negb_true_iff in Hqs. exact Hqs.
        * rewrite Es. exact Hdiff.
      + discriminate. }
  pose proof (G v body Eb [q] [] (qdec_close K' q e He' Hqe)) as H.
  rewrite app_nil_r in H. change (filter_items K' (items v)) with (filter_items K (items v)) in H.
  apply H. rewrite app_length. simpl. lia.
Qed.
