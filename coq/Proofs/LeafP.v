(* The verification backend's rendering of a leaf, read back by the target language's atom reader,
   says what the source value says (theorem leaf_faithful), for every field name, value and flag set. *)
From Coq Require Import ZArith NArith List Bool Lia String Ascii.
From PS Require Import Base.Chars Base.Outcome Model.SString Model.Slice Model.StrOp Model.FieldName Model.RxEscape
  Model.Leaf Spec.Items Spec.Atom Proofs.SStringP Proofs.ConvertP Proofs.QuoteP Proofs.StrOpP Proofs.RxEscapeP.
Import ListNotations.
Open Scope N_scope.

(* ---------------------------------------------------------------------------------------------- *)
(* word characters *)
Section WithW.
Variable W : char -> bool.
Hypothesis HW : Wspec W.

Lemma W_special c : In c specials -> W c = false.
Proof.
  destruct HW as [_ H]. rewrite forallb_forall in H. intros Hc. apply H in Hc.
  apply negb_true_iff in Hc. exact Hc.
Qed.
Ltac wspecial := apply W_special; unfold specials; simpl; tauto.
Lemma W_sq : W c_sq = false. Proof. wspecial. Qed.
Lemma W_bs : W c_bs = false. Proof. wspecial. Qed.
Lemma W_lq : W c_lq = false. Proof. wspecial. Qed.
Lemma W_eq : W c_eq = false. Proof. wspecial. Qed.
Lemma W_bang : W c_bang = false. Proof. wspecial. Qed.
Lemma W_lpar : W c_lpar = false. Proof. wspecial. Qed.
Lemma W_rpar : W c_rpar = false. Proof. wspecial. Qed.
Lemma W_dot : W c_dot = false. Proof. wspecial. Qed.
Lemma W_space : W c_space = false. Proof. wspecial. Qed.
Lemma W_lt : W 60 = false. Proof. wspecial. Qed.
Lemma W_gt : W 62 = false. Proof. wspecial. Qed.

Definition stop (rest : str) : bool := match rest with [] => true | c :: _ => negb (W c) end.

Lemma span_word f rest : forallb W f = true -> stop rest = true -> span W (f ++ rest) = (f, rest).
Proof.
  induction f as [|c f IH]; intros Hf Hs.
  - simpl. destruct rest as [|d r]; [reflexivity|]. simpl in Hs. apply negb_true_iff in Hs.
    simpl. rewrite Hs. reflexivity.
  - simpl in Hf. apply andb_true_iff in Hf. destruct Hf as [Hc Hf].
    cbn [app span]. rewrite Hc. rewrite (IH Hf Hs). reflexivity.
Qed.

(* ---------------------------------------------------------------------------------------------- *)
(* field names *)
Definition escf (c : char) : str := if N.eqb c c_bs || N.eqb c c_rq || N.eqb c c_sq then [c_bs; c] else [c].

Lemma escape_from_escf ps f : forall i, pos_ok ps i f = true ->
  escape_from vb_f [c_bs] (fun j => existsb (Nat.eqb j) ps) i f = flat_map escf f.
Proof.
  induction f as [|c f IH]; intros i H; [reflexivity|].
  cbn [pos_ok] in H. apply andb_true_iff in H. destruct H as [Hc Hr].
  cbn [escape_from flat_map]. rewrite (IH _ Hr).
  assert (E: esc_pos vb_f (fun j => existsb (Nat.eqb j) ps) i c = N.eqb c c_bs || N.eqb c c_rq || N.eqb c c_sq).
  { unfold esc_pos. cbn [vb_f f_escape_quote f_quote andb].
    destruct (N.eqb c c_bs || N.eqb c c_rq) eqn:Eb.
    - rewrite Hc. reflexivity.
    - destruct (N.eqb c c_sq) eqn:Es.
      + rewrite orb_true_r. reflexivity.
      + apply negb_true_iff in Hc. rewrite Hc. reflexivity. }
  rewrite E. unfold escf. destruct (N.eqb c c_bs || N.eqb c c_rq || N.eqb c c_sq); reflexivity.
Qed.

Lemma fq_read_escf f rest : fq_read (flat_map escf f ++ c_sq :: rest) = Some (f, rest).
Proof.
  induction f as [|c f IH].
  - reflexivity.
  - cbn [flat_map]. unfold escf at 1. destruct (N.eqb c c_bs || N.eqb c c_rq || N.eqb c c_sq) eqn:E.
    + cbn [app fq_read]. change (N.eqb c_bs c_bs) with true. cbv iota. rewrite IH. reflexivity.
    + apply orb_false_iff in E. destruct E as [E Es]. apply orb_false_iff in E. destruct E as [Eb Er].
      cbn [app fq_read]. rewrite Eb, Es, IH. reflexivity.
Qed.

Lemma escf_word f : forallb W f = true -> flat_map escf f = f.
Proof.
  induction f as [|c f IH]; intros H; [reflexivity|].
  simpl in H. apply andb_true_iff in H. destruct H as [Hc Hf].
  cbn [flat_map]. rewrite (IH Hf). unfold escf.
  assert (N.eqb c c_bs = false) as ->.
  { destruct (N.eqb c c_bs) eqn:E; auto. apply N.eqb_eq in E. subst. rewrite W_bs in Hc. discriminate. }
  assert (N.eqb c c_rq = false) as ->.
  { destruct (N.eqb c c_rq) eqn:E; auto. apply N.eqb_eq in E. subst. rewrite (W_special c_rq) in Hc; [discriminate|]. unfold specials; simpl; tauto. }
  assert (N.eqb c c_sq = false) as ->.
  { destruct (N.eqb c c_sq) eqn:E; auto. apply N.eqb_eq in E. subst. rewrite W_sq in Hc. discriminate. }
  reflexivity.
Qed.

Lemma qfield_vb k fo f : pos_ok (fst fo) 0 f = true ->
  qfield (vb k) fo f = if snd fo then c_sq :: flat_map escf f ++ [c_sq] else flat_map escf f.
Proof.
  intros H. unfold qfield, escape_and_quote_field. cbn [vb l_f vb_f f_escape f_quote].
  change {| f_quote := Some c_sq; f_escape := Some [c_bs]; f_escape_quote := true |} with vb_f.
  rewrite (escape_from_escf _ _ _ H). reflexivity.
Qed.

Theorem fprefix_qfield k fo f rest : fo_ok W f fo = true -> stop rest = true ->
  fprefix W (qfield (vb k) fo f ++ rest) = Some (f, snd fo, rest).
Proof.
  unfold fo_ok. intros H Hs. apply andb_true_iff in H. destruct H as [Hp Hq].
  rewrite (qfield_vb _ _ _ Hp). apply eqb_prop in Hq. rewrite Hq.
  destruct (wordy W f) eqn:Ew; cbn [negb].
  - unfold wordy in Ew. destruct f as [|c f]; [discriminate|].
    rewrite (escf_word _ Ew). unfold fprefix. cbn [app].
    assert (Hc: W c = true) by (simpl in Ew; apply andb_true_iff in Ew; tauto).
    assert (N.eqb c c_sq = false) as ->.
    { destruct (N.eqb c c_sq) eqn:E; auto. apply N.eqb_eq in E. subst. rewrite W_sq in Hc. discriminate. }
    change (c :: f ++ rest) with ((c :: f) ++ rest). rewrite (span_word _ _ Ew Hs). reflexivity.
  - unfold fprefix. cbn [app]. change (N.eqb c_sq c_sq) with true. cbv iota.
    rewrite <- app_assoc. cbn [app]. rewrite fq_read_escf. reflexivity.
Qed.

End WithW.

(* ---------------------------------------------------------------------------------------------- *)
(* delimiters *)
Lemma split_last_none x : ~ In c_rq x -> split_last_rq x = None.
Proof.
  induction x as [|c x IH]; intros H; [reflexivity|].
  cbn [split_last_rq]. rewrite IH by (intros Hi; apply H; right; exact Hi).
  destruct (N.eqb c c_rq) eqn:E; [|reflexivity].
  apply N.eqb_eq in E. subst c. exfalso. apply H. left. reflexivity.
Qed.
Lemma split_last_app body suffix : ~ In c_rq suffix ->
  split_last_rq (body ++ c_rq :: suffix) = Some (body, suffix).
Proof.
  intros H. induction body as [|c b IH].
  - cbn [app split_last_rq]. rewrite (split_last_none _ H). reflexivity.
  - cbn [app split_last_rq]. rewrite IH. reflexivity.
Qed.

(* ---------------------------------------------------------------------------------------------- *)
(* string literals *)
Lemma filter_items_vb l : filter_items vb_e l = l.
Proof.
  unfold filter_items. induction l as [|i l IH]; [reflexivity|].
  destruct i; simpl; f_equal; exact IH.
Qed.
Lemma wf_quoting_vb : wf_quoting vb_e c_dq = true.
Proof. vm_compute. reflexivity. Qed.

Lemma value_str_vb k pm x vs : k_qpat k = None -> value_str (vb k) pm x = Ok vs ->
  exists body, vs = c_dq :: body /\ str_read vs = Some (items x).
Proof.
  intros Hq H. unfold value_str in H.
  assert (Hc: value_cfg (vb k) = with_quote vb_e c_dq) by reflexivity.
  rewrite Hc in H.
  assert (Hd: decide_quoting (vb k) pm = true).
  { unfold decide_quoting. cbn [vb l_quote l_quote_pat]. rewrite Hq. reflexivity. }
  rewrite Hd in H. cbn [vb l_quote] in H.
  destruct (convert (with_quote vb_e c_dq) x) as [c| |] eqn:Ec; try discriminate.
  cbn [obind] in H. inversion H; subst vs. clear H.
  exists (c ++ [c_dq]). split; [reflexivity|].
  unfold str_read. cbn [app]. change (N.eqb c_dq c_dq) with true. cbv iota.
  change ([c_dq] ++ c ++ [c_dq]) with (c_dq :: c ++ [c_dq]).
  pose proof (quoted_decode vb_e c_dq x (c_dq :: c ++ [c_dq]) wf_quoting_vb) as Q.
  unfold convert_quoted in Q. rewrite Ec in Q. cbn [obind] in Q. specialize (Q eq_refl).
  rewrite filter_items_vb in Q. exact Q.
Qed.

(* ---------------------------------------------------------------------------------------------- *)
(* regular expressions *)
Lemma value_re_vb k rx fi fm fs :
  value_re (vb k) rx fi fm fs = flat_map (esc1 c_bs rx_escaped) rx.
Proof.
  unfold value_re. cbn [vb l_re_escape l_re_ec l_re_eec l_re_flag_prefix].
  change [[c_slash]; [c_lq]; [c_rq]] with (map (fun x : char => [x]) [c_slash; c_lq; c_rq]).
  transitivity (rx_escape (map (fun x : char => [x]) [c_slash; c_lq; c_rq]) [c_bs] true false [] rx);
    [reflexivity|].
  rewrite rx_escape_single. reflexivity.
Qed.

Lemma rx_read_esc rx rest :
  rx_read (flat_map (esc1 c_bs rx_escaped) rx ++ c_slash :: rest) = Some (rx, rest).
Proof.
  induction rx as [|c rx IH]; [reflexivity|].
  cbn [flat_map]. unfold esc1 at 1. destruct (mem c rx_escaped) eqn:E.
  - cbn [app rx_read]. change (N.eqb c_bs c_bs) with true. cbv iota. rewrite E, IH. reflexivity.
  - cbn [app rx_read].
    assert (N.eqb c c_bs = false) as ->.
    { destruct (N.eqb c c_bs) eqn:Eb; auto. apply N.eqb_eq in Eb. subst c. vm_compute in E. discriminate. }
    assert (N.eqb c c_slash = false) as ->.
    { destruct (N.eqb c c_slash) eqn:Eb; auto. apply N.eqb_eq in Eb. subst c. vm_compute in E. discriminate. }
    rewrite IH. reflexivity.
Qed.

Lemma flags_read_str fi fm fs : flags_read (flags_str fi fm fs) = Some (fi, fm, fs).
Proof. destruct fi, fm, fs; reflexivity. Qed.

Lemma flag_env_vb k fi fm fs :
  flag_env (vb k) fi fm fs =
  Ok [(K_flag_i, if fi then [105] else []); (K_flag_m, if fm then [109] else []); (K_flag_s, if fs then [115] else [])].
Proof. destruct fi, fm, fs; reflexivity. Qed.

(* ---------------------------------------------------------------------------------------------- *)
(* patterns *)
Lemma item_eqb_refl i : item_eqb i i = true.
Proof. destruct i; simpl; auto using N.eqb_refl, str_eqb_refl. Qed.
Lemma items_eqb_refl l : items_eqb l l = true.
Proof. unfold items_eqb. induction l as [|i l IH]; simpl; [reflexivity|]. rewrite item_eqb_refl, IH. reflexivity. Qed.
Lemma apattern_pattern o l : apattern o l = pattern o l.
Proof. destruct o; reflexivity. Qed.

Lemma str_op_accept K v o x : str_op K v = (o, Ok x) ->
  items_eqb (norm (apattern o (items x))) (norm (items v)) = true.
Proof.
  intros H. destruct (str_op_pattern K v o x H) as [E|[Eo [Ev Ex]]].
  - rewrite apattern_pattern, E. apply items_eqb_refl.
  - subst o. rewrite Ev, Ex. reflexivity.
Qed.

(* norm does not change what a pattern matches *)
Lemma norm_sem l : forall subj, wild_match (norm l) subj = wild_match l subj.
Proof.
  induction l as [|i l IH]; intros subj; [reflexivity|].
  destruct i.
  - cbn [norm]. destruct subj as [|x subj]; [reflexivity|]. cbn [wild_match]. rewrite IH. reflexivity.
  - destruct l as [|j l'].
    + reflexivity.
    + destruct j.
      * change (norm (Multi :: Lit c :: l')) with (Multi :: norm (Lit c :: l')).
        revert IH. generalize (Lit c :: l'). intros m IH.
        induction subj as [|x subj IHs].
        -- cbn [wild_match]. rewrite IH. reflexivity.
        -- change (wild_match (Multi :: norm m) (x :: subj)) with
             (wild_match (norm m) (x :: subj) || wild_match (Multi :: norm m) subj).
           change (wild_match (Multi :: m) (x :: subj)) with
             (wild_match m (x :: subj) || wild_match (Multi :: m) subj).
           rewrite IH, IHs. reflexivity.
      * change (norm (Multi :: Multi :: l')) with (norm (Multi :: l')).
        rewrite IH. rewrite wild_multi_multi. reflexivity.
      * change (norm (Multi :: Single :: l')) with (Multi :: norm (Single :: l')).
        revert IH. generalize (Single :: l'). intros m IH.
        induction subj as [|x subj IHs].
        -- cbn [wild_match]. rewrite IH. reflexivity.
        -- change (wild_match (Multi :: norm m) (x :: subj)) with
             (wild_match (norm m) (x :: subj) || wild_match (Multi :: norm m) subj).
           change (wild_match (Multi :: m) (x :: subj)) with
             (wild_match m (x :: subj) || wild_match (Multi :: m) subj).
           rewrite IH, IHs. reflexivity.
      * change (norm (Multi :: Ph name :: l')) with (Multi :: norm (Ph name :: l')).
        revert IH. generalize (Ph name :: l'). intros m IH.
        induction subj as [|x subj IHs].
        -- cbn [wild_match]. rewrite IH. reflexivity.
        -- change (wild_match (Multi :: norm m) (x :: subj)) with
             (wild_match (norm m) (x :: subj) || wild_match (Multi :: norm m) subj).
           change (wild_match (Multi :: m) (x :: subj)) with
             (wild_match m (x :: subj) || wild_match (Multi :: m) subj).
           rewrite IH, IHs. reflexivity.
  - cbn [norm]. destruct subj as [|x subj]; [reflexivity|]. cbn [wild_match]. rewrite IH. reflexivity.
  - reflexivity.
Qed.

(* ---------------------------------------------------------------------------------------------- *)
(* operator selection *)
Ltac ground_eqb :=
  repeat match goal with
  | |- context [N.eqb ?a ?b] =>
      tryif is_var b then fail else
      (let r := eval vm_compute in (N.eqb a b) in change (N.eqb a b) with r)
  end.

Lemma str_op_has K v o x : str_op K v = (o, x) ->
  match o with
  | OpStartswith => has_sw K = true
  | OpEndswith => has_ew K = true
  | OpContains => has_ct K = true
  | OpWildMatch => has_wm K = true
  | OpEq => True
  end.
Proof.
  unfold str_op.
  destruct (has_sw K && ends_multi v && (sw_special K || no_special_in (getitem v None (Some (-1)%Z)))) eqn:E1.
  { intros H; inversion H; subst. apply andb_true_iff in E1. destruct E1 as [E1 _].
    apply andb_true_iff in E1. tauto. }
  destruct (has_ew K && starts_multi v && (ew_special K || no_special_in (getitem v (Some 1%Z) None))) eqn:E2.
  { intros H; inversion H; subst. apply andb_true_iff in E2. destruct E2 as [E2 _].
    apply andb_true_iff in E2. tauto. }
  destruct (has_ct K && starts_multi v && ends_multi v &&
            (ct_special K || no_special_in (getitem v (Some 1%Z) (Some (-1)%Z)))) eqn:E3.
  { intros H; inversion H; subst. apply andb_true_iff in E3. destruct E3 as [E3 _].
    apply andb_true_iff in E3. destruct E3 as [E3 _]. apply andb_true_iff in E3. tauto. }
  destruct (has_wm K && contains_special v) eqn:E4.
  { intros H; inversion H; subst. apply andb_true_iff in E4. tauto. }
  intros H; inversion H; subst. exact I.
Qed.

(* the literal and the reading of the operator chosen for a string *)
Definition str_lit (cased neg : bool) (op : sop) : string :=
  match cased, op with
  | false, OpStartswith => if neg then " !startswith " else " startswith "
  | false, OpEndswith => if neg then " !endswith " else " endswith "
  | false, OpContains => if neg then " !contains " else " contains "
  | false, OpWildMatch => " match "
  | false, OpEq => if neg then "!=" else "="
  | true, OpStartswith => if neg then " !cstartswith " else " cstartswith "
  | true, OpEndswith => if neg then " !cendswith " else " cendswith "
  | true, OpContains => if neg then " !ccontains " else " ccontains "
  | true, _ => " cmatch "
  end%string.
(* does the negated-template context change the rendering? *)
Definition swapped (cased : bool) (op : sop) : bool :=
  match cased, op with
  | false, OpWildMatch => false
  | true, OpEq | true, OpWildMatch => false
  | _, _ => true
  end.
Lemma find_str cased neg op v : (cased = true -> op <> OpWildMatch) ->
  find_op optable (s (str_lit cased neg op) ++ c_dq :: v) = Some (KStr (neg && swapped cased op) cased op, c_dq :: v).
Proof.
  intros H. destruct cased, neg, op; try reflexivity; exfalso; apply H; reflexivity.
Qed.
Lemma str_lit_head cased neg op : exists e r, s (str_lit cased neg op) = e :: r /\ In e [c_space; c_eq; c_bang].
Proof. destruct cased, neg, op; eexists; eexists; (split; [reflexivity|]); simpl; tauto. Qed.

Lemma pick_opt (neg b : bool) (x y : tpl) : pick neg (opt b x) (opt b y) = opt b (pick neg x y).
Proof. destruct neg, b; reflexivity. Qed.
Lemma is_some_opt (b : bool) (x : tpl) : is_some (opt b x) = b.
Proof. destruct b; reflexivity. Qed.

Lemma fmt_fv op qf vs e : fmt (t_fv op) ((K_field, qf) :: (K_value, vs) :: e) = Ok ([c_lq] ++ qf ++ s op ++ vs ++ [c_rq]).
Proof. reflexivity. Qed.

Section Main.
Variable W : char -> bool.
Hypothesis HW : Wspec W.
Variable k : vbk.
Hypothesis Hq : k_qpat k = None.

Definition oc_of (cased : bool) : opcfg :=
  {| has_sw := if cased then k_cs k else k_sw k; has_ew := if cased then k_cs k else k_ew k;
     has_ct := if cased then k_cs k else k_ct k; has_wm := if cased then false else k_wm k;
     sw_special := k_special k; ew_special := k_special k; ct_special := k_special k |}.

Lemma render_str_vb neg cased qf pm sv txt :
  render_str (vb k) neg cased qf pm sv = Ok txt ->
  exists op x vs, str_op (oc_of cased) sv = (op, Ok x) /\ value_str (vb k) (pm op) x = Ok vs /\
    txt = [c_lq] ++ qf ++ s (str_lit cased neg op) ++ vs ++ [c_rq].
Proof.
  unfold render_str. cbn [vb l_sw l_nsw l_ew l_new l_ct l_nct l_wm l_csw l_ncsw l_cew l_ncew l_cct l_ncct l_csm
                           l_eq l_neq l_sw_sp l_ew_sp l_ct_sp l_csw_sp l_cew_sp l_cct_sp].
  destruct cased; rewrite !pick_opt, !is_some_opt; cbn [is_some].
  - (* case-sensitive *)
    change {| has_sw := k_cs k; has_ew := k_cs k; has_ct := k_cs k; has_wm := false;
              sw_special := k_special k; ew_special := k_special k; ct_special := k_special k |} with (oc_of true).
    destruct (str_op (oc_of true) sv) as [op val] eqn:E.
    pose proof (str_op_has _ _ _ _ E) as Hh. cbn [oc_of has_sw has_ew has_ct has_wm] in Hh.
    destruct op; try (rewrite Hh); try discriminate; cbn [opt];
      (destruct val as [x| |]; cbn [obind]; try discriminate;
       destruct (value_str (vb k) (pm _) x) as [vs| |] eqn:Ev; cbn [obind]; try discriminate;
       destruct (value_as_regex (vb k) x) as [rs| |]; cbn [obind]; try discriminate;
       intros H; eexists; exists x, vs; split; [reflexivity|]; split; [exact Ev|];
       destruct neg; cbn [pick app] in H; rewrite fmt_fv in H; inversion H; reflexivity).
  - change {| has_sw := k_sw k; has_ew := k_ew k; has_ct := k_ct k; has_wm := k_wm k;
              sw_special := k_special k; ew_special := k_special k; ct_special := k_special k |} with (oc_of false).
    destruct (str_op (oc_of false) sv) as [op val] eqn:E.
    pose proof (str_op_has _ _ _ _ E) as Hh. cbn [oc_of has_sw has_ew has_ct has_wm] in Hh.
    destruct op; try (rewrite Hh); cbn [opt]; destruct neg; cbn [pick];
      (destruct val as [x| |]; cbn [obind]; try discriminate;
       destruct (value_str (vb k) (pm _) x) as [vs| |] eqn:Ev; cbn [obind]; try discriminate;
       destruct (value_as_regex (vb k) x) as [rs| |]; cbn [obind]; try discriminate;
       intros H; eexists; exists x, vs; split; [reflexivity|]; split; [exact Ev|];
       cbn [app] in H; rewrite fmt_fv in H; inversion H; reflexivity).
Qed.
End Main.

Section Decode.
Variable W : char -> bool.
Hypothesis HW : Wspec W.
Variable k : vbk.
Hypothesis Hq : k_qpat k = None.

Lemma W_neq c d : W c = true -> W d = false -> N.eqb c d = false.
Proof. intros Hc Hd. destruct (N.eqb c d) eqn:E; auto. apply N.eqb_eq in E. subst. congruence. Qed.

Lemma qfield_head fo f : fo_ok W f fo = true ->
  exists c q, qfield (vb k) fo f = c :: q /\ N.eqb c c_bang = false /\ N.eqb c c_lq = false.
Proof.
  unfold fo_ok. intros H. apply andb_true_iff in H. destruct H as [Hp Hd].
  rewrite (qfield_vb k _ _ Hp). apply eqb_prop in Hd. rewrite Hd.
  destruct (wordy W f) eqn:Ew; cbn [negb].
  - unfold wordy in Ew. destruct f as [|c f]; [discriminate|].
    rewrite (escf_word W HW _ Ew). exists c, f. split; [reflexivity|].
    assert (Hc: W c = true) by (simpl in Ew; apply andb_true_iff in Ew; tauto).
    split; apply W_neq; auto using W_bang, W_lq.
  - eexists. eexists. split; [reflexivity|]. split; reflexivity.
Qed.

Lemma atom_delim body : atom_decode W ([c_lq] ++ body ++ [c_rq]) = dec_body W body.
Proof.
  cbn [app atom_decode]. change (N.eqb c_lq c_lq) with true. cbv iota.
  rewrite (split_last_app body []) by (intros []). reflexivity.
Qed.

Lemma dec_body_field fo f e rest : fo_ok W f fo = true -> W e = false -> N.eqb e c_lpar = false ->
  dec_body W (qfield (vb k) fo f ++ e :: rest) = dec_op W f (e :: rest).
Proof.
  intros Hf He Hl. destruct (qfield_head _ _ Hf) as [c [q [Hc [Hb _]]]].
  unfold dec_body. rewrite Hc. cbn [app]. rewrite Hb.
  change (c :: q ++ e :: rest) with ((c :: q) ++ e :: rest). rewrite <- Hc.
  rewrite (fprefix_qfield W HW k fo f (e :: rest) Hf) by (cbn [stop]; rewrite He; reflexivity).
  rewrite Hl. reflexivity.
Qed.

(* strings *)
Lemma leaf_str_decode neg cased fo f pm sv txt : fo_ok W f fo = true ->
  render_str (vb k) neg cased (qfield (vb k) fo f) pm sv = Ok txt ->
  exists op x, str_op (oc_of k cased) sv = (op, Ok x) /\
    atom_decode W txt = Some {| a_neg := neg && swapped cased op; a_field := f; a_pred := AStr cased op (items x) |}.
Proof.
  intros Hf H. destruct (render_str_vb k neg cased _ pm sv txt H) as [op [x [vs [Ho [Hv Ht]]]]].
  exists op, x. split; [exact Ho|]. subst txt.
  destruct (value_str_vb k (pm op) x vs Hq Hv) as [body [Hb Hr]].
  replace (qfield (vb k) fo f ++ s (str_lit cased neg op) ++ vs ++ [c_rq])
    with ((qfield (vb k) fo f ++ s (str_lit cased neg op) ++ vs) ++ [c_rq])
    by (rewrite <- !app_assoc; reflexivity).
  rewrite atom_delim.
  destruct (str_lit_head cased neg op) as [e [r [Hl Hin]]].
  rewrite Hl. cbn [app].
  rewrite (dec_body_field fo f e (r ++ vs) Hf).
  - change (e :: r ++ vs) with ((e :: r) ++ vs). rewrite <- Hl.
    unfold dec_op. rewrite Hb.
    rewrite find_str.
    + rewrite <- Hb, Hr. reflexivity.
    + intros -> ->. pose proof (str_op_has _ _ _ _ Ho) as Hh. cbn in Hh. discriminate.
  - apply (W_special W HW). unfold specials. simpl in Hin. simpl. tauto.
  - simpl in Hin. destruct Hin as [<-|[<-|[<-|[]]]]; reflexivity.
Qed.


(* the renderings that do not depend on the negated-template context *)
Lemma render_str_unswapped cased qf pm sv op val : str_op (oc_of k cased) sv = (op, val) -> swapped cased op = false ->
  render_str (vb k) true cased qf pm sv = render_str (vb k) false cased qf pm sv.
Proof.
  intros Ho Hs. unfold render_str.
  cbn [vb l_sw l_nsw l_ew l_new l_ct l_nct l_wm l_csw l_ncsw l_cew l_ncew l_cct l_ncct l_csm
          l_eq l_neq l_sw_sp l_ew_sp l_ct_sp l_csw_sp l_cew_sp l_cct_sp].
  destruct cased; rewrite !pick_opt, !is_some_opt; cbn [is_some].
  - change {| has_sw := k_cs k; has_ew := k_cs k; has_ct := k_cs k; has_wm := false;
              sw_special := k_special k; ew_special := k_special k; ct_special := k_special k |} with (oc_of k true).
    rewrite Ho. destruct op; try discriminate; reflexivity.
  - change {| has_sw := k_sw k; has_ew := k_ew k; has_ct := k_ct k; has_wm := k_wm k;
              sw_special := k_special k; ew_special := k_special k; ct_special := k_special k |} with (oc_of k false).
    rewrite Ho. destruct op; try discriminate; reflexivity.
Qed.

Lemma qfield_not_lq fo f rest : fo_ok W f fo = true ->
  exists c q, qfield (vb k) fo f ++ rest = c :: q /\ N.eqb c c_lq = false.
Proof.
  intros Hf. destruct (qfield_head _ _ Hf) as [c [q [Hc [_ Hl]]]]. rewrite Hc. exists c, (q ++ rest). split; [reflexivity|exact Hl].
Qed.

(* field=token without delimiters *)
Lemma bare_decode fo f c t : fo_ok W f fo = true ->
  atom_decode W (qfield (vb k) fo f ++ s "=" ++ c :: t) = Some {| a_neg := false; a_field := f; a_pred := ATok (c :: t) |}.
Proof.
  intros Hf. destruct (qfield_not_lq fo f (s "=" ++ c :: t) Hf) as [d [q [Hd Hl]]].
  unfold atom_decode. rewrite Hd, Hl. rewrite <- Hd. unfold dec_bare.
  change (s "=" ++ c :: t) with (c_eq :: c :: t).
  rewrite (fprefix_qfield W HW k fo f (c_eq :: c :: t) Hf) by (cbn [stop]; rewrite (W_eq W HW); reflexivity).
  reflexivity.
Qed.

Lemma word_lit (x : string) : forallb ascii_word (s x) = true -> forallb W (s x) = true.
Proof.
  intros H. rewrite forallb_forall in *. intros c Hc. destruct HW as [Ha _]. apply Ha. apply H. exact Hc.
Qed.

(* keyword( field ) forms *)
Lemma fun_prefix (name : string) rest : forallb ascii_word (s name) = true -> s name <> [] ->
  (match s name with c :: _ => N.eqb c c_bang = false /\ N.eqb c c_sq = false | [] => True end) ->
  dec_body W (s name ++ c_lpar :: rest) =
    if str_eqb (s name) (s "cidr") then dec_cidr false rest
    else if str_eqb (s name) (s "exists") then dec_exists W false rest
    else if str_eqb (s name) (s "notexists") then dec_exists W true rest else None.
Proof.
  intros Hw Hne Hh. destruct (s name) as [|c n] eqn:En; [congruence|]. destruct Hh as [Hb Hs].
  unfold dec_body. cbn [app]. rewrite Hb. unfold fprefix. rewrite Hs.
  change (c :: n ++ c_lpar :: rest) with ((c :: n) ++ c_lpar :: rest).
  rewrite <- En. rewrite (span_word W (s name) (c_lpar :: rest)).
  - rewrite En. rewrite <- En. change (N.eqb c_lpar c_lpar) with true. cbn [andb negb]. rewrite En. reflexivity.
  - apply word_lit. rewrite En. exact Hw.
  - cbn [stop]. rewrite (W_lpar W HW). reflexivity.
Qed.


Lemma find_cmp op c t : numtxt (c :: t) = true ->
  find_op optable (vb_cmp op ++ c :: t) = Some (KCmp op, c :: t).
Proof.
  cbn [numtxt]. intros H. apply andb_true_iff in H. destruct H as [H H3]. apply andb_true_iff in H. destruct H as [H1 H2].
  apply negb_true_iff in H1, H2. rewrite N.eqb_sym in H1. rewrite N.eqb_sym in H2. change c_eq with 61 in H1.
  destruct op; cbn -[N.eqb]; ground_eqb; cbn -[N.eqb]; rewrite ?H1, ?H2; reflexivity.
Qed.
Lemma find_cmp2 op c t : numtxt (c :: t) = true ->
  find_op cmptable (vb_cmp op ++ c :: t) = Some (KCmp op, c :: t).
Proof.
  cbn [numtxt]. intros H. apply andb_true_iff in H. destruct H as [H H3]. apply andb_true_iff in H. destruct H as [H1 H2].
  apply negb_true_iff in H1, H2. rewrite N.eqb_sym in H1. rewrite N.eqb_sym in H2. change c_eq with 61 in H1.
  destruct op; cbn -[N.eqb]; ground_eqb; cbn -[N.eqb]; rewrite ?H1, ?H2; reflexivity.
Qed.
Lemma vb_cmp_head op : exists e r, vb_cmp op = e :: r /\ In e [60; 62] /\ ~ In c_rq (e :: r).
Proof. destruct op; eexists; eexists; (split; [reflexivity|]); (split; [simpl; tauto|]); simpl; intros H; repeat destruct H as [H|H]; try discriminate; exact H. Qed.

Lemma assoc3 {A} (a b c d : list A) : a ++ b ++ c ++ d = (a ++ b ++ c) ++ d.
Proof. rewrite <- !app_assoc. reflexivity. Qed.
Lemma assoc4 {A} (a b c d e : list A) : a ++ b ++ c ++ d ++ e = (a ++ b ++ c ++ d) ++ e.
Proof. rewrite <- !app_assoc. reflexivity. Qed.

Lemma str_eqb_refl' x : str_eqb x x = true. Proof. apply str_eqb_refl. Qed.


Lemma dec_cidr_ok neg f net : mem c_comma f = false ->
  dec_cidr neg (f ++ s "," ++ net ++ s ")") = Some {| a_neg := neg; a_field := f; a_pred := ACidr net |}.
Proof.
  intros Hm. unfold dec_cidr.
  change (s "," ++ net ++ s ")") with (c_comma :: net ++ [c_rpar]).
  rewrite (span_word (fun c => negb (N.eqb c c_comma)) f (c_comma :: net ++ [c_rpar])).
  - rewrite rev_unit. change (N.eqb c_rpar c_rpar) with true. cbv iota. rewrite rev_involutive. reflexivity.
  - apply forallb_forall. intros c Hc. apply negb_true_iff. destruct (N.eqb c c_comma) eqn:E; auto.
    apply N.eqb_eq in E. subst c. apply mem_In in Hc. congruence.
  - reflexivity.
Qed.

Theorem leaf_faithful neg f fo pm v txt :
  fo_ok W f fo = true -> val_ok W f v = true ->
  render_leaf (vb k) neg f fo pm v = Ok txt ->
  exists a, atom_decode W txt = Some a /\
    (acceptb neg f v a = true \/ (neg = true /\ render_leaf (vb k) false f fo pm v = Ok txt)).
Proof.
  intros Hf Hv H.
  assert (Hneg: forall a, atom_decode W txt = Some a ->
            (render_leaf (vb k) true f fo pm v = render_leaf (vb k) false f fo pm v) ->
            acceptb false f v a = true ->
            exists a, atom_decode W txt = Some a /\
              (acceptb neg f v a = true \/ (neg = true /\ render_leaf (vb k) false f fo pm v = Ok txt))).
  { intros a Ha Hi Hacc. exists a. split; [exact Ha|]. destruct neg.
    - right. split; [reflexivity|]. rewrite <- Hi. exact H.
    - left. exact Hacc. }
  destruct v as [cased sv|num|b| |rx fi fm fs|net addr plen mask|op num|op part num|part num|b|f2 fo2 sw ew|].
  - (* strings *)
    cbn [render_leaf] in H.
    destruct (leaf_str_decode neg cased fo f pm sv txt Hf H) as [op [x [Ho Hd]]].
    eexists. split; [exact Hd|].
    destruct (neg && swapped cased op) eqn:En.
    + left. apply andb_true_iff in En. destruct En as [-> _].
      unfold acceptb. cbn [a_field a_pred a_neg pred_ok polarity]. rewrite str_eqb_refl, eqb_reflx, (str_op_accept _ _ _ _ Ho). reflexivity.
    + destruct neg.
      * right. split; [reflexivity|]. cbn [render_leaf]. cbn [andb] in En.
        rewrite <- (render_str_unswapped cased _ pm sv op _ Ho En). exact H.
      * left. unfold acceptb. cbn [a_field a_pred a_neg pred_ok polarity]. rewrite str_eqb_refl, eqb_reflx, (str_op_accept _ _ _ _ Ho). reflexivity.
  - (* numbers *)
    cbn [render_leaf vb l_eq_token] in H. inversion H; subst txt. clear H.
    cbn [val_ok] in Hv. destruct num as [|c t]; [discriminate|].
    eapply Hneg; [apply (bare_decode fo f c t Hf) | reflexivity |].
    unfold acceptb. cbn [a_field a_pred a_neg pred_ok polarity]. rewrite !str_eqb_refl. reflexivity.
  - (* booleans *)
    cbn [render_leaf vb l_eq_token l_true l_false] in H.
    destruct b; inversion H; subst txt; clear H.
    + eapply Hneg; [apply (bare_decode fo f 116 (s "rue") Hf) | reflexivity | ].
      unfold acceptb. cbn [a_field a_pred a_neg pred_ok polarity]. rewrite str_eqb_refl. reflexivity.
    + eapply Hneg; [apply (bare_decode fo f 102 (s "alse") Hf) | reflexivity | ].
      unfold acceptb. cbn [a_field a_pred a_neg pred_ok polarity]. rewrite str_eqb_refl. reflexivity.
  - (* null *)
    cbn [render_leaf vb l_null with_tpl] in H.
    assert (Ht: txt = [c_lq] ++ (qfield (vb k) fo f ++ s " is null") ++ [c_rq]).
    { cbn in H. inversion H. rewrite <- !app_assoc. reflexivity. }
    subst txt. clear H.
    eapply Hneg; [| reflexivity |].
    + rewrite atom_delim. change (s " is null") with (c_space :: s "is null").
      rewrite (dec_body_field fo f c_space _ Hf (W_space W HW) eq_refl). reflexivity.
    + unfold acceptb. cbn [a_field a_pred a_neg pred_ok polarity]. rewrite str_eqb_refl. reflexivity.
  - (* regular expressions *)
    cbn [render_leaf vb l_re l_nre with_tpl] in H.
    rewrite flag_env_vb in H. cbn [obind] in H. rewrite value_re_vb in H.
    set (esc := flat_map (esc1 c_bs rx_escaped) rx) in *.
    assert (Ht: txt = [c_lq] ++ (qfield (vb k) fo f ++ s (if neg then "!~/" else "=~/") ++ esc ++ c_slash :: flags_str fi fm fs) ++ [c_rq]).
    { destruct neg; cbn in H; inversion H; unfold flags_str; rewrite <- !app_assoc; cbn [app]; rewrite <- !app_assoc; reflexivity. }
    subst txt. clear H.
    exists {| a_neg := neg; a_field := f; a_pred := ARe rx fi fm fs |}. split.
    + rewrite atom_delim.
      assert (Hd: dec_op W f (s (if neg then "!~/" else "=~/") ++ esc ++ c_slash :: flags_str fi fm fs) =
                  Some {| a_neg := neg; a_field := f; a_pred := ARe rx fi fm fs |}).
      { unfold dec_op.
        assert (Hfo: find_op optable (s (if neg then "!~/" else "=~/") ++ esc ++ c_slash :: flags_str fi fm fs)
                     = Some (KRe neg, esc ++ c_slash :: flags_str fi fm fs)) by (destruct neg; reflexivity).
        rewrite Hfo. unfold esc. rewrite rx_read_esc, flags_read_str. reflexivity. }
      destruct neg.
      * change (s "!~/" ++ esc ++ c_slash :: flags_str fi fm fs) with (c_bang :: s "~/" ++ esc ++ c_slash :: flags_str fi fm fs) in *.
        rewrite (dec_body_field fo f c_bang _ Hf (W_bang W HW) eq_refl). exact Hd.
      * change (s "=~/" ++ esc ++ c_slash :: flags_str fi fm fs) with (c_eq :: s "~/" ++ esc ++ c_slash :: flags_str fi fm fs) in *.
        rewrite (dec_body_field fo f c_eq _ Hf (W_eq W HW) eq_refl). exact Hd.
    + left. unfold acceptb. cbn [a_field a_pred a_neg pred_ok polarity].
      rewrite !str_eqb_refl, !eqb_reflx. reflexivity.
  - (* CIDR with the native template: the raw field name *)
    cbn [render_leaf vb l_cidr l_ncidr] in H. rewrite pick_opt in H.
    destruct (k_cidr k); cbn [opt] in H; [|discriminate].
    cbn [val_ok] in Hv. apply negb_true_iff in Hv.
    assert (Ht: txt = [c_lq] ++ ((if neg then [c_bang] else []) ++ s "cidr" ++ c_lpar :: f ++ s "," ++ net ++ s ")") ++ [c_rq]).
    { destruct neg; cbn in H; inversion H; repeat progress (cbn; rewrite <- ?app_assoc); reflexivity. }
    subst txt. clear H.
    exists {| a_neg := neg; a_field := f; a_pred := ACidr net |}. split.
    + rewrite atom_delim. destruct neg.
      * cbn [app dec_body]. change (N.eqb c_bang c_bang) with true. cbv iota.
        change (prefixb (s "cidr(") (s "cidr" ++ c_lpar :: f ++ s "," ++ net ++ s ")")) with true. cbv iota.
        change (skipn 5 (s "cidr" ++ c_lpar :: f ++ s "," ++ net ++ s ")")) with (f ++ s "," ++ net ++ s ")").
        apply dec_cidr_ok. exact Hv.
      * cbn [app]. rewrite fun_prefix; [| reflexivity | discriminate | split; reflexivity].
        change (str_eqb (s "cidr") (s "cidr")) with true. cbv iota. apply dec_cidr_ok. exact Hv.
    + left. unfold acceptb. cbn [a_field a_pred a_neg pred_ok polarity].
      rewrite !str_eqb_refl, !eqb_reflx. reflexivity.
  - (* numeric comparison *)
    cbn [render_leaf vb l_cmp l_cmp_ops] in H.
    cbn [val_ok] in Hv. destruct num as [|c t]; [discriminate|].
    assert (Ht: txt = [c_lq] ++ (qfield (vb k) fo f ++ vb_cmp op ++ c :: t) ++ [c_rq]).
    { cbn in H. inversion H. rewrite <- !app_assoc. cbn [app]. reflexivity. }
    subst txt. clear H.
    destruct (vb_cmp_head op) as [e [r [He [Hin _]]]].
    eapply Hneg; [| reflexivity |].
    + rewrite atom_delim. rewrite He. cbn [app].
      rewrite (dec_body_field fo f e _ Hf).
      * change (e :: r ++ c :: t) with ((e :: r) ++ c :: t). rewrite <- He.
        unfold dec_op. rewrite (find_cmp op c t Hv). reflexivity.
      * apply (W_special W HW). unfold specials. simpl in Hin. simpl. tauto.
      * simpl in Hin. destruct Hin as [<-|[<-|[]]]; reflexivity.
    + unfold acceptb. cbn [a_field a_pred a_neg pred_ok polarity].
      rewrite !str_eqb_refl. destruct op; reflexivity.
  - (* comparison of a timestamp part *)
    cbn [render_leaf vb l_cmp l_cmp_ops] in H.
    change (ts_usable (vb k)) with true in H. cbv iota in H.
    cbn [val_ok] in Hv. apply andb_true_iff in Hv. destruct Hv as [Hv Hp]. apply andb_true_iff in Hv. destruct Hv as [Hn Hr].
    destruct num as [|c t]; [discriminate|].
    cbn [vb l_ts l_ts_map] in H. destruct (lookup part vb_parts) as [p|] eqn:Ep; [|discriminate].
    assert (Ht: txt = [c_lq] ++ (qfield (vb k) fo f ++ c_dot :: p) ++ c_rq :: vb_cmp op ++ c :: t).
    { cbn -[qfield] in H. inversion H. repeat progress (cbn -[qfield]; rewrite <- ?app_assoc). reflexivity. }
    subst txt. clear H.
    destruct (vb_cmp_head op) as [e [r [He [Hin Hnr]]]].
    eapply Hneg; [| reflexivity |].
    + cbn [app atom_decode]. change (N.eqb c_lq c_lq) with true. cbv iota.
      rewrite split_last_app.
      * rewrite He. cbn [app]. unfold dec_ts.
        rewrite (fprefix_qfield W HW k fo f (c_dot :: p) Hf) by (cbn [stop]; rewrite (W_dot W HW); reflexivity).
        change (N.eqb c_dot c_dot) with true. cbv iota.
        assert (N.eqb e c_eq = false) as -> by (simpl in Hin; destruct Hin as [<-|[<-|[]]]; reflexivity).
        change (e :: r ++ c :: t) with ((e :: r) ++ c :: t). rewrite <- He.
        rewrite (find_cmp2 op c t Hn). reflexivity.
      * intros Hi. apply in_app_or in Hi. destruct Hi as [Hi|Hi].
        -- rewrite He in Hi. exact (Hnr Hi).
        -- apply negb_true_iff in Hr. apply mem_In in Hi. congruence.
    + unfold acceptb. cbn [a_field a_pred a_neg pred_ok polarity]. unfold part_name. rewrite Ep.
      rewrite !str_eqb_refl. destruct op; reflexivity.
  - (* timestamp part equals number *)
    cbn [render_leaf vb l_ts l_ts_map with_tpl l_eq_token] in H.
    cbn [val_ok] in Hv. apply andb_true_iff in Hv. destruct Hv as [Hv Hp]. apply andb_true_iff in Hv. destruct Hv as [Hn Hr].
    destruct num as [|c t]; [discriminate|].
    destruct (lookup part vb_parts) as [p|] eqn:Ep; [|discriminate].
    assert (Ht: txt = [c_lq] ++ (qfield (vb k) fo f ++ c_dot :: p) ++ c_rq :: c_eq :: c :: t).
    { cbn -[qfield] in H. inversion H. repeat progress (cbn -[qfield]; rewrite <- ?app_assoc). reflexivity. }
    subst txt. clear H.
    eapply Hneg; [| reflexivity |].
    + cbn [app atom_decode]. change (N.eqb c_lq c_lq) with true. cbv iota.
      rewrite split_last_app.
      * unfold dec_ts.
        rewrite (fprefix_qfield W HW k fo f (c_dot :: p) Hf) by (cbn [stop]; rewrite (W_dot W HW); reflexivity).
        reflexivity.
      * intros Hi. destruct Hi as [Hi|Hi]; [discriminate|].
        apply negb_true_iff in Hr. apply mem_In in Hi. congruence.
    + unfold acceptb. cbn [a_field a_pred a_neg pred_ok polarity]. unfold part_name. rewrite Ep.
      rewrite !str_eqb_refl. reflexivity.
  - (* field existence *)
    destruct b.
    + cbn [render_leaf vb l_exists with_tpl] in H.
      assert (Ht: txt = [c_lq] ++ (s "exists" ++ c_lpar :: qfield (vb k) fo f ++ [c_rpar]) ++ [c_rq]).
      { cbn in H. inversion H. repeat progress (cbn; rewrite <- ?app_assoc). reflexivity. }
      subst txt. clear H.
      eapply Hneg; [| reflexivity |].
      * rewrite atom_delim. rewrite fun_prefix; [| reflexivity | discriminate | split; reflexivity].
        change (str_eqb (s "exists") (s "cidr")) with false. change (str_eqb (s "exists") (s "exists")) with true. cbv iota.
        unfold dec_exists.
        rewrite (fprefix_qfield W HW k fo f [c_rpar] Hf) by (cbn [stop]; rewrite (W_rpar W HW); reflexivity).
        reflexivity.
      * unfold acceptb. cbn [a_field a_pred a_neg pred_ok polarity]. rewrite !str_eqb_refl. reflexivity.
    + cbn [render_leaf vb l_nexists] in H. destruct (k_nexists k); cbn [opt] in H; [|discriminate].
      assert (Ht: txt = [c_lq] ++ (s "notexists" ++ c_lpar :: qfield (vb k) fo f ++ [c_rpar]) ++ [c_rq]).
      { cbn in H. inversion H. repeat progress (cbn; rewrite <- ?app_assoc). reflexivity. }
      subst txt. clear H.
      eapply Hneg; [| reflexivity |].
      * rewrite atom_delim. rewrite fun_prefix; [| reflexivity | discriminate | split; reflexivity].
        change (str_eqb (s "notexists") (s "cidr")) with false. change (str_eqb (s "notexists") (s "exists")) with false.
        change (str_eqb (s "notexists") (s "notexists")) with true. cbv iota.
        unfold dec_exists.
        rewrite (fprefix_qfield W HW k fo f [c_rpar] Hf) by (cbn [stop]; rewrite (W_rpar W HW); reflexivity).
        reflexivity.
      * unfold acceptb. cbn [a_field a_pred a_neg pred_ok polarity]. rewrite !str_eqb_refl. reflexivity.
  - (* field reference *)
    cbn [render_leaf vb l_ff l_ffsw l_ffew l_ffct l_ff_q1 l_ff_q2] in H.
    cbn [val_ok] in Hv.
    set (lit := (if sw && ew then " fcontains " else if sw then " fstartswith " else if ew then " fendswith " else "==")%string).
    assert (Ht: txt = [c_lq] ++ (qfield (vb k) fo f ++ s lit ++ qfield (vb k) fo2 f2) ++ [c_rq]).
    { unfold lit. destruct sw, ew; cbn in H; inversion H; rewrite <- !app_assoc; cbn [app]; rewrite <- ?app_assoc; reflexivity. }
    subst txt. clear H.
    assert (Hl: exists e r, s lit = e :: r /\ In e [c_space; c_eq]).
    { unfold lit. destruct sw, ew; eexists; eexists; (split; [reflexivity|]); simpl; tauto. }
    destruct Hl as [e [r [Hl Hin]]].
    eapply Hneg; [| reflexivity |].
    + rewrite atom_delim. rewrite Hl. cbn [app].
      rewrite (dec_body_field fo f e _ Hf).
      * change (e :: r ++ qfield (vb k) fo2 f2) with ((e :: r) ++ qfield (vb k) fo2 f2). rewrite <- Hl.
        unfold dec_op.
        assert (Hfo: find_op optable (s lit ++ qfield (vb k) fo2 f2) = Some (KFF sw ew, qfield (vb k) fo2 f2)).
        { destruct (qfield_head _ _ Hv) as [c [q [Hc [Hb _]]]]. rewrite Hc.
          assert (Hce: N.eqb 61 c = false /\ N.eqb 126 c = false).
          { unfold fo_ok in Hv. apply andb_true_iff in Hv. destruct Hv as [Hp Hd].
            rewrite (qfield_vb k _ _ Hp) in Hc. apply eqb_prop in Hd. rewrite Hd in Hc.
            destruct (wordy W f2) eqn:Ew; cbn [negb] in Hc.
            - unfold wordy in Ew. destruct f2 as [|c2 f2']; [discriminate|].
              rewrite (escf_word W HW _ Ew) in Hc. inversion Hc; subst c2.
              assert (Hwc: W c = true) by (simpl in Ew; apply andb_true_iff in Ew; tauto).
              split; rewrite N.eqb_sym; apply W_neq; auto; apply (W_special W HW); unfold specials; simpl; tauto.
            - inversion Hc. split; reflexivity. }
          destruct Hce as [Hc1 Hc2].
          unfold lit. destruct sw, ew; cbn -[N.eqb]; ground_eqb; cbn -[N.eqb]; rewrite ?Hc1, ?Hc2; reflexivity. }
        rewrite Hfo.
        rewrite <- (app_nil_r (qfield (vb k) fo2 f2)).
        rewrite (fprefix_qfield W HW k fo2 f2 [] Hv) by reflexivity. reflexivity.
      * apply (W_special W HW). unfold specials. simpl in Hin. simpl. tauto.
      * simpl in Hin. destruct Hin as [<-|[<-|[]]]; reflexivity.
    + unfold acceptb. cbn [a_field a_pred a_neg pred_ok polarity].
      rewrite !str_eqb_refl, !eqb_reflx. reflexivity.
  - discriminate.
Qed.



(* values without a field: the field position holds the token _ *)
Definition fo_us : foracle := ([], false).
Lemma fo_ok_us : fo_ok W [c_us] fo_us = true.
Proof.
  unfold fo_ok, fo_us. cbn [fst snd pos_ok wordy forallb].
  destruct HW as [Ha _]. rewrite (Ha c_us eq_refl). reflexivity.
Qed.
Lemma qfield_us : qfield (vb k) fo_us [c_us] = [c_us].
Proof. reflexivity. Qed.

Theorem leaf_unbound_faithful pm v txt :
  val_ok W [c_us] v = true -> (match v with LStr cased _ => cased = false | _ => True end) ->
  render_val (vb k) pm v = Ok txt ->
  exists a, atom_decode W txt = Some a /\ acceptb false [c_us] v a = true.
Proof.
  intros Hv Hc H. pose proof fo_ok_us as Hf.
  destruct v as [cased sv|num|b| |rx fi fm fs|net addr plen mask|op num|op part num|part num|b|f2 fo2 sw ew|];
    try discriminate.
  - subst cased. cbn [render_val vb l_ub_str with_tpl] in H.
    destruct (value_str (vb k) pm sv) as [vs| |] eqn:Ev; cbn [obind] in H; try discriminate.
    destruct (value_as_regex (vb k) sv) as [rs| |]; cbn [obind] in H; try discriminate.
    assert (Ht: txt = [c_lq] ++ (qfield (vb k) fo_us [c_us] ++ c_eq :: vs) ++ [c_rq]).
    { rewrite qfield_us. cbn in H. inversion H. rewrite <- !app_assoc. reflexivity. }
    subst txt. clear H.
    destruct (value_str_vb k pm sv vs Hq Ev) as [body [Hb Hr]].
    eexists. split.
    + rewrite atom_delim. rewrite (dec_body_field fo_us [c_us] c_eq vs Hf (W_eq W HW) eq_refl).
      unfold dec_op. rewrite Hb.
      change (c_eq :: c_dq :: body) with (s (str_lit false false OpEq) ++ c_dq :: body).
      rewrite find_str by discriminate. rewrite <- Hb, Hr. reflexivity.
    + unfold acceptb. cbn [a_field a_pred a_neg pred_ok polarity apattern andb].
      rewrite str_eqb_refl, items_eqb_refl. reflexivity.
  - cbn [render_val vb l_ub_num with_tpl] in H. cbn [val_ok] in Hv. destruct num as [|c t]; [discriminate|].
    assert (Ht: txt = [c_lq] ++ (qfield (vb k) fo_us [c_us] ++ c_space :: s "num " ++ c :: t) ++ [c_rq]).
    { rewrite qfield_us. cbn in H. inversion H. rewrite <- !app_assoc. reflexivity. }
    subst txt. clear H. eexists. split.
    + rewrite atom_delim. rewrite (dec_body_field fo_us [c_us] c_space _ Hf (W_space W HW) eq_refl). reflexivity.
    + unfold acceptb. cbn [a_field a_pred a_neg pred_ok polarity]. rewrite !str_eqb_refl. reflexivity.
  - cbn [render_val vb l_ub_re with_tpl] in H.
    rewrite flag_env_vb in H. cbn [obind] in H. rewrite value_re_vb in H.
    set (esc := flat_map (esc1 c_bs rx_escaped) rx) in *.
    assert (Ht: txt = [c_lq] ++ (qfield (vb k) fo_us [c_us] ++ c_eq :: s "~/" ++ esc ++ c_slash :: flags_str fi fm fs) ++ [c_rq]).
    { rewrite qfield_us. cbn in H. inversion H. unfold flags_str. change (s "~/") with [126; 47].
      repeat progress (cbn [app]; rewrite <- ?app_assoc). reflexivity. }
    subst txt. clear H. eexists. split.
    + rewrite atom_delim. rewrite (dec_body_field fo_us [c_us] c_eq _ Hf (W_eq W HW) eq_refl).
      unfold dec_op.
      change (find_op optable (c_eq :: s "~/" ++ esc ++ c_slash :: flags_str fi fm fs))
        with (Some (KRe false, esc ++ c_slash :: flags_str fi fm fs)).
      unfold esc. rewrite rx_read_esc, flags_read_str. reflexivity.
    + unfold acceptb. cbn [a_field a_pred a_neg pred_ok polarity]. rewrite !str_eqb_refl, !eqb_reflx. reflexivity.
Qed.

(* what an accepted string atom matches: exactly the subjects of the source pattern *)
Theorem accepted_string_meaning neg f cased sv a c op l :
  acceptb neg f (LStr cased sv) a = true -> a_pred a = AStr c op l ->
  a_field a = f /\ c = cased /\ a_neg a = neg /\
  forall subj, wild_match (apattern op l) subj = wild_match (items sv) subj.
Proof.
  unfold acceptb. intros H Hp. rewrite Hp in H. cbn [pred_ok polarity] in H.
  apply andb_true_iff in H. destruct H as [H Hn]. apply andb_true_iff in H. destruct H as [Hfd H].
  apply andb_true_iff in H. destruct H as [Hc Hi].
  apply str_eqb_eq in Hfd. apply eqb_prop in Hc. apply eqb_prop in Hn.
  repeat split; auto.
  intros subj. rewrite <- (norm_sem (apattern op l)), <- (norm_sem (items sv)).
  unfold items_eqb in Hi. apply list_eqb_eq in Hi.
  - rewrite Hi. reflexivity.
  - intros x y. split.
    + destruct x, y; simpl; intros E; try discriminate; try reflexivity.
      * apply N.eqb_eq in E. subst. reflexivity.
      * apply str_eqb_eq in E. subst. reflexivity.
    + intros ->. apply item_eqb_refl.
Qed.

(*MORE*)
End Decode.

(* ---------------------------------------------------------------------------------------------- *)
(* the word-character predicate built by the harness satisfies the reader's assumption *)
Lemma wok_mem extra c : wok extra = true -> (c <=? 127) = true \/ c = c_lq \/ c = c_rq -> mem c extra = false.
Proof.
  intros Hw Hc. destruct (mem c extra) eqn:E; [|reflexivity]. exfalso.
  apply mem_In in E. unfold wok in Hw. rewrite forallb_forall in Hw. specialize (Hw c E).
  apply andb_true_iff in Hw. destruct Hw as [Hw H3]. apply andb_true_iff in Hw. destruct Hw as [H1 H2].
  destruct Hc as [Hc | [ -> | -> ] ].
  - apply N.ltb_lt in H1. apply N.leb_le in Hc. lia.
  - vm_compute in H2. discriminate.
  - vm_compute in H3. discriminate.
Qed.
Lemma Wspec_W_of extra : wok extra = true -> Wspec (W_of extra).
Proof.
  intros Hw. split.
  - intros c Hc. unfold W_of. rewrite Hc. reflexivity.
  - apply forallb_forall. intros c Hc. unfold W_of. apply negb_true_iff.
    unfold specials in Hc. simpl in Hc.
    repeat (destruct Hc as [ <- | Hc ]; [rewrite (wok_mem extra _ Hw) by (vm_compute; tauto); reflexivity|]).
    destruct Hc.
Qed.

Definition k_all : vbk :=
  {| k_sw := true; k_ew := true; k_ct := true; k_special := false; k_wm := true; k_cs := true;
     k_cidr := true; k_nexists := true; k_qpat := None |}.

(* D4: the native CIDR template receives the raw field name *)
Lemma cidr_raw_field_refuted : exists f fo v txt,
  render_leaf (vb k_all) false f fo (fun _ => false) v = Ok txt /\
  exists a, atom_decode (W_of []) txt = Some a /\ acceptb false f v a = false.
Proof.
  exists (s "a,b"), ([], true), (LCidr (s "10.0.0.0/8") (s "10.0.0.0") (s "8") (s "255.0.0.0")).
  eexists. split; [vm_compute; reflexivity|]. eexists. split; vm_compute; reflexivity.
Qed.
(* a case-sensitive keyword is rendered like the case-insensitive one *)
Lemma unbound_cased_refuted : exists sv txt,
  render_val (vb k_all) false (LStr true sv) = Ok txt /\
  exists a, atom_decode (W_of []) txt = Some a /\ acceptb false [c_us] (LStr true sv) a = false.
Proof.
  exists [PStr (s "Foo")]. eexists. split; [vm_compute; reflexivity|]. eexists. split; vm_compute; reflexivity.
Qed.
(* non-vacuity: a field name that needs quoting and escaping, a value with wildcards and quote characters *)
Example leaf_premises_inhabited :
  wok [252] = true /\ fo_ok (W_of [252]) (s "it's \") ([5%nat], true) = true /\
  val_ok (W_of [252]) (s "it's \") (LStr false [PStr (s "say ""hi"" "); PMulti]) = true /\
  exists txt, render_leaf (vb k_all) true (s "it's \") ([5%nat], true) (fun _ => false)
                (LStr false [PStr (s "say ""hi"" "); PMulti]) = Ok txt.
Proof. repeat split; try reflexivity. eexists. vm_compute. reflexivity. Qed.
