(* Lemmas about Model/Placeholder.v against Spec/Expand.v (property C17). *)
From Coq Require Import NArith List Bool Lia.
From PS Require Import Base.Chars Base.Outcome Model.SString Model.PyRegex Model.Placeholder
                       Spec.Items Spec.Expand Proofs.SStringP Proofs.ConvertP.
Import ListNotations.
Open Scope N_scope.

(* ---------------------------------------------------------------------------------------- *)
(* the guards at rendering time *)
Lemma convert_ok_no_ph K v q : convert K v = Ok q -> placeholders v = [].
Proof.
  revert q; induction v as [|p v IH]; intros q H; [reflexivity|].
  destruct p; simpl in H.
  - destruct (convert K v) eqn:E; try discriminate. simpl. eapply IH; reflexivity.
  - destruct (e_multi K); try discriminate.
    destruct (convert K v) eqn:E; try discriminate. simpl. eapply IH; reflexivity.
  - destruct (e_single K); try discriminate.
    destruct (convert K v) eqn:E; try discriminate. simpl. eapply IH; reflexivity.
  - discriminate.
Qed.

Lemma render_re_ok_no_ph v q : render_re v = Ok q -> placeholders v = [].
Proof. unfold render_re. destruct (placeholders v); [reflexivity | discriminate]. Qed.

(* ---------------------------------------------------------------------------------------- *)
(* merging of adjacent string parts *)
Fixpoint nf (v : sstring) : bool :=
  match v with
  | [] => true
  | p :: v' => match p, v' with
               | PStr _, PStr _ :: _ => false
               | _, _ => nf v'
               end
  end.

Lemma nf_merge v : nf (merge v) = true.
Proof.
  induction v as [|p v IH]; [reflexivity|].
  destruct p; cbn [merge]; try exact IH.
  destruct (merge v) as [|q r] eqn:E; [reflexivity|].
  destruct q; exact IH.
Qed.

Lemma merge_nf v : nf v = true -> merge v = v.
Proof.
  induction v as [|p v IH]; intros H; [reflexivity|].
  destruct p; cbn [merge]; cbn [nf] in H.
  - destruct v as [|q r]; [reflexivity|].
    destruct q; try discriminate; rewrite (IH H); reflexivity.
  - rewrite (IH H); reflexivity.
  - rewrite (IH H); reflexivity.
  - rewrite (IH H); reflexivity.
Qed.

Lemma merge_idem v : merge (merge v) = merge v.
Proof. apply merge_nf, nf_merge. Qed.

Lemma merge_app_r a b : merge (a ++ merge b) = merge (a ++ b).
Proof.
  induction a as [|p a IH]; [apply merge_idem|].
  destruct p; cbn [app merge]; rewrite IH; reflexivity.
Qed.

Lemma merge_app_l a b : merge (merge a ++ b) = merge (a ++ b).
Proof.
  induction a as [|p a IH]; [reflexivity|].
  destruct p; cbn [app merge]; try (rewrite IH; reflexivity).
  rewrite <- IH.
  destruct (merge a) as [|q r] eqn:E; [reflexivity|].
  destruct q; try reflexivity.
  cbn [app merge].
  destruct (merge (r ++ b)) as [|q' r'] eqn:E2; [reflexivity|].
  destruct q'; try reflexivity.
  rewrite app_assoc. reflexivity.
Qed.

Lemma merge_app a b : merge (merge a ++ merge b) = merge (a ++ b).
Proof. rewrite merge_app_l, merge_app_r. reflexivity. Qed.

Lemma placeholders_app a b : placeholders (a ++ b) = placeholders a ++ placeholders b.
Proof. unfold placeholders. apply flat_map_app. Qed.

Lemma placeholders_cons p v : placeholders (p :: v) = placeholders [p] ++ placeholders v.
Proof. unfold placeholders. simpl. rewrite app_nil_r. reflexivity. Qed.

Lemma placeholders_merge v : placeholders (merge v) = placeholders v.
Proof.
  induction v as [|p v IH]; [reflexivity|].
  destruct p; cbn [merge];
    try (rewrite (placeholders_cons _ (merge v)), (placeholders_cons _ v), IH; reflexivity).
  rewrite (placeholders_cons _ v), <- IH.
  destruct (merge v) as [|q r] eqn:E; [reflexivity|].
  destruct q; reflexivity.
Qed.

Lemma ph_names_eq v : ph_names v = placeholders v.
Proof. reflexivity. Qed.

(* ---------------------------------------------------------------------------------------- *)
(* replace_placeholders is the substitution over the cartesian product *)
Lemma subst_noph v ch : placeholders v = [] -> subst v ch = v.
Proof.
  induction v as [|p v IH]; intros H; [reflexivity|].
  destruct p; try discriminate; cbn [subst]; rewrite IH; auto.
Qed.

Lemma cross_merge pre v R sufs (cart : list (list sstring)) :
  map merge sufs = map (fun ch => merge (subst v ch)) cart ->
  map merge (cross pre R sufs) =
  flat_map (fun r => map (fun ch => merge (pre ++ r ++ subst v ch)) cart) R.
Proof.
  intros Hs. unfold cross. induction R as [|r R IH]; [reflexivity|].
  cbn [flat_map]. rewrite map_app, IH. f_equal.
  rewrite map_map.
  transitivity (map (fun x => merge ((pre ++ r) ++ x)) (map merge sufs)).
  - rewrite map_map. apply map_ext. intros sf. unfold sadd.
    rewrite merge_idem, merge_app_l, merge_app_r. reflexivity.
  - rewrite Hs, map_map. apply map_ext. intros ch.
    rewrite merge_app_r, <- app_assoc. reflexivity.
Qed.

Lemma map_cart_cons {A B} (g : list A -> B) (R : list A) (cart : list (list A)) :
  map g (flat_map (fun x => map (cons x) cart) R) =
  flat_map (fun x => map (fun ch => g (x :: ch)) cart) R.
Proof.
  induction R as [|x R IH]; [reflexivity|].
  cbn [flat_map]. rewrite map_app, IH, map_map. reflexivity.
Qed.

Lemma rp_merge cb (f : str -> list sstring) v : forall pre,
  (forall n, In n (placeholders v) -> cb n = Ok (f n)) ->
  exists l, rp cb pre v = Ok l /\
    map merge l = map (fun ch => merge (pre ++ subst v ch)) (cartesian (map f (placeholders v))).
Proof.
  induction v as [|p v IH]; intros pre H.
  - exists [pre]. split; [reflexivity|]. simpl. rewrite app_nil_r. reflexivity.
  - assert (Hrest : forall n, In n (placeholders v) -> cb n = Ok (f n)).
    { intros n Hn. apply H. rewrite placeholders_cons. apply in_or_app. right. exact Hn. }
    destruct p.
    + destruct (IH (pre ++ [PStr s]) Hrest) as [l [E1 E2]]. exists l. split; [exact E1|].
      rewrite E2. apply map_ext. intros ch. rewrite <- app_assoc. reflexivity.
    + destruct (IH (pre ++ [PMulti]) Hrest) as [l [E1 E2]]. exists l. split; [exact E1|].
      rewrite E2. apply map_ext. intros ch. rewrite <- app_assoc. reflexivity.
    + destruct (IH (pre ++ [PSingle]) Hrest) as [l [E1 E2]]. exists l. split; [exact E1|].
      rewrite E2. apply map_ext. intros ch. rewrite <- app_assoc. reflexivity.
    + assert (Hn : cb name = Ok (f name)) by (apply H; left; reflexivity).
      cbn [rp]. rewrite Hn. cbn [obind].
      change (placeholders (PPh name :: v)) with (name :: placeholders v).
      cbn [map cartesian].
      destruct (f name) as [|r0 R] eqn:Ef.
      * exists []. split; reflexivity.
      * destruct (IH [] Hrest) as [sufs [E1 E2]]. rewrite E1. cbn [obind].
        eexists. split; [reflexivity|].
        rewrite (cross_merge pre v (r0 :: R) sufs _ E2).
        rewrite map_cart_cons. reflexivity.
Qed.

(* results are merged, provided the value itself is *)
Lemma cross_merged pre R sufs : map merge (cross pre R sufs) = cross pre R sufs.
Proof.
  unfold cross. induction R as [|r R IHR]; [reflexivity|].
  cbn [flat_map]. rewrite map_app, IHR. f_equal.
  rewrite map_map. apply map_ext. intros sf. unfold sadd. apply merge_idem.
Qed.

Lemma rp_results_merged cb v : forall pre l,
  rp cb pre v = Ok l -> merge (pre ++ v) = pre ++ v -> map merge l = l.
Proof.
  induction v as [|p v IH]; intros pre l H Hm.
  - injection H as <-. rewrite app_nil_r in Hm. simpl. rewrite Hm. reflexivity.
  - destruct p; try (apply (IH (pre ++ [_]) l H); rewrite <- app_assoc; exact Hm).
    cbn [rp] in H. destruct (cb name) as [reps| |]; try discriminate. cbn [obind] in H.
    destruct reps as [|r0 R]; [injection H as <-; reflexivity|].
    destruct (rp cb [] v) as [sufs| |]; try discriminate. cbn [obind] in H. injection H as <-.
    exact (cross_merged pre (r0 :: R) sufs).
Qed.

Theorem cross_product cb (f : str -> list sstring) v :
  merge v = v ->
  (forall n, In n (placeholders v) -> cb n = Ok (f n)) ->
  replace_placeholders cb v =
    Ok (map (fun ch => merge (subst v ch)) (cartesian (map f (ph_names v)))).
Proof.
  intros Hm H. unfold replace_placeholders.
  destruct (rp_merge cb f v [] H) as [l [E1 E2]].
  rewrite E1. f_equal. rewrite <- (rp_results_merged cb v [] l E1 Hm). exact E2.
Qed.

(* an error of replace_placeholders is an error of the callback on one of the value's placeholders *)
Lemma rp_error cb v : forall pre,
  (forall l, rp cb pre v <> Ok l) ->
  exists n, In n (placeholders v) /\ cb n = rp cb pre v.
Proof.
  induction v as [|p v IH]; intros pre H.
  - exfalso. apply (H [pre]). reflexivity.
  - destruct p; try (destruct (IH (pre ++ [_]) H) as [n [Hi He]]; exists n; split;
                     [rewrite placeholders_cons; apply in_or_app; right; exact Hi | exact He]).
    cbn [rp] in H |- *. destruct (cb name) as [reps| |] eqn:Ec.
    + cbn [obind] in H |- *. destruct reps as [|r0 R]; [exfalso; apply (H []); reflexivity|].
      destruct (rp cb [] v) as [sufs| |] eqn:Er.
      * exfalso. eapply H. reflexivity.
      * destruct (IH []) as [n [Hi He]]; [intros l; rewrite Er; discriminate|].
        exists n. split; [right; exact Hi | rewrite He, Er; reflexivity].
      * destruct (IH []) as [n [Hi He]]; [intros l; rewrite Er; discriminate|].
        exists n. split; [right; exact Hi | rewrite He, Er; reflexivity].
    + exists name. split; [left; reflexivity | exact Ec].
    + exists name. split; [left; reflexivity | exact Ec].
Qed.

(* ---------------------------------------------------------------------------------------- *)
(* which placeholders are left after one transformation *)
Lemma in_cross pre R sufs x : In x (cross pre R sufs) ->
  exists r sf, In r R /\ In sf sufs /\ x = sadd (sadd pre r) sf.
Proof.
  unfold cross. intros Hx. apply in_flat_map in Hx. destruct Hx as [r [Hr Hx]].
  apply in_map_iff in Hx. destruct Hx as [sf [<- Hsf]]. exists r, sf. auto.
Qed.

Lemma rp_placeholders cb (h : str -> bool) v : forall pre l,
  (forall n reps, In n (placeholders v) -> cb n = Ok reps ->
     if h n then Forall (fun r => placeholders r = []) reps else reps = [[PPh n]]) ->
  rp cb pre v = Ok l ->
  Forall (fun r => placeholders r = placeholders pre ++ filter (fun n => negb (h n)) (placeholders v)) l.
Proof.
  induction v as [|p v IH]; intros pre l Hcb H.
  - injection H as <-. constructor; [|constructor]. simpl. rewrite app_nil_r. reflexivity.
  - assert (Hrest : forall n reps, In n (placeholders v) -> cb n = Ok reps ->
                 if h n then Forall (fun r => placeholders r = []) reps else reps = [[PPh n]]).
    { intros n reps Hn. apply Hcb. rewrite placeholders_cons. apply in_or_app. right. exact Hn. }
    destruct p;
      try (specialize (IH (pre ++ [_]) l Hrest H); rewrite placeholders_app in IH;
           simpl in IH; rewrite app_nil_r in IH; exact IH).
    cbn [rp] in H. destruct (cb name) as [reps| |] eqn:Ec; try discriminate. cbn [obind] in H.
    specialize (Hcb name reps (or_introl eq_refl) Ec).
    destruct reps as [|r0 R]; [injection H as <-; constructor|].
    destruct (rp cb [] v) as [sufs| |] eqn:Er; try discriminate. cbn [obind] in H. injection H as <-.
    specialize (IH [] sufs Hrest Er). rewrite Forall_forall in IH.
    apply Forall_forall. intros x Hx.
    apply (in_cross pre (r0 :: R) sufs) in Hx. destruct Hx as [r [sf [Hr [Hsf ->]]]].
    unfold sadd. rewrite placeholders_merge, placeholders_app, placeholders_merge, placeholders_app.
    rewrite (IH sf Hsf). cbn [placeholders flat_map app]. rewrite <- app_assoc. f_equal.
    change (flat_map (fun p => match p with PPh n => [n] | _ => [] end) v) with (placeholders v).
    cbn [filter]. destruct (h name) eqn:Eh; cbn [negb].
    + rewrite Forall_forall in Hcb. rewrite (Hcb r Hr). reflexivity.
    + rewrite Hcb in Hr. destruct Hr as [<-|[]]. reflexivity.
Qed.

Lemma ph_of_iparse_len n : forall s, (length s <= n)%nat -> ph_of (iparse s) = [].
Proof.
  induction n as [|n IH]; intros s Hl.
  - destruct s; [reflexivity | simpl in Hl; lia].
  - destruct s as [|c s']; [reflexivity|]. simpl in Hl. cbn [iparse].
    destruct (N.eqb c c_bs).
    + destruct s' as [|d s'']; [reflexivity|]. simpl in Hl.
      destruct (is_special d || N.eqb d c_bs); simpl; apply IH; lia.
    + destruct (is_special c).
      * unfold special_item. destruct (N.eqb c c_star); simpl; apply IH; lia.
      * simpl. apply IH. lia.
Qed.
Lemma ph_of_iparse s : ph_of (iparse s) = [].
Proof. apply (ph_of_iparse_len (length s)). lia. Qed.

Lemma placeholders_flush acc : placeholders (flush [] acc) = [].
Proof. destruct acc; reflexivity. Qed.
Lemma placeholders_canon_go l : forall acc, placeholders (canon_go l acc) = ph_of l.
Proof.
  induction l as [|i l IH]; intros acc; [apply placeholders_flush|].
  destruct i; cbn [canon_go].
  - apply IH.
  - rewrite placeholders_app, placeholders_flush, placeholders_cons, IH. reflexivity.
  - rewrite placeholders_app, placeholders_flush, placeholders_cons, IH. reflexivity.
  - rewrite placeholders_app, placeholders_flush, placeholders_cons, IH. reflexivity.
Qed.
Lemma placeholders_parse s : placeholders (parse true s) = [].
Proof. rewrite parse_canon. unfold canon. rewrite placeholders_canon_go. apply ph_of_iparse. Qed.

Lemma vl_lookup_noph vs n reps :
  vl_lookup vs n = Ok reps -> Forall (fun r => placeholders r = []) reps.
Proof.
  assert (G : forall L, Forall (fun r => placeholders r = [])
                (flat_map (fun x => match x with VText t => [parse true t] | VBad => [] end) L)).
  { intros L. apply Forall_forall. intros r Hr. apply in_flat_map in Hr. destruct Hr as [x [_ Hx]].
    destruct x; [|destruct Hx]. destruct Hx as [<-|[]]. apply placeholders_parse. }
  unfold vl_lookup. destruct (assoc n vs) as [tab|]; [|discriminate].
  set (l := match tab with TScalar x => [x] | TList l => l end). clearbody l.
  destruct l as [|x0 l0]; [discriminate|].
  destruct (forallb _ (x0 :: l0)); [|discriminate]. intros H. injection H as <-.
  apply (G (x0 :: l0)).
Qed.

Definition base_kind (t : titem) : Prop := t_kind t = KValueList \/ t_kind t = KWildcard.

Lemma base_cb_shape vs t rx n reps : base_kind t ->
  base_cb vs t rx n = Ok reps ->
  if handled t n then Forall (fun r => placeholders r = []) reps else reps = [[PPh n]].
Proof.
  intros Hk. unfold base_cb. destruct (handled t n).
  - destruct Hk as [Hk|Hk]; rewrite Hk.
    + apply vl_lookup_noph.
    + intros H. injection H as <-. constructor; [|constructor]. destruct rx; reflexivity.
  - intros H. injection H as <-. reflexivity.
Qed.

Lemma handled_cond t n : item_ok t = true ->
  handled t n = (match t_inc t with None => true | Some l => mem_str n l end
                 && match t_exc t with None => true | Some l => negb (mem_str n l) end).
Proof.
  unfold item_ok, handled. destruct (t_inc t), (t_exc t); intros H; try discriminate;
    rewrite ?orb_false_r, ?andb_true_r; reflexivity.
Qed.

Lemma filter_all {A} (p : A -> bool) l : (forall x, In x l -> p x = true) -> filter p l = l.
Proof.
  induction l as [|x l IH]; intros H; [reflexivity|]. simpl.
  rewrite (H x (or_introl eq_refl)). f_equal. apply IH. intros y Hy. apply H. right. exact Hy.
Qed.

Lemma contains_ph_false t v : item_ok t = true -> contains_ph (t_inc t) (t_exc t) v = false ->
  filter (fun n => negb (handled t n)) (placeholders v) = placeholders v.
Proof.
  intros Hok H. apply filter_all. intros n Hn.
  unfold contains_ph in H. rewrite (handled_cond t n Hok).
  destruct (_ && _) eqn:E; [|reflexivity].
  exfalso. assert (X : existsb (fun n => match t_inc t with None => true | Some l => mem_str n l end
                    && match t_exc t with None => true | Some l => negb (mem_str n l) end)
          (placeholders v) = true) by (apply existsb_exists; exists n; split; assumption).
  rewrite X in H. discriminate.
Qed.

(* value of a detection item -> its parts, when it has parts *)
Definition vparts (x : value) : sstring := match x with VS v | VR v => v | VQ _ _ => [] end.

Lemma base_replace_ph vs t rx v l : base_kind t ->
  replace_placeholders (base_cb vs t rx) v = Ok l ->
  Forall (fun w => placeholders w = filter (fun n => negb (handled t n)) (placeholders v)) l.
Proof.
  intros Hk Er. unfold replace_placeholders in Er.
  exact (rp_placeholders (base_cb vs t rx) (handled t) v [] l
           (fun n reps _ E => base_cb_shape vs t rx n reps Hk E) Er).
Qed.

Lemma apply_base_S vs t v rs : item_ok t = true -> base_kind t ->
  (if contains_ph (t_inc t) (t_exc t) v
   then obind (replace_placeholders (base_cb vs t false) v) (fun l => Ok (map VS l))
   else Ok [VS v]) = Ok rs ->
  Forall (fun r => placeholders (vparts r) = filter (fun n => negb (handled t n)) (placeholders v)) rs.
Proof.
  intros Hok Hk H. destruct (contains_ph (t_inc t) (t_exc t) v) eqn:Ec.
  - destruct (replace_placeholders (base_cb vs t false) v) as [l| |] eqn:Er; try discriminate.
    cbn [obind] in H. injection H as <-.
    pose proof (base_replace_ph vs t false v l Hk Er) as F. rewrite Forall_forall in F.
    apply Forall_forall. intros r Hr. apply in_map_iff in Hr. destruct Hr as [w [<- Hw]].
    exact (F w Hw).
  - injection H as <-. constructor; [|constructor]. cbn [vparts].
    rewrite (contains_ph_false t v Hok Ec). reflexivity.
Qed.

Lemma apply_base_R vs t v rs : item_ok t = true -> base_kind t ->
  (if contains_ph (t_inc t) (t_exc t) v
   then obind (replace_placeholders (base_cb vs t true) v)
          (fun l => if forallb compile_ok l then Ok (map VR l) else SigmaErr E_Regex)
   else Ok [VR v]) = Ok rs ->
  Forall (fun r => placeholders (vparts r) = filter (fun n => negb (handled t n)) (placeholders v)) rs.
Proof.
  intros Hok Hk H. destruct (contains_ph (t_inc t) (t_exc t) v) eqn:Ec.
  - destruct (replace_placeholders (base_cb vs t true) v) as [l| |] eqn:Er; try discriminate.
    cbn [obind] in H. destruct (forallb compile_ok l); [|discriminate]. injection H as <-.
    pose proof (base_replace_ph vs t true v l Hk Er) as F. rewrite Forall_forall in F.
    apply Forall_forall. intros r Hr. apply in_map_iff in Hr. destruct Hr as [w [<- Hw]].
    exact (F w Hw).
  - injection H as <-. constructor; [|constructor]. cbn [vparts].
    rewrite (contains_ph_false t v Hok Ec). reflexivity.
Qed.

Theorem handled_gone vs t x rs :
  item_ok t = true -> base_kind t ->
  apply_value vs t x = Ok rs ->
  Forall (fun r => placeholders (vparts r) =
                   filter (fun n => negb (handled t n)) (placeholders (vparts x))) rs.
Proof.
  intros Hok Hk H. unfold apply_value in H.
  destruct Hk as [Ek|Ek]; rewrite Ek in H.
  - destruct x as [v|v|e i].
    + exact (apply_base_S vs t v rs Hok (or_introl Ek) H).
    + exact (apply_base_R vs t v rs Hok (or_introl Ek) H).
    + injection H as <-. constructor; [reflexivity|constructor].
  - destruct x as [v|v|e i].
    + exact (apply_base_S vs t v rs Hok (or_intror Ek) H).
    + exact (apply_base_R vs t v rs Hok (or_intror Ek) H).
    + injection H as <-. constructor; [reflexivity|constructor].
Qed.

(* ---------------------------------------------------------------------------------------- *)
(* rendering: a query is only produced from placeholder-free values *)
Lemma render_value_no_ph field x q : render_value field x = Ok q -> placeholders (vparts x) = [].
Proof.
  destruct x as [v|v|e i]; cbn [render_value vparts]; [| |reflexivity].
  - destruct (convert K17 v) eqn:E; try discriminate. intros _. eapply convert_ok_no_ph. exact E.
  - destruct (render_re v) eqn:E; try discriminate. intros _. eapply render_re_ok_no_ph. exact E.
Qed.

Lemma render_all_no_ph field l : forall atoms, render_all field l = Ok atoms ->
  Forall (fun x => placeholders (vparts x) = []) l.
Proof.
  induction l as [|x l IH]; intros atoms H; [constructor|].
  cbn [render_all] in H. destruct (render_value field x) eqn:E; try discriminate. cbn [obind] in H.
  destruct (render_all field l) eqn:E2; try discriminate.
  constructor; [eapply render_value_no_ph; exact E | eapply IH; reflexivity].
Qed.

Theorem run_ok_resolved c q : run c = Ok q ->
  exists vals, run_pipeline c = Ok vals /\ Forall (fun x => placeholders (vparts x) = []) vals.
Proof.
  unfold run. destruct (run_pipeline c) as [vals| |]; try discriminate. cbn [obind].
  unfold render_item. destruct (render_all (c_field c) vals) eqn:E; try discriminate. intros _.
  exists vals. split; [reflexivity | eapply render_all_no_ph; exact E].
Qed.

(* a placeholder left in a string or regular-expression value makes the conversion fail with
   SigmaPlaceholderError (never a query, never another error: wildcards are configured) *)
Lemma convert_K17_ph v : placeholders v <> [] -> convert K17 v = SigmaErr E_Placeholder.
Proof.
  induction v as [|p v IH]; intros H; [contradiction|].
  destruct p; cbn [convert]; try reflexivity;
    (rewrite IH; [reflexivity | rewrite placeholders_cons in H; exact H]).
Qed.
Lemma render_value_ph field x : placeholders (vparts x) <> [] -> render_value field x = SigmaErr E_Placeholder.
Proof.
  destruct x as [v|v|e i]; cbn [vparts render_value]; intros H.
  - rewrite convert_K17_ph by exact H. reflexivity.
  - unfold render_re. destruct (placeholders v); [contradiction | reflexivity].
  - contradiction.
Qed.
Lemma render_all_err field l : forall e, render_all field l = SigmaErr e -> e = E_Placeholder \/ e = E_Value.
Proof.
  induction l as [|x l IH]; intros e H; [discriminate|]. cbn [render_all] in H.
  destruct (render_value field x) eqn:E; cbn [obind] in H.
  - destruct (render_all field l) eqn:E2; try discriminate. injection H as <-. eapply IH. reflexivity.
  - injection H as <-. destruct x as [v|v|ex i]; cbn [render_value] in E.
    + destruct (placeholders v) as [|n0 ns] eqn:P.
      * (* no placeholder: convert K17 cannot fail *)
        exfalso. assert (X : exists q, convert K17 v = Ok q).
        { clear E. induction v as [|p v IHv]; [eexists; reflexivity|].
          destruct p; try discriminate; cbn [convert];
            (destruct IHv as [q Hq]; [rewrite placeholders_cons in P; exact P|]; rewrite Hq; eexists; reflexivity). }
        destruct X as [q Hq]. rewrite Hq in E. destruct field; discriminate.
      * left. rewrite convert_K17_ph in E; [|rewrite P; discriminate].
        destruct field; cbn [obind] in E; injection E as <-; reflexivity.
    + unfold render_re in E. destruct (placeholders v); [discriminate|]. cbn [obind] in E.
      injection E as <-. left. reflexivity.
    + destruct field; [discriminate|]. destruct (has_sub t_field ex); [|discriminate].
      injection E as <-. right. reflexivity.
  - discriminate.
Qed.

Theorem unresolved_fails c vals :
  run_pipeline c = Ok vals -> Exists (fun x => placeholders (vparts x) <> []) vals ->
  exists e, run c = SigmaErr e /\ (e = E_Placeholder \/ e = E_Value).
Proof.
  intros Hp Hex. unfold run. rewrite Hp. cbn [obind]. unfold render_item.
  destruct (render_all (c_field c) vals) as [atoms|e|e] eqn:E.
  - exfalso. apply render_all_no_ph in E. rewrite Forall_forall in E. apply Exists_exists in Hex.
    destruct Hex as [x [Hx Hn]]. apply Hn. apply E. exact Hx.
  - exists e. split; [reflexivity|]. eapply render_all_err. exact E.
  - exfalso. clear -E. revert e E. induction vals as [|x l IH]; intros e E; [discriminate|].
    cbn [render_all] in E. destruct (render_value (c_field c) x) eqn:E1; cbn [obind] in E.
    + destruct (render_all (c_field c) l) eqn:E2; try discriminate. eapply IH. reflexivity.
    + discriminate.
    + destruct x as [v|v|ex i]; cbn [render_value] in E1.
      * assert (X : forall w cc, convert K17 w <> Crash cc).
        { induction w as [|p w IHw]; intros cc; [discriminate|].
          destruct p; cbn [convert]; try discriminate;
            (destruct (convert K17 w) eqn:Ew; cbn [obind]; try discriminate; exfalso; eapply IHw; reflexivity). }
        destruct (convert K17 v) eqn:Ev; cbn [obind] in E1; try discriminate. eapply X. exact Ev.
      * unfold render_re in E1. destruct (placeholders v); discriminate.
      * destruct (c_field c); [discriminate|]. destruct (has_sub t_field ex); discriminate.
Qed.

(* ---------------------------------------------------------------------------------------- *)
(* what an emitted literal reads back as *)
Lemma ph_of_items v : ph_of (items v) = placeholders v.
Proof.
  induction v as [|p v IH]; [reflexivity|].
  change (items (p :: v)) with (part_items p ++ items v).
  unfold ph_of in *. rewrite flat_map_app, IH, (placeholders_cons p v). f_equal.
  destruct p; simpl; try reflexivity. induction s as [|c s IHs]; [reflexivity | exact IHs].
Qed.

Lemma no_ph_items v : placeholders v = [] -> forall n, ~ In (Ph n) (items v).
Proof.
  intros H n Hin. rewrite <- ph_of_items in H.
  assert (X : In n (ph_of (items v))).
  { unfold ph_of. apply in_flat_map. exists (Ph n). split; [exact Hin | left; reflexivity]. }
  rewrite H in X. destruct X.
Qed.

Theorem string_no_raw K v q : wf_escaping K = true -> convert K v = Ok q ->
  tread K q = Some (filter_items K (items v)) /\ forall n, ~ In (Ph n) (items v).
Proof.
  intros Hw H. split; [exact (convert_decode K v q Hw H)|].
  apply no_ph_items. eapply convert_ok_no_ph. exact H.
Qed.

Lemma rx_unescape_escape s : rx_unescape (rx_escape s) = Some s.
Proof.
  induction s as [|c s IH]; [reflexivity|].
  unfold rx_escape in *. cbn [flat_map].
  destruct (N.eqb c c_slash || N.eqb c c_bs) eqn:E.
  - cbn [app rx_unescape]. rewrite N.eqb_refl. rewrite IH. reflexivity.
  - apply orb_false_iff in E. destruct E as [_ Eb]. cbn [app rx_unescape]. rewrite Eb, IH. reflexivity.
Qed.

Theorem regex_no_raw v q : render_re v = Ok q ->
  rx_unescape q = Some (to_plain false v) /\ placeholders v = [].
Proof.
  unfold render_re. destruct (placeholders v) eqn:P; [|discriminate].
  intros H. injection H as <-. split; [apply rx_unescape_escape | reflexivity].
Qed.

Lemma K17_wf : wf_escaping K17 = true.
Proof. reflexivity. Qed.

(* ---------------------------------------------------------------------------------------- *)
(* the specification's view of a model case (plain re-tagging of the input) *)
Definition to_smod (m : vmod) : smod :=
  match m with MExpand => SExpand | MContains => SContains | MStartswith => SStartswith | MEndswith => SEndswith end.
Definition to_sitem (t : titem) : sitem :=
  {| s_kind := match t_kind t with
               | KValueList => SValueList | KWildcard => SWildcard | KQuery e m => SQuery e m end;
     s_inc := t_inc t; s_exc := t_exc t |}.
(* a variable has a usable table when it exists, is a scalar or a list, and every element is a
   string or a number (an empty list is an empty table) *)
Definition tabs_of (vs : vars) (n : str) : stab :=
  match assoc n vs with
  | None => SNoTable
  | Some tab =>
    let l := match tab with TScalar x => [x] | TList l => l end in
    if forallb (fun x => match x with VText _ => true | VBad => false end) l
    then STable (flat_map (fun x => match x with VText t => [t] | VBad => [] end) l)
    else SNoTable
  end.
Definition expected (c : case) : list (option (list sval)) :=
  map (fun s => s_expected1 (tabs_of (c_vars c)) (if c_field c then Some fname else None)
                            (map to_sitem (c_items c))
                            (s_source (c_re c) (map to_smod (c_mods c)) s))
      (c_values c).
Definition lhs_of (c : case) : str := if c_field c then fname else kwname.


(* ---------------------------------------------------------------------------------------- *)
(* one value-list / wildcard transformation step of the model = the specification's step,
   on the items of the values *)
Lemma items_cons p v : items (p :: v) = part_items p ++ items v.
Proof. reflexivity. Qed.

Lemma items_merge v : items (merge v) = items v.
Proof.
  induction v as [|p v IH]; [reflexivity|].
  destruct p; cbn [merge]; try (rewrite !items_cons, IH; reflexivity).
  rewrite (items_cons (PStr s) v), <- IH.
  destruct (merge v) as [|q r]; [reflexivity|].
  destruct q; try reflexivity.
  rewrite !items_cons. cbn [part_items]. rewrite map_app, <- app_assoc. reflexivity.
Qed.

Lemma isubst_lits h s l ch : isubst h (map Lit s ++ l) ch = map Lit s ++ isubst h l ch.
Proof. induction s as [|c s IH]; [reflexivity|]. cbn [map app isubst]. rewrite IH. reflexivity. Qed.

Lemma isubst_nil h l : isubst h l [] = l.
Proof.
  induction l as [|i l IH]; [reflexivity|].
  destruct i; cbn [isubst]; try (rewrite IH; reflexivity).
  destruct (h name); rewrite IH; reflexivity.
Qed.

Lemma s_handled_eq t n : item_ok t = true -> s_handled (to_sitem t) n = handled t n.
Proof.
  unfold item_ok, s_handled, handled, to_sitem. cbn [s_inc s_exc].
  destruct (t_inc t), (t_exc t); intros H; try discriminate;
    rewrite ?orb_false_r; reflexivity.
Qed.

(* the variable table, model and specification view *)
Lemma vl_lookup_spec vs n :
  match vl_lookup vs n with
  | Ok reps => exists x l, tabs_of vs n = STable (x :: l) /\ reps = map (parse true) (x :: l)
  | SigmaErr _ => match tabs_of vs n with STable (_ :: _) => False | _ => True end
  | Crash _ => False
  end.
Proof.
  unfold vl_lookup, tabs_of. destruct (assoc n vs) as [tab|]; [|exact I].
  set (l := match tab with TScalar x => [x] | TList l => l end). clearbody l.
  destruct l as [|x0 l0]; [exact I|].
  destruct (forallb _ (x0 :: l0)) eqn:F; [|exact I].
  assert (G : forall L, forallb (fun x => match x with VText _ => true | VBad => false end) L = true ->
              flat_map (fun x => match x with VText t => [parse true t] | VBad => [] end) L =
              map (parse true) (flat_map (fun x => match x with VText t => [t] | VBad => [] end) L)).
  { induction L as [|y L IHL]; intros HL; [reflexivity|]. cbn [forallb] in HL.
    apply andb_true_iff in HL. destruct HL as [Hy HL]. destruct y; [|discriminate].
    cbn [flat_map app map]. rewrite (IHL HL). reflexivity. }
  rewrite (G _ F). destruct x0 as [t0|]; [|discriminate].
  cbn [flat_map app]. eexists. eexists. split; reflexivity.
Qed.

Definition rep_items (rx : bool) : list item := if rx then [Lit c_dot; Multi] else [Multi].

Lemma base_cb_spec vs t rx n : item_ok t = true -> base_kind t -> handled t n = true ->
  match base_cb vs t rx n with
  | Ok reps => reps <> [] /\ s_repl (tabs_of vs) (to_sitem t) rx n = Some (map items reps)
  | SigmaErr _ => s_repl (tabs_of vs) (to_sitem t) rx n = None
  | Crash _ => False
  end.
Proof.
  intros Hok Hk Hh. unfold base_cb, s_repl. rewrite Hh. unfold to_sitem. cbn [s_kind].
  destruct Hk as [Hk|Hk]; rewrite Hk.
  - pose proof (vl_lookup_spec vs n) as L. destruct (vl_lookup vs n) as [reps|e|e].
    + destruct L as [x [l [Ht ->]]]. rewrite Ht. split; [discriminate|].
      f_equal. rewrite map_map. apply map_ext. intros a. symmetry. apply parse_items.
    + destruct (tabs_of vs n) as [|[|x l]]; try reflexivity. destruct L.
    + exact L.
  - split; [discriminate|]. destruct rx; reflexivity.
Qed.

Lemma all_some_cons {A} (a : option A) l :
  all_some (a :: l) = match a, all_some l with Some x, Some r => Some (x :: r) | _, _ => None end.
Proof. destruct a; [|reflexivity]. cbn [all_some]. destruct (all_some l); reflexivity. Qed.

Lemma rp_spec vs t rx v : item_ok t = true -> base_kind t -> forall pre,
  match rp (base_cb vs t rx) pre v with
  | Ok l => exists tables,
              all_some (map (s_repl (tabs_of vs) (to_sitem t) rx) (filter (handled t) (placeholders v))) = Some tables /\
              map items l = map (fun ch => items pre ++ isubst (handled t) (items v) ch) (cartesian tables)
  | SigmaErr _ => all_some (map (s_repl (tabs_of vs) (to_sitem t) rx) (filter (handled t) (placeholders v))) = None
  | Crash _ => False
  end.
Proof.
  intros Hok Hk. induction v as [|p v IH]; intros pre.
  - cbn [rp]. exists []. split; [reflexivity|]. simpl. rewrite app_nil_r. reflexivity.
  - destruct p.
    + cbn [rp]. specialize (IH (pre ++ [PStr s])). rewrite (placeholders_cons (PStr s) v). cbn [placeholders flat_map app].
      destruct (rp (base_cb vs t rx) (pre ++ [PStr s]) v) as [l|e|e]; try exact IH.
      destruct IH as [tables [E1 E2]]. exists tables. split; [exact E1|]. rewrite E2.
      apply map_ext. intros ch. rewrite items_app, items_cons. cbn [part_items items flat_map].
      rewrite app_nil_r, isubst_lits, <- app_assoc. reflexivity.
    + cbn [rp]. specialize (IH (pre ++ [PMulti])). rewrite (placeholders_cons PMulti v). cbn [placeholders flat_map app].
      destruct (rp (base_cb vs t rx) (pre ++ [PMulti]) v) as [l|e|e]; try exact IH.
      destruct IH as [tables [E1 E2]]. exists tables. split; [exact E1|]. rewrite E2.
      apply map_ext. intros ch. rewrite items_app, items_cons. cbn [part_items items flat_map isubst app].
      rewrite <- app_assoc. reflexivity.
    + cbn [rp]. specialize (IH (pre ++ [PSingle])). rewrite (placeholders_cons PSingle v). cbn [placeholders flat_map app].
      destruct (rp (base_cb vs t rx) (pre ++ [PSingle]) v) as [l|e|e]; try exact IH.
      destruct IH as [tables [E1 E2]]. exists tables. split; [exact E1|]. rewrite E2.
      apply map_ext. intros ch. rewrite items_app, items_cons. cbn [part_items items flat_map isubst app].
      rewrite <- app_assoc. reflexivity.
    + cbn [rp]. rewrite (placeholders_cons (PPh name) v). cbn [placeholders flat_map app filter].
      change (flat_map (fun p => match p with PPh n => [n] | _ => [] end) v) with (placeholders v).
      rewrite items_cons. cbn [part_items app].
      destruct (handled t name) eqn:Hh.
      * cbn [map]. rewrite all_some_cons.
        pose proof (base_cb_spec vs t rx name Hok Hk Hh) as B.
        destruct (base_cb vs t rx name) as [reps|e|e]; cbn [obind].
        -- destruct B as [Hne B]. rewrite B.
           destruct reps as [|r0 R]; [contradiction|].
           specialize (IH []). destruct (rp (base_cb vs t rx) [] v) as [sufs|e|e]; cbn [obind].
           ++ destruct IH as [tables [E1 E2]]. rewrite E1. eexists. split; [reflexivity|].
              cbn [cartesian]. rewrite map_cart_cons.
              unfold cross. generalize (r0 :: R). intros RR.
              induction RR as [|r RR IHR]; [reflexivity|].
              cbn [flat_map map]. rewrite map_app, IHR. f_equal.
              rewrite map_map.
              transitivity (map (fun x => items pre ++ items r ++ x) (map items sufs)).
              ** rewrite map_map. apply map_ext. intros sf. unfold sadd.
                 rewrite items_merge, items_app, items_merge, items_app, <- app_assoc. reflexivity.
              ** rewrite E2, map_map. apply map_ext. intros ch. cbn [isubst]. rewrite Hh. reflexivity.
           ++ rewrite IH. reflexivity.
           ++ exact IH.
        -- rewrite B. reflexivity.
        -- exact B.
      * unfold base_cb at 1. rewrite Hh. cbn [obind].
        specialize (IH []). destruct (rp (base_cb vs t rx) [] v) as [sufs|e|e]; cbn [obind]; try exact IH.
        destruct IH as [tables [E1 E2]]. exists tables. split; [exact E1|].
        unfold cross. cbn [flat_map]. rewrite app_nil_r, map_map.
        transitivity (map (fun x => items pre ++ Ph name :: x) (map items sufs)).
        -- rewrite map_map. apply map_ext. intros sf. unfold sadd.
           rewrite items_merge, items_app, items_merge, items_app, <- app_assoc. reflexivity.
        -- rewrite E2, map_map. apply map_ext. intros ch. cbn [isubst]. rewrite Hh. reflexivity.
Qed.

Lemma to_plain_items v : to_plain false v = plain_items (items v).
Proof.
  induction v as [|p v IH]; [reflexivity|].
  rewrite to_plain_cons, items_cons. unfold plain_items in *. rewrite flat_map_app, <- IH. f_equal.
  destruct p; cbn [part_plain part_items flat_map item_plain]; rewrite ?app_nil_r; try reflexivity.
  unfold plain_escape. induction s as [|c s IHs]; [reflexivity|].
  cbn [flat_map map item_plain]. rewrite IHs. reflexivity.
Qed.

Lemma isubst_ext h h' l : (forall n, h n = h' n) -> forall ch, isubst h l ch = isubst h' l ch.
Proof.
  intros E. induction l as [|i l IH]; intros ch; [reflexivity|].
  destruct i; cbn [isubst]; rewrite ?IH; try reflexivity.
  rewrite <- E. destruct (h name); [destruct ch|]; rewrite ?IH; reflexivity.
Qed.

Lemma filter_ext' {A} (p q : A -> bool) l : (forall x, p x = q x) -> filter p l = filter q l.
Proof. intros E. induction l as [|x l IH]; [reflexivity|]. simpl. rewrite E, IH. reflexivity. Qed.

Lemma s_expand_handled vs t rx l : item_ok t = true ->
  s_expand (tabs_of vs) (to_sitem t) rx l =
  match all_some (map (s_repl (tabs_of vs) (to_sitem t) rx) (filter (handled t) (ph_of l))) with
  | Some tables => Some (map (isubst (handled t) l) (cartesian tables))
  | None => None
  end.
Proof.
  intros Hok. unfold s_expand.
  rewrite (filter_ext' (s_handled (to_sitem t)) (handled t) _ (fun n => s_handled_eq t n Hok)).
  destruct (all_some _); [|reflexivity]. f_equal. apply map_ext. intros ch.
  apply isubst_ext. intros n. apply s_handled_eq. exact Hok.
Qed.

Lemma filter_none {A} (p : A -> bool) l : (forall x, In x l -> p x = false) -> filter p l = [].
Proof.
  induction l as [|x l IH]; intros H; [reflexivity|]. simpl.
  rewrite (H x (or_introl eq_refl)). apply IH. intros y Hy. apply H. right. exact Hy.
Qed.

Lemma contains_ph_handled t v : item_ok t = true ->
  contains_ph (t_inc t) (t_exc t) v = false -> filter (handled t) (placeholders v) = [].
Proof.
  intros Hok H. apply filter_none. intros n Hn.
  rewrite (handled_cond t n Hok). unfold contains_ph in H.
  destruct (_ && _) eqn:E; [|reflexivity].
  exfalso. assert (X : existsb (fun n => match t_inc t with None => true | Some l => mem_str n l end
                    && match t_exc t with None => true | Some l => negb (mem_str n l) end)
          (placeholders v) = true) by (apply existsb_exists; exists n; split; assumption).
  rewrite X in H. discriminate.
Qed.

(* specification view of a string or regular-expression value *)
Definition sv (x : value) : sval :=
  match x with VS v => XS (items v) | VR v => XR (items v) | VQ e i => XQ (e ++ i) end.
Definition has_parts (x : value) : Prop := match x with VQ _ _ => False | _ => True end.

Theorem base_step_spec vs t x : item_ok t = true -> base_kind t -> has_parts x ->
  match x with VR v => compile_ok v = true | _ => True end ->
  match apply_value vs t x with
  | Ok rs => s_step (tabs_of vs) (to_sitem t) (sv x) = Some (map sv rs)
  | SigmaErr _ => s_step (tabs_of vs) (to_sitem t) (sv x) = None
  | Crash _ => False
  end.
Proof.
  intros Hok Hk Hp Hc.
  assert (Hs : forall y, s_step (tabs_of vs) (to_sitem t) y =
               match y with
               | XS l => option_map (map XS) (s_expand (tabs_of vs) (to_sitem t) false l)
               | XR l => match s_expand (tabs_of vs) (to_sitem t) true l with
                         | Some rs => if forallb s_rx_valid rs then Some (map XR rs) else None
                         | None => None end
               | XQ _ => Some [y] end).
  { intros y. unfold s_step, to_sitem. cbn [s_kind]. destruct Hk as [K|K]; rewrite K; reflexivity. }
  assert (Hav : apply_value vs t x =
           match x with
           | VS v => if contains_ph (t_inc t) (t_exc t) v
                     then obind (replace_placeholders (base_cb vs t false) v) (fun l => Ok (map VS l))
                     else Ok [x]
           | VR v => if contains_ph (t_inc t) (t_exc t) v
                     then obind (replace_placeholders (base_cb vs t true) v)
                            (fun l => if forallb compile_ok l then Ok (map VR l) else SigmaErr E_Regex)
                     else Ok [x]
           | VQ _ _ => Ok [x] end).
  { unfold apply_value. destruct Hk as [K|K]; rewrite K; reflexivity. }
  rewrite Hav, Hs. clear Hav Hs.
  destruct x as [v|v|e i]; [| |destruct Hp]; cbn [sv]; rewrite (s_expand_handled vs t _ _ Hok), ph_of_items.
  - destruct (contains_ph (t_inc t) (t_exc t) v) eqn:Ec.
    + unfold replace_placeholders. pose proof (rp_spec vs t false v Hok Hk []) as R.
      destruct (rp (base_cb vs t false) [] v) as [l|e|e]; cbn [obind].
      * destruct R as [tables [E1 E2]]. rewrite E1. cbn [option_map]. f_equal.
        rewrite !map_map. rewrite <- (map_map items XS), E2, map_map. reflexivity.
      * rewrite R. reflexivity.
      * exact R.
    + rewrite (contains_ph_handled t v Hok Ec). cbn [map all_some cartesian option_map].
      rewrite isubst_nil. reflexivity.
  - destruct (contains_ph (t_inc t) (t_exc t) v) eqn:Ec.
    + unfold replace_placeholders. pose proof (rp_spec vs t true v Hok Hk []) as R.
      destruct (rp (base_cb vs t true) [] v) as [l|e|e]; cbn [obind].
      * destruct R as [tables [E1 E2]]. rewrite E1.
        change (fun ch => items [] ++ isubst (handled t) (items v) ch) with (isubst (handled t) (items v)) in E2.
        rewrite <- E2.
        assert (F : forallb s_rx_valid (map items l) = forallb compile_ok l).
        { clear. induction l as [|r l IH]; [reflexivity|]. cbn [map forallb]. rewrite IH. f_equal.
          unfold s_rx_valid, compile_ok. rewrite to_plain_items. reflexivity. }
        rewrite F. destruct (forallb compile_ok l); [|reflexivity].
        f_equal. rewrite !map_map. reflexivity.
      * rewrite R. reflexivity.
      * exact R.
    + rewrite (contains_ph_handled t v Hok Ec). cbn [map all_some cartesian].
      rewrite isubst_nil. cbn [forallb].
      (* an untouched regular expression is not recompiled by the model: its validity is the premise *)
      unfold s_rx_valid. rewrite <- to_plain_items. unfold compile_ok in Hc. rewrite Hc. reflexivity.
Qed.

(* ---------------------------------------------------------------------------------------- *)
(* whole pipelines of value-list / wildcard items, any length and order *)
Definition good (x : value) : Prop :=
  has_parts x /\ match x with VR v => compile_ok v = true | _ => True end.

Lemma apply_value_good vs t x rs : base_kind t -> good x -> apply_value vs t x = Ok rs -> Forall good rs.
Proof.
  intros Hk [Hp Hc] H. unfold apply_value in H.
  assert (G : forall (l : list sstring), Forall good (map VS l)).
  { intros l. apply Forall_forall. intros r Hr. apply in_map_iff in Hr. destruct Hr as [w [<- _]]. split; exact I. }
  assert (GR : forall (l : list sstring), forallb compile_ok l = true -> Forall good (map VR l)).
  { intros l F. apply Forall_forall. intros r Hr. apply in_map_iff in Hr. destruct Hr as [w [<- Hw]].
    split; [exact I|]. rewrite forallb_forall in F. exact (F w Hw). }
  destruct Hk as [K|K]; rewrite K in H; destruct x as [v|v|e i]; try destruct Hp.
  all: destruct (contains_ph (t_inc t) (t_exc t) v);
       [|injection H as <-; constructor; [split; [exact I|exact Hc]|constructor]].
  all: match type of H with obind ?a _ = _ => destruct a as [l| |]; try discriminate end; cbn [obind] in H.
  - injection H as <-. apply G.
  - destruct (forallb compile_ok l) eqn:F; [|discriminate]. injection H as <-. apply GR. exact F.
  - injection H as <-. apply G.
  - destruct (forallb compile_ok l) eqn:F; [|discriminate]. injection H as <-. apply GR. exact F.
Qed.

Lemma apply_item_spec vs t : item_ok t = true -> base_kind t -> forall l, Forall good l ->
  match apply_item vs t l with
  | Ok rs => s_each (s_step (tabs_of vs) (to_sitem t)) (map sv l) = Some (map sv rs) /\ Forall good rs
  | SigmaErr _ => s_each (s_step (tabs_of vs) (to_sitem t)) (map sv l) = None
  | Crash _ => False
  end.
Proof.
  intros Hok Hk. induction l as [|x l IH]; intros Hg.
  - cbn. split; [reflexivity | constructor].
  - inversion Hg as [|? ? Hx Hl]; subst. specialize (IH Hl).
    cbn [apply_item map s_each].
    pose proof (base_step_spec vs t x Hok Hk (proj1 Hx) (proj2 Hx)) as B.
    destruct (apply_value vs t x) as [a|e|e] eqn:Ea; cbn [obind].
    + rewrite B. destruct (apply_item vs t l) as [b|e|e]; cbn [obind].
      * destruct IH as [E G]. rewrite E. split; [rewrite map_app; reflexivity|].
        apply Forall_app. split; [eapply apply_value_good; eassumption | exact G].
      * rewrite IH. reflexivity.
      * exact IH.
    + rewrite B. reflexivity.
    + exact B.
Qed.

Theorem pipeline_spec vs field ts : Forall (fun t => item_ok t = true /\ base_kind t) ts ->
  forall l, Forall good l ->
  match apply_pipeline vs ts l with
  | Ok rs => s_pipeline (tabs_of vs) field (map to_sitem ts) (map sv l) = Some (map sv rs)
  | SigmaErr _ => s_pipeline (tabs_of vs) field (map to_sitem ts) (map sv l) = None
  | Crash _ => False
  end.
Proof.
  induction ts as [|t ts IH]; intros Hts l Hg; [reflexivity|].
  inversion Hts as [|? ? [Hok Hk] Hrest]; subst. cbn [apply_pipeline map s_pipeline].
  assert (Hi : s_item (tabs_of vs) field (to_sitem t) (map sv l) =
               s_each (s_step (tabs_of vs) (to_sitem t)) (map sv l)).
  { unfold s_item, to_sitem. cbn [s_kind]. destruct Hk as [K|K]; rewrite K; reflexivity. }
  rewrite Hi. pose proof (apply_item_spec vs t Hok Hk l Hg) as A.
  destruct (apply_item vs t l) as [rs|e|e]; cbn [obind].
  - destruct A as [E G]. rewrite E. exact (IH Hrest rs G).
  - rewrite A. reflexivity.
  - exact A.
Qed.

(* finding C17-F1: under `all` the replacements of one value are AND-linked *)
Definition witness_all : case :=
  {| c_field := true; c_re := false; c_all := true; c_mods := [MContains; MExpand];
     c_values := [[37; 120; 37]; [98]];
     c_items := [{| t_kind := KValueList; t_inc := None; t_exc := None |}];
     c_vars := [([120], TList [VText [49]; VText [50]])] |}.
Lemma linking_refuted :
  exists c q, run c = Ok q /\ s_accepts (lhs_of c) (c_all c) (expected c) (Ok q) = false
              /\ s_accepts (lhs_of c) false (expected c) (run {| c_field := c_field c; c_re := c_re c; c_all := false;
                     c_mods := c_mods c; c_values := c_values c; c_items := c_items c; c_vars := c_vars c |}) = true.
Proof. exists witness_all. eexists. split; [vm_compute; reflexivity|]. split; vm_compute; reflexivity. Qed.
