(* Lemmas about Model/Placeholder.v against Spec/Expand.v (property C17). *)
From Coq Require Import NArith List Bool Lia.
From PS Require Import Base.Chars Base.Outcome Model.SString Model.PyRegex Model.Placeholder
                       Spec.Items Spec.Expand Proofs.SStringP Proofs.ConvertP.
Import ListNotations.
Open Scope N_scope.

(* ---------------------------------------------------------------------------------------- *)
(* the guards at rendering time *)
Lemma convert_ok_no_ph K v q : convert K v = Ok q -> placeholders v = [].
Proof.
  revert q; induction v as [|p v IH]; intros q H; [reflexivity|].
  destruct p; simpl in H.
  - destruct (convert K v) eqn:E; try discriminate. simpl. eapply IH; reflexivity.
  - destruct (e_multi K); try discriminate.
    destruct (convert K v) eqn:E; try discriminate. simpl. eapply IH; reflexivity.
  - destruct (e_single K); try discriminate.
    destruct (convert K v) eqn:E; try discriminate. simpl. eapply IH; reflexivity.
  - discriminate.
Qed.

Lemma render_re_ok_no_ph v q : render_re v = Ok q -> placeholders v = [].
Proof. unfold render_re. destruct (placeholders v); [reflexivity | discriminate]. Qed.
