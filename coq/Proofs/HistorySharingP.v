(* C15 - the syntactic condition `no_sharing` on a history implies the semantic premise of the
   frame theorem for convert_rule (every backend's pipeline items point to its own pipeline object)
   in every reachable world. *)
From Coq Require Import NArith List Bool Arith Lia.
From PS Require Import Base.Chars Base.Outcome Model.History Spec.Frame Proofs.History15P.
Import ListNotations.
Open Scope N_scope.

Definition cfg_of (bk : backend) : N * option N := (b_cls bk, b_user bk).

Definition is_nil {A} (l : list A) : bool := match l with [] => true | _ => false end.
Definition sep (E : env) (fmts : list N) (c1 c2 : N * option N) : bool :=
  negb (N.eqb (fst c2) (fst c1) && class_has_items E fmts (fst c1))
  && negb (match snd c1, snd c2 with
           | Some o, Some o' => N.eqb o o' && negb (is_nil (e_user E o))
           | _, _ => false end).

Lemma no_sharing_cons E fmts c rest :
  no_sharing_l E fmts (c :: rest) = forallb (sep E fmts c) rest && no_sharing_l E fmts rest.
Proof. destruct c as [cl u]. reflexivity. Qed.

Lemma no_sharing_nth E fmts : forall l i j c1 c2, no_sharing_l E fmts l = true -> (i < j)%nat ->
  nth_error l i = Some c1 -> nth_error l j = Some c2 -> sep E fmts c1 c2 = true.
Proof.
  induction l as [|c l IH]; intros i j c1 c2 H Hij H1 H2.
  - destruct i; discriminate.
  - rewrite no_sharing_cons in H. apply andb_true_iff in H. destruct H as [Ha Hb].
    destruct i as [|i]; destruct j as [|j]; try lia; simpl in H1, H2.
    + inversion H1; subst. rewrite forallb_forall in Ha. apply Ha. eapply nth_error_In. exact H2.
    + eapply IH; [exact Hb | | exact H1 | exact H2]. lia.
Qed.

Lemma no_sharing_prefix E fmts : forall l1 l2, no_sharing_l E fmts (l1 ++ l2) = true -> no_sharing_l E fmts l1 = true.
Proof.
  induction l1 as [|c l1 IH]; intros l2 H; [reflexivity|].
  simpl app in H. rewrite no_sharing_cons in *. apply andb_true_iff in H. destruct H as [Ha Hb].
  apply andb_true_iff. split; [|eapply IH; exact Hb].
  rewrite forallb_app in Ha. apply andb_true_iff in Ha. apply Ha.
Qed.

(* ---------- item identities of a pipeline ---------- *)
Lemma in_tagp s its i : In i (map fst (tagp s its)) -> fst i = s /\ its <> [].
Proof.
  unfold tagp. intros H. apply in_map_iff in H. destruct H as [[j it] [Hj Hin]]. simpl in Hj. subst j.
  pose proof (in_combine_l _ _ _ _ Hin) as Hl. pose proof (in_combine_r _ _ _ _ Hin) as Hr.
  apply in_map_iff in Hl. destruct Hl as [k [Hk _]]. subst i. simpl.
  split; [reflexivity|]. intros ->. destruct Hr.
Qed.

Lemma in_pairs E cls user fmt i : In i (map fst (pipe_pairs E cls user fmt)) ->
  (fst i = SBk cls /\ e_bk E cls <> []) \/
  (exists o, user = Some o /\ fst i = SUser o /\ e_user E o <> []) \/
  (fst i = SFmt cls fmt /\ e_fmt E cls fmt <> []).
Proof.
  unfold pipe_pairs. rewrite !map_app, !in_app_iff. intros [H|[H|H]].
  - left. apply in_tagp in H. exact H.
  - right. left. destruct user as [o|]; [|destruct H]. apply in_tagp in H. exists o. tauto.
  - right. right. apply in_tagp in H. exact H.
Qed.

Lemma class_items_bk E fmts c : e_bk E c <> [] -> class_has_items E fmts c = true.
Proof. intros H. unfold class_has_items. destruct (e_bk E c); [congruence | reflexivity]. Qed.
Lemma class_items_fmt E fmts c f : In f fmts -> e_fmt E c f <> [] -> class_has_items E fmts c = true.
Proof.
  intros Hf H. unfold class_has_items. apply orb_true_iff. right. apply existsb_exists. exists f.
  split; [exact Hf|]. destruct (e_fmt E c f); [congruence | reflexivity].
Qed.

Lemma sep_disjoint E fmts c1 c2 f1 f2 i : sep E fmts c1 c2 = true -> In f1 fmts -> In f2 fmts ->
  In i (map fst (pipe_pairs E (fst c1) (snd c1) f1)) -> In i (map fst (pipe_pairs E (fst c2) (snd c2) f2)) -> False.
Proof.
  intros Hs Hf1 Hf2 H1 H2. apply in_pairs in H1. apply in_pairs in H2.
  unfold sep in Hs. apply andb_true_iff in Hs. destruct Hs as [Hc Hu].
  apply negb_true_iff in Hc. apply negb_true_iff in Hu.
  destruct H1 as [[E1 N1]|[[o1 [U1 [E1 N1]]]|[E1 N1]]]; destruct H2 as [[E2 N2]|[[o2 [U2 [E2 N2]]]|[E2 N2]]];
    rewrite E1 in E2; try discriminate.
  - inversion E2 as [Hcl]. rewrite <- Hcl, N.eqb_refl in Hc. simpl in Hc.
    rewrite (class_items_bk E fmts _ N1) in Hc. discriminate.
  - inversion E2; subst o2. rewrite U1, U2, N.eqb_refl in Hu. simpl in Hu.
    destruct (e_user E o1); [congruence | discriminate].
  - inversion E2 as [[Hcl Hfm]]. rewrite <- Hcl, N.eqb_refl in Hc. simpl in Hc.
    rewrite (class_items_fmt E fmts _ f1 Hf1 N1) in Hc. discriminate.
Qed.

Lemma sep_disjoint_sym E fmts c1 c2 f1 f2 i : sep E fmts c2 c1 = true -> In f1 fmts -> In f2 fmts ->
  In i (map fst (pipe_pairs E (fst c1) (snd c1) f1)) -> In i (map fst (pipe_pairs E (fst c2) (snd c2) f2)) -> False.
Proof. intros Hs H1 H2 I1 I2. exact (sep_disjoint E fmts c2 c1 f2 f1 i Hs H2 H1 I2 I1). Qed.

(* ---------- the invariant ---------- *)
Definition Inv (E : env) (fmts : list N) (w : world) : Prop :=
  (forall b bk, nth_error (w_bks w) b = Some bk -> owns_ok E w bk = true) /\
  (forall b bk L f, nth_error (w_bks w) b = Some bk -> b_last bk = Some (L, f) -> In f fmts).
Definition NS (E : env) (fmts : list N) (w : world) : Prop :=
  no_sharing_l E fmts (map cfg_of (w_bks w)) = true.

Lemma owns_ok_ext E w w' bk : w_owner w' = w_owner w -> owns_ok E w' bk = owns_ok E w bk.
Proof. intros H. unfold owns_ok. rewrite H. reflexivity. Qed.

Lemma inv_frame E fmts w w' : w_owner w' = w_owner w -> w_bks w' = w_bks w -> Inv E fmts w -> Inv E fmts w'.
Proof.
  intros Ho Hb [I1 I2]. split.
  - intros b bk H. rewrite Hb in H. rewrite (owns_ok_ext E w w' bk Ho). eapply I1. exact H.
  - intros b bk L f H. rewrite Hb in H. eapply I2. exact H.
Qed.

Lemma nth_error_set_nth_other {A} (l : list A) : forall n m x, n <> m -> nth_error (set_nth n x l) m = nth_error l m.
Proof.
  induction l as [|a l IH]; intros [|n] [|m] x H; simpl; try reflexivity; try congruence.
  apply IH. congruence.
Qed.
Lemma set_nth_map {A B} (g : A -> B) (l : list A) : forall n x y, nth_error l n = Some y -> g x = g y ->
  map g (set_nth n x l) = map g l.
Proof.
  induction l as [|a l IH]; intros [|n] x y H Hg; simpl in *; try discriminate; try reflexivity.
  - inversion H; subst. rewrite Hg. reflexivity.
  - f_equal. eapply IH; eassumption.
Qed.

Lemma init_inv E fmts w b bk fmt :
  Inv E fmts w -> NS E fmts w -> nth_error (w_bks w) b = Some bk -> In fmt fmts ->
  Inv E fmts (init_pipeline E w b bk fmt) /\
  map cfg_of (w_bks (init_pipeline E w b bk fmt)) = map cfg_of (w_bks w).
Proof.
  intros [I1 I2] Hns Hb Hf.
  set (bk0 := {| b_cls := b_cls bk; b_user := b_user bk; b_collect := b_collect bk; b_opts := b_opts bk; b_last := Some (w_next w, fmt) |}).
  assert (Hcfg : map cfg_of (w_bks (init_pipeline E w b bk fmt)) = map cfg_of (w_bks w)).
  { unfold init_pipeline. simpl. eapply set_nth_map; [exact Hb | reflexivity]. }
  split; [|exact Hcfg]. split.
  - intros b' bk' H'. destruct (Nat.eq_dec b b') as [->|Hne].
    + unfold init_pipeline in H'. simpl in H'. erewrite nth_error_set_nth in H'; [|exact Hb].
      inversion H'; subst bk'. unfold owns_ok. cbn [b_last b_cls b_user]. apply forallb_forall. intros p Hp.
      rewrite (init_owned E w b' bk fmt p Hp). apply Nat.eqb_refl.
    + unfold init_pipeline in H'. simpl in H'. rewrite nth_error_set_nth_other in H' by exact Hne.
      specialize (I1 b' bk' H'). unfold owns_ok in *. destruct (b_last bk') as [[L' f']|] eqn:El; [|reflexivity].
      apply forallb_forall. intros p Hp. rewrite forallb_forall in I1. specialize (I1 p Hp).
      unfold init_pipeline. simpl.
      destruct (existsb (iid_eqb (fst p)) (map fst (pipe_pairs E (b_cls bk) (b_user bk) fmt))) eqn:Ex; [|exact I1].
      exfalso. apply existsb_exists in Ex. destruct Ex as [i [Hi He]]. apply iid_eqb_eq in He. subst i.
      assert (Hf' : In f' fmts) by (eapply I2; eassumption).
      assert (Hp' : In (fst p) (map fst (pipe_pairs E (b_cls bk') (b_user bk') f'))) by (apply in_map; exact Hp).
      assert (N1 : nth_error (map cfg_of (w_bks w)) b = Some (cfg_of bk)) by (apply map_nth_error; exact Hb).
      assert (N2 : nth_error (map cfg_of (w_bks w)) b' = Some (cfg_of bk')) by (apply map_nth_error; exact H').
      destruct (Nat.lt_ge_cases b b') as [Hlt|Hge].
      * pose proof (no_sharing_nth E fmts _ b b' _ _ Hns Hlt N1 N2) as Hs.
        exact (sep_disjoint E fmts (cfg_of bk) (cfg_of bk') fmt f' (fst p) Hs Hf Hf' Hi Hp').
      * assert (Hlt : (b' < b)%nat) by lia.
        pose proof (no_sharing_nth E fmts _ b' b _ _ Hns Hlt N2 N1) as Hs.
        exact (sep_disjoint_sym E fmts (cfg_of bk) (cfg_of bk') fmt f' (fst p) Hs Hf Hf' Hi Hp').
  - intros b' bk' L f H' Hl. destruct (Nat.eq_dec b b') as [->|Hne].
    + unfold init_pipeline in H'. simpl in H'. erewrite nth_error_set_nth in H'; [|exact Hb].
      inversion H'; subst bk'. simpl in Hl. inversion Hl; subst. exact Hf.
    + unfold init_pipeline in H'. simpl in H'. rewrite nth_error_set_nth_other in H' by exact Hne.
      eapply I2; eassumption.
Qed.

Lemma NS_cfg E fmts w w' : map cfg_of (w_bks w') = map cfg_of (w_bks w) -> NS E fmts w -> NS E fmts w'.
Proof. unfold NS. intros ->. tauto. Qed.

Lemma conv_rule_raw_inv E fmts w b bk fmt r :
  wf E w -> Inv E fmts w -> NS E fmts w -> nth_error (w_bks w) b = Some bk -> In fmt fmts ->
  let w' := fst (conv_rule_raw E w b bk fmt r) in
  wf E w' /\ Inv E fmts w' /\ map cfg_of (w_bks w') = map cfg_of (w_bks w).
Proof.
  intros Hwf Hinv Hns Hb Hf. unfold conv_rule_raw. destruct (b_last bk) as [[L f]|].
  - destruct (conv_with_wf E w L f bk fmt r Hwf) as [H1 [H2 [H3 _]]].
    split; [exact H1|]. split; [eapply inv_frame; eassumption | rewrite H3; reflexivity].
  - destruct (init_inv E fmts w b bk fmt Hinv Hns Hb Hf) as [Hi Hc].
    destruct (conv_with_wf E (init_pipeline E w b bk fmt) (w_next w) fmt bk fmt r (init_wf E w b bk fmt Hwf)) as [H1 [H2 [H3 _]]].
    split; [exact H1|]. split; [eapply inv_frame; eassumption | rewrite H3; exact Hc].
Qed.

Lemma conv_rules_inv E fmts b fmt collect : forall rs w acc errs,
  wf E w -> Inv E fmts w -> NS E fmts w -> In fmt fmts ->
  let w' := fst (fst (conv_rules E w b fmt collect rs acc errs)) in
  wf E w' /\ Inv E fmts w' /\ map cfg_of (w_bks w') = map cfg_of (w_bks w).
Proof.
  induction rs as [|r rs IH]; intros w acc errs Hwf Hinv Hns Hf; simpl; [tauto|].
  destruct (nth_error (w_bks w) b) as [bk|] eqn:Hb; [|simpl; tauto].
  destruct (conv_rule_raw_inv E fmts w b bk fmt r Hwf Hinv Hns Hb Hf) as [H1 [H2 H3]].
  destruct (conv_rule_raw E w b bk fmt r) as [w1 q]. simpl in H1, H2, H3.
  assert (Hns1 : NS E fmts w1) by (eapply NS_cfg; eassumption).
  destruct q as [l|e|e].
  - destruct (IH w1 (acc ++ l) errs H1 H2 Hns1 Hf) as [A [B C]]. split; [exact A|]. split; [exact B | congruence].
  - destruct collect.
    + destruct (IH w1 acc (errs ++ [e]) H1 H2 Hns1 Hf) as [A [B C]]. split; [exact A|]. split; [exact B | congruence].
    + simpl. tauto.
  - simpl. tauto.
Qed.

Lemma existsb_In fmts f : existsb (N.eqb f) fmts = true -> In f fmts.
Proof. intros H. apply existsb_exists in H. destruct H as [x [Hx He]]. apply N.eqb_eq in He. subst. exact Hx. Qed.

Local Arguments init_pipeline : simpl never.
Local Arguments conv_rules : simpl never.
Local Arguments conv_rule_raw : simpl never.
Local Arguments load : simpl never.
Lemma step_inv E fmts w o rest :
  wf E w -> Inv E fmts w -> op_fmt_ok fmts o = true ->
  no_sharing_l E fmts (map cfg_of (w_bks w) ++ news (o :: rest)) = true ->
  let w' := fst (step E w o) in
  wf E w' /\ Inv E fmts w' /\ no_sharing_l E fmts (map cfg_of (w_bks w') ++ news rest) = true.
Proof.
  intros Hwf Hinv Hfm Hns.
  assert (Hns0 : NS E fmts w) by (eapply no_sharing_prefix; exact Hns).
  destruct o as [r|cls user collect opts|b fmt|b rs fmt|b r fmt]; simpl in Hfm |- *.
  - split; [exact Hwf|]. split; [exact Hinv | exact Hns].
  - split; [exact (step_wf E w (ONew cls user collect opts) Hwf)|]. split.
    + destruct Hinv as [I1 I2]. split.
      * intros b bk H. simpl in H. destruct (Nat.lt_ge_cases b (List.length (w_bks w))) as [Hl|Hl].
        -- rewrite nth_error_app1 in H by exact Hl. specialize (I1 b bk H). unfold owns_ok in *. simpl. exact I1.
        -- rewrite nth_error_app2 in H by exact Hl. destruct (b - List.length (w_bks w))%nat as [|k]; simpl in H.
           ++ inversion H; subst. reflexivity.
           ++ destruct k; discriminate.
      * intros b bk L f H Hl'. simpl in H. destruct (Nat.lt_ge_cases b (List.length (w_bks w))) as [Hl|Hl].
        -- rewrite nth_error_app1 in H by exact Hl. eapply I2; eassumption.
        -- rewrite nth_error_app2 in H by exact Hl. destruct (b - List.length (w_bks w))%nat as [|k]; simpl in H.
           ++ inversion H; subst. discriminate.
           ++ destruct k; discriminate.
    + simpl. rewrite map_app. simpl. rewrite <- app_assoc. exact Hns.
  - destruct (nth_error (w_bks w) b) as [bk|] eqn:Hb; simpl.
    + destruct (init_inv E fmts w b bk fmt Hinv Hns0 Hb (existsb_In _ _ Hfm)) as [Hi Hc].
      split; [apply init_wf; exact Hwf|]. split; [exact Hi |]. unfold init_pipeline in Hc. simpl in Hc. rewrite Hc. exact Hns.
    + split; [exact Hwf|]. split; [exact Hinv | exact Hns].
  - destruct (nth_error (w_bks w) b) as [bk|] eqn:Hb; simpl.
    + set (wl := fold_left load rs w).
      destruct (fold_load_frame rs w) as [F1 [F2 F3]]. fold wl in F1, F2, F3.
      assert (Fo : w_owner wl = w_owner w).
      { unfold wl. clear. revert w. induction rs as [|r rs IH]; intros w; simpl; [reflexivity | rewrite IH; reflexivity]. }
      assert (Hwfl : wf E wl) by (apply fold_load_wf; exact Hwf).
      assert (Hinvl : Inv E fmts wl) by (eapply inv_frame; [exact Fo | exact F3 | exact Hinv]).
      assert (Hnsl : NS E fmts wl) by (unfold NS; rewrite F3; exact Hns0).
      assert (Hbl : nth_error (w_bks wl) b = Some bk) by (rewrite F3; exact Hb).
      destruct (init_inv E fmts wl b bk fmt Hinvl Hnsl Hbl (existsb_In _ _ Hfm)) as [Hi Hc].
      pose proof (conv_rules_inv E fmts b fmt (b_collect bk) rs (init_pipeline E wl b bk fmt) [] []
                    (init_wf E wl b bk fmt Hwfl) Hi (NS_cfg E fmts wl _ Hc Hnsl) (existsb_In _ _ Hfm)) as [A [B C]].
      destruct (conv_rules E (init_pipeline E wl b bk fmt) b fmt (b_collect bk) rs [] []) as [[w1 q] errs].
      cbn [fst] in A, B, C |- *. split; [exact A|]. split; [exact B|]. rewrite C, Hc, F3. exact Hns.
    + split; [exact Hwf|]. split; [exact Hinv | exact Hns].
  - destruct (nth_error (w_bks w) b) as [bk|] eqn:Hb; simpl.
    + pose proof (conv_rule_raw_inv E fmts (load w r) b bk fmt r Hwf
                    (inv_frame E fmts w (load w r) eq_refl eq_refl Hinv) Hns0 Hb (existsb_In _ _ Hfm)) as [A [B C]].
      destruct (conv_rule_raw E (load w r) b bk fmt r) as [w1 q]. simpl in A, B, C |- *.
      split; [exact A|]. split; [exact B|]. rewrite C. exact Hns.
    + split; [exact Hwf|]. split; [exact Hinv | exact Hns].
Qed.

Lemma run_inv E fmts : forall ops w,
  wf E w -> Inv E fmts w -> forallb (op_fmt_ok fmts) ops = true ->
  no_sharing_l E fmts (map cfg_of (w_bks w) ++ news ops) = true ->
  Inv E fmts (fst (run E w ops)).
Proof.
  induction ops as [|o ops IH]; intros w Hwf Hinv Hf Hns; simpl; [exact Hinv|].
  simpl in Hf. apply andb_true_iff in Hf. destruct Hf as [Hf1 Hf2].
  destruct (step_inv E fmts w o ops Hwf Hinv Hf1 Hns) as [A [B C]].
  destruct (step E w o) as [w1 x]. simpl in A, B, C.
  specialize (IH w1 A B Hf2 C). destruct (run E w1 ops) as [w2 xs]. exact IH.
Qed.

Theorem no_sharing_owns E fmts ops :
  no_sharing E fmts ops = true -> forallb (op_fmt_ok fmts) ops = true ->
  forall b bk, nth_error (w_bks (fst (run E init ops))) b = Some bk -> owns_ok E (fst (run E init ops)) bk = true.
Proof.
  intros Hns Hf.
  assert (H : Inv E fmts (fst (run E init ops))).
  { apply run_inv; [apply init_world_wf | | exact Hf | exact Hns].
    split; intros b bk; destruct b; discriminate. }
  exact (proj1 H).
Qed.

(* the frame theorem under the syntactic premise *)
Theorem frame_rule_no_sharing E fmts ops b bk fmt r :
  no_sharing E fmts ops = true -> forallb (op_fmt_ok fmts) ops = true ->
  let w := fst (run E init ops) in
  nth_error (w_bks w) b = Some bk -> fmt_ok bk fmt = true ->
  out_obs (snd (step E w (OConvRule b r fmt))) = ideal_obs_rule E (b_cls bk) (b_user bk) (b_collect bk) (b_opts bk) fmt r.
Proof.
  intros Hns Hf w Hb Hfm. apply frame_rule_reachable; [exact Hb | | exact Hfm].
  apply (no_sharing_owns E fmts ops Hns Hf b bk Hb).
Qed.
