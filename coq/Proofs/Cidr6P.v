(* Proofs for C18, second part: IPv6 coverage on the trivial prefix lengths, and soundness of the
   range oracle (Spec.Net.exact_cover4) used by the correspondence check. *)
From Coq Require Import NArith Arith List Bool Lia ZifyBool.
From PS Require Import Base.Chars Base.Outcome Model.SString Spec.Items Model.Cidr Spec.Net Proofs.CidrP.
Import ListNotations.
Open Scope N_scope.

(* ------------------------------------------------------------------ IPv6: what is proved *)
(* a wildcard pattern cut out of a text by firstn covers every text that starts the same way *)
Definition plain_text (s : str) : bool := forallb plainc s.

Lemma pat_prefix_star p t : plain_text p = true ->
  (pat_matches (p ++ [c_star]) t = true <-> prefixb p t = true).
Proof.
  intros Hp. unfold pat_matches. rewrite iparse_plain_app by exact Hp.
  change (iparse [c_star]) with [Multi]. rewrite wild_lit_app, prefixb_spec. split.
  - intros [t' [-> _]]. exists t'. reflexivity.
  - intros [r ->]. exists r. split; [reflexivity | apply wild_star].
Qed.

(* /128 without scope id: the single pattern is the address text, and it matches it *)
Lemma first_diff_refl s i : first_diff s s i = NoDiff.
Proof. revert i. induction s as [|c s IH]; intros i; cbn [first_diff]; [reflexivity|]. rewrite N.eqb_refl. apply IH. Qed.

Lemma pat6_host a : pat6 128 None a = Ok (show6 a).
Proof.
  unfold pat6. change (128 - 128) with 0. change (2 ^ 0) with 1.
  replace (a + 1 - 1) with a by lia. rewrite !app_nil_r. rewrite first_diff_refl. reflexivity.
Qed.

Lemma expand6_host a : expand6 a 128 None = Ok [show6 a].
Proof.
  unfold expand6. change ((4 - 128 mod 4) mod 4) with 0. change (128 =? 128) with true. cbn iota.
  unfold subnets. change (nseq (2 ^ 0)) with [0]. cbn [map].
  change (128 + 0) with 128. rewrite N.mul_0_l, N.add_0_r. cbn [oall]. rewrite pat6_host. reflexivity.
Qed.

(* the RFC 5952 text consists of hex digits and colons only: as a pattern it denotes itself *)
Lemma hexdigit_plain n : plainc (hexdigit n) = true.
Proof.
  unfold hexdigit, plainc, is_special, c_star, c_qm, c_bs.
  destruct (n <? 10) eqn:E; lia.
Qed.
Lemma hex4_plain g : forallb plainc (hex4 g) = true.
Proof.
  unfold hex4. destruct (g <? 16); [|destruct (g <? 256); [|destruct (g <? 4096)]];
    cbn [forallb]; rewrite !hexdigit_plain; reflexivity.
Qed.
Lemma join_plain sep l : forallb plainc sep = true -> Forall (fun s => forallb plainc s = true) l ->
  forallb plainc (join sep l) = true.
Proof.
  intros Hs. induction 1 as [|x l Hx Hl IH]; [reflexivity|].
  destruct l as [|y l]; [exact Hx|].
  change (join sep (x :: y :: l)) with (x ++ sep ++ join sep (y :: l)).
  rewrite !forallb_app, Hx, Hs, IH. reflexivity.
Qed.
Lemma hexes_plain l : Forall (fun s => forallb plainc s = true) (map hex4 l).
Proof. apply Forall_forall. intros s Hs. apply in_map_iff in Hs. destruct Hs as [g [<- _]]. apply hex4_plain. Qed.
Lemma show6g_plain l : forallb plainc (show6g l) = true.
Proof.
  unfold show6g. destruct (best_run l) as [s n]. destruct (Nat.ltb 1 n).
  - rewrite !forallb_app. rewrite !join_plain; try reflexivity; apply hexes_plain.
  - apply join_plain; [reflexivity | apply hexes_plain].
Qed.
Lemma show6_self a : pat_matches (show6 a) (show6 a) = true.
Proof.
  unfold pat_matches. rewrite <- (app_nil_r (show6 a)) at 1.
  rewrite iparse_plain_app by apply show6g_plain. cbn [iparse]. rewrite app_nil_r. apply wild_lits. reflexivity.
Qed.

(* Coverage, proved for the prefix lengths 0 and 128 only (see Props/C18.v for what is missing) *)
Lemma v6_cover_trivial a len x : wf_net 128 a len -> len = 0 \/ len = 128 -> in_net 128 a len x ->
  exists pats, expand6 a len None = Ok pats /\ covered pats (show6 x) = true.
Proof.
  intros [Hl [Ha Hm]] [->| ->] [H1 H2].
  - change (128 - 0) with 128 in *. rewrite N.mod_small in Hm by exact Ha. subst a.
    exists [[c_star]]. split; [vm_compute; reflexivity|].
    unfold covered. cbn [existsb]. rewrite pat_star. reflexivity.
  - change (128 - 128) with 0 in *. change (2 ^ 0) with 1 in *. assert (x = a) by lia. subst x.
    exists [show6 a]. split; [apply expand6_host|].
    unfold covered. cbn [existsb]. rewrite show6_self. reflexivity.
Qed.

(* ------------------------------------------------------------------ the range oracle of the correspondence check is sound *)
Definition inr (a : N) (r : N * N) : bool := (fst r <=? a) && (a <? snd r).
Definition cnt (a : N) (l : list (N * N)) : nat := length (filter (inr a) l).

Lemma cnt_insert a x l : cnt a (insert_range x l) = cnt a (x :: l).
Proof.
  induction l as [|y l IH]; [reflexivity|]. cbn [insert_range].
  destruct (fst x <=? fst y); [reflexivity|].
  unfold cnt in *. cbn [filter] in *. destruct (inr a y), (inr a x); cbn [length] in *; lia.
Qed.
Lemma cnt_sort a l : cnt a (sort_ranges l) = cnt a l.
Proof.
  induction l as [|x l IH]; [reflexivity|]. cbn [sort_ranges fold_right].
  fold (sort_ranges l). rewrite cnt_insert. unfold cnt in *. cbn [filter]. destruct (inr a x); cbn [length]; lia.
Qed.
Lemma tiles_le lo hi l : tiles lo hi l = true -> lo <= hi.
Proof.
  revert lo. induction l as [|[x y] l IH]; intros lo H; cbn [tiles] in H.
  - apply N.eqb_eq in H. lia.
  - apply andb_true_iff in H. destruct H as [H H3]. apply andb_true_iff in H. destruct H as [H1 H2].
    apply IH in H3. lia.
Qed.
Lemma cnt_tiles a lo hi l : tiles lo hi l = true ->
  cnt a l = if (lo <=? a) && (a <? hi) then 1%nat else 0%nat.
Proof.
  revert lo. induction l as [|[x y] l IH]; intros lo H; cbn [tiles] in H.
  - apply N.eqb_eq in H. subst. unfold cnt. cbn.
    destruct (N.leb_spec hi a), (N.ltb_spec a hi); cbn; try reflexivity; lia.
  - apply andb_true_iff in H. destruct H as [H H3]. apply andb_true_iff in H. destruct H as [H1 H2].
    apply N.eqb_eq in H1. apply N.ltb_lt in H2. subst x. pose proof (tiles_le _ _ _ H3) as L.
    specialize (IH _ H3). unfold cnt in *. cbn [filter]. unfold inr at 1. cbn [fst snd].
    destruct (N.leb_spec lo a), (N.ltb_spec a y), (N.leb_spec y a), (N.ltb_spec a hi);
      cbn [andb length] in *; rewrite ?IH; cbn; try reflexivity; lia.
Qed.

Lemma opt_all_spec {A} (l : list (option A)) r : opt_all l = Some r -> l = map Some r.
Proof.
  revert r. induction l as [|[x|] l IH]; intros r H; cbn [opt_all] in H; try discriminate.
  - inversion H. reflexivity.
  - destruct (opt_all l) as [r'|]; [|discriminate]. inversion H. cbn [map]. f_equal. auto.
Qed.

Lemma cnt_patterns a pats rs : a < 2 ^ 32 -> map pattern_range4 pats = map Some rs ->
  length (filter (fun p => pat_matches p (show4 a)) pats) = cnt a rs.
Proof.
  intros Ha. revert rs. induction pats as [|p pats IH]; intros [|[lo hi] rs] E; try discriminate; [reflexivity|].
  cbn [map] in E. injection E as E1 E2. specialize (IH _ E2).
  pose proof (pattern_range4_ok _ _ _ E1 a Ha) as M.
  unfold cnt in *. cbn [filter]. unfold inr at 1. cbn [fst snd].
  destruct (pat_matches p (show4 a)) eqn:Pm.
  - destruct (proj1 M eq_refl) as [A B]. apply N.leb_le in A. apply N.ltb_lt in B. rewrite A, B.
    cbn [andb length]. f_equal. exact IH.
  - destruct ((lo <=? a) && (a <? hi)) eqn:C; [|exact IH].
    apply andb_true_iff in C. destruct C as [A B]. apply N.leb_le in A. apply N.ltb_lt in B.
    discriminate (proj2 M (conj A B)).
Qed.

(* if the oracle accepts a pattern list for a network, then every IPv4 address is matched by exactly
   one pattern when it lies in the network and by none otherwise *)
Lemma exact_cover4_sound base len pats : exact_cover4 base len pats = true ->
  forall a, a < 2 ^ 32 ->
    length (filter (fun p => pat_matches p (show4 a)) pats) = if in_netb 32 base len a then 1%nat else 0%nat.
Proof.
  unfold exact_cover4. destruct (opt_all (map pattern_range4 pats)) as [rs|] eqn:E; [|discriminate].
  intros T a Ha. apply opt_all_spec in E.
  rewrite (cnt_patterns a pats rs Ha E), <- cnt_sort. apply (cnt_tiles a _ _ _ T).
Qed.

(* ------------------------------------------------------------------ expand() never raises on a validated network *)
Lemma pat6_ok nl sc sub : exists p, pat6 nl sc sub = Ok p.
Proof. unfold pat6. destruct (first_diff _ _ 0); eauto. Qed.
Lemma oall_ok {A} (l : list (outcome A)) : (forall x, In x l -> exists a, x = Ok a) -> exists r, oall l = Ok r.
Proof.
  induction l as [|x l IH]; intros H; [exists []; reflexivity|].
  destruct (H x (or_introl eq_refl)) as [a ->].
  destruct IH as [r Hr]; [intros y Hy; apply H; right; exact Hy|].
  exists (a :: r). cbn [oall obind]. rewrite Hr. reflexivity.
Qed.
Lemma expand_total n : exists pats, expand n = Ok pats.
Proof.
  destruct n as [a len | a len sc]; cbn [expand]; [eauto|].
  unfold expand6. apply oall_ok. intros x Hx. apply in_map_iff in Hx. destruct Hx as [sub [<- _]]. apply pat6_ok.
Qed.

(* ------------------------------------------------------------------ the rendered query means what the pattern list means *)
(* the structure the model renders *)
Definition render_struct (or_as_in allow_wild : bool) (pats : list str) : rquery :=
  if as_in_list or_as_in allow_wild pats then RIn pats else ROr pats.

Definition pat_chars (p : str) : bool := forallb (fun c => plainc c || (c =? c_star)) p.

Lemma literal_pattern p t : pat_chars p = true -> has_special p = false -> pat_matches p t = str_eqb p t.
Proof.
  intros Hc Hs. assert (Hp : forallb plainc p = true).
  { unfold pat_chars in Hc. rewrite forallb_forall in *. intros c Hin. specialize (Hc c Hin).
    unfold has_special in Hs. destruct (plainc c) eqn:E; [reflexivity|]. cbn [orb] in Hc.
    assert (X : existsb (fun c => (c =? c_star) || (c =? c_qm)) p = true).
    { apply existsb_exists. exists c. split; [exact Hin|]. rewrite Hc. reflexivity. }
    congruence. }
  unfold pat_matches. rewrite <- (app_nil_r p) at 1. rewrite iparse_plain_app by exact Hp.
  cbn [iparse]. rewrite app_nil_r. apply Bool.eq_iff_eq_true. rewrite wild_lits, str_eqb_eq. split; congruence.
Qed.

(* whatever the two in-list options are, the query the model renders - read with the semantics the backend
   declares for value lists - matches exactly the texts the pattern list matches *)
Lemma render_semantics or_as_in allow_wild pats t :
  forallb pat_chars pats = true ->
  rquery_matches allow_wild (render_struct or_as_in allow_wild pats) t = covered pats t.
Proof.
  intros Hc. unfold render_struct, as_in_list, covered.
  destruct or_as_in; cbn [andb]; [|reflexivity].
  destruct allow_wild; cbn [orb]; [reflexivity|].
  destruct (existsb has_special pats) eqn:E; cbn [negb]; [reflexivity|].
  cbn [rquery_matches]. unfold value_matches.
  induction pats as [|p pats IH]; [reflexivity|]. cbn [existsb forallb] in *.
  apply andb_true_iff in Hc. destruct Hc as [Hp Hc]. apply orb_false_iff in E. destruct E as [E1 E2].
  rewrite (literal_pattern p t Hp E1), IH by assumption. reflexivity.
Qed.
