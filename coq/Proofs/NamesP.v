(* C20 - drawn identifiers never reach the result: the resolution of a rule to which filters and added
   conditions were applied (through drawn names, dict insertions, lookups by name and pattern matching)
   equals the nameless specification, for every fresh draw. *)
From Coq Require Import Arith NArith List Bool Permutation Lia.
From PS Require Import Base.Chars Model.Determinism Spec.DetSpec Proofs.DeterminismP.
Import ListNotations.
Open Scope N_scope.

(* ---------------------------------------------------------------------------------------- *)
(* dicts *)
Lemma lookup_app {V} k (a b : list (str * V)) :
  lookup k (a ++ b) = match lookup k a with Some v => Some v | None => lookup k b end.
Proof.
  induction a as [|[k' v] a IH]; simpl; [reflexivity|].
  destruct (str_eqb k k'); [reflexivity | exact IH].
Qed.

Lemma lookup_None {V} k (m : list (str * V)) : ~ In k (map fst m) -> lookup k m = None.
Proof.
  induction m as [|[k' v] m IH]; simpl; intros H; [reflexivity|].
  destruct (str_eqb k k') eqn:E.
  - apply str_eqb_eq in E. subst. exfalso. apply H. left. reflexivity.
  - apply IH. intros Hin. apply H. right. exact Hin.
Qed.

Lemma lookup_In {V} k (v : V) (m : list (str * V)) :
  NoDup (map fst m) -> In (k, v) m -> lookup k m = Some v.
Proof.
  induction m as [|[k' v'] m IH]; simpl; intros Hnd Hin; [contradiction|].
  inversion Hnd as [|? ? Hn Hnd']; subst. destruct Hin as [Heq|Hin].
  - inversion Heq; subst. rewrite str_eqb_refl. reflexivity.
  - destruct (str_eqb k k') eqn:E.
    + apply str_eqb_eq in E. subst. exfalso. apply Hn. apply in_map_iff.
      exists (k', v). split; [reflexivity | exact Hin].
    + apply IH; assumption.
Qed.

Lemma dset_fresh {V} k (v : V) m : ~ In k (map fst m) -> dset k v m = m ++ [(k, v)].
Proof.
  induction m as [|[k' v'] m IH]; simpl; intros H; [reflexivity|].
  destruct (str_eqb k k') eqn:E.
  - apply str_eqb_eq in E. subst. exfalso. apply H. left; reflexivity.
  - f_equal. apply IH. intros Hin. apply H. right; exact Hin.
Qed.

Definition dstep {V} (m : list (str * V)) (kv : str * V) := dset (fst kv) (snd kv) m.

Lemma fold_dset_fresh {V} (l : list (str * V)) : forall m,
  NoDup (map fst (m ++ l)) -> fold_left dstep l m = m ++ l.
Proof.
  induction l as [|[k v] l IH]; intros m Hnd; simpl; [now rewrite app_nil_r|].
  assert (E : (m ++ [(k, v)]) ++ l = m ++ (k, v) :: l) by (rewrite <- app_assoc; reflexivity).
  unfold dstep at 2. simpl. rewrite dset_fresh.
  - rewrite IH; [exact E | rewrite E; exact Hnd].
  - rewrite map_app in Hnd. simpl in Hnd. apply NoDup_remove_2 in Hnd.
    intros Hin. apply Hnd. apply in_or_app. left. exact Hin.
Qed.

Lemma filter_nil {A} (f : A -> bool) l : (forall x, In x l -> f x = false) -> filter f l = [].
Proof.
  induction l as [|x l IH]; simpl; intros H; [reflexivity|].
  rewrite (H x (or_introl eq_refl)). apply IH. intros y Hy. apply H. right; exact Hy.
Qed.

Lemma filter_map_comm {A B} (f : B -> bool) (g : A -> B) l :
  filter f (map g l) = map g (filter (fun x => f (g x)) l).
Proof.
  induction l as [|x l IH]; simpl; [reflexivity|]. destruct (f (g x)); simpl; now rewrite IH.
Qed.

(* ---------------------------------------------------------------------------------------- *)
(* strings *)
Lemma str_eqb_app_l l a b : str_eqb (l ++ a) (l ++ b) = str_eqb a b.
Proof. induction l as [|x l IH]; simpl; [reflexivity|]. now rewrite N.eqb_refl. Qed.

Lemma prefixb_app_l a b k : prefixb (a ++ b) k = true -> prefixb a k = true.
Proof.
  revert k; induction a as [|x a IH]; intros k; simpl; [reflexivity|].
  destruct k as [|y k]; [discriminate|]. rewrite !andb_true_iff. intros [H1 H2]. split; [exact H1 | apply IH; exact H2].
Qed.

Lemma prefixb_length a : forall b, prefixb a b = true -> (length a <= length b)%nat.
Proof.
  induction a as [|x a IH]; intros b; simpl; [lia|].
  destruct b as [|y b]; [discriminate|]. rewrite andb_true_iff. intros [_ H]. apply IH in H. simpl. lia.
Qed.

Lemma prefixb_same_len a : forall b x y, length a = length b -> prefixb (a ++ x) (b ++ y) = true -> a = b.
Proof.
  induction a as [|c a IH]; intros [|d b] x y Hl; simpl in *; try discriminate; [reflexivity|].
  rewrite andb_true_iff, N.eqb_eq. intros [-> H]. f_equal. eapply IH; [lia | exact H].
Qed.

Lemma prefixb_refl a : prefixb a a = true.
Proof. induction a; simpl; [reflexivity|]. now rewrite N.eqb_refl. Qed.

Lemma pfx_app px n : pfx px n = (px ++ [c_us]) ++ n.
Proof. unfold pfx. rewrite <- app_assoc. reflexivity. Qed.

Lemma starts_us_app a b : starts_us a = true -> starts_us (a ++ b) = true.
Proof. destruct a; simpl; [discriminate | auto]. Qed.

(* ---------------------------------------------------------------------------------------- *)
(* glob *)
Lemma glob_lit c p s : N.eqb c c_star = false ->
  glob (c :: p) s = match s with [] => false | d :: s' => N.eqb c d && glob p s' end.
Proof. intros H. simpl. rewrite H. reflexivity. Qed.

Lemma glob_app_lit l : ~ In c_star l -> forall p s, glob (l ++ p) (l ++ s) = glob p s.
Proof.
  induction l as [|a l IH]; intros Hn p s; [reflexivity|].
  assert (Ha : N.eqb a c_star = false).
  { apply N.eqb_neq. intros ->. apply Hn. left. reflexivity. }
  change ((a :: l) ++ p) with (a :: (l ++ p)). change ((a :: l) ++ s) with (a :: (l ++ s)).
  rewrite glob_lit by exact Ha. rewrite N.eqb_refl. simpl. apply IH. intros H. apply Hn. right. exact H.
Qed.

Lemma glob_prefix l : ~ In c_star l -> forall p k, glob (l ++ p) k = true -> prefixb l k = true.
Proof.
  induction l as [|a l IH]; intros Hn p k; [reflexivity|].
  assert (Ha : N.eqb a c_star = false).
  { apply N.eqb_neq. intros ->. apply Hn. left. reflexivity. }
  change ((a :: l) ++ p) with (a :: (l ++ p)). rewrite glob_lit by exact Ha.
  destruct k as [|d k]; [discriminate|]. simpl. rewrite !andb_true_iff. intros [H1 H2].
  split; [exact H1|]. eapply IH; [|exact H2]. intros H. apply Hn. right. exact H.
Qed.

Lemma glob_star s : glob [c_star] s = true.
Proof.
  induction s as [|d s IH]; [reflexivity|].
  simpl in *. exact IH.
Qed.

(* ---------------------------------------------------------------------------------------- *)
(* shape of the rule after filters and added conditions *)
Definition fstep (r : rule) (pf : str * sfilter) := apply_filter (fst pf) (snd pf) r.
Definition astep (r : rule) (na : str * (str * bool)) := add_cond (fst na) (fst (snd na)) (snd (snd na)) r.
Definition cfstep (c : cexpr) (pf : str * sfilter) := CBin true c (rename (fst pf) (f_cond (snd pf))).
Definition castep (c : cexpr) (na : str * (str * bool)) :=
  CBin true (if snd (snd na) then CNot (CId (fst na)) else CId (fst na)) c.
Definition centry (na : str * (str * bool)) : str * str := (fst na, fst (snd na)).

Lemma block_fold px f m :
  fold_left (fun m kv => dset (pfx px (fst kv)) (snd kv) m) (f_dets f) m = fold_left dstep (block (px, f)) m.
Proof.
  unfold block. simpl. generalize (f_dets f) as l. intros l. revert m.
  induction l as [|kv l IH]; intros m; simpl; [reflexivity|]. apply IH.
Qed.

Lemma dets_filters PF : forall r,
  r_dets (fold_left fstep PF r) = fold_left dstep (concat (map block PF)) (r_dets r).
Proof.
  induction PF as [|[px f] PF IH]; intros r; simpl; [reflexivity|].
  rewrite IH. rewrite fold_left_app. f_equal. unfold fstep, apply_filter. simpl. apply block_fold.
Qed.
Lemma cond_filters PF : forall r, r_cond (fold_left fstep PF r) = fold_left cfstep PF (r_cond r).
Proof. induction PF as [|pf PF IH]; intros r; simpl; [reflexivity|]. rewrite IH. reflexivity. Qed.
Lemma dets_adds CA : forall r, r_dets (fold_left astep CA r) = fold_left dstep (map centry CA) (r_dets r).
Proof. induction CA as [|na CA IH]; intros r; simpl; [reflexivity|]. rewrite IH. reflexivity. Qed.
Lemma cond_adds CA : forall r, r_cond (fold_left astep CA r) = fold_left castep CA (r_cond r).
Proof. induction CA as [|na CA IH]; intros r; simpl; [reflexivity|]. rewrite IH. reflexivity. Qed.

Lemma names_rule_shape r PF CA :
  NoDup (map fst (all_dets r PF CA)) ->
  r_dets (names_rule r PF CA) = all_dets r PF CA /\
  r_cond (names_rule r PF CA) = fold_left castep CA (fold_left cfstep PF (r_cond r)).
Proof.
  intros Hnd. unfold names_rule. fold fstep. fold astep. split.
  - rewrite dets_adds, dets_filters, <- fold_left_app.
    unfold all_dets in *. fold centry in Hnd |- *. apply fold_dset_fresh. exact Hnd.
  - rewrite cond_adds, cond_filters. reflexivity.
Qed.

(* ---------------------------------------------------------------------------------------- *)
(* resolution, piece by piece *)
Lemma resolve_adds T : forall CA c,
  (forall na, In na CA -> lookup (fst na) T = Some (fst (snd na))) ->
  resolve T (fold_left castep CA c) = spec_adds (resolve T c) (map snd CA).
Proof.
  induction CA as [|[n [content neg]] CA IH]; intros c H; [reflexivity|].
  simpl. rewrite IH by (intros na Hna; apply H; right; exact Hna).
  unfold spec_adds. simpl. f_equal.
  unfold castep. simpl. specialize (H (n, (content, neg)) (or_introl eq_refl)). simpl in H.
  destruct neg; simpl; rewrite H; simpl; destruct (resolve T c); reflexivity.
Qed.

Lemma resolve_filters T : forall PF c,
  (forall pf, In pf PF -> resolve T (rename (fst pf) (f_cond (snd pf))) = resolve_own (f_dets (snd pf)) (f_cond (snd pf))) ->
  resolve T (fold_left cfstep PF c) = spec_filters (resolve T c) (map snd PF).
Proof.
  induction PF as [|pf PF IH]; intros c H; [reflexivity|].
  simpl. rewrite IH by (intros x Hx; apply H; right; exact Hx).
  unfold spec_filters. simpl. f_equal.
  unfold cfstep. simpl. rewrite (H pf (or_introl eq_refl)). reflexivity.
Qed.

Lemma resolve_rule_level m E c :
  (forall n, In n (ids c) -> ~ In n (map fst E)) ->
  (forall p, In p (pats c) -> starts_us p = false) ->
  (forall k, In k (map fst E) -> starts_us k = true) ->
  resolve (m ++ E) c = resolve m c.
Proof.
  intros Hi Hp He. induction c as [n|a p|c IH|o a IHa b IHb]; simpl in *.
  - rewrite lookup_app. rewrite (lookup_None n E) by (apply Hi; left; reflexivity).
    destruct (lookup n m); reflexivity.
  - rewrite filter_app. rewrite (filter_nil _ E); [now rewrite app_nil_r|].
    intros [k v] Hin. unfold sel_match. simpl.
    rewrite (Hp p (or_introl eq_refl)). rewrite (He k) by (apply in_map_iff; exists (k, v); auto).
    simpl. apply andb_false_r.
  - rewrite IH; auto.
  - rewrite IHa, IHb; auto; intros x Hx; [apply Hi | apply Hp | apply Hi | apply Hp]; apply in_or_app; auto.
Qed.

Lemma lookup_block px f n : lookup (pfx px n) (block (px, f)) = lookup n (f_dets f).
Proof.
  assert (E : forall a b, str_eqb (pfx px a) (pfx px b) = str_eqb a b).
  { intros a b. unfold pfx. rewrite str_eqb_app_l. cbn [str_eqb]. rewrite N.eqb_refl. reflexivity. }
  unfold block. simpl. induction (f_dets f) as [|[k v] l IH]; simpl; [reflexivity|].
  rewrite E. destruct (str_eqb n k); [reflexivity | exact IH].
Qed.

Lemma them_not_us p : starts_us p = true -> str_eqb p them = false.
Proof.
  destruct p as [|c p]; [discriminate|]. simpl. intros H. apply N.eqb_eq in H. subst c. reflexivity.
Qed.

Lemma resolve_filter_level px f pre post :
  starts_us px = true -> ~ In c_star px ->
  (forall k, In k (map fst pre) -> prefixb (px ++ [c_us]) k = false) ->
  (forall k, In k (map fst post) -> prefixb (px ++ [c_us]) k = false) ->
  forall c, (forall n, In n (ids c) -> haskey n (f_dets f) = true) ->
  resolve (pre ++ block (px, f) ++ post) (rename px c) = resolve_own (f_dets f) c.
Proof.
  intros Hus Hstar Hpre Hpost.
  assert (Hstar' : ~ In c_star (px ++ [c_us])).
  { intros H. apply in_app_or in H. destruct H as [H|[H|[]]]; [auto | discriminate]. }
  induction c as [n|a p|c IH|o a IHa b IHb]; intros Hc; simpl in *.
  - rewrite !lookup_app. rewrite lookup_None.
    + rewrite lookup_block. specialize (Hc n (or_introl eq_refl)). unfold haskey in Hc.
      destruct (lookup n (f_dets f)); [reflexivity | discriminate].
    + intros Hin. apply Hpre in Hin. rewrite pfx_app, prefixb_app in Hin. discriminate.
  - set (p' := if str_eqb p them then pfx px [c_star] else pfx px p).
    assert (Hp' : exists q, p' = (px ++ [c_us]) ++ q /\ forall n, glob q n = pat_match p n).
    { unfold p', pat_match. destruct (str_eqb p them).
      - exists [c_star]. split; [apply pfx_app | intros; apply glob_star].
      - exists p. split; [apply pfx_app | reflexivity]. }
    destruct Hp' as [q [Eq Hq]].
    assert (Hus' : starts_us p' = true) by (rewrite Eq; apply starts_us_app, starts_us_app; exact Hus).
    assert (Hout : forall k, prefixb (px ++ [c_us]) k = false -> sel_match p' k = false).
    { intros k Hk. unfold sel_match, pat_match. rewrite (them_not_us _ Hus').
      destruct (glob p' k) eqn:G; [|reflexivity]. rewrite Eq in G.
      apply glob_prefix in G; [congruence | exact Hstar']. }
    rewrite !filter_app.
    rewrite (filter_nil _ pre) by (intros [k v] Hin; apply Hout, Hpre; apply in_map_iff; exists (k, v); auto).
    rewrite (filter_nil _ post) by (intros [k v] Hin; apply Hout, Hpost; apply in_map_iff; exists (k, v); auto).
    rewrite app_nil_r. simpl. unfold block. simpl. rewrite filter_map_comm, map_map. simpl.
    f_equal. f_equal. f_equal. apply filter_ext. intros [k v]. simpl.
    unfold sel_match, pat_match at 1. rewrite (them_not_us _ Hus'), Hus'. simpl. rewrite andb_true_r.
    rewrite Eq, pfx_app. rewrite glob_app_lit by exact Hstar'. apply Hq.
  - rewrite IH; auto.
  - rewrite IHa, IHb; auto; intros x Hx; apply Hc; apply in_or_app; auto.
Qed.

(* ---------------------------------------------------------------------------------------- *)
(* reflection of the boolean premise *)
Lemma nodupb_NoDup l : nodupb l = true -> NoDup l.
Proof.
  induction l as [|x l IH]; simpl; intros H; [constructor|].
  apply andb_true_iff in H. destruct H as [H1 H2]. constructor; [|apply IH; exact H2].
  intros Hin. apply smem_In in Hin. rewrite Hin in H1. discriminate.
Qed.

Lemma NoDup_app_l {A} (a b : list A) : NoDup (a ++ b) -> NoDup a.
Proof.
  induction a as [|x a IH]; simpl; intros H; [constructor|].
  inversion H as [|? ? Hn Hr]; subst. constructor; [|apply IH; exact Hr].
  intros Hin. apply Hn. apply in_or_app. left. exact Hin.
Qed.

Lemma internal_prefix D d k : In d D -> prefixb d k = true -> internalb D k = true.
Proof. intros Hd Hp. unfold internalb. apply existsb_exists. exists d. auto. Qed.

Lemma in_blocks k (l : list (str * sfilter)) :
  In k (map fst (concat (map block l))) -> exists px f n, In (px, f) l /\ k = pfx px n.
Proof.
  induction l as [|[px f] l IH]; simpl; [contradiction|].
  rewrite map_app, in_app_iff. intros [H|H].
  - unfold block in H. simpl in H. rewrite map_map in H. simpl in H. apply in_map_iff in H.
    destruct H as [[n v] [E _]]. exists px, f, n. split; [left; reflexivity | symmetry; exact E].
  - destruct (IH H) as [px' [f' [n [Hin E]]]]. exists px', f', n. split; [right; exact Hin | exact E].
Qed.

(* ---------------------------------------------------------------------------------------- *)
Theorem names_spec L r PF CA :
  freshb L r PF CA = true ->
  names_run r PF CA = spec_names r (map snd PF) (map snd CA).
Proof.
  unfold freshb. rewrite !andb_true_iff.
  intros [[[[[[Hok Hnd] HndT] Hrk] Hri] Hrp] Hcl].
  set (D := drawn PF CA) in *.
  apply nodupb_NoDup in Hnd. apply nodupb_NoDup in HndT.
  rewrite forallb_forall in Hok, Hrk, Hri, Hrp, Hcl.
  assert (HD : forall d, In d D -> length d = L /\ starts_us d = true /\ ~ In c_star d).
  { intros d Hd. specialize (Hok d Hd). unfold draw_okb in Hok. rewrite !andb_true_iff in Hok.
    destruct Hok as [[H1 H2] H3]. apply Nat.eqb_eq in H1. split; [exact H1 | split; [exact H2|]].
    intros Hin. apply mem_In in Hin. rewrite Hin in H3. discriminate. }
  assert (HPF : forall pf, In pf PF -> In (fst pf) D).
  { intros pf Hpf. unfold D, drawn. apply in_or_app. left. apply in_map. exact Hpf. }
  assert (HCA : forall na, In na CA -> In (fst na) D).
  { intros na Hna. unfold D, drawn. apply in_or_app. right. apply in_map. exact Hna. }
  unfold names_run. destruct (names_rule_shape r PF CA HndT) as [Ed Ec]. rewrite Ed, Ec.
  set (T := all_dets r PF CA) in *.
  unfold spec_names.
  rewrite resolve_adds.
  2:{ intros na Hna. apply lookup_In; [exact HndT|]. unfold T, all_dets.
      apply in_or_app. right. apply in_or_app. right.
      apply in_map_iff. exists na. split; [destruct na as [n [c b]]; reflexivity | exact Hna]. }
  f_equal.
  rewrite resolve_filters.
  - f_equal. unfold T, all_dets. apply resolve_rule_level.
    + intros n Hn Hin. specialize (Hri n Hn). apply negb_true_iff in Hri.
      rewrite map_app, in_app_iff in Hin. destruct Hin as [Hin|Hin].
      * apply in_blocks in Hin. destruct Hin as [px [f [m [Hpf ->]]]].
        rewrite (internal_prefix D px) in Hri; [discriminate | apply (HPF (px, f) Hpf) |].
        unfold pfx. apply prefixb_app.
      * rewrite map_map in Hin. simpl in Hin. apply in_map_iff in Hin. destruct Hin as [na [<- Hna]].
        rewrite (internal_prefix D (fst na)) in Hri; [discriminate | apply HCA; exact Hna | apply prefixb_refl].
    + intros p Hp. specialize (Hrp p Hp). apply negb_true_iff in Hrp. exact Hrp.
    + intros k Hin. rewrite map_app, in_app_iff in Hin. destruct Hin as [Hin|Hin].
      * apply in_blocks in Hin. destruct Hin as [px [f [m [Hpf ->]]]].
        unfold pfx. apply starts_us_app. apply (HD px (HPF (px, f) Hpf)).
      * rewrite map_map in Hin. simpl in Hin. apply in_map_iff in Hin. destruct Hin as [na [<- Hna]].
        apply (HD (fst na) (HCA na Hna)).
  - intros [px f] Hpf. simpl.
    destruct (in_split _ _ Hpf) as [l1 [l2 EPF]].
    assert (Hpx := HD px (HPF (px, f) Hpf)). destruct Hpx as [Hlen [Hus Hst]].
    assert (Hother : forall px' f', In (px', f') (l1 ++ l2) -> px' <> px).
    { intros px' f' Hin ->. unfold D, drawn in Hnd. apply NoDup_app_l in Hnd.
      rewrite EPF, map_app in Hnd. simpl in Hnd. apply NoDup_remove_2 in Hnd. apply Hnd.
      rewrite <- map_app. apply in_map_iff. exists (px, f'). split; [reflexivity | exact Hin]. }
    assert (Hblk : forall l k, (forall x, In x l -> In x (l1 ++ l2)) ->
                               In k (map fst (concat (map block l))) -> prefixb (px ++ [c_us]) k = false).
    { intros l k Hsub Hin. apply in_blocks in Hin. destruct Hin as [px' [f' [n [Hin' ->]]]].
      destruct (prefixb (px ++ [c_us]) (pfx px' n)) eqn:E; [|reflexivity]. exfalso.
      apply (Hother px' f' (Hsub _ Hin')).
      assert (Hl' : length px' = L).
      { apply (HD px'). apply (HPF (px', f')). rewrite EPF. apply Hsub in Hin'.
        apply in_app_or in Hin'. apply in_or_app. destruct Hin' as [H|H]; [left; exact H | right; right; exact H]. }
      symmetry. unfold pfx in E. eapply prefixb_same_len; [|exact E]. congruence. }
    replace T with ((r_dets r ++ concat (map block l1)) ++ block (px, f) ++ (concat (map block l2) ++ map centry CA)).
    2:{ unfold T, all_dets. fold centry. rewrite EPF, map_app, concat_app. simpl. rewrite <- !app_assoc. reflexivity. }
    apply resolve_filter_level; auto.
    + intros k Hin. rewrite map_app, in_app_iff in Hin. destruct Hin as [Hin|Hin].
      * apply in_map_iff in Hin. destruct Hin as [[k' v] [<- Hin]]. specialize (Hrk _ Hin). simpl in Hrk.
        apply negb_true_iff in Hrk. simpl. destruct (prefixb (px ++ [c_us]) k') eqn:E; [|reflexivity].
        apply prefixb_app_l in E. rewrite (internal_prefix D px k') in Hrk; [discriminate | apply (HPF (px, f) Hpf) | exact E].
      * eapply Hblk; [|exact Hin]. intros x Hx. apply in_or_app. left. exact Hx.
    + intros k Hin. rewrite map_app, in_app_iff in Hin. destruct Hin as [Hin|Hin].
      * eapply Hblk; [|exact Hin]. intros x Hx. apply in_or_app. right. exact Hx.
      * rewrite map_map in Hin. simpl in Hin. apply in_map_iff in Hin. destruct Hin as [na [<- Hna]].
        destruct (prefixb (px ++ [c_us]) (fst na)) eqn:E; [|reflexivity].
        apply prefixb_length in E. rewrite app_length in E. simpl in E.
        destruct (HD (fst na) (HCA na Hna)) as [Hl' _]. lia.
    + specialize (Hcl (px, f) Hpf). simpl in Hcl. unfold closedb in Hcl. rewrite forallb_forall in Hcl. exact Hcl.
Qed.

(* atoms of a result are contents of detections, never names *)
Lemma resolve_atoms m c q : resolve m c = RQ q -> forall a, In a (atoms q) -> In a (map snd m).
Proof.
  revert q. induction c as [n|al p|c IH|o a IHa b IHb]; intros q H x Hx; simpl in H.
  - destruct (lookup n m) as [v|] eqn:E; inversion H; subst. simpl in Hx. destruct Hx as [<-|[]].
    clear H. induction m as [|[k w] m IHm]; simpl in *; [discriminate|].
    destruct (str_eqb n k); [inversion E; left; reflexivity | right; apply IHm; exact E].
  - inversion H; subst. clear H.
    assert (Hsub : forall y, In y (map snd (filter (fun kv => sel_match p (fst kv)) m)) -> In y (map snd m)).
    { intros y Hy. apply in_map_iff in Hy. destruct Hy as [kv [<- Hkv]]. apply filter_In in Hkv.
      apply in_map. apply Hkv. }
    destruct (map snd (filter (fun kv => sel_match p (fst kv)) m)) as [|y [|z l]] eqn:E; simpl in Hx.
    + contradiction.
    + destruct Hx as [<-|[]]. apply Hsub. left. reflexivity.
    + apply Hsub. exact Hx.
  - destruct (resolve m c) as [q'|] eqn:E; simpl in H; inversion H; subst. simpl in Hx. eapply IH; eauto.
  - destruct (resolve m a) as [qa|] eqn:Ea; simpl in H; [|discriminate].
    destruct (resolve m b) as [qb|] eqn:Eb; simpl in H; inversion H; subst. simpl in Hx.
    apply in_app_or in Hx. destruct Hx; [eapply IHa | eapply IHb]; eauto.
Qed.

(* ---------------------------------------------------------------------------------------- *)
(* corollaries and refutations *)
Theorem names_draw_free L r PF PF' CA CA' :
  map snd PF = map snd PF' -> map snd CA = map snd CA' ->
  freshb L r PF CA = true -> freshb L r PF' CA' = true ->
  names_run r PF CA = names_run r PF' CA'.
Proof.
  intros E1 E2 H H'. rewrite (names_spec _ _ _ _ H), (names_spec _ _ _ _ H'), E1, E2. reflexivity.
Qed.

Theorem names_atoms_contents r PF CA q :
  NoDup (map fst (all_dets r PF CA)) -> names_run r PF CA = RQ q ->
  forall a, In a (atoms q) -> In a (map snd (all_dets r PF CA)).
Proof.
  intros Hnd H a Ha. unfold names_run in H. destruct (names_rule_shape r PF CA Hnd) as [Ed _].
  rewrite Ed in H. eapply resolve_atoms; eauto.
Qed.

Definition s_cond : str := [95; 99; 111; 110; 100; 95].   (* _cond_ *)
Definition s_filt : str := [95; 102; 105; 108; 116; 95].  (* _filt_ *)
Definition dn (tag : str) (c : N) : str := tag ++ repeat c 10.
Definition w_sel : str := [115; 101; 108].
Definition w_x : str := [95; 120].
Definition w_pat : str := [95; 42; 97].                    (* _*a *)
Definition w_nosuch : str := [110; 111; 115; 117; 99; 104].
Definition w_rule1 : rule :=
  {| r_dets := [(w_sel, w_sel); (w_x, w_x)]; r_cond := CBin false (CId w_sel) (CSel false w_pat) |}.
Definition w_filter : sfilter := {| f_dets := [([115; 49], [99])]; f_cond := CNot (CId w_nosuch) |}.
Definition w_rule2 : rule := {| r_dets := [(w_sel, w_sel)]; r_cond := CId w_sel |}.
Definition w_rule3 : rule := {| r_dets := [(dn s_cond 97, w_sel)]; r_cond := CId (dn s_cond 97) |}.

(* a rule-level pattern starting with _ sees the drawn names: the result depends on the draw *)
Theorem names_underscore_refuted :
  exists r CA CA', map snd CA = map snd CA' /\ names_run r [] CA <> names_run r [] CA'.
Proof.
  exists w_rule1, [(dn s_cond 97, ([97; 48], false))], [(dn s_cond 98, ([97; 48], false))].
  split; [reflexivity | vm_compute; discriminate].
Qed.

(* a filter that names a detection it does not define fails with an error text containing the draw *)
Theorem names_filter_error_refuted :
  exists r PF PF', map snd PF = map snd PF' /\ names_run r PF [] <> names_run r PF' [].
Proof.
  exists w_rule2, [(dn s_filt 97, w_filter)], [(dn s_filt 98, w_filter)].
  split; [reflexivity | vm_compute; discriminate].
Qed.

(* a drawn name that collides with a detection of the rule replaces it (probability 26^-10 per draw) *)
Theorem names_collision_refuted :
  exists r CA CA', map snd CA = map snd CA' /\ names_run r [] CA <> names_run r [] CA'.
Proof.
  exists w_rule3, [(dn s_cond 97, ([97; 48], false))], [(dn s_cond 98, ([97; 48], false))].
  split; [reflexivity | vm_compute; discriminate].
Qed.

(* the premise is inhabited by a non-trivial input *)
Definition w_filter_ok : sfilter :=
  {| f_dets := [([115; 49], [99]); ([115; 50], [100])]; f_cond := CNot (CBin true (CId [115; 49]) (CSel false them)) |}.
Definition w_rule4 : rule :=
  {| r_dets := [(w_sel, w_sel); ([100; 49], [101])]; r_cond := CBin false (CId w_sel) (CSel true [100; 42]) |}.
Example fresh_inhabited :
  freshb 16 w_rule4 [(dn s_filt 97, w_filter_ok); (dn s_filt 98, w_filter_ok)]
            [(dn s_cond 97, ([97; 48], false)); (dn s_cond 98, ([97; 49], true))] = true.
Proof. vm_compute. reflexivity. Qed.
