From Coq Require Import NArith List Bool Lia.
From PS Require Import Base.Chars Base.Outcome Model.SString Spec.Items.
Import ListNotations.
Open Scope N_scope.

(* ---------- canonical part lists ---------- *)
Fixpoint canon_go (l : list item) (acc : str) : sstring :=
  match l with
  | [] => flush [] acc
  | Lit c :: l' => canon_go l' (acc ++ [c])
  | Multi :: l' => flush [] acc ++ PMulti :: canon_go l' []
  | Single :: l' => flush [] acc ++ PSingle :: canon_go l' []
  | Ph n :: l' => flush [] acc ++ PPh n :: canon_go l' []
  end.
Definition canon (l : list item) : sstring := canon_go l [].

Lemma flush_app r acc : flush r acc = r ++ flush [] acc.
Proof. destruct acc; simpl; [rewrite app_nil_r|]; reflexivity. Qed.

Lemma special_not_bs c : is_special c = true -> N.eqb c c_bs = false.
Proof.
  unfold is_special, c_star, c_qm, c_bs. intros H. apply orb_true_iff in H.
  destruct H as [H|H]; apply N.eqb_eq in H; subst; reflexivity.
Qed.

Lemma special_item_part c l acc :
  is_special c = true ->
  canon_go (special_item c :: l) acc = flush [] acc ++ special_of c :: canon_go l [].
Proof. unfold special_item, special_of. destruct (N.eqb c c_star); reflexivity. Qed.

(* The accumulator loop of SigmaString.__init__ equals: read items by the specification's
   reader, then group consecutive literals. *)
Lemma parse_go_canon s : forall r acc escaped,
  parse_go true s r acc escaped =
  r ++ canon_go (if escaped then iparse (c_bs :: s) else iparse s) acc.
Proof.
  induction s as [|c s IH]; intros r acc escaped.
  - destruct escaped; simpl; rewrite flush_app; reflexivity.
  - destruct escaped.
    + cbn [parse_go]. change (iparse (c_bs :: c :: s)) with
        (if is_special c || N.eqb c c_bs then Lit c :: iparse s else Lit c_bs :: Lit c :: iparse s).
      destruct (is_special c || N.eqb c c_bs); rewrite IH; cbn [canon_go].
      * reflexivity.
      * rewrite <- app_assoc. reflexivity.
    + cbn [parse_go]. rewrite andb_true_r.
      destruct (N.eqb c c_bs) eqn:Eb.
      * apply N.eqb_eq in Eb. subst c. rewrite IH. reflexivity.
      * cbn [iparse]. rewrite Eb. destruct (is_special c) eqn:Es.
        -- rewrite IH. rewrite special_item_part by exact Es.
           rewrite (flush_app r acc). rewrite <- !app_assoc. reflexivity.
        -- rewrite IH. reflexivity.
Qed.

Theorem parse_canon s : parse true s = canon (iparse s).
Proof. unfold parse. rewrite parse_go_canon. reflexivity. Qed.

Lemma items_flush acc : items (flush [] acc) = map Lit acc.
Proof. destruct acc; simpl; [reflexivity | rewrite app_nil_r; reflexivity]. Qed.

Lemma items_app a b : items (a ++ b) = items a ++ items b.
Proof. unfold items. apply flat_map_app. Qed.

Lemma items_canon_go l : forall acc, items (canon_go l acc) = map Lit acc ++ l.
Proof.
  induction l as [|i l IH]; intros acc; simpl.
  - rewrite items_flush, app_nil_r. reflexivity.
  - destruct i; simpl.
    + rewrite IH, map_app, <- app_assoc. reflexivity.
    + rewrite items_app, items_flush. simpl. unfold items in IH. rewrite IH. reflexivity.
    + rewrite items_app, items_flush. simpl. unfold items in IH. rewrite IH. reflexivity.
    + rewrite items_app, items_flush. simpl. unfold items in IH. rewrite IH. reflexivity.
Qed.

Theorem items_canon l : items (canon l) = l.
Proof. unfold canon. rewrite items_canon_go. reflexivity. Qed.

Theorem parse_items s : items (parse true s) = iparse s.
Proof. rewrite parse_canon. apply items_canon. Qed.

(* ---------- plain form ---------- *)
Lemma to_plain_app r a b : to_plain r (a ++ b) = to_plain r a ++ to_plain r b.
Proof. unfold to_plain. apply flat_map_app. Qed.

Lemma to_plain_flush acc : to_plain false (flush [] acc) = plain_escape acc.
Proof. destruct acc; simpl; [reflexivity | rewrite app_nil_r; reflexivity]. Qed.

Lemma plain_escape_app a b : plain_escape (a ++ b) = plain_escape a ++ plain_escape b.
Proof. unfold plain_escape. apply flat_map_app. Qed.

Lemma to_plain_cons r p v : to_plain r (p :: v) = part_plain r p ++ to_plain r v.
Proof. reflexivity. Qed.

Lemma to_plain_canon_go l : forall acc,
  to_plain false (canon_go l acc) = plain_escape acc ++ plain_items l.
Proof.
  induction l as [|i l IH]; intros acc.
  - simpl. rewrite to_plain_flush, app_nil_r. reflexivity.
  - change (plain_items (i :: l)) with (item_plain i ++ plain_items l).
    destruct i; cbn [canon_go].
    + rewrite IH, plain_escape_app, <- app_assoc. simpl. rewrite app_nil_r. reflexivity.
    + rewrite to_plain_app, to_plain_flush, to_plain_cons, IH. reflexivity.
    + rewrite to_plain_app, to_plain_flush, to_plain_cons, IH. reflexivity.
    + rewrite to_plain_app, to_plain_flush, to_plain_cons, IH. reflexivity.
Qed.

Theorem to_plain_canon l : to_plain false (canon l) = plain_items l.
Proof. unfold canon. rewrite to_plain_canon_go. reflexivity. Qed.

(* reading the plain form gives the items back, on the faithful domain *)
Theorem iparse_plain_items l : no_bs_adjacent l = true -> iparse (plain_items l) = l.
Proof.
  induction l as [|i l IH]; intros H; [reflexivity|].
  destruct i as [c| | |n]; simpl in H.
  - apply andb_true_iff in H. destruct H as [H1 H2]. specialize (IH H2).
    simpl. destruct (is_special c) eqn:Es.
    + (* literal wildcard character: printed as \c *)
      cbn [app iparse]. rewrite N.eqb_refl. rewrite Es. simpl. rewrite IH. reflexivity.
    + destruct (N.eqb c c_bs) eqn:Eb.
      * apply N.eqb_eq in Eb. subst c. cbn [app].
        destruct l as [|j l']; [reflexivity|].
        destruct j as [d| | |m]; try discriminate.
        change (plain_items (Lit d :: l')) with (item_plain (Lit d) ++ plain_items l') in *.
        simpl in H1. apply negb_true_iff in H1. apply orb_false_iff in H1. destruct H1 as [Hs Hb].
        cbn [item_plain] in *. rewrite Hs in *. cbn [app] in *.
        cbn [iparse]. rewrite N.eqb_refl. rewrite Hs, Hb. cbn [orb].
        cbn [iparse] in IH. rewrite Hb, Hs in IH. inversion IH as [IH'].
        rewrite IH'. rewrite IH'. reflexivity.
      * cbn [app iparse]. rewrite Eb, Es. rewrite IH. reflexivity.
  - simpl. rewrite (IH H). reflexivity.
  - simpl. rewrite (IH H). reflexivity.
  - discriminate.
Qed.

Theorem plain_roundtrip l :
  no_bs_adjacent l = true -> parse true (to_plain false (canon l)) = canon l.
Proof. intros H. rewrite parse_canon, to_plain_canon, iparse_plain_items by exact H. reflexivity. Qed.

(* refutation witnesses: literal backslash before a wildcard; two literal backslashes;
   literal backslash before a literal star *)
Lemma plain_roundtrip_refuted :
  exists l, parse true (to_plain false (canon l)) <> canon l.
Proof. exists [Lit c_bs; Multi]. vm_compute. discriminate. Qed.
Lemma plain_roundtrip_refuted2 :
  parse true (to_plain false (canon [Lit c_bs; Lit c_bs])) <> canon [Lit c_bs; Lit c_bs] /\
  parse true (to_plain false (canon [Lit c_bs; Lit c_star])) <> canon [Lit c_bs; Lit c_star].
Proof. split; vm_compute; discriminate. Qed.
