(* C15 - refutation witnesses: the two situations in which the faithful model (and the code) leak. *)
From Coq Require Import NArith List Bool Arith String.
From PS Require Import Base.Chars Base.Outcome Model.History Spec.Frame.
Import ListNotations.
Open Scope N_scope.

(* pipeline: set_state index=win for windows rules *)
Definition it_st : item := {| i_id := lit "st"; i_cond := RProduct 1; i_tr := TSetState (lit "index") (lit "win") |}.
Definition it_fc : item := {| i_id := lit "fc"; i_cond := RAlways; i_tr := TFieldMap [(lit "fieldC", lit "mappedC")] |}.
Definition tree_sel : ptree := PId (lit "sel").
Definition E_wit : env :=
  {| e_ne := fun _ => false;
     e_bk := fun _ => [];
     e_fmt := fun c f => if N.eqb c 1 && N.eqb f 1 then [it_fc] else [];
     e_user := fun o => if N.eqb o 0 then [it_st] else [];
     e_parse := fun k => if str_eqb k (lit "sel") then Some tree_sel else None;
     e_accepts := fun _ _ => true; e_qexpr := fun _ => None; e_sdef := fun _ => [];
     e_bkvars := fun _ => []; e_fmtvars := fun _ _ => []; e_uservars := fun _ => [];
     e_src := fun _ => SigmaErr 8;
     e_files := [] |}.
Definition r_win : rule :=
  {| r_bad := None; r_mods := []; r_product := 1;
     r_dets := [(lit "sel", [{| di_field := lit "fieldC"; di_text := lit "1"; di_kind := VNum |}])];
     r_conds := [lit "sel"]; r_fields := []; r_attrs := [] |}.

(* D18: one user pipeline object given to two backends; init A, init B, then A.convert_rule:
   the state written by the items lands in B's pipeline object *)
Definition ops_reown : list op := [ONew 0 (Some 0) false []; ONew 0 (Some 0) false []; OInit 0%nat 2; OInit 1%nat 2].

Lemma reown_refuted :
  exists E ops b bk fmt r,
    let w := fst (run E init ops) in
    nth_error (w_bks w) b = Some bk /\ fmt_ok bk fmt = true /\ owns_ok E w bk = false /\
    o_res (out_obs (snd (step E w (OConvRule b r fmt)))) = Ok [lit "index=default (fieldC=1)"] /\
    o_res (ideal_obs_rule E (b_cls bk) (b_user bk) (b_collect bk) (b_opts bk) fmt r) = Ok [lit "index=win (fieldC=1)"].
Proof.
  exists E_wit, ops_reown, 0%nat,
         {| b_cls := 0; b_user := Some 0; b_collect := false; b_opts := []; b_last := Some (0%nat, 2) |}, 2, r_win.
  vm_compute. repeat split.
Qed.

(* D30: convert() for format 1 (whose class-level format pipeline maps fieldC), then
   convert_rule(..., format 2) on the same backend reuses the pipeline object built for format 1 *)
Definition ops_stale : list op := [ONew 1 None false []; OConvColl 0%nat [r_win] 1].

Lemma stale_format_refuted :
  exists E ops b bk fmt r,
    let w := fst (run E init ops) in
    nth_error (w_bks w) b = Some bk /\ owns_ok E w bk = true /\ fmt_ok bk fmt = false /\
    o_res (out_obs (snd (step E w (OConvRule b r fmt)))) = Ok [lit "index=default (mappedC=1)"] /\
    o_res (ideal_obs_rule E (b_cls bk) (b_user bk) (b_collect bk) (b_opts bk) fmt r) = Ok [lit "index=default (fieldC=1)"].
Proof.
  exists E_wit, ops_stale, 0%nat,
         {| b_cls := 1; b_user := None; b_collect := false; b_opts := []; b_last := Some (0%nat, 1) |}, 2, r_win.
  vm_compute. repeat split.
Qed.

(* the premises of the frame theorem are inhabited by a non-trivial history *)
Lemma premises_inhabited :
  let w := fst (run E_wit init [ONew 0 (Some 0) false []; OConvRule 0%nat r_win 2; OLoad r_win]) in
  exists bk, nth_error (w_bks w) 0 = Some bk /\ owns_ok E_wit w bk = true /\ fmt_ok bk 2 = true /\
             b_last bk <> None.
Proof. vm_compute. eexists. repeat split. discriminate. Qed.
