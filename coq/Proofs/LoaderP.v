(* Proofs for C07 about Model/Loader.v against Spec/LoaderSpec.v. *)
From Coq Require Import NArith ZArith List Bool Lia.
From PS Require Import Base.Chars Base.Outcome Model.SString Model.Yaml Model.LoaderStrings Model.Loader Spec.LoaderSpec.
Import ListNotations.
Open Scope N_scope.

(* ------------------------------------------------------------------------------------------ *)
(* generic facts about the outcome monad *)
Definition nocrash {A} (o : outcome A) : Prop := forall x, o <> Crash x.
Definition total {A} (o : outcome A) : Prop := exists a, o = Ok a.

Lemma total_nocrash {A} (o : outcome A) : total o -> nocrash o.
Proof. intros [a ->] x. discriminate. Qed.

Lemma obind_nocrash {A B} (o : outcome A) (f : A -> outcome B) :
  nocrash o -> (forall a, o = Ok a -> nocrash (f a)) -> nocrash (obind o f).
Proof.
  intros Ho Hf x. destruct o as [a|e|c]; simpl.
  - apply Hf. reflexivity.
  - discriminate.
  - exfalso. exact (Ho c eq_refl).
Qed.

Lemma obind_total {A B} (o : outcome A) (f : A -> outcome B) :
  total o -> (forall a, o = Ok a -> total (f a)) -> total (obind o f).
Proof. intros [a ->] Hf. simpl. apply Hf. reflexivity. Qed.

Lemma iter_out_nocrash {A} (f : A -> outcome unit) l :
  Forall (fun x => nocrash (f x)) l -> nocrash (iter_out f l).
Proof.
  induction 1 as [|x l Hx _ IH]; simpl; [intros c; discriminate|].
  apply obind_nocrash; [exact Hx | intros _ _; exact IH].
Qed.

Lemma map_out_inv {A B} (P : A -> Prop) (Q : B -> Prop) (f : A -> outcome B) :
  (forall a, P a -> match f a with Ok b => Q b | SigmaErr _ => True | Crash _ => False end) ->
  forall l, Forall P l ->
  match map_out f l with Ok l' => Forall Q l' | SigmaErr _ => True | Crash _ => False end.
Proof.
  intros H l. induction 1 as [|a l Ha _ IH]; simpl; [constructor|].
  specialize (H a Ha). destruct (f a) as [b|e|c]; simpl; auto.
  destruct (map_out f l) as [l'|e|c]; simpl; auto.
Qed.

(* ------------------------------------------------------------------------------------------ *)
(* the shape shared by the three loaders *)
Section Shape.
Variable L : lib.
Variable stage2 : step.
Variable final : yv -> outcome unit.

(* whenever collecting mode returns, strict mode agrees: nothing / the first collected error *)
Lemma load_with_agrees d errs :
  load_with L stage2 final true d = Ok errs ->
  load_with L stage2 final false d = match errs with [] => Ok [] | e :: _ => SigmaErr e end.
Proof.
  unfold load_with. destruct (run_steps (common_steps L) d) as [e1|?|?]; simpl; try discriminate.
  destruct (stage2 d) as [e2|?|?] eqn:E2; simpl; try discriminate.
  destruct (final d) as [[]|?|?] eqn:EF; simpl; try discriminate.
  intros H. inversion H; subst; clear H.
  destruct e1 as [|a e1]; simpl.
  - destruct e2 as [|b e2]; simpl; reflexivity.
  - reflexivity.
Qed.

(* a Sigma error escaping from collecting mode means strict mode raises a Sigma error as well *)
Lemma load_with_collect_raise d e :
  load_with L stage2 final true d = SigmaErr e ->
  exists e', load_with L stage2 final false d = SigmaErr e'.
Proof.
  unfold load_with. destruct (run_steps (common_steps L) d) as [e1|?|?]; simpl; try discriminate.
  2: { intros H. eexists. reflexivity. }
  destruct e1 as [|a e1]; simpl; [|intros _; eexists; reflexivity].
  destruct (stage2 d) as [e2|?|?]; simpl; try discriminate.
  2: { intros H. eexists. reflexivity. }
  destruct e2 as [|b e2]; simpl; [|intros _; eexists; reflexivity].
  destruct (final d) as [[]|?|?]; simpl; try discriminate.
  intros H. eexists. reflexivity.
Qed.

Lemma load_with_nocrash d c :
  total (run_steps (common_steps L) d) -> nocrash (stage2 d) -> nocrash (final d) ->
  nocrash (load_with L stage2 final c d).
Proof.
  intros [e1 H1] H2 H3. unfold load_with. rewrite H1. simpl.
  apply obind_nocrash. { unfold raise_first. destruct c; [|destruct e1]; intros x; discriminate. }
  intros _ _. apply obind_nocrash; [exact H2|]. intros e2 _.
  apply obind_nocrash. { unfold raise_first. destruct c; [|destruct (e1 ++ e2)]; intros x; discriminate. }
  intros _ _. apply obind_nocrash; [exact H3|]. intros _ _ x. discriminate.
Qed.

Lemma load_with_total d :
  total (run_steps (common_steps L) d) -> total (stage2 d) -> total (final d) ->
  total (load_with L stage2 final true d).
Proof.
  intros [e1 H1] [e2 H2] [[] H3]. unfold load_with. rewrite H1. simpl. rewrite H2. simpl. rewrite H3. simpl.
  eexists. reflexivity.
Qed.

Lemma holds_of d :
  nocrash (load_with L stage2 final false d) -> total (load_with L stage2 final true d) ->
  C07_holds (load_with L stage2 final false d) (load_with L stage2 final true d).
Proof.
  intros Hs [errs Hc]. split; [exact Hs|]. split; [rewrite Hc; intros x; discriminate|].
  exists errs. split; [exact Hc|]. rewrite (load_with_agrees d errs Hc). destruct errs; reflexivity.
Qed.
End Shape.

(* ------------------------------------------------------------------------------------------ *)
(* from_dict_common_params never fails on a map: every ill-typed value becomes a collected error *)
Section Steps.
Variable L : lib.

Ltac ok := eexists; reflexivity.

Lemma st_id_total m : total (st_id L (YMap m)).
Proof.
  unfold st_id. simpl. destruct (assoc m s_id) as [[| | | |s| | |]|]; simpl; try ok.
  destruct (uuid_ok L s); simpl; ok.
Qed.
Lemma st_name_total m : total (st_name (YMap m)).
Proof. unfold st_name. simpl. ok. Qed.
Lemma st_taxonomy_total m : total (st_taxonomy (YMap m)).
Proof. unfold st_taxonomy. simpl. ok. Qed.

Lemma related_item_shape v : related_item L v = Ok tt \/ related_item L v = SigmaErr ERelated.
Proof.
  unfold related_item. destruct v as [| | | | | | |m]; auto.
  destruct (assoc m s_id) as [i|]; [|destruct (assoc m s_type); auto].
  destruct (assoc m s_type) as [t|]; auto.
  destruct i as [| | | |s| | |]; simpl; auto.
  destruct (uuid_ok L s); simpl; auto.
  destruct t as [| | | |u| | |]; simpl; auto.
  all: match goal with |- context [if ?c then _ else _] => destruct c end; auto.
Qed.
Lemma st_related_total m : total (st_related L (YMap m)).
Proof.
  unfold st_related. simpl. destruct (assoc m s_related) as [[| | | | | |l|]|]; simpl; try ok.
  assert (H : iter_out (related_item L) l = Ok tt \/ iter_out (related_item L) l = SigmaErr ERelated).
  { induction l as [|x l IH]; simpl; auto.
    destruct (related_item_shape x) as [-> | ->]; simpl; auto. }
  destruct H as [-> | ->]; simpl; ok.
Qed.
Lemma enum_step_total key names err m : total (enum_step key names err (YMap m)).
Proof.
  unfold enum_step. simpl. destruct (assoc m key) as [[| | | |s| | |]|]; simpl; ok.
Qed.
Lemma st_tags_total m : total (st_tags (YMap m)).
Proof. unfold st_tags. simpl. ok. Qed.
Lemma date_step_total key err m : total (date_step key err (YMap m)).
Proof. unfold date_step. simpl. ok. Qed.
Lemma list_step_total key err m : total (list_step key err (YMap m)).
Proof. unfold list_step. simpl. ok. Qed.
Lemma str_step_total key err m : total (str_step key err (YMap m)).
Proof. unfold str_step. simpl. ok. Qed.
Lemma st_title_total m : total (st_title (YMap m)).
Proof. unfold st_title. simpl. ok. Qed.

Lemma run_steps_total (l : list step) d :
  Forall (fun s => total (s d)) l -> total (run_steps l d).
Proof.
  induction 1 as [|s l Hs _ IH]; simpl; [ok|].
  apply obind_total; [exact Hs|]. intros e _. apply obind_total; [exact IH|]. intros es _. ok.
Qed.

Lemma common_total m : total (run_steps (common_steps L) (YMap m)).
Proof.
  apply run_steps_total. unfold common_steps.
  repeat (apply Forall_cons; [first
    [ apply st_id_total | apply st_name_total | apply st_taxonomy_total | apply st_related_total
    | apply enum_step_total | apply st_tags_total | apply date_step_total | apply list_step_total
    | apply str_step_total | apply st_title_total ]|]).
  apply Forall_nil.
Qed.

Lemma base_post_init_total m : total (base_post_init L (YMap m)).
Proof.
  unfold base_post_init. simpl. destruct (assoc m s_id) as [[| | | |s| | |]|]; simpl; try ok.
  destruct (uuid_ok L s); simpl; ok.
Qed.

(* log source: SigmaLogSource.from_dict fails with SigmaLogsourceError or AttributeError only, both handled *)
Lemma st_logsource_total m : total (st_logsource (YMap m)).
Proof.
  unfold st_logsource. simpl. destruct (assoc m s_logsource) as [v|]; simpl; [|ok].
  unfold logsource_from_dict. destruct v; simpl; try ok.
  match goal with |- context [if ?c then _ else _] => destruct c end; simpl; try ok.
  match goal with |- context [if ?c then _ else _] => destruct c end; simpl; ok.
Qed.
End Steps.

(* ------------------------------------------------------------------------------------------ *)
(* the modifier machinery stays inside the modelled fragment and never fails with a non-Sigma
   exception, provided `re` meets strings only and the UTF-16 modifiers meet ASCII text only *)
Section Det.
Variable L : lib.

Definition is_wide (m : md) : bool := match m with MWide | MUtf16 | MUtf16be => true | _ => false end.
(* w: the chain contains a UTF-16 modifier *)
Definition good (w : bool) (v : vk) : bool :=
  match v with
  | KStr _ e _ => negb w || negb (N.eqb e 2)
  | KRaw s => negb w || is_ascii s
  | _ => true
  end.

Lemma apply_value_good w m f a v :
  good w v = true -> (is_wide m = true -> w = true) ->
  match apply_value_mod L m f a v with Ok v' => good w v' = true | SigmaErr _ => True | Crash _ => False end.
Proof.
  intros Hg Hw.
  destruct m; destruct v as [sp e s|p| | | |p| | | |]; simpl in *;
    try discriminate; try exact I; try exact Hg; try reflexivity;
    try (specialize (Hw eq_refl); subst w; simpl in Hg);
    unfold wide_like;
    repeat match goal with |- context [if ?c then _ else _] => destruct c eqn:? end;
    simpl; try exact I; try reflexivity; try exact Hg; try discriminate;
    try assumption; try (destruct w; simpl in *; congruence).
Qed.

Lemma apply_mods_nocrash w mods : forall f a vals,
  Forall (fun v => good w v = true) vals -> (existsb is_wide mods = true -> w = true) ->
  nocrash (apply_mods L mods f a vals).
Proof.
  induction mods as [|m r IH]; intros f a vals Hv Hw; simpl; [intros x; discriminate|].
  assert (Hr : existsb is_wide r = true -> w = true).
  { intros H. apply Hw. simpl. rewrite H. apply orb_true_r. }
  destruct (is_list_mod m); [apply IH; assumption|].
  pose proof (map_out_inv (fun v => good w v = true) (fun v => good w v = true)
                (apply_value_mod L m f a)) as M.
  specialize (M (fun v Hg => apply_value_good w m f a v Hg
                   (fun Hm => Hw ltac:(simpl; rewrite Hm; reflexivity))) vals Hv).
  destruct (map_out (apply_value_mod L m f a) vals) as [vals'|e|c]; simpl.
  - apply IH; assumption.
  - intros x; discriminate.
  - destruct M.
Qed.
End Det.

Section Det2.
Variable L : lib.

Lemma nocrash_ok' {A} (a : A) : nocrash (Ok a).
Proof. intros x; discriminate. Qed.

Lemma md_lookup_re i m : md_lookup md_table i = Some m -> md_eqb MRe m = str_eqb s_re i.
Proof.
  unfold md_table. cbn [md_lookup].
  repeat match goal with
         | |- context [if str_eqb ?n i then _ else _] =>
           let E := fresh "E" in
           destruct (str_eqb n i) eqn:E;
           [apply str_eqb_eq in E; subst i; intros H; inversion H; subst; reflexivity|]
         end.
  discriminate.
Qed.
Definition wide_ids : list str := [s_wide; s_utf16; s_utf16be].
Lemma md_lookup_wide i m : md_lookup md_table i = Some m -> is_wide m = in_strs i wide_ids.
Proof.
  unfold md_table. cbn [md_lookup].
  repeat match goal with
         | |- context [if str_eqb ?n i then _ else _] =>
           let E := fresh "E" in
           destruct (str_eqb n i) eqn:E;
           [apply str_eqb_eq in E; subst i; intros H; inversion H; subst; reflexivity|]
         end.
  discriminate.
Qed.

Lemma md_all_facts ids : forall mods, md_all ids = Ok mods ->
  existsb (md_eqb MRe) mods = in_strs s_re ids /\
  existsb is_wide mods = existsb (fun i => in_strs i wide_ids) ids.
Proof.
  induction ids as [|i r IH]; intros mods H; cbn [md_all] in H.
  - inversion H; subst. split; reflexivity.
  - destruct (md_lookup md_table i) as [m|] eqn:Em; [|discriminate].
    destruct (md_all r) as [ms|?|?]; cbn [obind] in H; try discriminate.
    inversion H; subst. destruct (IH ms eq_refl) as [H1 H2]. cbn [existsb in_strs].
    rewrite H1, H2, (md_lookup_re i m Em), (md_lookup_wide i m Em). split; reflexivity.
Qed.

Lemma sigma_type_good w x :
  (w = true -> match x with YStr t => is_ascii t = true | _ => True end) ->
  match sigma_type x with Ok v => good w v = true | SigmaErr _ => True | Crash _ => False end.
Proof.
  intros H. destruct x; simpl; auto.
  - destruct (float_overflow z); simpl; auto.
  - destruct (N.eqb k 1 || N.eqb k 2); simpl; auto.
  - destruct w; simpl; auto. rewrite (H eq_refl). reflexivity.
Qed.

Definition typed (has_re : bool) (v : yv) : outcome vk :=
  match v with YStr s => if has_re then Ok (KRaw s) else sigma_type v | _ => sigma_type v end.

Lemma typed_vals_good w has_re l :
  (w = true -> forallb (fun x => match x with YStr t => is_ascii t | _ => true end) l = true) ->
  match map_out (typed has_re) l with
  | Ok vals => Forall (fun v => good w v = true) vals | SigmaErr _ => True | Crash _ => False end.
Proof.
  intros Hw.
  apply (map_out_inv (fun x => In x l) (fun v => good w v = true) (typed has_re)); [|apply Forall_forall; auto].
  intros a Ha.
  assert (G : match sigma_type a with Ok v0 => good w v0 = true | SigmaErr _ => True | Crash _ => False end).
  { apply sigma_type_good. intros E. specialize (Hw E). rewrite forallb_forall in Hw.
    specialize (Hw a Ha). destruct a; auto. }
  unfold typed. destruct a; try exact G. destruct has_re; [|exact G]. simpl.
  destruct w eqn:Ew; simpl; auto. specialize (Hw eq_refl). rewrite forallb_forall in Hw. exact (Hw _ Ha).
Qed.

Lemma from_mapping_unfold k v :
  from_mapping L k v =
  obind (if is_null k then Ok [[]] else if negb (is_str k) then SigmaErr EDetection else py_split_pipe k)
    (fun parts => obind (md_all (tl parts)) (fun mods =>
       obind (map_out (typed (existsb (md_eqb MRe) mods)) (val_list v)) (fun vals =>
         apply_mods L mods (match parts with [] :: _ => true | [] => true | _ => false end) false vals))).
Proof. reflexivity. Qed.

Lemma md_all_nocrash ids : nocrash (md_all ids).
Proof.
  induction ids as [|i r IH]; cbn [md_all]; [apply nocrash_ok'|].
  destruct (md_lookup md_table i); [|intros x; discriminate].
  apply obind_nocrash; [exact IH | intros; intros x; discriminate].
Qed.

Lemma from_mapping_nocrash k v : item_ok k v = true -> nocrash (from_mapping L k v).
Proof.
  intros Hok. rewrite from_mapping_unfold.
  destruct k as [| | | |s| | |]; cbn [is_null is_str negb obind py_split_pipe]; try (intros x; discriminate).
  - (* keyword item: no modifiers *)
    cbn [tl md_all obind existsb].
    pose proof (typed_vals_good false false (val_list v) ltac:(discriminate)) as M.
    destruct (map_out (typed false) (val_list v)) as [vals|e|c]; cbn [obind].
    + intros x; discriminate.
    + intros x; discriminate.
    + destruct M.
  - (* key with optional modifier chain *)
    unfold item_ok in Hok. fold wide_ids in Hok. rename Hok into Hwide.
    change (@tl (list char)) with (@tl str) in *.
    pose proof (md_all_nocrash (tl (split c_pipe s))) as NC.
    destruct (md_all (tl (split c_pipe s))) as [mods|e|c] eqn:Em; cbn [obind].
    2: { intros x; discriminate. }
    2: { exfalso. exact (NC c eq_refl). }
    destruct (md_all_facts _ _ Em) as [F1 F2].
    set (w := existsb is_wide mods).
    assert (Hw : w = true -> forallb (fun x => match x with YStr t => is_ascii t | _ => true end) (val_list v) = true).
    { intros E. unfold w in E. rewrite F2 in E. rewrite E in Hwide. exact Hwide. }
    pose proof (typed_vals_good w (existsb (md_eqb MRe) mods) (val_list v) Hw) as M.
    destruct (map_out (typed (existsb (md_eqb MRe) mods)) (val_list v)) as [vals|e|c]; cbn [obind].
    + apply (apply_mods_nocrash L w); [exact M | intros E; exact E].
    + intros x; discriminate.
    + destruct M.
Qed.
End Det2.

Section Det3.
Variable L : lib.

Lemma nocrash_ok {A} (a : A) : nocrash (Ok a).
Proof. intros x; discriminate. Qed.
Lemma nocrash_err {A} e : nocrash (@SigmaErr A e).
Proof. intros x; discriminate. Qed.

Lemma from_def_nocrash d : def_ok d = true -> nocrash (from_def L d).
Proof.
  induction d as [| | | | | |l IH|m IH] using yv_ind'; intros Hok;
    try (apply from_mapping_nocrash; reflexivity); try apply nocrash_err.
  - (* list *)
    cbn [from_def]. destruct (forallb is_plain l); [apply from_mapping_nocrash; reflexivity|].
    cbn [def_ok] in Hok. induction IH as [|x r Hx _ IHr]; [apply nocrash_ok|].
    apply andb_true_iff in Hok. destruct Hok as [H1 H2].
    apply obind_nocrash; [apply Hx; exact H1 | intros _ _; apply IHr; exact H2].
  - (* map *)
    cbn [from_def]. cbn [def_ok] in Hok. apply obind_nocrash.
    + clear IH. induction m as [|[k v] r IHr]; [apply nocrash_ok|].
      cbn [forallb fst snd] in Hok. apply andb_true_iff in Hok. destruct Hok as [H1 H2].
      apply obind_nocrash; [apply from_mapping_nocrash; exact H1 | intros _ _; apply IHr; exact H2].
    + intros _ _. destruct m; [apply nocrash_err | apply nocrash_ok].
Qed.

Lemma named_defs_ok reserved m :
  forallb (fun kv => def_ok (snd kv)) m = true -> Forall (fun d => def_ok d = true) (named_defs reserved m).
Proof.
  induction m as [|[k v] r IH]; cbn [named_defs forallb snd]; intros H; [constructor|].
  apply andb_true_iff in H. destruct H as [H1 H2].
  destruct (existsb (key_is k) reserved); [apply IH; exact H2 | constructor; [exact H1 | apply IH; exact H2]].
Qed.

Lemma iter_from_def_nocrash defs :
  Forall (fun d => def_ok d = true) defs -> nocrash (iter_out (from_def L) defs).
Proof.
  intros H. apply iter_out_nocrash. eapply Forall_impl; [|exact H]. intros d. apply from_def_nocrash.
Qed.

(* the only non-Sigma exception of a detection section is the TypeError of indexing a non-map *)
Definition crashes_within (tags : list N) {A} (o : outcome A) : Prop :=
  forall x, o = Crash x -> In x tags.

Lemma detections_from_dict_crashes v :
  match v with YMap dm => forallb (fun kv => def_ok (snd kv)) dm = true | _ => True end ->
  crashes_within [X_Type] (detections_from_dict L v).
Proof.
  intros Hok x. unfold detections_from_dict.
  destruct v as [| | | | | | |dm]; simpl; try (intros H; inversion H; left; reflexivity).
  destruct (assoc dm s_condition) as [c|]; simpl; [|discriminate].
  pose proof (iter_from_def_nocrash _ (named_defs_ok [s_condition] dm Hok)) as N.
  destruct (iter_out (from_def L) (named_defs [s_condition] dm)) as [[]|e|c0]; simpl.
  - destruct (named_defs [s_condition] dm); [discriminate|]. destruct c as [| | | | | |[|]|]; discriminate.
  - discriminate.
  - exfalso. exact (N c0 eq_refl).
Qed.

Lemma st_detection_total m :
  section_ok s_detection (YMap m) = true -> total (st_detection L (YMap m)).
Proof.
  intros Hok. unfold st_detection. cbn [ditem]. cbn [section_ok] in Hok.
  destruct (assoc m s_detection) as [v|]; cbn [obind]; [|eexists; reflexivity].
  pose proof (detections_from_dict_crashes v) as C.
  assert (Hv : match v with YMap dm => forallb (fun kv => def_ok (snd kv)) dm = true | _ => True end).
  { destruct v; auto. }
  specialize (C Hv).
  destruct (detections_from_dict L v) as [[]|e|c]; try (eexists; reflexivity).
  destruct (C c eq_refl) as [<-|[]]. eexists; reflexivity.
Qed.

Lemma global_filter_crashes v :
  match v with YMap dm => forallb (fun kv => def_ok (snd kv)) dm = true | _ => True end ->
  crashes_within [X_Type] (global_filter_from_dict L v).
Proof.
  intros Hok x. unfold global_filter_from_dict.
  destruct v as [| | | | | | |dm]; simpl; try (intros H; inversion H; left; reflexivity).
  destruct (assoc dm s_condition) as [c|]; simpl; [|discriminate].
  destruct (is_str c); simpl; [|discriminate].
  destruct (assoc dm s_rules) as [r|]; simpl; [|discriminate].
  destruct (is_str r || is_list r); simpl; [|discriminate].
  pose proof (iter_from_def_nocrash _ (named_defs_ok [s_condition; s_rules] dm Hok)) as N.
  destruct (iter_out (from_def L) (named_defs [s_condition; s_rules] dm)) as [[]|e|c0]; simpl.
  - destruct (named_defs [s_condition; s_rules] dm); discriminate.
  - discriminate.
  - exfalso. exact (N c0 eq_refl).
Qed.

Lemma st_filter_total m :
  section_ok s_filter (YMap m) = true -> total (st_filter L (YMap m)).
Proof.
  intros Hok. unfold st_filter. cbn [ditem]. cbn [section_ok] in Hok.
  destruct (assoc m s_filter) as [v|]; cbn [obind]; [|eexists; reflexivity].
  pose proof (global_filter_crashes v) as C.
  assert (Hv : match v with YMap dm => forallb (fun kv => def_ok (snd kv)) dm = true | _ => True end).
  { destruct v; auto. }
  specialize (C Hv).
  destruct (global_filter_from_dict L v) as [[]|e|c]; try (eexists; reflexivity).
  destruct (C c eq_refl) as [<-|[]]. eexists; reflexivity.
Qed.

(* ---- rules and filters: the full property on the domain ---- *)
Lemma dom_is_map sec d : section_ok sec d = true -> exists m, d = YMap m.
Proof. destruct d; try discriminate. intros _. eexists; reflexivity. Qed.

Theorem rule_holds d : rule_dom d = true -> C07_holds (load_rule L false d) (load_rule L true d).
Proof.
  intros Hd. destruct (dom_is_map _ _ Hd) as [m ->]. unfold load_rule.
  assert (T2 : total (rule_stage2 L (YMap m))).
  { unfold rule_stage2. apply run_steps_total.
    repeat constructor; [apply st_logsource_total | apply st_detection_total; exact Hd]. }
  apply holds_of.
  - apply load_with_nocrash; [apply common_total | apply total_nocrash; exact T2
                              | apply total_nocrash; apply base_post_init_total].
  - apply load_with_total; [apply common_total | exact T2 | apply base_post_init_total].
Qed.

Theorem filter_holds d : filter_dom d = true -> C07_holds (load_filter L false d) (load_filter L true d).
Proof.
  intros Hd. destruct (dom_is_map _ _ Hd) as [m ->]. unfold load_filter.
  assert (T2 : total (filter_stage2 L (YMap m))).
  { unfold filter_stage2. apply run_steps_total.
    repeat constructor; [apply st_logsource_total | apply st_filter_total; exact Hd]. }
  apply holds_of.
  - apply load_with_nocrash; [apply common_total | apply total_nocrash; exact T2
                              | apply total_nocrash; apply base_post_init_total].
  - apply load_with_total; [apply common_total | exact T2 | apply base_post_init_total].
Qed.
End Det3.

(* ------------------------------------------------------------------------------------------ *)
(* correlation rules *)
Section Corr.
Variable L : lib.

Lemma corr_type_total cm : total (corr_type (YMap cm)).
Proof.
  unfold corr_type. cbn [dget obind]. destruct (assoc cm s_type) as [[| | | |s| | |]|]; cbn; eexists; reflexivity.
Qed.
Lemma corr_rules_total cm t : total (corr_rules (YMap cm) t).
Proof. unfold corr_rules. cbn [dget obind]. eexists; reflexivity. Qed.
Lemma corr_generate_total cm : total (corr_generate (YMap cm)).
Proof. unfold corr_generate. cbn [dget obind]. eexists; reflexivity. Qed.
Lemma corr_groupby_total cm : total (corr_groupby (YMap cm)).
Proof. unfold corr_groupby. cbn [dget obind]. eexists; reflexivity. Qed.
Lemma corr_timespan_total cm : total (corr_timespan L (YMap cm)).
Proof. unfold corr_timespan. cbn [dget obind]. eexists; reflexivity. Qed.
Lemma corr_aliases_nocrash cm : nocrash (corr_aliases (YMap cm)).
Proof.
  unfold corr_aliases. cbn [dget obind]. destruct (assoc cm s_aliases) as [[| | | | | | |a]|]; try apply nocrash_ok.
  destruct (forallb (fun kv => is_map (snd kv)) a); [apply nocrash_ok | apply nocrash_err].
Qed.
Lemma int_or_cond_error_nocrash v : nocrash (int_or_cond_error L v).
Proof.
  unfold int_or_cond_error, py_int. destruct v as [| | |k|s| | |]; try apply nocrash_ok; try apply nocrash_err.
  - destruct (N.eqb k 1); [apply nocrash_err|]. destruct (N.eqb k 2); [apply nocrash_err | apply nocrash_ok].
  - destruct (int_ok L s); [apply nocrash_ok | apply nocrash_err].
Qed.
Lemma basic_condition_nocrash m : nocrash (basic_condition L m).
Proof.
  unfold basic_condition.
  destruct (filter (fun kv => key_in cond_ops (fst kv)) m) as [|[k cnt] [|? ?]]; try apply nocrash_err.
  match goal with |- context [if ?c then _ else _] => destruct c end; [apply nocrash_err|].
  apply obind_nocrash; [apply int_or_cond_error_nocrash|]. intros _ _.
  apply obind_nocrash; [destruct (assoc m s_percentile); [apply int_or_cond_error_nocrash | apply nocrash_ok]|].
  intros _ _. apply nocrash_ok.
Qed.
Lemma corr_condition_nocrash cm t n : nocrash (corr_condition L (YMap cm) t n).
Proof.
  unfold corr_condition. cbn [dget obind].
  destruct (assoc cm s_condition) as [[| | | |s| | |k]|]; try apply nocrash_ok.
  - destruct (negb (is_temporal t)); [apply nocrash_ok|]. destruct (ext_refs L s); apply nocrash_ok.
  - apply obind_nocrash; [apply basic_condition_nocrash | intros; apply nocrash_ok].
Qed.

Lemma corr_section_map m : exists cm e, corr_section (YMap m) = Ok (YMap cm, e) /\
  (assoc m s_correlation = Some (YMap cm) \/ cm = []).
Proof.
  unfold corr_section. cbn [dget_opt obind].
  destruct (assoc m s_correlation) as [[| | | | | | |cm]|]; eauto 6.
Qed.

Lemma corr_parse_nocrash m : nocrash (corr_parse L (YMap m)).
Proof.
  unfold corr_parse. destruct (corr_section_map m) as [cm [e0 [-> _]]]. cbn [obind fst snd].
  destruct (corr_type_total cm) as [[t e1] ->]. cbn [obind fst snd].
  destruct (corr_rules_total cm t) as [[rules e2] ->]. cbn [obind fst snd].
  destruct (corr_generate_total cm) as [e3 ->]. destruct (corr_groupby_total cm) as [e4 ->].
  destruct (corr_timespan_total cm) as [e5 ->]. cbn [obind].
  apply obind_nocrash; [apply corr_aliases_nocrash|]. intros e6 _.
  apply obind_nocrash; [apply corr_condition_nocrash|]. intros r7 _. apply nocrash_ok.
Qed.

Lemma corr_parse_rules m r :
  corr_dom (YMap m) = true -> corr_parse L (YMap m) = Ok r -> forallb is_str (cs_rules (fst r)) = true.
Proof.
  intros Hd. unfold corr_parse. destruct (corr_section_map m) as [cm [e0 [-> Hcm]]]. cbn [obind fst snd].
  destruct (corr_type_total cm) as [[t e1] ->]. cbn [obind fst snd].
  assert (Hr : forall rules e2, corr_rules (YMap cm) t = Ok (rules, e2) -> forallb is_str rules = true).
  { unfold corr_rules. cbn [dget obind]. intros rules e2 H.
    destruct Hcm as [Hcm | ->].
    - cbn [corr_dom] in Hd. rewrite Hcm in Hd.
      destruct (assoc cm s_rules) as [[| | | |s| |l|]|]; inversion H; subst; try reflexivity. exact Hd.
    - cbn in H. inversion H; reflexivity. }
  destruct (corr_rules_total cm t) as [[rules e2] E2]. rewrite E2. cbn [obind fst snd].
  specialize (Hr rules e2 E2).
  destruct (corr_generate_total cm) as [e3 ->]. destruct (corr_groupby_total cm) as [e4 ->].
  destruct (corr_timespan_total cm) as [e5 ->]. cbn [obind].
  destruct (corr_aliases (YMap cm)) as [e6|?|?]; cbn [obind]; try discriminate.
  destruct (corr_condition L (YMap cm) t (length rules)) as [r7|?|?]; cbn [obind]; try discriminate.
  intros H. inversion H; subst. exact Hr.
Qed.

Lemma forallb_filter {A} (p q : A -> bool) l : forallb p l = true -> forallb p (filter q l) = true.
Proof.
  induction l as [|x l IH]; simpl; [reflexivity|]. intros H. apply andb_true_iff in H. destruct H as [H1 H2].
  destruct (q x); simpl; [rewrite H1; simpl|]; apply IH; exact H2.
Qed.
Lemma str_hashable l : forallb is_str l = true -> forallb hashable l = true.
Proof.
  induction l as [|x l IH]; simpl; [reflexivity|]. intros H. apply andb_true_iff in H. destruct H as [H1 H2].
  rewrite (IH H2). destruct x; try discriminate. reflexivity.
Qed.

Lemma corr_post_init_nocrash s : forallb is_str (cs_rules s) = true -> nocrash (corr_post_init s).
Proof.
  destruct s as [t rules k]. cbn [cs_rules]. intros Hs. unfold corr_post_init. cbn [cs_type cs_rules cs_cond].
  apply obind_nocrash.
  - destruct k as [| |refs]; try apply nocrash_ok.
    destruct (negb (is_temporal t)); [apply nocrash_err|].
    destruct rules as [|r0 rs]; [apply nocrash_ok|].
    rewrite (str_hashable _ Hs). cbn [negb].
    pose proof (forallb_filter is_str (fun r => negb (ref_in refs r)) _ Hs) as Hf.
    destruct (filter (fun r => negb (ref_in refs r)) (r0 :: rs)) as [|u us].
    + match goal with |- context [if ?c then _ else _] => destruct c end; [apply nocrash_ok | apply nocrash_err].
    + rewrite Hf. apply nocrash_err.
  - intros _ _. destruct k as [| h |refs].
    + destruct (is_temporal t); [apply nocrash_ok | apply nocrash_err].
    + destruct t; try apply nocrash_ok. destruct h; [apply nocrash_ok | apply nocrash_err].
    + destruct (is_temporal t); [apply nocrash_ok | apply nocrash_err].
Qed.

Theorem corr_sigma_only d c : corr_dom d = true -> sigma_only (load_corr L c d).
Proof.
  intros Hd. destruct d as [| | | | | | |m]; try discriminate. unfold load_corr.
  apply load_with_nocrash.
  - apply common_total.
  - unfold corr_stage2. apply obind_nocrash; [apply corr_parse_nocrash | intros; apply nocrash_ok].
  - unfold corr_final. apply obind_nocrash; [apply total_nocrash; apply base_post_init_total|]. intros _ _.
    apply obind_nocrash; [apply corr_parse_nocrash|]. intros r Hr.
    apply corr_post_init_nocrash. exact (corr_parse_rules m r Hd Hr).
Qed.

Theorem corr_holds_partial d :
  corr_dom d = true -> (exists errs, load_corr L true d = Ok errs) ->
  C07_holds (load_corr L false d) (load_corr L true d).
Proof.
  intros Hd Hc. unfold load_corr in *. apply holds_of; [|exact Hc].
  exact (corr_sigma_only d false Hd).
Qed.

Theorem corr_collect_raise_is_invalid d e :
  load_corr L true d = SigmaErr e -> exists e', load_corr L false d = SigmaErr e'.
Proof. apply load_with_collect_raise. Qed.
End Corr.

(* ------------------------------------------------------------------------------------------ *)
(* witnesses: where the full statements fail, and that the premises are inhabited *)
Definition lib_w : lib :=
  {| uuid_ok := fun _ => true; uuid_key := fun _ => 0; int_ok := fun _ => true; re_ok := fun _ => true; cidr_ok := fun _ => true;
     ext_refs := fun _ => Some [[114; 49]; [114; 50]] |}.        (* "r1", "r2" *)
Definition k (s : str) := YStr s.
(* title: t / correlation: {type: value_count, rules: r, timespan: 5m, condition: {gte: 1}} *)
Definition w_corr_nofield : yv :=
  YMap [(k s_title, k [116]);
        (k s_correlation, YMap [(k s_type, k (lower_ascii s_VALUE_COUNT)); (k s_rules, k [114]);
                                (k s_timespan, k [53; 109]); (k s_condition, YMap [(k s_gte, YInt 1)])])].
(* title: t / correlation: {type: temporal, rules: [5, r1], timespan: 5m, condition: "r1 and r2"} *)
Definition w_corr_intref : yv :=
  YMap [(k s_title, k [116]);
        (k s_correlation, YMap [(k s_type, k (lower_ascii s_TEMPORAL)); (k s_rules, YList [YInt 5; k [114; 49]]);
                                (k s_timespan, k [53; 109]); (k s_condition, k [114; 49])])].
(* title: t / logsource: {category: x} / detection: {sel: {f|contains|all: [a, b], g|re: x, h: 1}, condition: sel} *)
Definition w_rule : yv :=
  YMap [(k s_title, k [116]);
        (k s_logsource, YMap [(k s_category, k [120])]);
        (k s_detection, YMap [(k [115; 101; 108],
                               YMap [(k ([102; 124] ++ s_contains ++ [124] ++ s_all), YList [k [97]; k [98]]);
                                     (k ([103; 124] ++ s_re), k [120]); (k [104], YInt 1)]);
                              (k s_condition, k [115; 101; 108])])].

Lemma nonmap_refuted : forall L c, load_rule L c (YList [YStr [97]]) = Crash X_Attr.
Proof. intros L c. reflexivity. Qed.
Lemma corr_collect_total_refuted :
  exists L d e, corr_dom d = true /\ load_corr L true d = SigmaErr e.
Proof. exists lib_w, w_corr_nofield, ECorrRule. split; vm_compute; reflexivity. Qed.
Lemma corr_sigma_only_refuted :
  exists L d x, forall c, load_corr L c d = Crash x.
Proof. exists lib_w, w_corr_intref, X_Type. intros c. destruct c; vm_compute; reflexivity. Qed.
Lemma premises_inhabited :
  rule_dom w_rule = true /\ load_rule lib_w true w_rule = Ok [] /\ load_rule lib_w false w_rule = Ok [] /\
  corr_dom w_corr_nofield = true.
Proof. repeat split; vm_compute; reflexivity. Qed.

(* ------------------------------------------------------------------------------------------ *)
(* the statements of DESIGN section 7, over the three loaders at once *)
Definition dom (k : kind) : yv -> bool :=
  match k with KRule => rule_dom | KCorr => corr_dom | KFilter => filter_dom end.

Theorem sigma_only_all L k c d : dom k d = true -> sigma_only (load L k c d).
Proof.
  destruct k; cbn [dom load]; intros Hd.
  - destruct (rule_holds L d Hd) as [Hs [Hc _]]. destruct c; assumption.
  - apply corr_sigma_only; exact Hd.
  - destruct (filter_holds L d Hd) as [Hs [Hc _]]. destruct c; assumption.
Qed.

Theorem collect_total_all L k d : k <> KCorr -> dom k d = true -> exists errs, load L k true d = Ok errs.
Proof.
  destruct k; cbn [dom load]; intros Hk Hd; try congruence.
  - destruct (rule_holds L d Hd) as [_ [_ [errs [H _]]]]. exists errs; exact H.
  - destruct (filter_holds L d Hd) as [_ [_ [errs [H _]]]]. exists errs; exact H.
Qed.

Theorem collect_iff_all L k d errs : load L k true d = Ok errs -> collect_iff (load L k false d) errs.
Proof.
  intros H.
  assert (A : load L k false d = match errs with [] => Ok [] | e :: _ => SigmaErr e end).
  { destruct k; cbn [load] in *; apply load_with_agrees; exact H. }
  unfold collect_iff. rewrite A. destruct errs as [|e r]; simpl.
  - split; [split; reflexivity|]. intros e0. split; discriminate.
  - split; [split; discriminate|]. intros e0. split; intros X; inversion X; reflexivity.
Qed.
