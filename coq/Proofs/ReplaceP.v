(* C12: the no-op instance of replace_string on the syntactic domain: no placeholder, no literal
   backslash directly before a wildcard. *)
From Coq Require Import NArith List Bool Lia.
From PS Require Import Base.Chars Model.SString Spec.Items Proofs.SStringP Model.Transform.
Import ListNotations.
Open Scope N_scope.

Fixpoint rs_dom (l : list item) : bool :=
  match l with
  | [] => true
  | Lit c :: l' =>
      (if N.eqb c c_bs then match l' with Multi :: _ | Single :: _ => false | _ => true end else true) && rs_dom l'
  | Ph _ :: _ => false
  | _ :: l' => rs_dom l'
  end.

Lemma bs_not_special : is_special c_bs = false.
Proof. reflexivity. Qed.

(* the head of the plain form of a list that does not start with a wildcard is not '*' / '?' *)
Lemma plain_head_not_special l d r :
  match l with Multi :: _ | Single :: _ | Ph _ :: _ => false | _ => true end = true ->
  plain_items l = d :: r -> is_special d = false.
Proof.
  destruct l as [|[c| | |n] l']; try discriminate; intros _ H.
  cbn [plain_items flat_map item_plain] in H. destruct (is_special c) eqn:Es; cbn [app] in H; inversion H; subst.
  - reflexivity.
  - exact Es.
Qed.

Lemma iparse_post_plain l : rs_dom l = true -> iparse (post_bs (plain_items l)) = l.
Proof.
  induction l as [|i l IH]; intros H; [reflexivity|].
  destruct i as [c| | |n]; cbn [rs_dom] in H; try discriminate.
  - apply andb_true_iff in H. destruct H as [H1 H2]. specialize (IH H2).
    change (plain_items (Lit c :: l)) with (item_plain (Lit c) ++ plain_items l).
    cbn [item_plain]. destruct (is_special c) eqn:Es.
    + (* literal wildcard character: \c stays \c *)
      cbn [app post_bs]. rewrite N.eqb_refl, Es. cbn [post_bs]. rewrite (special_not_bs c Es).
      cbn [iparse]. rewrite N.eqb_refl, Es. cbn [orb]. rewrite IH. reflexivity.
    + destruct (N.eqb c c_bs) eqn:Eb.
      * apply N.eqb_eq in Eb. subst c. cbn [app post_bs]. rewrite N.eqb_refl.
        destruct (plain_items l) as [|d r] eqn:Ep.
        -- cbn [iparse]. rewrite N.eqb_refl. cbn [is_special orb]. 
           cbn in IH. subst l. reflexivity.
        -- assert (Hd : is_special d = false).
           { apply (plain_head_not_special l d r); [|exact Ep].
             destruct l as [|[c'| | |n'] l']; try reflexivity; try discriminate. }
           rewrite Hd. cbn [iparse]. rewrite N.eqb_refl. cbn [is_special orb N.eqb]. 
           change (N.eqb c_bs c_bs) with true. cbn [orb]. rewrite IH. reflexivity.
      * cbn [app post_bs]. rewrite Eb. cbn [iparse]. rewrite Eb, Es. rewrite IH. reflexivity.
  - change (plain_items (Multi :: l)) with (c_star :: plain_items l). cbn [post_bs].
    change (N.eqb c_star c_bs) with false. cbn [iparse]. change (N.eqb c_star c_bs) with false.
    change (is_special c_star) with true. cbv iota. rewrite (IH H). reflexivity.
  - change (plain_items (Single :: l)) with (c_qm :: plain_items l). cbn [post_bs].
    change (N.eqb c_qm c_bs) with false. cbn [iparse]. change (N.eqb c_qm c_bs) with false.
    change (is_special c_qm) with true. cbv iota. rewrite (IH H). reflexivity.
Qed.

(* a substitution that leaves the plain form of the value alone leaves the value alone *)
Theorem replace_noop_roundtrip sub l :
  rs_dom l = true -> contains_placeholder (canon l) = false ->
  sub (plain_items l) = plain_items l -> replace_sstring sub (canon l) = canon l.
Proof.
  intros Hd Hp Hs. unfold replace_sstring. rewrite Hp, to_plain_canon, Hs, parse_canon, (iparse_post_plain l Hd).
  reflexivity.
Qed.

Lemma replace_noop_refuted :
  exists l, rs_dom l = false /\ replace_sstring (fun s => s) (canon l) <> canon l.
Proof. exists [Lit c_bs; Multi]. split; [reflexivity | vm_compute; discriminate]. Qed.
