(* C20 - field mapping tracking and the strict-mapping check do not depend on the iteration order of the
   tracking sets: final field names, error message and the source->targets dict are equal, the reverse
   dict (target->sources) is equal as a function of its keys. *)
From Coq Require Import Arith NArith List Bool Permutation Lia.
From PS Require Import Base.Chars Model.Determinism Proofs.DeterminismP.
Import ListNotations.
Open Scope N_scope.

Definition lod (k : str) (m : list (str * list str)) : list str :=
  match lookup k m with Some v => v | None => [] end.

Lemma lookup_app' {V} k (a b : list (str * V)) :
  lookup k (a ++ b) = match lookup k a with Some v => Some v | None => lookup k b end.
Proof.
  induction a as [|[k' v] a IH]; simpl; [reflexivity|].
  destruct (str_eqb k k'); [reflexivity | exact IH].
Qed.

Lemma str_eqb_sym a b : str_eqb a b = str_eqb b a.
Proof.
  destruct (str_eqb a b) eqn:E1, (str_eqb b a) eqn:E2; try reflexivity.
  - apply str_eqb_eq in E1. subst. rewrite str_eqb_refl in E2. discriminate.
  - apply str_eqb_eq in E2. subst. rewrite str_eqb_refl in E1. discriminate.
Qed.

Lemma lookup_dupd {V} k t (g : V -> V) m :
  lookup k (dupd t g m) = if str_eqb k t then option_map g (lookup k m) else lookup k m.
Proof.
  unfold dupd. induction m as [|[k' v] m IH]; simpl.
  - destruct (str_eqb k t); reflexivity.
  - destruct (str_eqb t k') eqn:E1; simpl.
    + apply str_eqb_eq in E1. subst k'. destruct (str_eqb k t) eqn:E2; simpl; [reflexivity|].
      rewrite IH; rewrite ?E2; reflexivity.
    + destruct (str_eqb k k') eqn:E2.
      * apply str_eqb_eq in E2. subst k'. rewrite str_eqb_sym, E1. reflexivity.
      * exact IH.
Qed.

Lemma lookup_dupd_default k t g m :
  lookup k (dupd_default [] t g m) = if str_eqb k t then Some (g (lod t m)) else lookup k m.
Proof.
  unfold dupd_default, lod. destruct (lookup t m) as [v|] eqn:E.
  - rewrite lookup_dupd. destruct (str_eqb k t) eqn:E2; [|reflexivity].
    apply str_eqb_eq in E2. subst. rewrite E. reflexivity.
  - rewrite lookup_app'. simpl. destruct (str_eqb k t) eqn:E2.
    + apply str_eqb_eq in E2. subst. rewrite E. reflexivity.
    + destruct (lookup k m); reflexivity.
Qed.

Lemma lookup_ddel {V} k s (m : list (str * V)) :
  lookup k (ddel s m) = if str_eqb k s then None else lookup k m.
Proof.
  unfold ddel. induction m as [|[k' v] m IH]; simpl.
  - destruct (str_eqb k s); reflexivity.
  - destruct (str_eqb s k') eqn:E1; simpl.
    + apply str_eqb_eq in E1. subst k'. rewrite IH. destruct (str_eqb k s); reflexivity.
    + destruct (str_eqb k k') eqn:E2.
      * apply str_eqb_eq in E2. subst k'. rewrite str_eqb_sym, E1. reflexivity.
      * exact IH.
Qed.

(* repeated application of an idempotent update through a defaultdict *)
Lemma lookup_fold_default g : (forall s, g (g s) = g s) ->
  forall l m k,
    lookup k (fold_left (fun m t => dupd_default [] t g m) l m)
    = if smem k l then Some (g (lod k m)) else lookup k m.
Proof.
  intros Hg. induction l as [|t l IH]; intros m k; simpl; [reflexivity|].
  rewrite IH. unfold lod at 1. rewrite !lookup_dupd_default.
  destruct (str_eqb k t) eqn:E.
  - apply str_eqb_eq in E. subst t. simpl. destruct (smem k l); [rewrite Hg|]; reflexivity.
  - simpl. destruct (smem k l); reflexivity.
Qed.

Lemma smem_ext l l' k : (forall x, In x l <-> In x l') -> smem k l = smem k l'.
Proof.
  intros H. destruct (smem k l) eqn:E1, (smem k l') eqn:E2; try reflexivity.
  - apply smem_In, H, smem_In in E1. congruence.
  - apply smem_In, H, smem_In in E2. congruence.
Qed.

Lemma s_union_idem sfs s : s_union (s_union s sfs) sfs = s_union s sfs.
Proof.
  unfold s_union. apply norm_ext. intros x. rewrite !in_app_iff, norm_In, in_app_iff. tauto.
Qed.
Lemma s_add_idem a s : s_add a (s_add a s) = s_add a s.
Proof. unfold s_add. apply norm_ext. intros x. simpl. rewrite norm_In. simpl. tauto. Qed.

Lemma dupd_comm {V} k1 k2 (g : V -> V) m : dupd k1 g (dupd k2 g m) = dupd k2 g (dupd k1 g m).
Proof.
  unfold dupd. rewrite !map_map. apply map_ext. intros [k v]. simpl.
  destruct (str_eqb k2 k) eqn:E2, (str_eqb k1 k) eqn:E1; simpl; rewrite ?E1, ?E2; reflexivity.
Qed.
Lemma dupd_ext {V} k (g g' : V -> V) m : (forall v, g v = g' v) -> dupd k g m = dupd k g' m.
Proof. intros H. unfold dupd. apply map_ext. intros [k' v]. simpl. now rewrite H. Qed.

Lemma fold_dupd_ext {V} (g g' : V -> V) l : (forall v, g v = g' v) ->
  forall m, fold_left (fun m sf => dupd sf g m) l m = fold_left (fun m sf => dupd sf g' m) l m.
Proof. intros H. induction l as [|x l IH]; intros m; simpl; [reflexivity|]. rewrite IH, (dupd_ext _ g g'); auto. Qed.

(* ---------------------------------------------------------------------------------------- *)
Definition R (st st' : tracking) : Prop :=
  fst st = fst st' /\ forall k, lookup k (snd st) = lookup k (snd st').

Definition same_set (t t' : list str) : Prop := forall x, In x t <-> In x t'.

Lemma ord_ord_perm {A} (O O' : order) (l : list A) : Permutation (ord O l) (ord O' l).
Proof. eapply Permutation_trans; [apply ord_perm | apply Permutation_sym, ord_perm]. Qed.

Lemma add_mapping_R O O' st st' s t t' :
  R st st' -> same_set t t' -> R (add_mapping O st s t) (add_mapping O' st' s t').
Proof.
  destruct st as [fm tf], st' as [fm' tf']. intros [Hfm Htf] Ht. simpl in Hfm, Htf. subst fm'.
  unfold add_mapping. rewrite <- (Htf s).
  (* first phase *)
  set (P1 := match lookup s tf with
             | Some sfs => (fold_left (fun m sf => dupd sf (fun ts => s_union (s_remove s ts) t) m) (ord O sfs) fm,
                            fold_left (fun m x => dupd_default [] x (fun q => s_union q sfs) m) t (ddel s tf))
             | None => (fm, tf) end).
  set (P1' := match lookup s tf with
             | Some sfs => (fold_left (fun m sf => dupd sf (fun ts => s_union (s_remove s ts) t') m) (ord O' sfs) fm,
                            fold_left (fun m x => dupd_default [] x (fun q => s_union q sfs) m) t' (ddel s tf'))
             | None => (fm, tf') end).
  assert (H1 : R P1 P1').
  { unfold P1, P1'. destruct (lookup s tf) as [sfs|]; [|split; [reflexivity | exact Htf]].
    split; simpl.
    - rewrite (fold_dupd_ext _ (fun ts => s_union (s_remove s ts) t')).
      + apply fold_left_perm; [intros; apply dupd_comm | apply ord_ord_perm].
      + intros v. unfold s_union. apply norm_ext. intros x. rewrite !in_app_iff. rewrite (Ht x). tauto.
    - intros k. rewrite !lookup_fold_default by (intros; apply s_union_idem).
      rewrite (smem_ext t t' k Ht). unfold lod. rewrite !lookup_ddel, Htf. reflexivity. }
  destruct P1 as [fm1 tf1], P1' as [fm1' tf1']. destruct H1 as [E1 H1]. simpl in E1, H1. subst fm1'.
  split; simpl.
  - destruct (lookup s fm1).
    + apply dupd_ext. intros v. unfold s_union. apply norm_ext. intros x. rewrite !in_app_iff, (Ht x). tauto.
    + f_equal. f_equal. f_equal. apply norm_ext. exact Ht.
  - intros k. rewrite !lookup_fold_default by (intros; apply s_add_idem).
    rewrite (smem_ext t t' k Ht). unfold lod. rewrite H1. reflexivity.
Qed.

Lemma R_refl st : R st st.
Proof. split; reflexivity. Qed.

Lemma map_items_R O O' mp fields : forall st st',
  R st st' ->
  fst (map_items O mp fields st) = fst (map_items O' mp fields st') /\
  R (snd (map_items O mp fields st)) (snd (map_items O' mp fields st')).
Proof.
  induction fields as [|f r IH]; intros st st' HR; simpl; [split; [reflexivity | exact HR]|].
  destruct (lookup f mp) as [tg|].
  - specialize (IH _ _ (add_mapping_R O O' st st' f tg tg HR (fun x => iff_refl _))).
    destruct (map_items O mp r (add_mapping O st f tg)) as [a b],
             (map_items O' mp r (add_mapping O' st' f tg)) as [a' b']. simpl in *.
    destruct IH as [-> H]. split; [reflexivity | exact H].
  - specialize (IH _ _ HR).
    destruct (map_items O mp r st) as [a b], (map_items O' mp r st') as [a' b']. simpl in *.
    destruct IH as [-> H]. split; [reflexivity | exact H].
Qed.

Lemma map_rule_R O O' mp dets : forall st st',
  R st st' ->
  fst (map_rule O mp dets st) = fst (map_rule O' mp dets st') /\
  R (snd (map_rule O mp dets st)) (snd (map_rule O' mp dets st')).
Proof.
  induction dets as [|d r IH]; intros st st' HR; simpl; [split; [reflexivity | exact HR]|].
  destruct (map_items_R O O' mp d st st' HR) as [E1 H1].
  destruct (map_items O mp d st) as [d1 s1], (map_items O' mp d st') as [d1' s1']. simpl in *. subst d1'.
  destruct (IH _ _ H1) as [E2 H2].
  destruct (map_rule O mp r s1) as [r2 s2], (map_rule O' mp r s1') as [r2' s2']. simpl in *. subst r2'.
  split; [reflexivity | exact H2].
Qed.

Lemma map_all_R O O' mps : forall dets st st',
  R st st' ->
  fst (map_all O mps dets st) = fst (map_all O' mps dets st') /\
  R (snd (map_all O mps dets st)) (snd (map_all O' mps dets st')).
Proof.
  induction mps as [|mp r IH]; intros dets st st' HR; simpl; [split; [reflexivity | exact HR]|].
  destruct (map_rule_R O O' mp dets st st' HR) as [E1 H1].
  destruct (map_rule O mp dets st) as [d1 s1], (map_rule O' mp dets st') as [d1' s1']. simpl in *. subst d1'.
  apply IH. exact H1.
Qed.

Lemma merge_R O O' st st' o o' : R st st' -> R o o' -> R (merge O st o) (merge O' st' o').
Proof.
  intros HR [Ho _]. unfold merge. rewrite <- Ho. clear Ho. revert st st' HR.
  induction (fst o) as [|kv l IH]; intros st st' HR; simpl; [exact HR|].
  apply IH. apply add_mapping_R; [exact HR|].
  intros x. split; apply Permutation_in; [apply ord_ord_perm | apply ord_ord_perm].
Qed.

Lemma Permutation_filter' {A} (f : A -> bool) l l' : Permutation l l' -> Permutation (filter f l) (filter f l').
Proof.
  induction 1; simpl.
  - constructor.
  - destruct (f x); [apply perm_skip|]; assumption.
  - destruct (f x), (f y); try apply perm_swap; try apply Permutation_refl.
  - eapply Permutation_trans; eassumption.
Qed.

Lemma strict_msg_R O O' dets st st' : R st st' -> strict_msg O dets st = strict_msg O' dets st'.
Proof.
  intros [Hfm Htf]. unfold strict_msg.
  set (P := fun f => negb (haskey f (fst st) || haskey f (snd st))).
  set (P' := fun f => negb (haskey f (fst st') || haskey f (snd st'))).
  assert (EP : forall l, filter P l = filter P' l).
  { intros l. apply filter_ext. intros f. unfold P, P', haskey. rewrite Hfm, Htf. reflexivity. }
  rewrite <- EP.
  assert (Hp : Permutation (filter P (ord O (norm (concat dets)))) (filter P (ord O' (norm (concat dets)))))
    by (apply Permutation_filter', ord_ord_perm).
  destruct (filter P (ord O (norm (concat dets)))) as [|a l] eqn:E1,
           (filter P (ord O' (norm (concat dets)))) as [|a' l'] eqn:E2.
  - reflexivity.
  - apply Permutation_nil in Hp. discriminate.
  - apply Permutation_sym, Permutation_nil in Hp. discriminate.
  - f_equal. f_equal. f_equal. apply sorted_strs_perm. exact Hp.
Qed.

Theorem strict_run_order_free O O' nested mps dets :
  let '(d, m, st) := strict_run O nested mps dets in
  let '(d', m', st') := strict_run O' nested mps dets in
  d = d' /\ m = m' /\ fst st = fst st' /\ forall k, lookup k (snd st) = lookup k (snd st').
Proof.
  unfold strict_run.
  destruct (map_all_R O O' mps dets t_empty t_empty (R_refl _)) as [E H].
  destruct (map_all O mps dets t_empty) as [d s], (map_all O' mps dets t_empty) as [d' s']. simpl in *. subst d'.
  assert (H' : R (if nested then merge O t_empty s else s) (if nested then merge O' t_empty s' else s')).
  { destruct nested; [apply merge_R; [apply R_refl | exact H] | exact H]. }
  split; [reflexivity|]. split; [apply strict_msg_R; exact H'|]. exact H'.
Qed.

(* a sequence of tracking operations on its own *)
Theorem add_mapping_order_free O O' st s t :
  let st1 := add_mapping O st s t in let st2 := add_mapping O' st s t in
  fst st1 = fst st2 /\ forall k, lookup k (snd st1) = lookup k (snd st2).
Proof. apply add_mapping_R; [apply R_refl | intros x; reflexivity]. Qed.

(* the reverse-mapping update of the code before the repair kept only the source field that the set
   iteration yielded last: the resulting state depends on the order *)
Definition add_mapping_old (O : order) (st : tracking) (source : str) (target : list str) : tracking :=
  let '(fm, tf) := st in
  let '(fm1, tf1) :=
    match lookup source tf with
    | Some sfs =>
        let fm' := fold_left (fun m sf => dupd sf (fun ts => s_union (s_remove source ts) target) m)
                             (ord O sfs) fm in
        let last_sf := last (ord O sfs) [] in
        (fm', fold_left (fun m t => dupd_default [] t (s_add last_sf) m) target (ddel source tf))
    | None => (fm, tf)
    end in
  let fm2 := match lookup source fm1 with
             | None => fm1 ++ [(source, norm target)]
             | Some _ => dupd source (fun ts => s_union ts target) fm1
             end in
  (fm2, fold_left (fun m t => dupd_default [] t (s_add source) m) target tf1).

Theorem tracking_old_refuted :
  exists O O' st s t k, lookup k (snd (add_mapping_old O st s t)) <> lookup k (snd (add_mapping_old O' st s t)).
Proof.
  exists ord_id, ord_rev,
    (add_mapping ord_id (add_mapping ord_id t_empty [97] [[99]]) [98] [[99]]), [99], [[100]], [100].
  vm_compute. discriminate.
Qed.
