(* Proofs for C07 about Model/CollLoader.v (SigmaCollection.from_dicts). *)
From Coq Require Import NArith ZArith List Bool Lia.
From PS Require Import Base.Chars Base.Outcome Model.Yaml Model.LoaderStrings Model.Loader Model.CollLoader
                       Spec.LoaderSpec Proofs.LoaderP.
Import ListNotations.
Open Scope N_scope.

(* every document the loop hands to a single-document loader lies in that loader's domain *)
Definition item_dom (i : item) : bool := match i with IDoc k d => dom k d | _ => true end.
Definition coll_dom (ds : list yv) : bool := forallb item_dom (plan ds).
(* ... and none of them is a correlation rule *)
Definition item_dom_rf (i : item) : bool :=
  match i with IDoc KCorr _ => false | IDoc k d => dom k d | _ => true end.

Section CollP.
Variable L : lib.

(* strict loading of one document raises the first error collecting mode collects (all three loaders) *)
Lemma load_agrees k d errs :
  load L k true d = Ok errs -> load L k false d = match errs with [] => Ok [] | e :: _ => SigmaErr e end.
Proof. destruct k; cbn [load]; apply load_with_agrees. Qed.

Lemma run_items_prefix c its : forall errs0 objs0 errs objs,
  run_items L c its errs0 objs0 = Ok (errs, objs) -> exists t, errs = errs0 ++ t.
Proof.
  induction its as [|i r IH]; intros errs0 objs0 errs objs H; cbn [run_items] in H.
  - inversion H; subst. exists []. rewrite app_nil_r. reflexivity.
  - destruct i as [| |k d].
    + destruct c; [|discriminate]. destruct (IH _ _ _ _ H) as [t ->]. exists (ECollection :: t).
      rewrite <- app_assoc. reflexivity.
    + destruct c; [|discriminate]. destruct (IH _ _ _ _ H) as [t ->]. exists (ECollection :: t).
      rewrite <- app_assoc. reflexivity.
    + destruct (load L k c d) as [e|?|?]; cbn [obind] in H; try discriminate.
      destruct (IH _ _ _ _ H) as [t ->]. exists (e ++ t). rewrite app_assoc. reflexivity.
Qed.

Lemma run_items_agrees its : forall objs0 errs objs,
  run_items L true its [] objs0 = Ok (errs, objs) ->
  run_items L false its [] objs0 = match errs with [] => Ok ([], objs) | e :: _ => SigmaErr e end.
Proof.
  induction its as [|i r IH]; intros objs0 errs objs H; cbn [run_items] in *.
  - inversion H; subst. reflexivity.
  - destruct i as [| |k d].
    + destruct (run_items_prefix _ _ _ _ _ _ H) as [t ->]. reflexivity.
    + destruct (run_items_prefix _ _ _ _ _ _ H) as [t ->]. reflexivity.
    + destruct (load L k true d) as [e|?|?] eqn:E; cbn [obind] in H; try discriminate.
      rewrite (load_agrees k d e E). destruct e as [|a e]; cbn [obind app] in *.
      * apply IH. exact H.
      * destruct (run_items_prefix _ _ _ _ _ _ H) as [t ->]. reflexivity.
Qed.

(* whenever collecting mode returns a collection, strict mode raises its first error, or returns too *)
Theorem coll_agrees cf rr ds errs :
  load_coll L true cf rr ds = Ok errs ->
  load_coll L false cf rr ds = match errs with [] => Ok [] | e :: _ => SigmaErr e end.
Proof.
  unfold load_coll. destruct (run_items L true (plan ds) [] []) as [[es objs]|?|?] eqn:R; cbn [obind] in *; try discriminate.
  destruct (post_init L cf rr (snd (es, objs))) as [[]|?|?] eqn:P; cbn [obind fst] in *; try discriminate.
  intros H. inversion H; subst; clear H.
  rewrite (run_items_agrees _ _ _ _ R). destruct errs as [|e r]; [|reflexivity].
  cbn [obind snd fst] in *. rewrite P. reflexivity.
Qed.

(* ---- only Sigma errors ---- *)
Definition obj_ok (o : obj) : bool := negb (o_placeholder o && o_rules_given o).
Lemma summary_ok k d : obj_ok (summary L k d) = true.
Proof.
  unfold obj_ok, summary. cbn [o_placeholder o_rules_given].
  destruct k; try reflexivity.
  destruct (has_errors (st_filter L d)); reflexivity.
Qed.

Lemma run_items_nocrash c its : forall errs0 objs0,
  forallb item_dom its = true -> Forall (fun o => obj_ok o = true) objs0 ->
  nocrash (run_items L c its errs0 objs0) /\
  forall errs objs, run_items L c its errs0 objs0 = Ok (errs, objs) -> Forall (fun o => obj_ok o = true) objs.
Proof.
  induction its as [|i r IH]; intros errs0 objs0 Hd Ho; cbn [run_items].
  - split; [intros x; discriminate|]. intros errs objs H. inversion H; subst. exact Ho.
  - cbn [forallb] in Hd. apply andb_true_iff in Hd. destruct Hd as [Hi Hr].
    destruct i as [| |k d].
    + destruct c; [apply IH; assumption|]. split; [intros x; discriminate | discriminate].
    + destruct c; [apply IH; assumption|]. split; [intros x; discriminate | discriminate].
    + cbn [item_dom] in Hi. pose proof (sigma_only_all L k c d Hi) as S.
      destruct (load L k c d) as [e|?|x]; cbn [obind].
      * apply IH; [exact Hr|]. apply Forall_app. split; [exact Ho|]. constructor; [apply summary_ok | constructor].
      * split; [intros x; discriminate | discriminate].
      * exfalso. exact (S x eq_refl).
Qed.

Lemma apply_one_nocrash r f : obj_ok f = true -> nocrash (apply_one r f).
Proof.
  unfold apply_one, obj_ok. intros H.
  destruct (o_ls_empty f && negb (o_ls_empty r)); [intros x; discriminate|].
  destruct (o_placeholder f && o_rules_given f); [discriminate | intros x; discriminate].
Qed.

Lemma post_init_nocrash cf rr objs : Forall (fun o => obj_ok o = true) objs -> nocrash (post_init L cf rr objs).
Proof.
  intros Ho. unfold post_init. apply obind_nocrash.
  - destruct cf; [intros x; discriminate|]. unfold apply_filters. apply iter_out_nocrash.
    apply Forall_forall. intros r _. destruct (is_rule r); [|intros x; discriminate].
    apply iter_out_nocrash. apply Forall_forall. intros f Hf. apply apply_one_nocrash.
    apply filter_In in Hf. destruct Hf as [Hf _]. rewrite Forall_forall in Ho. exact (Ho f Hf).
  - intros _ _. destruct rr; [|intros x; discriminate]. unfold resolve. apply iter_out_nocrash.
    apply Forall_forall. intros c _. destruct (is_corr c); [|intros x; discriminate].
    apply iter_out_nocrash. apply Forall_forall. intros ref _.
    destruct (found L _ ref); intros x; discriminate.
Qed.

Theorem coll_sigma_only c cf rr ds : coll_dom ds = true -> sigma_only (load_coll L c cf rr ds).
Proof.
  intros Hd. unfold load_coll.
  destruct (run_items_nocrash c (plan ds) [] [] Hd (Forall_nil _)) as [N O].
  apply obind_nocrash; [exact N|]. intros [es objs] R. cbn [snd fst].
  apply obind_nocrash; [apply post_init_nocrash; exact (O es objs R) | intros; intros x; discriminate].
Qed.

(* ---- collecting mode returns: collections without correlation rules whose filters are only collected ---- *)
Lemma run_items_total its : forall errs0 objs0,
  forallb item_dom_rf its = true ->
  exists errs objs, run_items L true its errs0 objs0 = Ok (errs, objs) /\
                    (Forall (fun o => is_corr o = false) objs0 -> Forall (fun o => is_corr o = false) objs).
Proof.
  induction its as [|i r IH]; intros errs0 objs0 Hd; cbn [run_items].
  - eauto.
  - cbn [forallb] in Hd. apply andb_true_iff in Hd. destruct Hd as [Hi Hr].
    destruct i as [| |k d]; try (apply IH; exact Hr).
    assert (Hk : k <> KCorr) by (destruct k; [discriminate | discriminate Hi | discriminate]).
    assert (Hdom : dom k d = true) by (destruct k; [exact Hi | discriminate Hi | exact Hi]).
    destruct (collect_total_all L k d Hk Hdom) as [e ->]. cbn [obind].
    destruct (IH (errs0 ++ e) (objs0 ++ [summary L k d]) Hr) as [errs [objs [H1 H2]]].
    exists errs, objs. split; [exact H1|]. intros F. apply H2. apply Forall_app. split; [exact F|].
    constructor; [|constructor]. destruct k; try reflexivity. congruence.
Qed.

Lemma iter_no_corr (g : obj -> outcome unit) l :
  Forall (fun o => is_corr o = false) l -> iter_out (fun c => if is_corr c then g c else Ok tt) l = Ok tt.
Proof. induction 1 as [|o l Ho _ IH]; cbn [iter_out]; [reflexivity|]. rewrite Ho. cbn [obind]. exact IH. Qed.

Theorem coll_collect_total rr ds :
  forallb item_dom_rf (plan ds) = true -> exists errs, load_coll L true true rr ds = Ok errs.
Proof.
  intros Hd. unfold load_coll. destruct (run_items_total (plan ds) [] [] Hd) as [errs [objs [-> F]]].
  cbn [obind snd fst]. specialize (F (Forall_nil _)).
  assert (P : post_init L true rr objs = Ok tt).
  { unfold post_init. cbn [obind]. destruct rr; [|reflexivity]. unfold resolve.
    apply iter_no_corr. apply Forall_forall. intros o Ho. apply filter_In in Ho.
    rewrite Forall_forall in F. apply F. apply Ho. }
  rewrite P. cbn [obind]. eauto.
Qed.
End CollP.

(* with default arguments collecting mode raises (finding collection-postprocessing-raises):
   [ rule ; filter whose log source is missing ] *)
Definition w_coll_post : list yv :=
  [ w_rule;
    YMap [(k s_title, k [70]);
          (k s_filter, YMap [(k s_rules, k s_any); (k [115], YMap [(k [97], YInt 1)]); (k s_condition, k [115])])] ].
Lemma coll_post_refuted :
  exists L ds e, coll_dom ds = true /\ load_coll L true false true ds = SigmaErr e /\
                 exists errs, load_coll L true true false ds = Ok errs.
Proof. exists lib_w, w_coll_post, EType. repeat split; try (vm_compute; reflexivity). eexists. vm_compute. reflexivity. Qed.
