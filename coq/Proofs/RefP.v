(* Facts about the reference meaning (Spec/Ref.v): the numbering of reference predicates is faithful *)
From Coq Require Import NArith List Bool Arith Lia.
From PS Require Import Base.Chars Model.Backend Spec.Items Spec.Atom Spec.Query Spec.Target Spec.Ref.
Import ListNotations.

Section RcInd.
  Variable P : rc -> Prop.
  Hypothesis HA : forall k, P (RA k).
  Hypothesis HN : forall c, P c -> P (RN c).
  Hypothesis HB : forall o l, Forall P l -> P (RB o l).
  Fixpoint rc_rect' (c : rc) : P c :=
    match c with
    | RA k => HA k
    | RN a => HN a (rc_rect' a)
    | RB o l => HB o l ((fix go (l : list rc) : Forall P l :=
                           match l with [] => Forall_nil P | x :: r => Forall_cons x (rc_rect' x) (go r) end) l)
    end.
End RcInd.

(* the combination over numbers, under an assignment of the numbers, has the value of the combination of
   predicates under the valuation that reads a predicate's number *)
Theorem number_den ks asg c : den asg (number ks c) = rden (fun k => asg (idx ks k)) c.
Proof.
  induction c as [k | a IH | o l IH] using rc_rect'.
  - reflexivity.
  - cbn [number den rden]. rewrite IH. reflexivity.
  - cbn [number den rden]. destruct o.
    + induction IH as [| x r Hx _ IHr]; [reflexivity|]. cbn [map forallb]. rewrite Hx, IHr. reflexivity.
    + induction IH as [| x r Hx _ IHr]; [reflexivity|]. cbn [map existsb]. rewrite Hx, IHr. reflexivity.
Qed.

(* ---- every valuation of the reference predicates is reached by an assignment of the numbers ---- *)
From PS Require Import Model.Leaf Proofs.LeafP.
Local Open Scope nat_scope.

Lemma cmpop_eqb_refl o : cmpop_eqb o o = true.
Proof. destruct o; reflexivity. Qed.
Lemma akey_eqb_refl k : akey_eqb k k = true.
Proof.
  destruct k; cbn [akey_eqb];
    rewrite ?str_eqb_refl, ?items_eqb_refl, ?eqb_reflx, ?cmpop_eqb_refl; reflexivity.
Qed.

Fixpoint keys_in (c : rc) : list akey :=
  match c with
  | RA k => [k]
  | RN a => keys_in a
  | RB _ l => flat_map keys_in l
  end.

Lemma rden_ext v1 v2 c : (forall k, In k (keys_in c) -> v1 k = v2 k) -> rden v1 c = rden v2 c.
Proof.
  induction c as [k | a IH | o l IH] using rc_rect'; cbn [keys_in rden]; intros H.
  - apply H. left. reflexivity.
  - rewrite IH; auto.
  - assert (E : map (rden v1) l = map (rden v2) l).
    { induction IH as [| x r Hx _ IHr]; [reflexivity|]. cbn [map flat_map] in *. f_equal.
      - apply Hx. intros k Hk. apply H. apply in_or_app. left. exact Hk.
      - apply IHr. intros k Hk. apply H. apply in_or_app. right. exact Hk. }
    destruct o.
    + clear - E. revert E. induction l as [| x r IHr]; cbn; intros E; [reflexivity|]. injection E as E1 E2. rewrite E1, (IHr E2). reflexivity.
    + clear - E. revert E. induction l as [| x r IHr]; cbn; intros E; [reflexivity|]. injection E as E1 E2. rewrite E1, (IHr E2). reflexivity.
Qed.

Lemma index_of_app k l m s i : index_of k l s = Some i -> index_of k (l ++ m) s = Some i.
Proof.
  revert s. induction l as [| x r IH]; cbn; intros s H; [discriminate|].
  destruct (akey_eqb k x); [exact H | apply IH; exact H].
Qed.
Lemma index_of_last k l s : exists i, index_of k (l ++ [k]) s = Some i.
Proof.
  revert s. induction l as [| x r IH]; cbn; intros s.
  - rewrite akey_eqb_refl. eauto.
  - destruct (akey_eqb k x); eauto.
Qed.
Lemma index_of_nth k l s i d : index_of k l s = Some i ->
  s <= i /\ akey_eqb k (nth (i - s) l d) = true.
Proof.
  revert s. induction l as [| x r IH]; cbn [index_of]; intros s H; [discriminate|].
  destruct (akey_eqb k x) eqn:E.
  - injection H as <-. split; [lia|]. rewrite Nat.sub_diag. exact E.
  - destruct (IH _ H) as [Hle Hn]. split; [lia|].
    replace (i - s) with (S (i - S s)) by lia. exact Hn.
Qed.

(* keys_of only appends, and afterwards every predicate of the combination is found *)
Lemma keys_of_ext c : forall acc, exists m, keys_of c acc = acc ++ m.
Proof.
  induction c as [k | a IH | o l IH] using rc_rect'; intros acc; cbn [keys_of].
  - destruct (index_of k acc 0); [exists []; rewrite app_nil_r; reflexivity | eauto].
  - apply IH.
  - revert acc. induction IH as [| x r Hx _ IHr]; intros acc; cbn [fold_left].
    + exists []. rewrite app_nil_r. reflexivity.
    + destruct (Hx acc) as [m1 E1]. rewrite E1. destruct (IHr (acc ++ m1)) as [m2 E2]. rewrite E2.
      exists (m1 ++ m2). rewrite app_assoc. reflexivity.
Qed.
Lemma found_ext k c acc : (exists i, index_of k acc 0 = Some i) -> exists i, index_of k (keys_of c acc) 0 = Some i.
Proof.
  intros [i H]. destruct (keys_of_ext c acc) as [m E]. rewrite E. exists i. apply index_of_app. exact H.
Qed.
Lemma keys_of_found c : forall acc k, In k (keys_in c) -> exists i, index_of k (keys_of c acc) 0 = Some i.
Proof.
  induction c as [k0 | a IH | o l IH] using rc_rect'; intros acc k Hin; cbn [keys_of keys_in] in *.
  - destruct Hin as [<- | []]. destruct (index_of k0 acc 0) eqn:E; [eauto | apply index_of_last].
  - apply IH. exact Hin.
  - revert acc Hin. induction IH as [| x r Hx _ IHr]; intros acc Hin; cbn [fold_left flat_map] in *; [destruct Hin|].
    apply in_app_or in Hin. destruct Hin as [Hin | Hin].
    + specialize (Hx acc k Hin).
      change (fold_left (fun a y => keys_of y a) r (keys_of x acc)) with (keys_of (RB o r) (keys_of x acc)).
      apply found_ext. exact Hx.
    + apply IHr. exact Hin.
Qed.

(* a valuation that does not distinguish predicates with the same key *)
Definition respects (val : akey -> bool) : Prop := forall a b, akey_eqb a b = true -> val a = val b.

(* Every such valuation of the predicates of a combination is the reading of some assignment of their
   numbers: comparing the query with the reference under all assignments of the numbers compares them under
   all valuations of the reference predicates. *)
Theorem ref_valuations c val d : respects val ->
  rden val c = den (fun i => val (nth i (keys_of c []) d)) (number (keys_of c []) c).
Proof.
  intros Hr. rewrite number_den. apply rden_ext. intros k Hk.
  destruct (keys_of_found c [] k Hk) as [i Hi]. unfold idx. rewrite Hi.
  destruct (index_of_nth _ _ _ _ d Hi) as [_ Hn]. rewrite Nat.sub_0_r in Hn. apply Hr. exact Hn.
Qed.

(* ---- the truth table enumerated by the run is complete ---- *)
Section Mask.
Local Open Scope N_scope.

Fixpoint mk (asg : nat -> bool) (n : nat) : N :=
  match n with O => 0 | S k => mk asg k + (if asg k then 2 ^ N.of_nat k else 0) end.

Lemma mk_bound asg n : mk asg n < 2 ^ N.of_nat n.
Proof.
  induction n as [| k IH]; cbn [mk]; [reflexivity|].
  rewrite Nat2N.inj_succ, N.pow_succ_r'. destruct (asg k); lia.
Qed.

Lemma bit_low a k i : i < k -> N.testbit (a + 2 ^ k) i = N.testbit a i.
Proof.
  intros H. rewrite <- (N.mod_pow2_bits_low (a + 2 ^ k) k i H), <- (N.mod_pow2_bits_low a k i H).
  f_equal. replace (a + 2 ^ k) with (a + 1 * 2 ^ k) by lia. apply N.mod_add. apply N.pow_nonzero. discriminate.
Qed.
Lemma bit_top a k : a < 2 ^ k -> N.testbit (a + 2 ^ k) k = true /\ N.testbit a k = false.
Proof.
  intros H. assert (Hz : 2 ^ k <> 0) by (apply N.pow_nonzero; discriminate). split.
  - pose proof (N.div_pow2_bits (a + 2 ^ k) k 0) as E. rewrite N.add_0_l in E. rewrite <- E.
    replace (a + 2 ^ k) with (a + 1 * 2 ^ k) by lia. rewrite N.div_add by exact Hz. rewrite N.div_small by exact H. reflexivity.
  - pose proof (N.div_pow2_bits a k 0) as E. rewrite N.add_0_l in E. rewrite <- E. rewrite N.div_small by exact H. reflexivity.
Qed.

Lemma mk_bits asg n i : (i < n)%nat -> N.testbit (mk asg n) (N.of_nat i) = asg i.
Proof.
  induction n as [| k IH]; intros H; [lia|]. cbn [mk].
  destruct (Nat.eq_dec i k) as [-> | Hne].
  - destruct (bit_top (mk asg k) (N.of_nat k) (mk_bound asg k)) as [Ht Hf].
    destruct (asg k); [exact Ht | rewrite N.add_0_r; exact Hf].
  - assert (Hi : (i < k)%nat) by lia. destruct (asg k).
    + rewrite bit_low by lia. apply IH. exact Hi.
    + rewrite N.add_0_r. apply IH. exact Hi.
Qed.

(* every assignment of the first n numbers is the reading of a mask below 2^n *)
Theorem asg_mask (asg : nat -> bool) (n : nat) :
  exists m : nat, In m (seq 0 (Nat.pow 2 n)) /\ forall i, (i < n)%nat -> N.testbit (N.of_nat m) (N.of_nat i) = asg i.
Proof.
  exists (N.to_nat (mk asg n)). split.
  - apply in_seq. split; [lia|]. cbn [plus]. pose proof (mk_bound asg n) as H.
    assert (E : N.of_nat (2 ^ n)%nat = 2 ^ N.of_nat n) by (rewrite Nat2N.inj_pow; reflexivity). lia.
  - intros i Hi. rewrite N2Nat.id. apply mk_bits. exact Hi.
Qed.
End Mask.

Lemma index_of_lt k l s i : index_of k l s = Some i -> i < s + length l.
Proof.
  revert s. induction l as [| x r IH]; cbn [index_of length]; intros s H; [discriminate|].
  destruct (akey_eqb k x); [injection H as <-; lia | apply IH in H; lia].
Qed.

(* For every valuation of the reference predicates there is a row m < 2^n of the enumerated table (n the
   number of distinct predicates) whose assignment - bit i of m for number i, as in Run/C01run.v asg_of - gives
   the numbered reference the value the combination of predicates has under the valuation. *)
Theorem ref_table_complete c val : respects val ->
  let ks := keys_of c [] in
  exists m, In m (seq 0 (Nat.pow 2 (length ks))) /\
    rden val c = den (fun a => N.testbit (N.of_nat m) (N.of_nat a)) (number ks c).
Proof.
  intros Hr ks. set (d := YNull []). set (asgv := fun i => val (nth i ks d)).
  destruct (asg_mask asgv (length ks)) as [m [Hin Hb]]. exists m. split; [exact Hin|].
  rewrite (ref_valuations c val d Hr). fold ks. fold asgv. rewrite !number_den.
  apply rden_ext. intros k Hk. destruct (keys_of_found c [] k Hk) as [i Hi]. fold ks in Hi.
  unfold idx. rewrite Hi. symmetry. apply Hb. apply index_of_lt in Hi. lia.
Qed.
