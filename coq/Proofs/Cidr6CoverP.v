(* Proofs for C18, third part: IPv6 coverage on the domain "every completely fixed group non-zero". *)
From Coq Require Import NArith Arith List Bool Lia ZifyBool.
From PS Require Import Base.Chars Base.Outcome Model.SString Spec.Items Model.Cidr Spec.Net Proofs.CidrP Proofs.Cidr6P.
Import ListNotations.
Open Scope N_scope.

(* ================================================================== text of group lists *)
Definition J (l : list N) : str := join [c_colon] (map hex4 l).
Definition D (l : list N) : str := flat_map (fun g => hex4 g ++ [c_colon]) l.
Definition nz (l : list N) : Prop := Forall (fun g => g <> 0) l.

Lemma J_cons2 x y l : J (x :: y :: l) = hex4 x ++ [c_colon] ++ J (y :: l).
Proof. reflexivity. Qed.

Lemma D_cons f F : D (f :: F) = hex4 f ++ [c_colon] ++ D F.
Proof. unfold D. cbn [flat_map]. rewrite <- app_assoc. reflexivity. Qed.

Lemma J_app F R : R <> [] -> J (F ++ R) = D F ++ J R.
Proof.
  intros HR. induction F as [|f F IH]; [reflexivity|].
  cbn [app D flat_map]. fold (D F). rewrite <- (app_assoc _ (D F)), <- IH.
  destruct (F ++ R) as [|y l] eqn:E.
  - destruct F; [cbn in E; congruence | discriminate].
  - rewrite J_cons2, <- app_assoc. reflexivity.
Qed.

Lemma J_snoc F g : J (F ++ [g]) = D F ++ hex4 g.
Proof. rewrite J_app by discriminate. reflexivity. Qed.

Lemma J_colon F : F <> [] -> J F ++ [c_colon] = D F.
Proof.
  induction F as [|f F IH]; intros H; [congruence|].
  destruct F as [|y l].
  - cbn. rewrite app_nil_r. reflexivity.
  - rewrite J_cons2, D_cons, <- IH by discriminate.
    rewrite <- !app_assoc. reflexivity.
Qed.

Lemma show6g_unfold l :
  show6g l = let '(s, n) := best_run l in
             if Nat.ltb 1 n then J (firstn s l) ++ [c_colon; c_colon] ++ J (skipn (s + n) l) else J l.
Proof. reflexivity. Qed.

(* zero runs *)
Lemma zrun_nz f l : f <> 0 -> zrun (f :: l) = O.
Proof. intros H. cbn [zrun]. apply N.eqb_neq in H. rewrite H. reflexivity. Qed.

Lemma best_run_nz F R : nz F ->
  exists s', best_run (F ++ R) = (s', snd (best_run R)) /\
             ((0 < snd (best_run R))%nat -> s' = (length F + fst (best_run R))%nat).
Proof.
  induction 1 as [|f F Hf _ IH].
  - exists (fst (best_run R)). cbn [app length Nat.add]. split; [destruct (best_run R); reflexivity | reflexivity].
  - destruct IH as [s' [E Hs]]. cbn [app best_run]. rewrite E.
    change (zrun (f :: F ++ R)) with (zrun (f :: (F ++ R))). rewrite zrun_nz by exact Hf.
    destruct (snd (best_run R)) as [|n] eqn:En.
    + exists O. cbn. split; [reflexivity | lia].
    + exists (S s'). cbn [Nat.ltb Nat.leb]. split; [reflexivity|]. intros _. cbn [length]. rewrite Hs by lia. reflexivity.
Qed.

Lemma firstn_app_len {A} (F R : list A) k : firstn (length F + k) (F ++ R) = F ++ firstn k R.
Proof. induction F; cbn [length Nat.add firstn app]; [reflexivity | f_equal; assumption]. Qed.
Lemma skipn_app_len {A} (F R : list A) k : skipn (length F + k) (F ++ R) = skipn k R.
Proof. induction F; cbn [length Nat.add skipn app]; [reflexivity | assumption]. Qed.

(* a non-zero prefix is printed as is, every group followed by ':' *)
Lemma show6g_prefix F R : nz F -> R <> [] -> exists rest, show6g (F ++ R) = D F ++ rest.
Proof.
  intros HF HR. destruct F as [|f0 F0] eqn:EF; [exists (show6g R); reflexivity|]. rewrite <- EF in *.
  assert (HFne : F <> []) by (rewrite EF; discriminate). clear EF.
  destruct (best_run_nz F R HF) as [s' [E Hs]]. rewrite show6g_unfold, E.
  destruct (best_run R) as [s n]. cbn [fst snd] in *.
  destruct (Nat.ltb 1 n) eqn:L.
  - apply Nat.ltb_lt in L. rewrite Hs by lia. rewrite firstn_app_len.
    destruct (firstn s R) as [|y l] eqn:Ef.
    + rewrite app_nil_r. eexists. rewrite <- (J_colon F HFne). rewrite <- !app_assoc. reflexivity.
    + rewrite J_app by discriminate. eexists. rewrite <- app_assoc. reflexivity.
  - rewrite J_app by exact HR. eexists. reflexivity.
Qed.

Lemma show6g_prefix_g F G H : nz F -> G <> 0 -> exists rest, show6g (F ++ G :: H) = D F ++ hex4 G ++ rest.
Proof.
  intros HF HG. destruct H as [|h H].
  - assert (Hn : nz (F ++ [G])) by (apply Forall_app; split; [exact HF | repeat constructor; exact HG]).
    destruct (best_run_nz (F ++ [G]) [] Hn) as [s' [E _]]. rewrite app_nil_r in E.
    rewrite show6g_unfold, E. cbn [best_run snd Nat.ltb Nat.leb]. exists []. rewrite app_nil_r. apply J_snoc.
  - assert (Hn : nz (F ++ [G])) by (apply Forall_app; split; [exact HF | repeat constructor; exact HG]).
    destruct (show6g_prefix (F ++ [G]) (h :: H) Hn ltac:(discriminate)) as [rest E].
    rewrite <- app_assoc in E. cbn [app] in E. rewrite E. exists ([c_colon] ++ rest).
    unfold D. rewrite flat_map_app. cbn [flat_map]. rewrite app_nil_r, <- !app_assoc. reflexivity.
Qed.

(* trailing zeros *)
Lemma zrun_repeat n : zrun (repeat 0 n) = n.
Proof. induction n; cbn [repeat zrun]; [reflexivity|]. rewrite N.eqb_refl. f_equal. assumption. Qed.
Lemma best_run_zeros n : best_run (repeat 0 (S n)) = (O, S n).
Proof.
  induction n as [|n IH].
  - reflexivity.
  - change (repeat 0 (S (S n))) with (0 :: repeat 0 (S n)). cbn [best_run]. rewrite IH.
    change (zrun (0 :: repeat 0 (S n))) with (zrun (repeat 0 (S (S n)))). rewrite zrun_repeat.
    replace (Nat.ltb (S (S n)) (S n)) with false by (symmetry; apply Nat.ltb_ge; lia). reflexivity.
Qed.

Lemma show6g_zeros F n : nz F -> exists c rest, show6g (F ++ repeat 0 (S n)) = D F ++ c :: rest /\ c <> 102.
Proof.
  intros HF. destruct (best_run_nz F (repeat 0 (S n)) HF) as [s' [E Hs]].
  rewrite best_run_zeros in *. cbn [fst snd] in *. specialize (Hs ltac:(lia)). rewrite Nat.add_0_r in Hs. subst s'.
  rewrite show6g_unfold, E. destruct n as [|n].
  - cbn [Nat.ltb Nat.leb repeat]. rewrite J_snoc. exists 48, []. split; [reflexivity | discriminate].
  - cbn [Nat.ltb Nat.leb].
    pose proof (firstn_app_len F (repeat 0 (S (S n))) 0) as X. rewrite Nat.add_0_r in X. cbn [firstn] in X.
    rewrite app_nil_r in X. rewrite X, skipn_app_len.
    rewrite skipn_all2 by (rewrite repeat_length; lia). change (J []) with (@nil char). rewrite app_nil_r.
    destruct F as [|f0 F0] eqn:EF.
    + exists 58, [58]. split; [reflexivity | discriminate].
    + rewrite <- EF in *. exists 58, []. split; [|discriminate].
      rewrite <- (J_colon F) by (rewrite EF; discriminate). rewrite <- !app_assoc. reflexivity.
Qed.

(* ================================================================== hex text of a partly fixed group (finite table) *)
(* f holds for all 2^k numbers acc*2^k + x *)
Fixpoint allbits (k : nat) (f : N -> bool) (acc : N) : bool :=
  match k with
  | O => f acc
  | S k' => allbits k' f (2 * acc) && allbits k' f (2 * acc + 1)
  end.
Lemma allbits_spec : forall k f acc, allbits k f acc = true ->
  forall x, x < 2 ^ N.of_nat k -> f (acc * 2 ^ N.of_nat k + x) = true.
Proof.
  induction k as [|k IH]; intros f acc H x Hx.
  - change (2 ^ N.of_nat 0) with 1 in *. assert (x = 0) by lia. subst.
    rewrite N.mul_1_r, N.add_0_r. exact H.
  - cbn [allbits] in H. apply andb_true_iff in H. destruct H as [H0 H1].
    rewrite Nat2N.inj_succ, N.pow_succ_r' in *. set (P := 2 ^ N.of_nat k) in *.
    destruct (N.lt_ge_cases x P) as [L|G].
    + replace (acc * (2 * P) + x) with (2 * acc * P + x) by ring. apply IH; assumption.
    + replace (acc * (2 * P) + x) with ((2 * acc + 1) * P + (x - P)) by nia. apply IH; [assumption | lia].
Qed.

Definition Jr (r : nat) : N := match r with 1%nat => 4096 | 2%nat => 256 | 3%nat => 16 | _ => 65536 end.
Definition fixdigits (k : nat) (low : N) : str :=
  match k with
  | 1%nat => [hexdigit low]
  | 2%nat => [hexdigit (low / 16); hexdigit (low mod 16)]
  | 3%nat => [hexdigit (low / 256); hexdigit ((low / 16) mod 16); hexdigit (low mod 16)]
  | _ => []
  end.
Definition hx_prop (r : nat) (G : N) : bool :=
  let t := G / Jr r in
  if t =? 0 then true else str_eqb (hex4 G) (hex4 t ++ fixdigits (4 - r) (G mod Jr r)).
Definition hx_check (r : nat) : bool := allbits 16 (hx_prop r) 0.
Lemma hx_check_ok : hx_check 1 = true /\ hx_check 2 = true /\ hx_check 3 = true.
Proof. split; [|split]; vm_cast_no_check (eq_refl true). Qed.

Lemma hx r t low : (1 <= r <= 3)%nat -> t <> 0 -> t * Jr r + low < 65536 -> low < Jr r ->
  hex4 (t * Jr r + low) = hex4 t ++ fixdigits (4 - r) low.
Proof.
  intros Hr Ht HG Hl.
  assert (C : hx_check r = true).
  { destruct hx_check_ok as [C1 [C2 C3]]. destruct r as [|[|[|[|r]]]]; [lia | exact C1 | exact C2 | exact C3 | lia]. }
  pose proof (allbits_spec 16 _ 0 C (t * Jr r + low) HG) as C'. rewrite N.mul_0_l, N.add_0_l in C'.
  unfold hx_prop in C'. cbn zeta in C'.
  assert (HJ : Jr r <> 0) by (destruct r as [|[|[|[|r]]]]; cbn; discriminate).
  rewrite N.div_add_l, N.div_small, N.add_0_r in C' by assumption.
  rewrite N.add_comm, N.mod_add, N.mod_small in C' by assumption.
  apply N.eqb_neq in Ht. rewrite Ht in C'. apply str_eqb_eq in C'. rewrite N.add_comm. exact C'.
Qed.

(* ================================================================== groups of the addresses of an aligned subnet *)
Definition grp (y k : N) : N := N.land (N.shiftr y (16 * (7 - k))) 65535.
Definition idx : list N := [0; 1; 2; 3; 4; 5; 6; 7].
Lemma groups6_idx y : groups6 y = map (grp y) idx.
Proof. reflexivity. Qed.

Lemma grp_div y k : grp y k = (y / 2 ^ (16 * (7 - k))) mod 65536.
Proof.
  unfold grp. change 65535 with (N.ones 16). rewrite N.land_ones, N.shiftr_div_pow2. reflexivity.
Qed.

Lemma pow2_nz n : 2 ^ n <> 0.
Proof. apply N.pow_nonzero. discriminate. Qed.
Lemma pow2_split a b : a <= b -> 2 ^ b = 2 ^ a * 2 ^ (b - a).
Proof. intros H. rewrite <- N.pow_add_r. f_equal. lia. Qed.

(* y = q * 2^m + h with h < 2^m : bits at or above m come from q, bits below from h *)
Lemma A_hi q m h s : h < 2 ^ m -> m <= s -> (q * 2 ^ m + h) / 2 ^ s = q / 2 ^ (s - m).
Proof.
  intros Hh Hs. rewrite (pow2_split m s Hs), <- N.div_div by apply pow2_nz.
  rewrite N.div_add_l by apply pow2_nz. rewrite (N.div_small h) by exact Hh. rewrite N.add_0_r. reflexivity.
Qed.

Lemma A_lo q m h s : s + 16 <= m -> ((q * 2 ^ m + h) / 2 ^ s) mod 65536 = (h / 2 ^ s) mod 65536.
Proof.
  intros Hs. rewrite (pow2_split s m) by lia. rewrite (pow2_split 16 (m - s)) by lia.
  change (2 ^ 16) with 65536.
  replace (q * (2 ^ s * (65536 * 2 ^ (m - s - 16))) + h) with ((q * 2 ^ (m - s - 16) * 65536) * 2 ^ s + h) by ring.
  rewrite N.div_add_l by apply pow2_nz. rewrite N.add_comm, N.mod_add by discriminate. reflexivity.
Qed.

Lemma A_mid q m h s j : m = s + j -> 0 < j -> j < 16 -> h < 2 ^ m ->
  ((q * 2 ^ m + h) / 2 ^ s) mod 65536 = (q mod 2 ^ (16 - j)) * 2 ^ j + h / 2 ^ s /\ h / 2 ^ s < 2 ^ j.
Proof.
  intros -> Hj0 Hj Hh. rewrite N.pow_add_r in *.
  assert (Hlow : h / 2 ^ s < 2 ^ j).
  { apply N.div_lt_upper_bound; [apply pow2_nz | exact Hh]. }
  split; [|exact Hlow].
  replace (q * (2 ^ s * 2 ^ j) + h) with ((q * 2 ^ j) * 2 ^ s + h) by ring.
  rewrite N.div_add_l by apply pow2_nz.
  change 65536 with (2 ^ 16). rewrite (pow2_split j 16) by lia.
  rewrite N.mod_mul_r by apply pow2_nz.
  rewrite (N.add_comm (q * 2 ^ j)), N.mod_add by apply pow2_nz. rewrite (N.mod_small _ _ Hlow).
  rewrite N.div_add by apply pow2_nz. rewrite (N.div_small _ _ Hlow), N.add_0_l. ring.
Qed.

Lemma pow_m1_div m s : s <= m -> (2 ^ m - 1) / 2 ^ s = 2 ^ (m - s) - 1.
Proof.
  intros H. rewrite (pow2_split s m H). pose proof (pow2_nz s). pose proof (pow2_nz (m - s)).
  symmetry. apply (N.div_unique _ _ _ (2 ^ s - 1)); nia.
Qed.
Lemma pow_m1_mod n : 16 <= n -> (2 ^ n - 1) mod 65536 = 65535.
Proof.
  intros H. rewrite (pow2_split 16 n H). change (2 ^ 16) with 65536. pose proof (pow2_nz (n - 16)).
  symmetry. apply (N.mod_unique _ _ (2 ^ (n - 16) - 1)); nia.
Qed.

Lemma map_const {A B} (f : A -> B) c l : (forall k, In k l -> f k = c) -> map f l = repeat c (length l).
Proof.
  induction l as [|a l IH]; intros H; [reflexivity|]. cbn [map length repeat].
  rewrite (H a (or_introl eq_refl)), IH; [reflexivity|]. intros k Hk. apply H. right. exact Hk.
Qed.

Lemma idx_firstn g k : (g <= 8)%nat -> In k (firstn g idx) -> k < N.of_nat g.
Proof.
  intros Hg. do 9 (destruct g as [|g]; [cbn; intros H; repeat (destruct H as [<-|H]; [lia|]); contradiction |]). lia.
Qed.
Lemma idx_skipn g k : (g <= 8)%nat -> In k (skipn g idx) -> N.of_nat g <= k /\ k <= 7.
Proof.
  intros Hg. do 9 (destruct g as [|g]; [cbn; intros H; repeat (destruct H as [<-|H]; [lia|]); contradiction |]). lia.
Qed.
Lemma idx_skipn_cons g : (g <= 7)%nat -> skipn g idx = N.of_nat g :: skipn (S g) idx.
Proof. intros Hg. do 8 (destruct g as [|g]; [reflexivity|]). lia. Qed.
Lemma idx_skipn_len g : (g <= 8)%nat -> length (skipn g idx) = (8 - g)%nat.
Proof. intros Hg. rewrite skipn_length. reflexivity. Qed.

Definition Fq (q m : N) (g : nat) : list N :=
  map (fun k => (q / 2 ^ (16 * (7 - k) - m)) mod 65536) (firstn g idx).
Definition hostg (h : N) (l : list N) : list N := map (fun k => (h / 2 ^ (16 * (7 - k))) mod 65536) l.
Definition host_ok (m : N) (l : list N) : Prop := forall k, In k l -> 16 * (7 - k) + 16 <= m /\ k <= 7.

Lemma fixed_part q m g r h : (16 * g + 4 * r <= 128)%nat -> m = 128 - N.of_nat (16 * g + 4 * r) ->
  h < 2 ^ m -> map (grp (q * 2 ^ m + h)) (firstn g idx) = Fq q m g.
Proof.
  intros Hnl Hm Hh. unfold Fq. apply map_ext_in. intros k Hk. apply idx_firstn in Hk; [|lia].
  rewrite grp_div, A_hi; [reflexivity | exact Hh | lia].
Qed.

Lemma host_part q m h l : host_ok m l -> map (grp (q * 2 ^ m + h)) l = hostg h l.
Proof.
  intros Hl. unfold hostg. apply map_ext_in. intros k Hk. destruct (Hl k Hk) as [H1 H2].
  rewrite grp_div, A_lo; [reflexivity | exact H1].
Qed.

Lemma hostg_zero l : hostg 0 l = repeat 0 (length l).
Proof. unfold hostg. apply map_const. intros k _. rewrite N.div_0_l by apply pow2_nz. reflexivity. Qed.

Lemma hostg_ones m l : host_ok m l -> hostg (2 ^ m - 1) l = repeat 65535 (length l).
Proof.
  intros Hl. unfold hostg. apply map_const. intros k Hk. destruct (Hl k Hk) as [H1 H2].
  rewrite pow_m1_div by lia. apply pow_m1_mod. lia.
Qed.

(* prefix length on a group boundary *)
Lemma groups_r0 q m g h : (16 * g <= 128)%nat -> m = 128 - N.of_nat (16 * g) -> h < 2 ^ m ->
  groups6 (q * 2 ^ m + h) = Fq q m g ++ hostg h (skipn g idx) /\ host_ok m (skipn g idx).
Proof.
  intros Hnl Hm Hh. assert (HI : host_ok m (skipn g idx)).
  { intros k Hk. apply idx_skipn in Hk; [|lia]. lia. }
  split; [|exact HI].
  rewrite groups6_idx. rewrite <- (firstn_skipn g idx) at 1.
  rewrite map_app, (fixed_part q m g 0 h) by (try exact Hh; lia).
  rewrite host_part by exact HI. reflexivity.
Qed.

(* prefix length inside a group: r fixed nibbles *)
Lemma groups_rpos q m g r h : (0 < r <= 3)%nat -> (16 * g + 4 * r <= 128)%nat ->
  m = 128 - N.of_nat (16 * g + 4 * r) -> h < 2 ^ m ->
  let low := h / 2 ^ (16 * (7 - N.of_nat g)) in
  groups6 (q * 2 ^ m + h)
    = Fq q m g ++ ((q mod 2 ^ (4 * N.of_nat r)) * Jr r + low) :: hostg h (skipn (S g) idx) /\
  low < Jr r /\ host_ok m (skipn (S g) idx).
Proof.
  intros Hr Hnl Hm Hh low. assert (Hg7 : (g <= 7)%nat) by lia.
  assert (HI : host_ok m (skipn (S g) idx)).
  { intros k Hk. apply idx_skipn in Hk; [|lia]. lia. }
  assert (HJ : Jr r = 2 ^ (16 - 4 * N.of_nat r)).
  { destruct r as [|[|[|[|r']]]]; try lia; reflexivity. }
  destruct (A_mid q m h (16 * (7 - N.of_nat g)) (16 - 4 * N.of_nat r)) as [E L]; try lia; try exact Hh.
  replace (16 - (16 - 4 * N.of_nat r)) with (4 * N.of_nat r) in E by lia.
  split; [|split; [rewrite HJ; exact L | exact HI]].
  rewrite groups6_idx. rewrite <- (firstn_skipn g idx) at 1.
  rewrite map_app, (fixed_part q m g r h) by (try exact Hh; lia).
  rewrite idx_skipn_cons by exact Hg7. cbn [map]. rewrite host_part by exact HI.
  rewrite grp_div, E, HJ. reflexivity.
Qed.

(* ================================================================== from the three texts to coverage by the cut pattern *)
Lemma first_diff_at Q c1 c2 r1 r2 : c1 <> c2 -> forall i,
  first_diff (Q ++ c1 :: r1) (Q ++ c2 :: r2) i = DiffAt (i + length Q).
Proof.
  intros Hc. induction Q as [|c Q IH]; intros i; cbn [app first_diff length].
  - apply N.eqb_neq in Hc. rewrite Hc. f_equal. lia.
  - rewrite N.eqb_refl, IH. f_equal. lia.
Qed.

Lemma firstn_len_app {A} (Q R : list A) : firstn (length Q) (Q ++ R) = Q.
Proof. pose proof (firstn_app_len Q R 0) as X. rewrite Nat.add_0_r in X. cbn [firstn] in X. rewrite app_nil_r in X. exact X. Qed.

Lemma pat6_from_texts nl sub x Q c1 c2 r1 r2 r3 :
  show6 sub = Q ++ c1 :: r1 -> show6 (sub + 2 ^ (128 - nl) - 1) = Q ++ c2 :: r2 -> c1 <> c2 ->
  show6 x = Q ++ r3 ->
  exists p, pat6 nl None sub = Ok p /\ pat_matches p (show6 x) = true.
Proof.
  intros E1 E2 Hc E3. unfold pat6. rewrite app_nil_r, E1, E2, (first_diff_at Q c1 c2 r1 r2 Hc 0).
  cbn [Nat.add]. rewrite <- app_assoc, firstn_len_app. eexists. split; [reflexivity|].
  assert (HQ : plain_text Q = true).
  { pose proof (show6g_plain (groups6 sub)) as P. fold (show6 sub) in P. rewrite E1, forallb_app in P.
    apply andb_true_iff in P. exact (proj1 P). }
  apply (pat_prefix_star Q _ HQ). rewrite E3. apply prefixb_app.
Qed.

(* ================================================================== the three texts *)
Lemma texts_r0 F n Hx : nz F -> Hx <> [] ->
  exists Q c1 r1 r2 r3,
    show6g (F ++ repeat 0 (S n)) = Q ++ c1 :: r1 /\
    show6g (F ++ repeat 65535 (S n)) = Q ++ 102 :: r2 /\ c1 <> 102 /\
    show6g (F ++ Hx) = Q ++ r3.
Proof.
  intros HF HH. destruct (show6g_zeros F n HF) as [c1 [r1 [E1 Hc]]].
  destruct (show6g_prefix_g F 65535 (repeat 65535 n) HF ltac:(discriminate)) as [r2 E2].
  destruct (show6g_prefix F Hx HF HH) as [r3 E3].
  exists (D F), c1, r1, ([102; 102; 102] ++ r2), r3. repeat split; assumption.
Qed.

Lemma fix0 r : (1 <= r <= 3)%nat -> exists d, fixdigits (4 - r) 0 = 48 :: d.
Proof. intros H. destruct r as [|[|[|[|r]]]]; try lia; eexists; reflexivity. Qed.
Lemma fixf r : (1 <= r <= 3)%nat -> exists d, fixdigits (4 - r) (Jr r - 1) = 102 :: d.
Proof. intros H. destruct r as [|[|[|[|r]]]]; try lia; eexists; reflexivity. Qed.
Lemma hexf r : (1 <= r <= 3)%nat -> exists d, hex4 (Jr r - 1) = 102 :: d.
Proof. intros H. destruct r as [|[|[|[|r]]]]; try lia; eexists; reflexivity. Qed.

Lemma texts_rpos F r t lowx n Hx : nz F -> (1 <= r <= 3)%nat -> t < 2 ^ (4 * N.of_nat r) -> lowx < Jr r ->
  exists Q c1 r1 r2 r3,
    show6g (F ++ (t * Jr r + 0) :: repeat 0 n) = Q ++ c1 :: r1 /\
    show6g (F ++ (t * Jr r + (Jr r - 1)) :: repeat 65535 n) = Q ++ 102 :: r2 /\ c1 <> 102 /\
    show6g (F ++ (t * Jr r + lowx) :: Hx) = Q ++ r3.
Proof.
  intros HF Hr Ht Hl.
  assert (HJ : 0 < Jr r /\ 2 ^ (4 * N.of_nat r) * Jr r = 65536).
  { destruct r as [|[|[|[|r]]]]; try lia; split; reflexivity. }
  destruct HJ as [HJ0 HJ].
  assert (Hhi : t * Jr r + (Jr r - 1) <> 0) by (destruct r as [|[|[|[|r]]]]; try lia; cbn [Jr]; lia).
  destruct (N.eq_dec t 0) as [->|Htnz].
  - rewrite !N.mul_0_l, !N.add_0_l.
    destruct (show6g_zeros F n HF) as [c1 [r1 [E1 Hc]]].
    destruct (show6g_prefix_g F (Jr r - 1) (repeat 65535 n) HF) as [r2 E2].
    { rewrite N.mul_0_l, N.add_0_l in Hhi. exact Hhi. }
    destruct (hexf r Hr) as [d Ed]. rewrite Ed in E2.
    destruct (show6g_prefix F (lowx :: Hx) HF ltac:(discriminate)) as [r3 E3].
    exists (D F), c1, r1, (d ++ r2), r3. repeat split; try assumption.
  - assert (B : forall low, low < Jr r -> t * Jr r + low < 65536) by (intros low Hlow; nia).
    assert (NZ : forall low, t * Jr r + low <> 0) by (intros low; nia).
    destruct (show6g_prefix_g F _ (repeat 0 n) HF (NZ 0)) as [r1 E1].
    destruct (show6g_prefix_g F _ (repeat 65535 n) HF (NZ (Jr r - 1))) as [r2 E2].
    destruct (show6g_prefix_g F _ Hx HF (NZ lowx)) as [r3 E3].
    rewrite (hx r t 0 Hr Htnz (B 0 HJ0) HJ0) in E1.
    assert (HJ1 : Jr r - 1 < Jr r) by lia.
    rewrite (hx r t (Jr r - 1) Hr Htnz (B _ HJ1) HJ1) in E2.
    rewrite (hx r t lowx Hr Htnz (B _ Hl) Hl) in E3.
    destruct (fix0 r Hr) as [d0 E0]. destruct (fixf r Hr) as [df Ef]. rewrite E0 in E1. rewrite Ef in E2.
    exists (D F ++ hex4 t), 48, (d0 ++ r1), (df ++ r2), (fixdigits (4 - r) lowx ++ r3).
    rewrite E1, E2, E3, <- !app_assoc. repeat split; try reflexivity. discriminate.
Qed.

(* ================================================================== one nibble-aligned subnet *)
Definition nl_facts (nl : N) : bool :=
  if nl mod 4 =? 0
  then (N.of_nat (16 * N.to_nat (nl / 16) + 4 * N.to_nat ((nl mod 16) / 4)) =? nl)
       && Nat.leb (N.to_nat ((nl mod 16) / 4)) 3
  else true.
Lemma nl_facts_ok nl : nl <= 128 -> nl_facts nl = true.
Proof.
  intros H. assert (C : forallb nl_facts (nseq 129) = true) by (vm_compute; reflexivity).
  rewrite forallb_forall in C. apply C. apply In_nseq. lia.
Qed.

Lemma nonzero_nz l : nonzero_groups l = true -> nz l.
Proof.
  unfold nonzero_groups, nz. rewrite forallb_forall, Forall_forall. intros H g Hg.
  specialize (H g Hg). apply negb_true_iff in H. apply N.eqb_neq in H. exact H.
Qed.

Lemma Fq_length q m g : (g <= 8)%nat -> length (Fq q m g) = g.
Proof. intros H. unfold Fq. rewrite map_length, firstn_length. cbn [idx length]. lia. Qed.

Lemma pat6_cover nl sub x :
  nl < 128 -> nl mod 4 = 0 -> sub mod 2 ^ (128 - nl) = 0 -> sub <= x -> x < sub + 2 ^ (128 - nl) ->
  nonzero_groups (firstn (N.to_nat (nl / 16)) (groups6 sub)) = true ->
  exists p, pat6 nl None sub = Ok p /\ pat_matches p (show6 x) = true.
Proof.
  intros Hnl H4 Hmod Hlo Hhi Hnz.
  pose proof (nl_facts_ok nl ltac:(lia)) as NF. unfold nl_facts in NF. rewrite H4 in NF. cbn [N.eqb] in NF.
  apply andb_true_iff in NF. destruct NF as [NF1 NF2]. apply N.eqb_eq in NF1. apply Nat.leb_le in NF2.
  set (g := N.to_nat (nl / 16)) in *. set (r := N.to_nat ((nl mod 16) / 4)) in *.
  set (m := 128 - nl) in *.
  assert (Hm : m = 128 - N.of_nat (16 * g + 4 * r)) by (rewrite NF1; reflexivity).
  assert (Hgr : (16 * g + 4 * r < 128)%nat) by lia.
  pose proof (pow2_nz m) as Hpm.
  set (q := sub / 2 ^ m).
  assert (Esub : sub = q * 2 ^ m).
  { pose proof (N.div_mod sub (2 ^ m) Hpm) as E. rewrite Hmod, N.add_0_r in E. unfold q. lia. }
  set (hx := x - sub). assert (Hhx : hx < 2 ^ m) by (unfold hx; lia).
  assert (Ex : x = q * 2 ^ m + hx) by (unfold hx; lia).
  assert (Ehi : sub + 2 ^ m - 1 = q * 2 ^ m + (2 ^ m - 1)) by lia.
  assert (Hh1 : 2 ^ m - 1 < 2 ^ m) by lia.
  assert (Hh0 : 0 < 2 ^ m) by lia.
  assert (HF : nz (Fq q m g)).
  { apply nonzero_nz. destruct (Nat.eq_dec r 0) as [R0|R0].
    - destruct (groups_r0 q m g 0 ltac:(lia) ltac:(rewrite Hm, R0; f_equal; f_equal; lia) Hh0) as [E _].
      rewrite N.add_0_r, <- Esub in E. rewrite E in Hnz.
      rewrite <- (Fq_length q m g ltac:(lia)) in Hnz at 1. rewrite firstn_len_app in Hnz. exact Hnz.
    - destruct (groups_rpos q m g r 0 ltac:(lia) ltac:(lia) Hm Hh0) as [E _].
      rewrite N.add_0_r, <- Esub in E. rewrite E in Hnz.
      rewrite <- (Fq_length q m g ltac:(lia)) in Hnz at 1. rewrite firstn_len_app in Hnz. exact Hnz. }
  destruct (Nat.eq_dec r 0) as [R0|R0].
  - assert (Hm0 : m = 128 - N.of_nat (16 * g)) by (rewrite Hm, R0; f_equal; f_equal; lia).
    destruct (groups_r0 q m g 0 ltac:(lia) Hm0 Hh0) as [E0 HI].
    destruct (groups_r0 q m g (2 ^ m - 1) ltac:(lia) Hm0 Hh1) as [E1 _].
    destruct (groups_r0 q m g hx ltac:(lia) Hm0 Hhx) as [E2 _].
    rewrite hostg_zero in E0. rewrite (hostg_ones m _ HI) in E1.
    assert (Hlen : length (skipn g idx) = S (7 - g)) by (rewrite idx_skipn_len; lia).
    rewrite Hlen in E0, E1.
    assert (Hne : hostg hx (skipn g idx) <> []).
    { intros C. apply (f_equal (@length N)) in C. unfold hostg in C. rewrite map_length, Hlen in C. discriminate. }
    destruct (texts_r0 (Fq q m g) (7 - g) _ HF Hne) as [Q [c1 [r1 [r2 [r3 [T0 [T1 [Hc T2]]]]]]]].
    apply (pat6_from_texts nl sub x Q c1 102 r1 r2 r3); [| | exact Hc |].
    + unfold show6. rewrite Esub at 1. rewrite <- (N.add_0_r (q * 2 ^ m)), E0. exact T0.
    + unfold show6. fold m. rewrite Ehi, E1. exact T1.
    + unfold show6. rewrite Ex, E2. exact T2.
  - assert (Hr13 : (1 <= r <= 3)%nat) by lia.
    destruct (groups_rpos q m g r 0 ltac:(lia) ltac:(lia) Hm Hh0) as [E0 [_ HI]].
    destruct (groups_rpos q m g r (2 ^ m - 1) ltac:(lia) ltac:(lia) Hm Hh1) as [E1 _].
    destruct (groups_rpos q m g r hx ltac:(lia) ltac:(lia) Hm Hhx) as [E2 [Hlx _]].
    cbn zeta in *.
    rewrite hostg_zero in E0. rewrite (hostg_ones m _ HI) in E1.
    rewrite N.div_0_l in E0 by apply pow2_nz.
    assert (Elow : (2 ^ m - 1) / 2 ^ (16 * (7 - N.of_nat g)) = Jr r - 1).
    { rewrite pow_m1_div by lia. replace (m - 16 * (7 - N.of_nat g)) with (16 - 4 * N.of_nat r) by lia.
      destruct r as [|[|[|[|r']]]]; try lia; reflexivity. }
    rewrite Elow in E1.
    assert (Ht : q mod 2 ^ (4 * N.of_nat r) < 2 ^ (4 * N.of_nat r)) by (apply N.mod_lt, pow2_nz).
    destruct (texts_rpos (Fq q m g) r _ _ (length (skipn (S g) idx)) (hostg hx (skipn (S g) idx)) HF Hr13 Ht Hlx)
      as [Q [c1 [r1 [r2 [r3 [T0 [T1 [Hc T2]]]]]]]].
    apply (pat6_from_texts nl sub x Q c1 102 r1 r2 r3); [| | exact Hc |].
    + unfold show6. rewrite Esub at 1. rewrite <- (N.add_0_r (q * 2 ^ m)), E0. exact T0.
    + unfold show6. fold m. rewrite Ehi, E1. exact T1.
    + unfold show6. rewrite Ex, E2. exact T2.
Qed.

(* ================================================================== the whole expansion *)
Definition len_facts6 (len : N) : bool :=
  let d := (4 - len mod 4) mod 4 in
  let nl := len + d in
  (nl mod 4 =? 0) && (nl <=? 128) && (2 ^ (128 - len) =? 2 ^ d * 2 ^ (128 - nl)).
Lemma len_facts6_ok len : len <= 128 -> len_facts6 len = true.
Proof.
  intros H. assert (C : forallb len_facts6 (nseq 129) = true) by (vm_compute; reflexivity).
  rewrite forallb_forall in C. apply C. apply In_nseq. lia.
Qed.

Lemma oall_in {A} (l : list (outcome A)) r p : oall l = Ok r -> In (Ok p) l -> In p r.
Proof.
  revert r. induction l as [|y l IH]; intros r E Hin; [contradiction|].
  cbn [oall] in E. destruct y as [a|c|c]; cbn [obind] in E; try discriminate.
  destruct (oall l) as [r'|c|c]; cbn [obind] in E; try discriminate.
  injection E as <-. destruct Hin as [Hy|Hin].
  - injection Hy as ->. left. reflexivity.
  - right. apply (IH r' eq_refl Hin).
Qed.

Theorem v6_cover a len sc x :
  wf_net 128 a len -> (len = 128 -> sc = None) -> fixed_nonzero6 a len = true -> in_net 128 a len x ->
  exists pats, expand6 a len sc = Ok pats /\ covered pats (show6 x) = true.
Proof.
  intros [Hl [Ha Hmod]] Hsc Hfix [Hx1 Hx2].
  destruct (expand_total (Net6 a len sc)) as [pats Epats]. cbn [expand] in Epats.
  exists pats. split; [exact Epats|].
  pose proof (len_facts6_ok len Hl) as LF. unfold len_facts6 in LF. unfold fixed_nonzero6 in Hfix.
  unfold expand6 in Epats.
  set (d := (4 - len mod 4) mod 4) in *. set (nl := len + d) in *. cbn zeta in LF.
  apply andb_true_iff in LF. destruct LF as [LF L3]. apply andb_true_iff in LF. destruct LF as [L1 L2].
  apply N.eqb_eq in L1. apply N.leb_le in L2. apply N.eqb_eq in L3.
  set (step := 2 ^ (128 - nl)) in *. pose proof (pow2_nz (128 - nl)) as Hstep. fold step in Hstep.
  assert (Hsc' : (if len =? 128 then sc else None) = None).
  { destruct (len =? 128) eqn:E; [apply N.eqb_eq in E; auto | reflexivity]. }
  rewrite Hsc' in Epats.
  set (i := (x - a) / step).
  assert (Hi : i < 2 ^ d).
  { unfold i. apply N.div_lt_upper_bound; [exact Hstep|]. rewrite N.mul_comm, <- L3. lia. }
  set (sub := a + i * step).
  assert (Hin : In sub (subnets 128 a len d)).
  { unfold subnets. apply in_map_iff. exists i. split; [reflexivity | apply In_nseq; exact Hi]. }
  assert (Hs1 : sub <= x).
  { pose proof (N.mul_div_le (x - a) step Hstep). unfold sub, i. lia. }
  assert (Hs2 : x < sub + step).
  { pose proof (N.mul_succ_div_gt (x - a) step Hstep). unfold sub, i. lia. }
  assert (Hs3 : sub mod step = 0).
  { rewrite L3 in Hmod. pose proof (N.div_mod a (2 ^ d * step) ltac:(pose proof (pow2_nz d); lia)) as E.
    rewrite Hmod, N.add_0_r in E. unfold sub. rewrite E.
    replace (2 ^ d * step * (a / (2 ^ d * step)) + i * step) with ((2 ^ d * (a / (2 ^ d * step)) + i) * step) by ring.
    apply N.mod_mul. exact Hstep. }
  rewrite forallb_forall in Hfix. specialize (Hfix sub Hin).
  assert (Hp : exists p, pat6 nl None sub = Ok p /\ pat_matches p (show6 x) = true).
  { destruct (N.eq_dec nl 128) as [E128|Hne].
    - exists (show6 sub). rewrite E128. split; [apply pat6_host|].
      unfold step in Hs2. rewrite E128 in Hs2. change (2 ^ (128 - 128)) with 1 in Hs2.
      assert (Exs : x = sub) by lia. rewrite Exs. apply show6_self.
    - apply pat6_cover; try assumption; lia. }
  destruct Hp as [p [Ep Hm]].
  unfold covered. apply existsb_exists. exists p. split; [|exact Hm].
  apply (oall_in _ _ _ Epats). rewrite <- Ep. apply in_map. exact Hin.
Qed.

Definition A6 (groups : list N) : N := be_val 65536 groups.

(* ================================================================== no exactness for IPv6 *)
(* the patterns over-approximate: 2001:db8::/33 yields "2001:db8:*" (first subnet 2001:db8::/36, whose
   first and last address texts differ right after "2001:db8:"), which matches 2001:db8:8000:: *)
Lemma v6_exact_refuted :
  exists a len y pats,
    wf_net 128 a len /\ fixed_nonzero6 a len = true /\ y < 2 ^ 128 /\ ~ in_net 128 a len y /\
    expand6 a len None = Ok pats /\ covered pats (show6 y) = true.
Proof.
  exists (A6 [8193; 3512; 0; 0; 0; 0; 0; 0]), 33, (A6 [8193; 3512; 32768; 0; 0; 0; 0; 0]).
  eexists. split; [|split; [|split; [|split; [|split]]]].
  - unfold wf_net. repeat split; vm_compute; congruence.
  - vm_compute. reflexivity.
  - vm_compute. reflexivity.
  - unfold in_net. intros [_ H]. vm_compute in H. discriminate.
  - vm_compute. reflexivity.
  - vm_compute. reflexivity.
Qed.
