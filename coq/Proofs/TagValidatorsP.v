(* C19 - tag validators: observers, order independent, TLP check exact. *)
From Coq Require Import NArith List Bool Arith Permutation.
From PS Require Import Base.Chars Model.TagValidators.
Import ListNotations.
Open Scope N_scope.

Lemma validate_tags_char vs : forall tags,
  validate_tags vs tags = (flat_map (fun v => tv_check v tags) vs, tags).
Proof.
  induction vs as [|v vs IH]; intros tags; simpl; [reflexivity|]. rewrite IH. reflexivity.
Qed.

(* validation only observes: whatever validators run, in whatever order, the rule's tags are what they were *)
Theorem tags_unchanged vs tags : snd (validate_tags vs tags) = tags.
Proof. rewrite validate_tags_char. reflexivity. Qed.

(* every validator sees the source tags, whatever ran before it *)
Theorem tags_issues_per_validator vs tags :
  fst (validate_tags vs tags) = flat_map (fun v => tv_check v tags) vs.
Proof. rewrite validate_tags_char. reflexivity. Qed.

Lemma perm_flat_map_outer' {A B} (f : A -> list B) l l' :
  Permutation l l' -> Permutation (flat_map f l) (flat_map f l').
Proof.
  induction 1; simpl.
  - constructor.
  - apply Permutation_app_head. assumption.
  - rewrite !app_assoc. apply Permutation_app_tail. apply Permutation_app_comm.
  - eapply perm_trans; eassumption.
Qed.

Theorem tags_order_independent vs vs' tags :
  Permutation vs vs' ->
  Permutation (fst (validate_tags vs tags)) (fst (validate_tags vs' tags)) /\
  snd (validate_tags vs tags) = snd (validate_tags vs' tags).
Proof.
  intros P. rewrite !validate_tags_char. simpl. split; [|reflexivity]. apply perm_flat_map_outer'. exact P.
Qed.

Lemma in_strs_In n l : in_strs n l = true <-> In n l.
Proof.
  unfold in_strs. rewrite existsb_exists. split.
  - intros (x & Hx & E). apply str_eqb_eq in E. subst. exact Hx.
  - intros H. exists n. split; [exact H | apply str_eqb_refl].
Qed.

(* a TLP issue is reported for a tag iff the tag is in the tlp namespace and its name is - exactly as
   written, case included - not one of the labels of some TLP validator of the set *)
Theorem tlp_exact vs tags t :
  In (TITlp t) (fst (validate_tags vs tags)) <->
  In t tags /\ t_ns t = s_tlp /\
  exists v allowed, In v vs /\ tlp_allowed v = Some allowed /\ ~ In (t_name t) allowed.
Proof.
  rewrite tags_issues_per_validator, in_flat_map. split.
  - intros (v & Hv & H).
    assert (X : forall allowed, tlp_allowed v = Some allowed ->
                In (TITlp t) (flat_map (fun t0 => if str_eqb (t_ns t0) s_tlp && negb (in_strs (t_name t0) allowed)
                                                  then [TITlp t0] else []) tags) ->
                In t tags /\ t_ns t = s_tlp /\ ~ In (t_name t) allowed).
    { intros allowed _ Hin. apply in_flat_map in Hin. destruct Hin as (t0 & Ht0 & Hi).
      destruct (str_eqb (t_ns t0) s_tlp && negb (in_strs (t_name t0) allowed)) eqn:E; [|contradiction].
      destruct Hi as [Hi|[]]. inversion Hi; subst t0. apply andb_true_iff in E. destruct E as [E1 E2].
      apply str_eqb_eq in E1. apply negb_true_iff in E2. repeat split; auto.
      intros Hc. apply in_strs_In in Hc. congruence. }
    destruct v; simpl in H;
      try (apply in_flat_map in H; destruct H as (t0 & _ & H);
           match type of H with In _ (if ?c then _ else _) => destruct c end;
           simpl in H; try contradiction; destruct H as [H|[]]; discriminate).
    + destruct (X _ eq_refl H) as (A & B & C). repeat split; auto. exists TTlp1, tlp1_allowed. auto.
    + destruct (X _ eq_refl H) as (A & B & C). repeat split; auto. exists TTlp2, tlp2_allowed. auto.
    + destruct (X _ eq_refl H) as (A & B & C). repeat split; auto. exists TTlp, (tlp1_allowed ++ tlp2_allowed). auto.
  - intros (Ht & Hns & v & allowed & Hv & Ha & Hn). exists v. split; [exact Hv|].
    assert (Y : In (TITlp t) (flat_map (fun t0 => if str_eqb (t_ns t0) s_tlp && negb (in_strs (t_name t0) allowed)
                                                  then [TITlp t0] else []) tags)).
    { apply in_flat_map. exists t. split; [exact Ht|]. rewrite Hns, str_eqb_refl. simpl.
      destruct (in_strs (t_name t) allowed) eqn:E; [apply in_strs_In in E; contradiction|]. left. reflexivity. }
    destruct v; simpl in Ha; try discriminate; inversion Ha; subst allowed; exact Y.
Qed.
