(* The encoding modifiers: byte content of wide / utf16be / utf16 values, text of base64 and
   base64offset values, composition along a chain, outcomes. *)
From Coq Require Import NArith List Bool Lia Arith.
From PS Require Import Base.Chars Base.Outcome Model.SString Spec.Items Spec.Utf Spec.B64 Model.Enc
     Proofs.SStringP Proofs.B64P Proofs.UtfP.
Import ListNotations.
Open Scope N_scope.

(* ---------- streams ---------- *)
Lemma stream_app f a b : stream f (a ++ b) = stream f a ++ stream f b.
Proof. unfold stream. apply flat_map_app. Qed.
Lemma stream_lits f s : stream f (map Lit s) = map SB (flat_map f s).
Proof.
  induction s as [|c s IH]; [reflexivity|].
  cbn [map flat_map]. rewrite map_app, <- IH. reflexivity.
Qed.
Lemma items_cons p v : items (p :: v) = part_items p ++ items v.
Proof. reflexivity. Qed.
Lemma vstream_cons p v : vstream (p :: v) = stream utf8_char (part_items p) ++ vstream v.
Proof. unfold vstream. rewrite items_cons, stream_app. reflexivity. Qed.

Lemma stream_all_lit f l : all_lit l = true -> stream f l = map SB (flat_map f (lits l)).
Proof.
  induction l as [|i l IH]; intros H; [reflexivity|].
  cbn [all_lit forallb] in H. apply andb_true_iff in H. destruct H as [Hi Hl].
  destruct i; try discriminate. cbn [stream flat_map lits app]. rewrite map_app. f_equal. apply IH, Hl.
Qed.

Definition is_wild (x : sitem) : bool := match x with SW _ => true | _ => false end.
Lemma wild_map_SB bs : existsb is_wild (map SB bs) = false.
Proof. induction bs; [reflexivity|]. simpl. exact IHbs. Qed.
Lemma stream_wild f l : existsb is_wild (stream f l) = negb (all_lit l).
Proof.
  induction l as [|i l IH]; [reflexivity|].
  cbn [stream flat_map all_lit forallb]. rewrite existsb_app. fold (stream f l). rewrite IH.
  destruct i; cbn; try reflexivity. rewrite wild_map_SB. reflexivity.
Qed.

Lemma map_SB_inj a b : map SB a = map SB b -> a = b.
Proof.
  revert b. induction a as [|x a IH]; intros [|y b] H; try discriminate; [reflexivity|].
  inversion H. f_equal. apply IH. assumption.
Qed.

(* ---------- values without wildcards and placeholders ---------- *)
Lemma all_lit_app a b : all_lit (a ++ b) = all_lit a && all_lit b.
Proof. unfold all_lit. apply forallb_app. Qed.
Lemma all_lit_map_Lit s : all_lit (map Lit s) = true.
Proof. induction s; [reflexivity|]. exact IHs. Qed.
Lemma all_lit_items v : all_lit (items v) = negb (contains_special v) && negb (contains_placeholder v).
Proof.
  induction v as [|p v IH]; [reflexivity|].
  rewrite items_cons, all_lit_app, IH. unfold contains_special, contains_placeholder. cbn [existsb].
  destruct p; cbn [part_items]; rewrite ?all_lit_map_Lit; cbn; try reflexivity.
  rewrite andb_false_r. reflexivity.
Qed.

Lemma lits_app a b : lits (a ++ b) = lits a ++ lits b.
Proof. unfold lits. apply flat_map_app. Qed.
Lemma lits_map_Lit s : lits (map Lit s) = s.
Proof. induction s as [|c s IH]; [reflexivity|]. cbn. f_equal. exact IH. Qed.

Lemma to_plain_lits v : all_lit (items v) = true -> to_plain true v = lits (items v).
Proof.
  induction v as [|p v IH]; intros H; [reflexivity|].
  rewrite items_cons, all_lit_app in H. apply andb_true_iff in H. destruct H as [Hp Hv].
  rewrite to_plain_cons, items_cons, lits_app, IH by exact Hv.
  destruct p; try discriminate. cbn [part_plain part_items]. rewrite lits_map_Lit. reflexivity.
Qed.

Lemma iparse_no_ph s : forall n, ~ In (Ph n) (iparse s).
Proof.
  assert (G : forall k s, (length s <= k)%nat -> forall n, ~ In (Ph n) (iparse s)).
  { induction k as [|k IH]; intros s0 Hk n.
    - destruct s0; [intros []|simpl in Hk; lia].
    - destruct s0 as [|c s']; [intros []|]. simpl in Hk. cbn [iparse].
      destruct (N.eqb c c_bs).
      + destruct s' as [|d s'']; [intros [H|[]]; discriminate|].
        simpl in Hk. destruct (is_special d || N.eqb d c_bs).
        * intros [H|H]; [discriminate|]. exact (IH s'' ltac:(lia) n H).
        * intros [H|[H|H]]; try discriminate. exact (IH s'' ltac:(lia) n H).
      + destruct (is_special c).
        * intros [H|H]; [unfold special_item in H; destruct (N.eqb c c_star); discriminate|].
          exact (IH s' ltac:(lia) n H).
        * intros [H|H]; [discriminate|]. exact (IH s' ltac:(lia) n H). }
  intros n. apply (G (length s)). lia.
Qed.

Lemma contains_placeholder_items v :
  contains_placeholder v = existsb (fun i => match i with Ph _ => true | _ => false end) (items v).
Proof.
  induction v as [|p v IH]; [reflexivity|].
  rewrite items_cons, existsb_app, <- IH. unfold contains_placeholder. cbn [existsb].
  destruct p; cbn [part_items existsb]; rewrite ?orb_false_r; try reflexivity.
  induction s; [reflexivity|]. exact IHs.
Qed.

Lemma parse_no_placeholder s : contains_placeholder (parse true s) = false.
Proof.
  rewrite contains_placeholder_items, parse_items.
  destruct (existsb _ (iparse s)) eqn:E; [|reflexivity].
  apply existsb_exists in E. destruct E as [i [Hi Hp]]. destruct i; try discriminate.
  exfalso. exact (iparse_no_ph s name Hi).
Qed.

(* ---------- texts over the Base64 alphabet are read back as they are ---------- *)
Definition plain_char (c : char) : bool := negb (is_special c || N.eqb c c_bs).
Lemma iparse_plain t : forallb plain_char t = true -> iparse t = map Lit t.
Proof.
  induction t as [|c t IH]; intros H; [reflexivity|].
  cbn [forallb] in H. apply andb_true_iff in H. destruct H as [Hc Ht].
  unfold plain_char in Hc. apply negb_true_iff, orb_false_iff in Hc. destruct Hc as [H1 H2].
  cbn [iparse map]. rewrite H2, H1, IH by exact Ht. reflexivity.
Qed.

Lemma sextet_plain g : plain_char (sextet g) = true.
Proof.
  unfold sextet. destruct (nth_in_or_default (N.to_nat (bits_val g)) alphabet 0) as [Hin | ->]; [|reflexivity].
  assert (A : forallb plain_char alphabet = true) by (vm_compute; reflexivity).
  rewrite forallb_forall in A. apply A, Hin.
Qed.
Lemma full6_plain l : forallb plain_char (full6 l) = true.
Proof.
  unfold full6. induction (full_groups6 l) as [|g gs IH]; [reflexivity|].
  cbn [map forallb]. rewrite sextet_plain, IH. reflexivity.
Qed.
Lemma rfc4648_plain b : forallb plain_char (rfc4648 b) = true.
Proof.
  unfold rfc4648. rewrite forallb_app. apply andb_true_iff. split.
  - unfold enc6. induction (groups6 (bits b)) as [|g gs IH]; [reflexivity|].
    cbn [map forallb]. rewrite sextet_plain, IH. reflexivity.
  - induction (Nat.modulo _ _) as [|n IH]; [reflexivity|]. cbn [repeat forallb]. rewrite IH. reflexivity.
Qed.

Lemma items_parse_plain t : forallb plain_char t = true -> items (parse true t) = map Lit t.
Proof. intros H. rewrite parse_items. apply iparse_plain, H. Qed.

(* ---------- __bytes__ ---------- *)
Lemma bytes_of_lits v b : all_lit (items v) = true -> bytes_of v = Some b ->
  b = utf8 (lits (items v)) /\ forallb scalar (lits (items v)) = true.
Proof.
  intros H. unfold bytes_of, py_encode. rewrite to_plain_lits by exact H.
  destruct (forallb scalar (lits (items v))); intros E; inversion E. split; reflexivity.
Qed.

(* ---------- base64 ---------- *)
Theorem base64_value v x : contains_placeholder v = false -> mod_str MBase64 v = Ok x ->
  exists w, x = VStr w /\ all_lit (items v) = true
            /\ items w = map Lit (rfc4648 (utf8 (lits (items v)))).
Proof.
  intros Hp H. unfold mod_str in H.
  destruct (contains_special v) eqn:Hs; [discriminate|].
  destruct (bytes_of v) as [b|] eqn:Hb; [|discriminate]. inversion H; subst x. clear H.
  assert (A : all_lit (items v) = true) by (rewrite all_lit_items, Hs, Hp; reflexivity).
  destruct (bytes_of_lits v b A Hb) as [-> Hsc].
  eexists. split; [reflexivity|]. split; [exact A|].
  rewrite b64_rfc4648 by (apply utf8_ok, Hsc).
  apply items_parse_plain, rfc4648_plain.
Qed.

Theorem base64_reject m v e : m = MBase64 \/ m = MBase64Offset -> mod_str m v = SigmaErr e ->
  contains_special v = true \/ forallb scalar (to_plain true v) = false.
Proof.
  intros [-> | ->] H; unfold mod_str in H.
  - destruct (contains_special v); [left; reflexivity|].
    unfold bytes_of, py_encode in H. destruct (forallb scalar (to_plain true v)); [discriminate|]. right; reflexivity.
  - destruct (contains_special v); [left; reflexivity|].
    unfold bytes_of, py_encode in H. destruct (forallb scalar (to_plain true v)); [discriminate|]. right; reflexivity.
Qed.

(* ---------- base64offset ---------- *)
Theorem base64offset_value v x : contains_placeholder v = false -> mod_str MBase64Offset v = Ok x ->
  exists w0 w1 w2, x = VExp [VStr w0; VStr w1; VStr w2] /\ all_lit (items v) = true
    /\ bytes_ok (utf8 (lits (items v))) = true
    /\ items w0 = map Lit (variant 0 (utf8 (lits (items v))))
    /\ items w1 = map Lit (variant 1 (utf8 (lits (items v))))
    /\ items w2 = map Lit (variant 2 (utf8 (lits (items v)))).
Proof.
  intros Hp H. unfold mod_str in H.
  destruct (contains_special v) eqn:Hs; [discriminate|].
  destruct (bytes_of v) as [b|] eqn:Hb; [|discriminate]. inversion H; subst x. clear H.
  assert (A : all_lit (items v) = true) by (rewrite all_lit_items, Hs, Hp; reflexivity).
  destruct (bytes_of_lits v b A Hb) as [-> Hsc].
  pose proof (utf8_ok _ Hsc) as Hok.
  do 3 eexists. split; [reflexivity|]. split; [exact A|]. split; [exact Hok|].
  repeat split; apply items_parse_plain; rewrite variant_payload_text by (try lia; exact Hok);
    apply full6_plain.
Qed.

Theorem variant_length i p : (i < 3)%nat -> bytes_ok p = true ->
  length (variant i p) = ((8 * length p - lead_bits i) / 6)%nat.
Proof.
  intros Hi Hp. rewrite variant_payload_text by assumption. unfold payload_text.
  rewrite length_full6, skipn_length, length_bits. reflexivity.
Qed.

(* ---------- wide, utf16be, utf16 ---------- *)
Lemma py_encode_some enc s b : py_encode enc s = Some b -> b = enc s /\ forallb scalar s = true.
Proof. unfold py_encode. destruct (forallb scalar s); intros H; inversion H. split; reflexivity. Qed.

Theorem recode_stream (f : char -> list N) v w :
  recode (flat_map f) v = Ok w -> vstream w = stream f (items v).
Proof.
  revert w. induction v as [|p v IH]; intros w H.
  - inversion H. reflexivity.
  - destruct p as [s| | |n]; cbn [recode] in H.
    + destruct (py_encode (flat_map f) s) as [bs|] eqn:E1; [|discriminate].
      destruct (utf8_dec bs) as [s'|] eqn:E2; [|discriminate].
      destruct (recode (flat_map f) v) as [r| |]; try discriminate. inversion H; subst w.
      apply py_encode_some in E1. destruct E1 as [-> _].
      apply utf8_dec_sound in E2. destruct E2 as [U _].
      rewrite vstream_cons, items_cons, stream_app, (IH r eq_refl).
      cbn [part_items]. rewrite !stream_lits. f_equal. f_equal. exact U.
    + destruct (recode (flat_map f) v) as [r| |]; try discriminate. inversion H; subst w.
      rewrite vstream_cons, items_cons, stream_app, (IH r eq_refl). reflexivity.
    + destruct (recode (flat_map f) v) as [r| |]; try discriminate. inversion H; subst w.
      rewrite vstream_cons, items_cons, stream_app, (IH r eq_refl). reflexivity.
    + destruct (recode (flat_map f) v) as [r| |]; try discriminate. inversion H; subst w.
      rewrite vstream_cons, items_cons, stream_app, (IH r eq_refl). reflexivity.
Qed.

(* the strings of a recoded value are strings of scalar values *)
Lemma recode_scalar enc v w : recode enc v = Ok w ->
  forall s, In (PStr s) w -> forallb scalar s = true.
Proof.
  revert w. induction v as [|p v IH]; intros w H s Hin.
  - inversion H; subst. destruct Hin.
  - destruct p as [s0| | |n]; cbn [recode] in H.
    + destruct (py_encode enc s0) as [bs|]; [|discriminate].
      destruct (utf8_dec bs) as [s'|] eqn:E2; [|discriminate].
      destruct (recode enc v) as [r| |]; try discriminate. inversion H; subst w.
      destruct Hin as [Hin|Hin]; [inversion Hin; subst; apply (utf8_dec_sound _ _ E2)|].
      exact (IH r eq_refl s Hin).
    + destruct (recode enc v) as [r| |]; try discriminate. inversion H; subst w.
      destruct Hin as [Hin|Hin]; [discriminate|]. exact (IH r eq_refl s Hin).
    + destruct (recode enc v) as [r| |]; try discriminate. inversion H; subst w.
      destruct Hin as [Hin|Hin]; [discriminate|]. exact (IH r eq_refl s Hin).
    + destruct (recode enc v) as [r| |]; try discriminate. inversion H; subst w.
      destruct Hin as [Hin|Hin]; [discriminate|]. exact (IH r eq_refl s Hin).
Qed.

(* rejection happens only for a string part that cannot be encoded, or whose encoding no string
   value can carry *)
Theorem recode_reject (f : char -> list N) v e : recode (flat_map f) v = SigmaErr e ->
  exists s, In (PStr s) v /\
    (forallb scalar s = false \/ forall s', forallb scalar s' = true -> utf8 s' <> flat_map f s).
Proof.
  induction v as [|p v IH]; intros H; [discriminate|].
  assert (K : recode (flat_map f) v = SigmaErr e -> exists s, In (PStr s) (p :: v) /\
    (forallb scalar s = false \/ forall s', forallb scalar s' = true -> utf8 s' <> flat_map f s)).
  { intros H'. destruct (IH H') as [s [Hin Hs]]. exists s. split; [right; exact Hin | exact Hs]. }
  destruct p as [s| | |n]; cbn [recode] in H.
  - unfold py_encode in H. destruct (forallb scalar s) eqn:Es.
    + destruct (utf8_dec (flat_map f s)) as [s'|] eqn:E2.
      * destruct (recode (flat_map f) v) as [r|e'|c]; try discriminate. inversion H; subst. apply K. reflexivity.
      * exists s. split; [left; reflexivity|]. right. apply utf8_dec_none, E2.
    + exists s. split; [left; reflexivity|]. left. exact Es.
  - destruct (recode (flat_map f) v) as [r|e'|c]; try discriminate. inversion H; subst. apply K. reflexivity.
  - destruct (recode (flat_map f) v) as [r|e'|c]; try discriminate. inversion H; subst. apply K. reflexivity.
  - destruct (recode (flat_map f) v) as [r|e'|c]; try discriminate. inversion H; subst. apply K. reflexivity.
Qed.

Lemma recode_no_crash enc v : forall c, recode enc v <> Crash c.
Proof.
  induction v as [|p v IH]; intros c; [discriminate|].
  destruct p; cbn [recode].
  - destruct (py_encode enc s); [|discriminate]. destruct (utf8_dec l); [|discriminate].
    destruct (recode enc v) as [r|e'|c'] eqn:E; cbn [obind]; try discriminate. exfalso. exact (IH c' eq_refl).
  - destruct (recode enc v) as [r|e'|c'] eqn:E; cbn [obind]; try discriminate. exfalso. exact (IH c' eq_refl).
  - destruct (recode enc v) as [r|e'|c'] eqn:E; cbn [obind]; try discriminate. exfalso. exact (IH c' eq_refl).
  - destruct (recode enc v) as [r|e'|c'] eqn:E; cbn [obind]; try discriminate. exfalso. exact (IH c' eq_refl).
Qed.

Theorem wide_bytes v x : mod_str MWide v = Ok x ->
  exists w, x = VStr w /\ vstream w = stream utf16le_char (items v).
Proof.
  unfold mod_str. destruct (recode utf16le v) as [r| |] eqn:E; try discriminate.
  intros H. inversion H. exists r. split; [reflexivity|]. apply recode_stream, E.
Qed.
Theorem utf16be_bytes v x : mod_str MUtf16be v = Ok x ->
  exists w, x = VStr w /\ vstream w = stream utf16be_char (items v).
Proof.
  unfold mod_str. destruct (recode utf16be v) as [r| |] eqn:E; try discriminate.
  intros H. inversion H. exists r. split; [reflexivity|]. apply recode_stream, E.
Qed.
(* utf16: the little-endian content is right, but it is preceded by EF BB BF, not by FF FE *)
Theorem utf16_bytes_partial v x : mod_str MUtf16 v = Ok x ->
  exists w, x = VStr w /\ vstream w = map SB [239; 187; 191] ++ stream utf16le_char (items v).
Proof.
  unfold mod_str. destruct (recode utf16le v) as [r| |] eqn:E; try discriminate.
  intros H. inversion H. eexists. split; [reflexivity|].
  rewrite vstream_cons. f_equal. apply recode_stream, E.
Qed.
Theorem utf16_never_bom v w : mod_str MUtf16 v = Ok (VStr w) ->
  vstream w <> map SB bom_le ++ stream utf16le_char (items v).
Proof.
  intros H. destruct (utf16_bytes_partial v _ H) as [w' [E S]]. inversion E; subst w'.
  rewrite S. discriminate.
Qed.
Theorem utf16_bom_refuted : exists v w, mod_str MUtf16 v = Ok (VStr w) /\
  vstream w <> map SB bom_le ++ stream utf16le_char (items v).
Proof.
  exists [PStr [97]], [PStr [65279]; PStr [97; 0]].
  assert (H : mod_str MUtf16 [PStr [97]] = Ok (VStr [PStr [65279]; PStr [97; 0]])) by (vm_compute; reflexivity).
  split; [exact H | exact (utf16_never_bom _ _ H)].
Qed.

(* ---------- a recoded value handed to the base64 modifiers ---------- *)
Lemma lits_items_scalar w : (forall s, In (PStr s) w -> forallb scalar s = true) ->
  forallb scalar (lits (items w)) = true.
Proof.
  induction w as [|p w IH]; intros H; [reflexivity|].
  rewrite items_cons, lits_app, forallb_app. apply andb_true_iff. split.
  - destruct p; try reflexivity. cbn [part_items]. rewrite lits_map_Lit. apply H. left. reflexivity.
  - apply IH. intros s Hs. apply H. right. exact Hs.
Qed.

Lemma recode_bytes (f : char -> list N) v w :
  recode (flat_map f) v = Ok w -> all_lit (items v) = true ->
  all_lit (items w) = true /\ bytes_of w = Some (flat_map f (lits (items v))).
Proof.
  intros H A. pose proof (recode_stream f v w H) as S.
  assert (Aw : all_lit (items w) = true).
  { pose proof (stream_wild utf8_char (items w)) as W. fold (vstream w) in W.
    rewrite S, stream_wild, A in W. destruct (all_lit (items w)); [reflexivity | discriminate]. }
  split; [exact Aw|].
  unfold vstream in S. rewrite (stream_all_lit _ _ Aw), (stream_all_lit _ _ A) in S.
  apply map_SB_inj in S.
  unfold bytes_of, py_encode. rewrite to_plain_lits by exact Aw.
  assert (Sc : forallb scalar (lits (items w)) = true)
    by (apply lits_items_scalar; eapply recode_scalar; eauto).
  rewrite Sc. f_equal. exact S.
Qed.

Lemma recode_placeholder enc v w : recode enc v = Ok w -> contains_placeholder w = contains_placeholder v.
Proof.
  revert w. induction v as [|p v IH]; intros w H; [inversion H; reflexivity|].
  destruct p as [s| | |n]; cbn [recode] in H.
  - destruct (py_encode enc s); [|discriminate]. destruct (utf8_dec l); [|discriminate].
    destruct (recode enc v) as [r| |]; try discriminate. inversion H; subst.
    unfold contains_placeholder. cbn [existsb]. apply (IH r eq_refl).
  - destruct (recode enc v) as [r| |]; try discriminate. inversion H; subst.
    unfold contains_placeholder. cbn [existsb]. apply (IH r eq_refl).
  - destruct (recode enc v) as [r| |]; try discriminate. inversion H; subst.
    unfold contains_placeholder. cbn [existsb]. apply (IH r eq_refl).
  - destruct (recode enc v) as [r| |]; try discriminate. inversion H; subst. reflexivity.
Qed.
