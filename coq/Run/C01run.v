From Coq Require Import NArith List Bool Arith.
From PS Require Import Base.Chars Model.Backend Spec.Target Spec.Lex Spec.Atom Spec.Query Spec.Ref Proofs.BackendDomP Run.Bits.
Import ListNotations.
Open Scope nat_scope.

Fixpoint lookup {A} (d : A) (l : list (nat * A)) (k : nat) : A :=
  match l with [] => d | (k', v) :: r => if Nat.eqb k k' then v else lookup d r k end.

Definition asg_of (mask : N) (a : nat) : bool := N.testbit mask (N.of_nat a).

Fixpoint depth (c : cond) : nat :=
  match c with
  | CNot a => S (depth a)
  | CBin _ l | CExp l => S (fold_right (fun x m => Nat.max (depth x) m) 0 l)
  | _ => 0
  end.

Record scase := {
  sc_K : cfg; sc_S : syntax; sc_tree : cond;
  sc_atexts : list (nat * (str * str));     (* atom -> text with normal / negated template *)
  sc_ftexts : list (nat * str);             (* field -> escape_and_quote_field text *)
  sc_vtexts : list (nat * str);             (* atom -> value text inside an in-list *)
  sc_query : str;                           (* implementation's query *)
  sc_native_cidr : bool;                    (* the backend has a CIDR expression *)
  sc_dets : list (str * rdet);              (* the rule's detections (items after modifiers) *)
  sc_expr : rexpr                           (* the condition as written *)
}.

(* reference meaning of the source rule (Spec/Ref.v): combination of reference predicates, their numbering,
   and the combination over the numbers *)
Definition sc_rc (c : scase) : option rc := expr_ref (sc_native_cidr c) (sc_dets c) (sc_expr c).
Definition sc_keys (c : scase) : list akey := match sc_rc c with Some r => keys_of r [] | None => [] end.
Definition sc_ref (c : scase) : option cond := option_map (number (sc_keys c)) (sc_rc c).

(* the implementation's query is read inside Coq: Spec/Lex.v splits it (theorem C01_lex_show), Spec/Atom.v
   reads every atom (theorem C01_leaf_faithful), Spec/Query.v identifies each atom with a reference
   predicate by its key; field names of this suite are plain ASCII words *)
Definition query_toks (c : scase) : option (list tok) := read_query (W_of []) (sc_keys c) (sc_query c).

Definition judge_struct (c : scase) : N :=
  let K := sc_K c in
  let at_text := fun a (n : bool) => let p := lookup ([], []) (sc_atexts c) a in if n then snd p else fst p in
  let model := show (sc_S c) at_text (lookup [] (sc_ftexts c)) (lookup [] (sc_vtexts c))
                    (conv K false (sc_tree c)) in
  let spec :=
    match query_toks c, sc_ref c with
    | Some ts, Some ref =>
      forallb (fun m => let asg := asg_of (N.of_nat m) in
                        match tparse (lvl K) asg ts with
                        | Some v => Bool.eqb v (den asg ref)
                        | None => false end)
              (seq 0 (Nat.pow 2 (length (sc_keys c))))
    | _, _ => false
    end in
  bits (str_eqb model (sc_query c)) spec (cfg_ok K && wfb K (sc_tree c)) (2 <=? depth (sc_tree c)).

(* used by --replay to print the model's rendering *)
Definition model_struct (c : scase) : str :=
  let at_text := fun a (n : bool) => let p := lookup ([], []) (sc_atexts c) a in if n then snd p else fst p in
  show (sc_S c) at_text (lookup [] (sc_ftexts c)) (lookup [] (sc_vtexts c)) (conv (sc_K c) false (sc_tree c)).

(* suite strop: (operator configuration, source string, implementation's (operator, value items)) *)
From PS Require Import Base.Outcome Model.SString Model.StrOp Spec.Items Proofs.StrOpP.
Definition sop_eqb (a b : sop) : bool :=
  match a, b with
  | OpStartswith, OpStartswith | OpEndswith, OpEndswith | OpContains, OpContains
  | OpWildMatch, OpWildMatch | OpEq, OpEq => true
  | _, _ => false
  end.
Fixpoint norm_multi (l : list item) : list item :=
  match l with
  | Multi :: ((Multi :: _) as r) => norm_multi r
  | i :: r => i :: norm_multi r
  | [] => []
  end.
Definition judge_strop (c : opcfg * str * option (sop * list item)) : N :=
  let '(K, s, r) := c in
  let v := parse true s in
  let m := str_op K v in
  let agree := match r, m with
               | Some (o, l), (o', Ok x) => sop_eqb o o' && list_eqb item_eqb l (items x)
               | _, _ => false
               end in
  let spec := match r with
              | Some (o, l) => list_eqb item_eqb (norm_multi (pattern o l)) (norm_multi (iparse s))
              | None => false
              end in
  bits agree spec true (existsb is_special s).
