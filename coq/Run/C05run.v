From Coq Require Import NArith List Bool.
From PS Require Import Base.Chars Base.Outcome Model.SString Spec.Items Proofs.ConvertP Run.Bits.
Import ListNotations.
Open Scope N_scope.

Definition part_eqb (a b : part) : bool :=
  match a, b with
  | PStr x, PStr y => str_eqb x y
  | PMulti, PMulti | PSingle, PSingle => true
  | PPh x, PPh y => str_eqb x y
  | _, _ => false
  end.
Definition parts_eqb := list_eqb part_eqb.
Definition items_eqb := list_eqb item_eqb.
Definition ostr_eqb (a b : outcome str) : bool :=
  match a, b with
  | Ok x, Ok y => str_eqb x y
  | SigmaErr x, SigmaErr y => N.eqb x y
  | Crash x, Crash y => N.eqb x y
  | _, _ => false
  end.

(* suite cased: (source, parts of SigmaCasedString.from_sigma_string(SigmaString(s)), parts of SigmaCasedString(s), parts of
   the converted string afterwards, result is a SigmaCasedString): a case-sensitive string has the parts of the parsed
   source whichever way it is made, and the conversion leaves its argument alone *)
Definition judge_cased (c : str * sstring * sstring * sstring * bool) : N :=
  let '(s, iconv, idirect, iafter, icls) := c in
  let v := parse true s in
  let agree := parts_eqb v iconv && parts_eqb v idirect && parts_eqb v iafter && icls in
  let spec := items_eqb (items iconv) (iparse s) && items_eqb (items idirect) (iparse s) && icls in
  bits agree spec true (existsb (fun x => is_special x || N.eqb x c_bs) s).

(* suite plain: (source, impl parts, impl plain form, impl parts of re-parsed plain form) *)
Definition judge_plain (c : str * sstring * str * sstring) : N :=
  let '(s, iparts, iplain, ire) := c in
  let v := parse true s in
  let agree := parts_eqb v iparts && str_eqb (to_plain false v) iplain
               && parts_eqb (parse true (to_plain false v)) ire in
  let spec := parts_eqb ire iparts && items_eqb (items iparts) (iparse s) in
  bits agree spec (no_bs_adjacent (iparse s)) (existsb (fun x => is_special x || N.eqb x c_bs) s).

(* suite convert: (configuration, source, impl result of SigmaString(s).convert(...)) *)
Definition needs_missing (K : ecfg) (l : list item) : bool :=
  existsb (fun i => match i with
                    | Multi => match e_multi K with None => true | _ => false end
                    | Single => match e_single K with None => true | _ => false end
                    | Ph _ => true
                    | _ => false end) l.
Definition judge_convert (c : ecfg * str * outcome str) : N :=
  let '(K, s, r) := c in
  let v := parse true s in
  let spec := match r with
              | Ok q => option_eqb items_eqb (tread K q) (Some (filter_items K (iparse s)))
              | SigmaErr _ => needs_missing K (iparse s)
              | Crash _ => false
              end in
  bits (ostr_eqb (convert K v) r) spec (wf_escaping K)
       (existsb (fun x => mem x (escaped_chars K) || mem x (e_filter K) || is_special x || N.eqb x c_bs) s).

(* suite regex: (source, impl regex text, [(subject, python fullmatch result)]) *)
Definition judge_regex (c : str * outcome str * list (str * bool)) : N :=
  let '(s, r, subj) := c in
  let v := parse true s in
  let spec := match r with
              | Ok q => option_eqb items_eqb (rdecode q) (Some (iparse s)) &&
                        forallb (fun sb => Bool.eqb (wild_match (iparse s) (fst sb)) (snd sb)) subj
              | _ => false
              end in
  bits (ostr_eqb (to_regex [] v) r) spec true
       (existsb (fun x => mem x regex_meta) s).

(* suite slice: (source, start, stop, impl result of SigmaString(s)[start:stop]) *)
From Coq Require Import ZArith.
From PS Require Import Model.Slice.
Definition osstr_eqb (a b : outcome sstring) : bool :=
  match a, b with
  | Ok x, Ok y => parts_eqb x y
  | SigmaErr x, SigmaErr y => N.eqb x y
  | Crash x, Crash y => N.eqb x y
  | _, _ => false
  end.
Definition judge_slice (c : str * option Z * option Z * outcome sstring) : N :=
  let '(s, start, stop, r) := c in
  let v := parse true s in
  let l := iparse s in
  let len := Z.of_nat (length l) in
  let st := match start with Some x => if (x <? 0)%Z then (len + x)%Z else x | None => 0%Z end in
  let sp := match stop with Some x => if (x <? 0)%Z then (len + x)%Z else x | None => len end in
  let oob := ((st <? 0) || (sp <? 0) || (len <? sp))%Z in
  let spec := match r with
              | Ok p => option_eqb items_eqb (spec_slice l start stop) (Some (items p))
              | Crash _ => oob
              | SigmaErr _ => false
              end in
  let dom := negb oob && (match start, stop with None, _ | _, None => true | _, _ => false end) in
  bits (osstr_eqb (getitem v start stop) r) spec dom (existsb is_special s).

(* suite quoted: (configuration, quote char, source, impl result of backend.convert_value_str) *)
From PS Require Import Proofs.QuoteP.
Definition judge_quoted (c : ecfg * char * str * outcome str) : N :=
  let '(K, q, s, r) := c in
  let v := parse true s in
  let spec := match r with
              | Ok t => option_eqb items_eqb (qread (with_quote K q) q t) (Some (filter_items K (iparse s)))
              | SigmaErr _ => needs_missing K (iparse s)
              | Crash _ => false
              end in
  bits (ostr_eqb (convert_quoted K q v) r) spec (wf_quoting K q)
       (existsb (fun x => N.eqb x q || mem x (escaped_chars K) || is_special x || N.eqb x c_bs) s).

(* suite field: (configuration, pattern match positions, quote decision, field name, impl text) *)
From PS Require Import Model.FieldName.
Definition field_ok (K : fcfg) (P : list nat) (qd : bool) (f : str) : bool :=
  match f_escape K with
  | Some [ec] =>
    (fix cov (i : nat) (l : str) : bool :=
       match l with [] => true | c :: l' => (negb (N.eqb c ec) || existsb (Nat.eqb i) P) && cov (S i) l' end) O f
    && match f_quote K with
       | Some x => negb qd || (negb (N.eqb x ec) && (f_escape_quote K || negb (mem x f)))
       | None => true end
  | _ => false
  end.
Definition judge_field (c : fcfg * list nat * bool * str * str) : N :=
  let '(K, P, qd, f, r) := c in
  let pat := fun i => existsb (Nat.eqb i) P in
  let e := match f_escape K with Some [ec] => Some ec | _ => None end in
  let quoted := match f_quote K with Some _ => qd | None => false end in
  bits (str_eqb (escape_and_quote_field K pat qd f) r)
       (option_eqb str_eqb (fread e (f_quote K) quoted r) (Some f))
       (field_ok K P qd f)
       (existsb (fun x => negb (N.leb 48 x && N.leb x 122)) f).

(* suite rxescape: (escaped sequences, escape string, escape_escape_char, flag_prefix, flags (sorted),
   regular expression text, impl result of SigmaRegularExpression(text, flags).escape(...)) *)
From PS Require Import Model.RxEscape.
Definition judge_rxescape (c : list str * str * bool * bool * str * str * str) : N :=
  let '(escaped, ec, eec, fp, flags, s, r) := c in
  let pre := rx_prefix fp flags in
  let body := skipn (length pre) r in
  let single := forallb (fun a => Nat.eqb (length a) 1) escaped && Nat.eqb (length ec) 1 in
  bits (str_eqb (rx_escape escaped ec eec fp flags s) r)
       (prefixb pre r && str_eqb (rx_unescape escaped ec eec body) s)
       (single && eec && negb fp)
       (existsb (fun x => existsb (fun a => prefixb a [x]) (rx_alts escaped ec eec)) s).
