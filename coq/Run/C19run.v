(* C19 - judges of the correspondence suites. *)
From Coq Require Import NArith List Bool Arith.
From PS Require Import Base.Chars Base.Outcome Model.VCond Model.Validators Spec.ValidatorsSpec Run.Bits.
Import ListNotations.
Open Scope N_scope.

Fixpoint str_ltb (a b : str) : bool :=
  match a, b with
  | [], [] => false
  | [], _ :: _ => true
  | _ :: _, [] => false
  | x :: a', y :: b' => (x <? y) || ((x =? y) && str_ltb a' b')
  end.

Definition listN_eqb := list_eqb N.eqb.

Definition issue_eqb (a b : issue) : bool :=
  match a, b with
  | IUnused r n, IUnused r' n' => (r =? r') && str_eqb n n'
  | IDangling r n, IDangling r' n' => (r =? r') && str_eqb n n'
  | INoId r, INoId r' => r =? r'
  | IIdColl rs x, IIdColl rs' x' => listN_eqb rs rs' && str_eqb x x'
  | ITitle rs x, ITitle rs' x' => listN_eqb rs rs' && str_eqb x x'
  | IFile rs x, IFile rs' x' => listN_eqb rs rs' && str_eqb x x'
  | _, _ => false
  end.

(* The issues one validator returns for one rule come out of a Python set (hash order): inside a
   run of consecutive issues of the same class for the same rule the order carries no information.
   Both the model's and the implementation's list are put into the same canonical order. *)
Definition run_lt (h x : issue) : bool :=     (* same run and h sorts before x *)
  match h, x with
  | IUnused r n, IUnused r' n' => (r =? r') && str_ltb n n'
  | IDangling r n, IDangling r' n' => (r =? r') && str_ltb n n'
  | IIdColl _ x, IIdColl _ x' => str_ltb x x'      (* dict order of a validator's table in finalize() *)
  | ITitle _ x, ITitle _ x' => str_ltb x x'
  | IFile _ x, IFile _ x' => str_ltb x x'
  | _, _ => false
  end.

Fixpoint insert_run (x : issue) (l : list issue) : list issue :=
  match l with
  | [] => [x]
  | h :: t => if run_lt h x then h :: insert_run x t else x :: h :: t
  end.

(* a reported group is a set of rules: its members are listed in ascending order on both sides *)
Fixpoint insertN (x : N) (l : list N) : list N :=
  match l with
  | [] => [x]
  | h :: t => if h <? x then h :: insertN x t else x :: h :: t
  end.
Definition sortN (l : list N) : list N := fold_right insertN [] l.
Definition canon_group (i : issue) : issue :=
  match i with
  | IIdColl ks x => IIdColl (sortN ks) x
  | ITitle ks x => ITitle (sortN ks) x
  | IFile ks x => IFile (sortN ks) x
  | _ => i
  end.

Definition canon (l : list issue) : list issue := map canon_group (fold_right insert_run [] l).

Definition oissues_eqb (a b : outcome (list issue)) : bool :=
  match a, b with
  | Ok x, Ok y => list_eqb issue_eqb (canon x) (canon y)
  | SigmaErr x, SigmaErr y => x =? y
  | Crash x, Crash y => x =? y
  | _, _ => false
  end.

Fixpoint nodupV (l : list vkind) : bool :=
  match l with [] => true | x :: r => negb (vmem x r) && nodupV r end.

(* (exclusions, validator order, source rules with the expressions their conditions were generated
   from, whether those expressions are available, implementation result) *)
Definition judge_coll (c : excl * list vkind * list srule * bool * outcome (list issue)) : N :=
  let '(E, vs, rs, have_ast, impl) := c in
  let rules := map fst rs in
  let model := validate E vs rules in
  let spec := match impl with
              | Ok out => if have_ast then spec_issues E vs rs out else true
              | SigmaErr _ => negb have_ast
              | Crash _ => false
              end in
  let dom := have_ast && nodupV vs && nodupN (map r_key rules) in
  let nontriv := match impl with Ok [] => false | _ => true end in
  bits (oissues_eqb model impl) spec dom nontriv.

(* suite shared: one SigmaValidator, rules that share ids / titles / file names / selector patterns,
   the collection validated twice by the same validator objects.
   bit 2: the specification on the first call; on the second call the issues attached to single
   rules (reference checks, missing id) must again satisfy the specification for every rule on its
   own - the tables of the uniqueness validators are not reset by finalize(), their issues in a
   second call are compared with the model (bit 1) but not judged. *)
Definition rule_kind (v : vkind) : bool :=
  match v with VUnused | VDangling | VIdExist => true | _ => false end.
Definition rule_issue (i : issue) : bool := rule_kind (kind_of i).

Definition oissues2_eqb (a : outcome (list issue * list issue)) (b1 b2 : outcome (list issue)) : bool :=
  match a, b1, b2 with
  | Ok (x1, x2), Ok y1, Ok y2 => list_eqb issue_eqb (canon x1) (canon y1) && list_eqb issue_eqb (canon x2) (canon y2)
  | SigmaErr x, SigmaErr y, _ => x =? y
  | Crash x, Crash y, _ => x =? y
  | _, _, _ => false
  end.

Definition judge_shared (c : excl * list vkind * list srule * outcome (list issue) * outcome (list issue)) : N :=
  let '(E, vs, rs, impl1, impl2) := c in
  let rules := map fst rs in
  let spec := match impl1, impl2 with
              | Ok o1, Ok o2 => spec_issues E vs rs o1
                                && spec_issues E (filter rule_kind vs) rs (filter rule_issue o2)
              | _, _ => false
              end in
  let dom := nodupV vs && nodupN (map r_key rules) in
  let nontriv := match impl1 with Ok [] => false | _ => true end in
  bits (oissues2_eqb (validate_twice E vs rules) impl1 impl2) spec dom nontriv.

(* ---------- suite tags: tag validators as observers ---------- *)
From PS Require Import Model.TagValidators.

Definition tissue_eqb (a b : tissue) : bool :=
  match a, b with
  | TIFormat x, TIFormat y | TITlp x, TITlp y | TIDup x, TIDup y | TINamespace x, TINamespace y => tag_eqb x y
  | _, _ => false
  end.
Definition tcount (i : tissue) (l : list tissue) : nat := length (filter (tissue_eqb i) l).
Definition kcount (v : tvkind) (vs : list tvkind) : nat := length (filter (tvkind_eqb v) vs).

(* how often an issue has to occur - computed from the source tags and the validator classes only,
   independent of any order *)
Definition exp_count (vs : list tvkind) (tags : list tag) (i : tissue) : nat :=
  match i with
  | TIFormat t => (count_tag t tags * kcount TFormat vs * (if fmt_ok t then 0 else 1))%nat
  | TITlp t =>
      (count_tag t tags *
       (if str_eqb (t_ns t) s_tlp then
          length (filter (fun v => match tlp_allowed v with
                                   | Some allowed => negb (in_strs (t_name t) allowed)
                                   | None => false end) vs)
        else 0))%nat
  | TIDup t => (kcount TDup vs * (if (1 <? count_tag t tags)%nat then 1 else 0))%nat
  | TINamespace t => (count_tag t tags * kcount TNamespace vs * (if in_strs (t_ns t) ns_allowed then 0 else 1))%nat
  end.

(* (validator instances in iteration order, source tags, implementation issues, the rule's tags after
   validation as rule.to_dict() shows them) *)
Definition judge_tags (c : list tvkind * list tag * list tissue * list tag) : N :=
  let '(vs, tags, out, after) := c in
  let m := validate_tags vs tags in
  let agree := list_eqb tissue_eqb (fst m) out && list_eqb tag_eqb (snd m) after in
  let candidates := flat_map (fun t => [TIFormat t; TITlp t; TIDup t; TINamespace t]) (tags ++ after) in
  let spec := list_eqb tag_eqb tags after &&
              forallb (fun i => (tcount i out =? exp_count vs tags i)%nat) (out ++ candidates) in
  bits agree spec true (match out with [] => false | _ => true end).
