(* C19 - judges of the correspondence suites. *)
From Coq Require Import NArith List Bool Arith.
From PS Require Import Base.Chars Base.Outcome Model.VCond Model.Validators Spec.ValidatorsSpec Run.Bits.
Import ListNotations.
Open Scope N_scope.

Fixpoint str_ltb (a b : str) : bool :=
  match a, b with
  | [], [] => false
  | [], _ :: _ => true
  | _ :: _, [] => false
  | x :: a', y :: b' => (x <? y) || ((x =? y) && str_ltb a' b')
  end.

Definition listN_eqb := list_eqb N.eqb.

Definition issue_eqb (a b : issue) : bool :=
  match a, b with
  | IUnused r n, IUnused r' n' => (r =? r') && str_eqb n n'
  | IDangling r n, IDangling r' n' => (r =? r') && str_eqb n n'
  | INoId r, INoId r' => r =? r'
  | IIdColl rs x, IIdColl rs' x' => listN_eqb rs rs' && str_eqb x x'
  | ITitle rs x, ITitle rs' x' => listN_eqb rs rs' && str_eqb x x'
  | IFile rs x, IFile rs' x' => listN_eqb rs rs' && str_eqb x x'
  | _, _ => false
  end.

(* The issues one validator returns for one rule come out of a Python set (hash order): inside a
   run of consecutive issues of the same class for the same rule the order carries no information.
   Both the model's and the implementation's list are put into the same canonical order. *)
Definition run_lt (h x : issue) : bool :=     (* same run and h sorts before x *)
  match h, x with
  | IUnused r n, IUnused r' n' => (r =? r') && str_ltb n n'
  | IDangling r n, IDangling r' n' => (r =? r') && str_ltb n n'
  | IIdColl _ x, IIdColl _ x' => str_ltb x x'      (* dict order of a validator's table in finalize() *)
  | ITitle _ x, ITitle _ x' => str_ltb x x'
  | IFile _ x, IFile _ x' => str_ltb x x'
  | _, _ => false
  end.

Fixpoint insert_run (x : issue) (l : list issue) : list issue :=
  match l with
  | [] => [x]
  | h :: t => if run_lt h x then h :: insert_run x t else x :: h :: t
  end.

(* a reported group is a set of rules: its members are listed in ascending order on both sides *)
Fixpoint insertN (x : N) (l : list N) : list N :=
  match l with
  | [] => [x]
  | h :: t => if h <? x then h :: insertN x t else x :: h :: t
  end.
Definition sortN (l : list N) : list N := fold_right insertN [] l.
Definition canon_group (i : issue) : issue :=
  match i with
  | IIdColl ks x => IIdColl (sortN ks) x
  | ITitle ks x => ITitle (sortN ks) x
  | IFile ks x => IFile (sortN ks) x
  | _ => i
  end.

Definition canon (l : list issue) : list issue := map canon_group (fold_right insert_run [] l).

Definition oissues_eqb (a b : outcome (list issue)) : bool :=
  match a, b with
  | Ok x, Ok y => list_eqb issue_eqb (canon x) (canon y)
  | SigmaErr x, SigmaErr y => x =? y
  | Crash x, Crash y => x =? y
  | _, _ => false
  end.

Fixpoint nodupV (l : list vkind) : bool :=
  match l with [] => true | x :: r => negb (vmem x r) && nodupV r end.

(* (exclusions, validator order, source rules with the expressions their conditions were generated
   from, whether those expressions are available, implementation result) *)
Definition judge_coll (c : excl * list vkind * list srule * bool * outcome (list issue)) : N :=
  let '(E, vs, rs, have_ast, impl) := c in
  let rules := map fst rs in
  let model := validate E vs rules in
  let spec := match impl with
              | Ok out => if have_ast then spec_issues E vs rs out else true
              | SigmaErr _ => negb have_ast
              | Crash _ => false
              end in
  let dom := have_ast && nodupV vs && nodupN (map r_key rules) in
  let nontriv := match impl with Ok [] => false | _ => true end in
  bits (oissues_eqb model impl) spec dom nontriv.
