(* C07 judges: the faithful model (Model/Loader.v) against the implementation's observed outcome, and the
   property itself (Spec/LoaderSpec.v c07_okb) on the implementation's outcome. *)
From Coq Require Import NArith ZArith List Bool Ascii.
From Coq Require Export String.   (* the generated case files write string literals *)
From PS Require Import Base.Chars Base.Outcome Model.Yaml Model.LoaderStrings Model.Loader Model.CollLoader Spec.LoaderSpec Proofs.LoaderP Proofs.CollLoaderP Run.Bits.
Import ListNotations.
Open Scope N_scope.

(* compact string literals of the generated case terms: printable ASCII as is, anything else as six
   hexadecimal digits per code point *)
Definition a (s : string) : str := map N_of_ascii (list_ascii_of_string s).
Definition hexv (c : ascii) : N :=
  let n := N_of_ascii c in if N.leb 97 n then n - 87 else n - 48.
Fixpoint hex6 (l : list ascii) : str :=
  match l with
  | c1 :: c2 :: c3 :: c4 :: c5 :: c6 :: r =>
    (((((hexv c1 * 16 + hexv c2) * 16 + hexv c3) * 16 + hexv c4) * 16 + hexv c5) * 16 + hexv c6) :: hex6 r
  | _ => []
  end.
Definition h (s : string) : str := hex6 (list_ascii_of_string s).

(* the library answers observed for the strings of this case (impl/c07.py facts_of / ext_parse, CPython only) *)
Fixpoint fact (t : list (str * N)) (s : str) : N :=
  match t with [] => 0 | (k, b) :: r => if str_eqb k s then b else fact r s end.
Fixpoint ext_lookup (t : list (str * option (list str))) (s : str) : option (list str) :=
  match t with [] => None | (k, b) :: r => if str_eqb k s then b else ext_lookup r s end.
Definition mk_lib (facts : list (str * N)) (exts : list (str * option (list str))) : lib :=
  {| uuid_ok := fun s => N.testbit (fact facts s) 0;
     int_ok := fun s => N.testbit (fact facts s) 1;
     uuid_key := fun _ => 0;
     re_ok := fun s => negb (N.testbit (fact facts s) 2);   (* bit 2: re.compile fails (strings not listed have no bit set) *)
     cidr_ok := fun s => N.testbit (fact facts s) 3;
     ext_refs := ext_lookup exts |}.

Definition nlist_eqb := list_eqb N.eqb.
Definition out_eqb (a b : outcome (list N)) : bool :=
  match a, b with
  | Ok x, Ok y => nlist_eqb x y
  | SigmaErr x, SigmaErr y => N.eqb x y
  | Crash x, Crash y => N.eqb x y && negb (N.eqb x X_Unmodelled)
  | _, _ => false
  end.

Definition unmodelled {A} (o : outcome A) : bool :=
  match o with Crash x => N.eqb x X_Unmodelled | _ => false end.
Definition load (L : lib) (kind : N) : bool -> yv -> outcome (list N) :=
  if N.eqb kind 0 then load_rule L else if N.eqb kind 1 then load_corr L else load_filter L.
Definition is_ok {A} (o : outcome A) : bool := match o with Ok _ => true | _ => false end.
Definition dom (L : lib) (kind : N) (d : yv) : bool :=
  if N.eqb kind 0 then rule_dom d
  else if N.eqb kind 1 then corr_dom d && is_ok (load_corr L true d)
  else filter_dom d.

(* case: (kind 0 rule / 1 correlation / 2 filter, library facts, extended-condition facts, document,
          strict outcome, collecting outcome, errors[0] == raised exception (True when not applicable)) *)
Definition judge_load
  (c : N * list (str * N) * list (str * option (list str)) * yv * outcome (list N) * outcome (list N) * bool) : N :=
  let '(kind, facts, exts, d, istrict, icollect, feq) := c in
  let L := mk_lib facts exts in
  let ms := load L kind false d in
  let mc := load L kind true d in
  (* outside the modelled fragment of the modifier machinery the comparison is vacuous (and bit 4 is off) *)
  let agree := unmodelled ms || unmodelled mc || (out_eqb ms istrict && out_eqb mc icollect) in
  (* feq (errors[0] == raised exception, by SigmaError.__eq__) is checked by the harness oracle, not here *)
  let spec := c07_okb istrict icollect in
  bits agree spec (dom L kind d) (negb (out_eqb istrict (Ok []))).

(* collections and text-level loading are not modelled: only the property is evaluated on the outcome
   (bit 1 is vacuous, bit 4 never set) *)
Definition judge_prop (c : outcome (list N) * outcome (list N) * bool) : N :=
  let '(istrict, icollect, feq) := c in
  bits true (c07_okb istrict icollect) false (negb (out_eqb istrict (Ok []))).

(* typed constructors for the generated case terms *)
Definition mkcase (kind : N) (facts : list (str * N)) (exts : list (str * option (list str))) (d : yv)
  (s c : outcome (list N)) (feq : bool) := (kind, facts, exts, d, s, c, feq).
Definition mkprop (s c : outcome (list N)) (feq : bool) := (s, c, feq).

(* ---- collections: SigmaCollection.from_dicts against Model/Collection.v ---- *)
Definition mk_lib2 (facts ukeys : list (str * N)) (exts : list (str * option (list str))) : lib :=
  let L := mk_lib facts exts in
  {| uuid_ok := uuid_ok L; uuid_key := fact ukeys; int_ok := int_ok L; re_ok := re_ok L; cidr_ok := cidr_ok L;
     ext_refs := ext_refs L |}.
(* case: (modelled: loaded through from_dicts, library facts, UUID integers, extended-condition facts, documents,
          collect_filters, resolve_references, strict outcome, collecting outcome) *)
Definition judge_coll
  (c : bool * list (str * N) * list (str * N) * list (str * option (list str)) * list yv * bool * bool
       * outcome (list N) * outcome (list N)) : N :=
  let '(modelled, facts, ukeys, exts, ds, cf, rr, istrict, icollect) := c in
  let L := mk_lib2 facts ukeys exts in
  let ms := load_coll L false cf rr ds in
  let mc := load_coll L true cf rr ds in
  let agree := negb modelled || unmodelled ms || unmodelled mc || (out_eqb ms istrict && out_eqb mc icollect) in
  bits agree (c07_okb istrict icollect)
       (modelled && coll_dom ds && is_ok mc)
       (negb (out_eqb istrict (Ok []))).
Definition mkcoll (modelled : bool) (facts ukeys : list (str * N)) (exts : list (str * option (list str)))
  (ds : list yv) (cf rr : bool) (s c : outcome (list N)) :=
  (modelled, facts, ukeys, exts, ds, cf, rr, s, c).
