(* C16 - judge of the correspondence suite.
   bit 1: faithful model (load + convert) = implementation: outcome classes, capability tree, effect traces
   bit 2: the specification oracle (Spec.Security.spec_ok) accepts what the implementation did - computed from
          the caller's arguments, the environment, the by-construction physical locations and the observed
          flags / effects only, never via the model
   bit 4: the document lies in the modelled domain (no ill-typed parameter value)
   bit 8: the case exercises a gate or carries a smuggled key *)
From Coq Require Export String Ascii.
From Coq Require Import NArith ZArith List Bool.
From PS Require Import Base.Chars Base.Outcome Model.Security Spec.Security Run.Bits.
Import ListNotations.
Open Scope N_scope.

Definition strs_eqb := list_eqb str_eqb.
Definition ostrs_eqb := option_eqb strs_eqb.

Definition source_eqb (a b : source) : bool :=
  match a, b with
  | SFile p, SFile q => str_eqb p q
  | SHttp p, SHttp q => str_eqb p q
  | SCmd s w, SCmd s' w' => Bool.eqb s s' && strs_eqb w w'
  | _, _ => false
  end.

Definition effect_eqb (a b : effect) : bool :=
  match a, b with
  | ERead p, ERead q => str_eqb p q
  | ENet p, ENet q => str_eqb p q
  | ERun s w, ERun s' w' => Bool.eqb s s' && strs_eqb w w'
  | EExec p, EExec q => strs_eqb p q
  | _, _ => false
  end.

Fixpoint onode_eqb (a b : onode) {struct a} : bool :=
  match a, b with
  | OExt s f, OExt s' f' => source_eqb s s' && Bool.eqb f f'
  | OTpl v tv ap, OTpl v' tv' ap' => option_eqb str_eqb v v' && Bool.eqb tv tv' && ostrs_eqb ap ap'
  | OPlain, OPlain => true
  | ONest l, ONest l' =>
    (fix go (l : list onode) (l' : list onode) : bool :=
       match l, l' with
       | [], [] => true
       | x :: r, y :: r' => onode_eqb x y && go r r'
       | _, _ => false
       end) l l'
  | _, _ => false
  end.
Definition otree_eqb (a b : otree) : bool :=
  list_eqb onode_eqb (o_items a) (o_items b) && list_eqb onode_eqb (o_post a) (o_post b) &&
  list_eqb onode_eqb (o_fin a) (o_fin b).

(* outcome classes: 0 Ok, 1 SigmaSecurityError, 2 any other SigmaError, 3 non-Sigma exception *)
Definition oclass {A} (o : outcome A) : N :=
  match o with Ok _ => 0 | SigmaErr c => if N.eqb c E_Security then 1 else 2 | Crash _ => 3 end.
Definition unmodelled {A} (o : outcome A) : bool :=
  match o with Crash c => N.eqb c C_Unmodelled | _ => false end.

Fixpoint assoc {A} (k : str) (l : list (str * A)) : option A :=
  match l with [] => None | (k', v) :: r => if str_eqb k k' then Some v else assoc k r end.

Record ccase := {
  c_env_ext : option str; c_env_tv : option str;
  c_real : list (str * list str);     (* realpath of every path string of the case, by construction of the scratch tree *)
  c_loadable : list str;              (* vars paths whose real file is a loadable module *)
  c_fetch_ok : list source;           (* sources that deliver data *)
  c_doc : yv; c_args : args;
  c_entry : N;                        (* 0 from_dict, 1 from_yaml, 2 from_yaml(source_path), 3 resolver (any route) *)
  c_src : str;                        (* the string by which the pipeline file reaches the loader (entries 2, 3):
                                         source_path of from_yaml, the spec of resolve_pipeline, or the path that
                                         ProcessingPipelineResolver.resolve found for a file or under a directory spec *)
  c_extra : nat;                      (* capability-free items merged in from sibling pipeline files of a directory spec *)
  c_phs : list str;                   (* placeholders of the converted rule *)
  c_sargs : args;                     (* what the specification counts as granted by the caller / in force *)
  i_load : N; i_tree : option otree; i_conv : option N;
  i_trace_load : list effect; i_trace_conv : list effect; i_leak : bool;
  i_unsandboxed : bool                (* some template object evaluates outside Jinja2's sandbox (class of its environment
                                         and a probe expression `x.__class__` rendered in that environment) *)
}.

(* the scratch tree of the implementation harness (impl/c16.py), by construction: path string -> physical
   components; the first case of every run carries the table explicitly and is compared with this constant *)
Definition std_real : list (str * list str) := Eval vm_compute in
  [(lit "/", []);
   (lit "/$ROOT/alias", [lit "$ROOT"; lit "allowed"]);
   (lit "/$ROOT/alias/v_in.py", [lit "$ROOT"; lit "allowed"; lit "v_in.py"]);
   (lit "/$ROOT/allow", [lit "$ROOT"; lit "allow"]);
   (lit "/$ROOT/allowed", [lit "$ROOT"; lit "allowed"]);
   (lit "/$ROOT/allowed/", [lit "$ROOT"; lit "allowed"]);
   (lit "/$ROOT/allowed/../outside/v_out.py", [lit "$ROOT"; lit "outside"; lit "v_out.py"]);
   (lit "/$ROOT/allowed/link_out.py", [lit "$ROOT"; lit "outside"; lit "v_out.py"]);
   (lit "/$ROOT/allowed/linkdir", [lit "$ROOT"; lit "outside"]);
   (lit "/$ROOT/allowed/linkdir/v_out.py", [lit "$ROOT"; lit "outside"; lit "v_out.py"]);
   (lit "/$ROOT/allowed/nonexistent.py", [lit "$ROOT"; lit "allowed"; lit "nonexistent.py"]);
   (lit "/$ROOT/allowed/sub", [lit "$ROOT"; lit "allowed"; lit "sub"]);
   (lit "/$ROOT/allowed/sub/v_sub.py", [lit "$ROOT"; lit "allowed"; lit "sub"; lit "v_sub.py"]);
   (lit "/$ROOT/allowed/v_in.py", [lit "$ROOT"; lit "allowed"; lit "v_in.py"]);
   (lit "/$ROOT/allowed_evil/v_pfx.py", [lit "$ROOT"; lit "allowed_evil"; lit "v_pfx.py"]);
   (lit "/$ROOT/outside", [lit "$ROOT"; lit "outside"]);
   (lit "/$ROOT/outside/link_in.py", [lit "$ROOT"; lit "allowed"; lit "v_in.py"]);
   (lit "/$ROOT/outside/v_out.py", [lit "$ROOT"; lit "outside"; lit "v_out.py"]);
   (lit "/$ROOT/pipe", [lit "$ROOT"; lit "pipe"]);
   (lit "/$ROOT/pipe/../outside/v_out.py", [lit "$ROOT"; lit "outside"; lit "v_out.py"]);
   (lit "/$ROOT/pipe/link_out.py", [lit "$ROOT"; lit "outside"; lit "v_out.py"]);
   (lit "/$ROOT/pipe/pipeline.yml", [lit "$ROOT"; lit "pipe"; lit "pipeline.yml"]);
   (lit "/$ROOT/pipe/sub/../pipeline.yml", [lit "$ROOT"; lit "pipe"; lit "pipeline.yml"]);
   (lit "/$ROOT/pipe/sub/deep", [lit "$ROOT"; lit "pipe"; lit "sub"; lit "deep"]);
   (lit "/$ROOT/pipe/sub/deep/../../v_pipe.py", [lit "$ROOT"; lit "pipe"; lit "v_pipe.py"]);
   (lit "/$ROOT/pipe/sub/deep/below/v_below.py", [lit "$ROOT"; lit "pipe"; lit "sub"; lit "deep"; lit "below"; lit "v_below.py"]);
   (lit "/$ROOT/pipe/sub/deep/link_up.py", [lit "$ROOT"; lit "pipe"; lit "v_pipe.py"]);
   (lit "/$ROOT/pipe/sub/deep/pipeline.yml", [lit "$ROOT"; lit "pipe"; lit "sub"; lit "deep"; lit "pipeline.yml"]);
   (lit "/$ROOT/pipe/sub/deep/v_deep.py", [lit "$ROOT"; lit "pipe"; lit "sub"; lit "deep"; lit "v_deep.py"]);
   (lit "/$ROOT/pipe/v_pipe.py", [lit "$ROOT"; lit "pipe"; lit "v_pipe.py"]);
   (lit "/$ROOT/pipealias/pipeline.yml", [lit "$ROOT"; lit "pipe"; lit "pipeline.yml"]);
   (lit "/$ROOT/pipealias/v_pipe.py", [lit "$ROOT"; lit "pipe"; lit "v_pipe.py"])].
Definition std_loadable : list str := Eval vm_compute in
  [lit "/$ROOT/allowed/v_in.py";
   lit "/$ROOT/allowed/sub/v_sub.py";
   lit "/$ROOT/allowed/link_out.py";
   lit "/$ROOT/allowed/linkdir/v_out.py";
   lit "/$ROOT/allowed/../outside/v_out.py";
   lit "/$ROOT/allowed_evil/v_pfx.py";
   lit "/$ROOT/outside/v_out.py";
   lit "/$ROOT/outside/link_in.py";
   lit "/$ROOT/alias/v_in.py";
   lit "/$ROOT/pipe/v_pipe.py";
   lit "/$ROOT/pipe/sub/deep/v_deep.py";
   lit "/$ROOT/pipe/sub/deep/below/v_below.py";
   lit "/$ROOT/pipe/sub/deep/../../v_pipe.py";
   lit "/$ROOT/pipe/sub/deep/link_up.py";
   lit "/$ROOT/pipe/link_out.py";
   lit "/$ROOT/pipe/../outside/v_out.py";
   lit "/$ROOT/pipealias/v_pipe.py"].

(* template files of the scratch tree: (directory, name, text) *)
Definition std_tpl : list (str * str * str) := Eval vm_compute in
  [(lit "/$ROOT/tpl", lit "q.j2", lit "P{{ query }}");
   (lit "/$ROOT/tpl", lit "f.j2", lit "{{ queries|join(';') }}");
   (lit "/$ROOT/tpl", lit "hostile_q.j2", lit "{{ query.__class__ }}");
   (lit "/$ROOT/tpl", lit "hostile_f.j2", lit "{{ cycler.__init__.__globals__.os.popen('echo C16PWN').read() }}")].
Definition tpl_lookup (d n : str) : option str :=
  match filter (fun x => str_eqb (fst (fst x)) d && str_eqb (snd (fst x)) n) std_tpl with
  | x :: _ => Some (snd x) | [] => None end.

Definition unknown_comp : str := lit "?unknown".
Definition real_of (tbl : list (str * list str)) (s : str) : list str :=
  match assoc s tbl with Some c => c | None => [unknown_comp; s] end.

Definition env_of (c : ccase) : env :=
  {| e_ext := c_env_ext c; e_tv := c_env_tv c; real := real_of (c_real c);
     loadable := fun p => mem_str p (c_loadable c);
     fetch_ok := fun s => existsb (source_eqb s) (c_fetch_ok c);
     tpl_file := tpl_lookup |}.

Fixpoint has_optin_key (d : yv) : bool :=
  match d with
  | YMap m => existsb (fun kv => mem_str (fst kv) [k_tv; k_ap; k_ext] || has_optin_key (snd kv)) m
  | YList l => existsb has_optin_key l
  | _ => false
  end.

Definition judge (c : ccase) : N :=
  let E := env_of c in
  let lr := if N.eqb (c_entry c) 3 then load_resolver E (c_doc c) (c_src c)
            else load_yaml E (c_doc c) (c_args c) (if N.eqb (c_entry c) 2 then Some (c_src c) else None) in
  let merged := fun t => {| t_items := t_items t ++ repeat NPlain (c_extra c); t_post := t_post t; t_fin := t_fin t |} in
  let mtree := match fst lr with Ok t => Some (obs_tree (merged t)) | _ => None end in
  let cr := match fst lr with
            | Ok t => let r := convert_full E (c_doc c) (merged t) (c_phs c) in (Some (oclass (fst r)), snd r)
            | _ => (None, [])
            end in
  let agree :=
      list_eqb (fun a b => str_eqb (fst a) (fst b) && strs_eqb (snd a) (snd b)) (c_real c) std_real &&
      strs_eqb (c_loadable c) std_loadable &&
      N.eqb (oclass (fst lr)) (i_load c) && option_eqb otree_eqb mtree (i_tree c) &&
      option_eqb N.eqb (fst cr) (i_conv c) &&
      list_eqb effect_eqb (snd lr) (i_trace_load c) && list_eqb effect_eqb (snd cr) (i_trace_conv c) &&
      negb (i_unsandboxed c) in
  let spec := spec_ok (c_sargs c) (env_grants (c_env_ext c)) (env_grants (c_env_tv c)) (real_of (c_real c))
                      (i_tree c) (i_trace_load c ++ i_trace_conv c) (i_leak c) (i_unsandboxed c) in
  let dom := negb (unmodelled (fst lr)) in
  let nontriv := has_optin_key (c_doc c) || negb (N.eqb (i_load c) 0)
                 || match i_conv c with Some 0 => false | _ => true end
                 || match i_trace_load c ++ i_trace_conv c with [] => false | _ => true end in
  bits agree spec dom nontriv.

(* what the model computes for a case (shown by ./check C16 --replay) *)
Definition model_view (c : ccase) :=
  let E := env_of c in
  let lr := if N.eqb (c_entry c) 3 then load_resolver E (c_doc c) (c_src c)
            else load_yaml E (c_doc c) (c_args c) (if N.eqb (c_entry c) 2 then Some (c_src c) else None) in
  (fst lr, snd lr, match fst lr with Ok t => Some (convert_full E (c_doc c) t (c_phs c)) | _ => None end).
