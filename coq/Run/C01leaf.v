(* Judge of the C01 leaf suite: one detection-item leaf (field, value) rendered by a backend class.
   bit 1: Model/Leaf.v on the class attributes exported by the harness = the implementation's text
          (normal rendering, rendering inside the negated-template context, or the unbound form);
   bit 2: the implementation's text, read by the target language's atom reader (Spec/Atom.v), says what
          the source value says (acceptb); only for the verification backend family, which has a reader;
   bit 4: the configuration is `vb k`, values are always quoted, the oracles are consistent: the domain of
          theorem C01_leaf_faithful. *)
From Coq Require Import NArith List Bool.
From PS Require Import Base.Chars Base.Outcome Model.SString Model.StrOp Model.FieldName Model.Leaf
  Spec.Items Spec.Atom Spec.Lex Proofs.LeafLexP Run.Bits.
Import ListNotations.
Open Scope N_scope.

Definition outcome_eqb (a b : outcome str) : bool :=
  match a, b with
  | Ok x, Ok y => str_eqb x y
  | SigmaErr x, SigmaErr y | Crash x, Crash y => N.eqb x y
  | _, _ => false
  end.

(* configuration equality (templates up to merging adjacent literal segments) *)
Fixpoint tnorm (t : tpl) : tpl :=
  match t with
  | [] => []
  | SL a :: r => match tnorm r with
                 | SL b :: r' => SL (a ++ b) :: r'
                 | r' => match a with [] => r' | _ => SL a :: r' end
                 end
  | SV k :: r => SV k :: tnorm r
  | SB a :: r => SB a :: tnorm r
  end.
Definition seg_eqb (a b : seg) : bool :=
  match a, b with SL x, SL y | SB x, SB y => str_eqb x y | SV x, SV y => N.eqb x y | _, _ => false end.
Definition tpl_eqb (a b : tpl) : bool := list_eqb seg_eqb (tnorm a) (tnorm b).
Definition fcfg_eqb (a b : fcfg) : bool :=
  option_eqb N.eqb (f_quote a) (f_quote b) && option_eqb str_eqb (f_escape a) (f_escape b) &&
  Bool.eqb (f_escape_quote a) (f_escape_quote b).
Definition ecfg_eqb (a b : ecfg) : bool :=
  option_eqb N.eqb (e_esc a) (e_esc b) && option_eqb str_eqb (e_multi a) (e_multi b) &&
  option_eqb str_eqb (e_single a) (e_single b) && str_eqb (e_add a) (e_add b) && str_eqb (e_filter a) (e_filter b).
Definition ocmp_eqb (a b : option (cmpop -> str)) : bool :=
  option_eqb (fun f g => forallb (fun o => str_eqb (f o) (g o)) [CLt; CLte; CGt; CGte; CNeq]) a b.

Definition lcfg_eqb (a b : lcfg) : bool :=
  fcfg_eqb (l_f a) (l_f b) &&
  ecfg_eqb (l_e a) (l_e b) &&
  str_eqb (l_quote a) (l_quote b) &&
  option_eqb Bool.eqb (l_quote_pat a) (l_quote_pat b) &&
  str_eqb (l_add_escaped_re a) (l_add_escaped_re b) &&
  list_eqb str_eqb (l_re_escape a) (l_re_escape b) &&
  str_eqb (l_re_ec a) (l_re_ec b) &&
  Bool.eqb (l_re_eec a) (l_re_eec b) &&
  Bool.eqb (l_re_flag_prefix a) (l_re_flag_prefix b) &&
  option_eqb str_eqb (l_re_fi a) (l_re_fi b) &&
  option_eqb str_eqb (l_re_fm a) (l_re_fm b) &&
  option_eqb str_eqb (l_re_fs a) (l_re_fs b) &&
  str_eqb (l_eq_token a) (l_eq_token b) &&
  option_eqb str_eqb (l_true a) (l_true b) &&
  option_eqb str_eqb (l_false a) (l_false b) &&
  ocmp_eqb (l_cmp_ops a) (l_cmp_ops b) &&
  option_eqb tpl_eqb (l_eq a) (l_eq b) &&
  option_eqb tpl_eqb (l_neq a) (l_neq b) &&
  option_eqb tpl_eqb (l_sw a) (l_sw b) &&
  option_eqb tpl_eqb (l_nsw a) (l_nsw b) &&
  option_eqb tpl_eqb (l_ew a) (l_ew b) &&
  option_eqb tpl_eqb (l_new a) (l_new b) &&
  option_eqb tpl_eqb (l_ct a) (l_ct b) &&
  option_eqb tpl_eqb (l_nct a) (l_nct b) &&
  option_eqb tpl_eqb (l_wm a) (l_wm b) &&
  Bool.eqb (l_sw_sp a) (l_sw_sp b) &&
  Bool.eqb (l_ew_sp a) (l_ew_sp b) &&
  Bool.eqb (l_ct_sp a) (l_ct_sp b) &&
  option_eqb tpl_eqb (l_csm a) (l_csm b) &&
  option_eqb tpl_eqb (l_csw a) (l_csw b) &&
  option_eqb tpl_eqb (l_ncsw a) (l_ncsw b) &&
  option_eqb tpl_eqb (l_cew a) (l_cew b) &&
  option_eqb tpl_eqb (l_ncew a) (l_ncew b) &&
  option_eqb tpl_eqb (l_cct a) (l_cct b) &&
  option_eqb tpl_eqb (l_ncct a) (l_ncct b) &&
  Bool.eqb (l_csw_sp a) (l_csw_sp b) &&
  Bool.eqb (l_cew_sp a) (l_cew_sp b) &&
  Bool.eqb (l_cct_sp a) (l_cct_sp b) &&
  option_eqb tpl_eqb (l_re a) (l_re b) &&
  option_eqb tpl_eqb (l_nre a) (l_nre b) &&
  option_eqb tpl_eqb (l_cidr a) (l_cidr b) &&
  option_eqb tpl_eqb (l_ncidr a) (l_ncidr b) &&
  option_eqb tpl_eqb (l_cmp a) (l_cmp b) &&
  option_eqb tpl_eqb (l_null a) (l_null b) &&
  option_eqb tpl_eqb (l_exists a) (l_exists b) &&
  option_eqb tpl_eqb (l_nexists a) (l_nexists b) &&
  option_eqb tpl_eqb (l_ff a) (l_ff b) &&
  option_eqb tpl_eqb (l_ffsw a) (l_ffsw b) &&
  option_eqb tpl_eqb (l_ffew a) (l_ffew b) &&
  option_eqb tpl_eqb (l_ffct a) (l_ffct b) &&
  Bool.eqb (l_ff_q1 a) (l_ff_q1 b) &&
  Bool.eqb (l_ff_q2 a) (l_ff_q2 b) &&
  option_eqb tpl_eqb (l_ts a) (l_ts b) &&
  list_eqb (fun a b => N.eqb (fst a) (fst b) && str_eqb (snd a) (snd b)) (l_ts_map a) (l_ts_map b) &&
  option_eqb tpl_eqb (l_ub_str a) (l_ub_str b) &&
  option_eqb tpl_eqb (l_ub_num a) (l_ub_num b) &&
  option_eqb tpl_eqb (l_ub_re a) (l_ub_re b) &&
  option_eqb tpl_eqb (l_in a) (l_in b) && str_eqb (l_or_in_op a) (l_or_in_op b) &&
  str_eqb (l_and_in_op a) (l_and_in_op b) && option_eqb str_eqb (l_list_sep a) (l_list_sep b).

(* ---------------------------------------------------------------------------------------------- *)
Record lcase := {
  lc_K : lcfg;
  lc_k : option vbk;                       (* Some: the class is the verification backend with these flags *)
  lc_extra : str;                          (* non-ASCII characters of the field names that are \w for Python *)
  lc_f : option (str * foracle);           (* None: unbound value *)
  lc_pm : bool * bool * bool * bool;       (* str_quote_pattern matches str(v), str(v[:-1]), str(v[1:]), str(v[1:-1]) *)
  lc_v : lval;
  lc_r : outcome str;                      (* implementation: normal rendering *)
  lc_rn : outcome str                      (* implementation: rendering in the negated-template context *)
}.

Definition pm_of (p : bool * bool * bool * bool) (o : sop) : bool :=
  let '(full, a, b, c) := p in
  match o with OpStartswith => a | OpEndswith => b | OpContains => c | _ => full end.

Definition model_leaf (c : lcase) (neg : bool) : outcome str :=
  match lc_f c with
  | Some (f, fo) => render_leaf (lc_K c) neg f fo (pm_of (lc_pm c)) (lc_v c)
  | None => render_val (lc_K c) (pm_of (lc_pm c) OpEq) (lc_v c)
  end.

Definition field_of (c : lcase) : str := match lc_f c with Some (f, _) => f | None => [c_us] end.

(* may the rendering be refused?  only a value that still contains a placeholder *)
Definition refusable (v : lval) : bool :=
  match v with LStr _ sv => contains_placeholder sv | _ => false end.

Definition spec_view (W : char -> bool) (c : lcase) (neg : bool) (r : outcome str) : bool :=
  match r with
  | Ok txt => shapeb txt &&      (* one lexical unit of the query language (Spec/Lex.v) *)
              match atom_decode W txt with
              | Some a => acceptb neg (field_of c) (lc_v c) a
              | None => false
              end
  | SigmaErr _ => refusable (lc_v c)
  | Crash _ => false
  end.

Definition spec_leaf (c : lcase) : bool :=
  match lc_k c with
  | None => true
  | Some _ =>
      let W := W_of (lc_extra c) in
      spec_view W c false (lc_r c) &&
      match lc_f c with
      | None => true
      | Some _ =>
          (* the negated-context text is the negated atom, or it is the same text (the caller negates) *)
          outcome_eqb (lc_rn c) (lc_r c) || spec_view W c true (lc_rn c)
      end
  end.

Definition dom_leaf (c : lcase) : bool :=
  match lc_k c with
  | None => false
  | Some k =>
      lcfg_eqb (lc_K c) (vb k) && negb (is_some (k_qpat k)) && wok (lc_extra c) &&
      match lc_f c with
      | Some (f, fo) => fo_ok (W_of (lc_extra c)) f fo && val_ok (W_of (lc_extra c)) f (lc_v c) && lex_ok f (lc_v c)
      | None => val_ok (W_of (lc_extra c)) [c_us] (lc_v c)
      end
  end.

(* a structural leaf (Crash C_Structural) is not rendered by the leaf model: see Model/Backend.v *)
Definition agree (m r : outcome str) : bool :=
  match m with Crash 39 => true | _ => outcome_eqb m r end.
Definition judge_leaf (c : lcase) : N :=
  bits (agree (model_leaf c false) (lc_r c) &&
        match lc_f c with Some _ => agree (model_leaf c true) (lc_rn c) | None => true end)
       (spec_leaf c) (dom_leaf c) true.

(* ---------------------------------------------------------------------------------------------- *)
(* suite inlist: field in (v1, ..., vn) / field contains-all (...) *)
From PS Require Import Spec.Query Proofs.InListP.
Record icase := {
  ic_K : lcfg; ic_k : option vbk; ic_extra : str;
  ic_f : str; ic_fo : foracle; ic_disj : bool;
  ic_vals : list (lval * bool);            (* value, str_quote_pattern decision *)
  ic_r : outcome str
}.
Fixpoint keys_eqb (a b : list akey) : bool :=
  match a, b with
  | [], [] => true
  | x :: a', y :: b' => akey_eqb x y && keys_eqb a' b'
  | _, _ => false
  end.
(* backends that leave some strings unquoted: a bare element reads as a number token; it stands for the string
   whose literal it is, and a bare string with list punctuation makes the list unreadable (a limitation of
   that variant of the target language, not of the code under test) *)
Definition key_sim (k e : akey) : bool :=
  akey_eqb k e ||
  match k, e with
  | YTok f w, YMatch false f' p =>
      str_eqb f f' && match tread vb_q w with Some l => items_eqb (norm l) p | None => false end
  | _, _ => false
  end.
Fixpoint keys_sim (a b : list akey) : bool :=
  match a, b with
  | [], [] => true
  | x :: a', y :: b' => key_sim x y && keys_sim a' b'
  | _, _ => false
  end.
Definition bare_punct (K : lcfg) (v : lval * bool) : bool :=
  match fst v with
  | LStr _ sv =>
      negb (decide_quoting K (snd v)) &&
      match convert (value_cfg K) sv with
      | Ok t => mem c_comma t || mem c_rpar t || match t with [] => true | _ => false end
      | _ => false
      end
  | _ => false
  end.
Definition judge_inlist (c : icase) : N :=
  let W := W_of (ic_extra c) in
  let m := render_in (ic_K c) (ic_disj c) (ic_f c) (ic_fo c) (ic_vals c) in
  let expected := all_some (map (fun v => key_of_val (ic_f c) (fst v)) (ic_vals c)) in
  let spec :=
    match ic_k c with
    | None => true
    | Some k =>
        match ic_r c with
        | Ok txt =>
            if is_some (k_qpat k) && existsb (bare_punct (ic_K c)) (ic_vals c) then true else
            shapeb txt &&
            match in_decode W txt, expected with
            | Some (d, ks), Some es =>
                Bool.eqb d (ic_disj c) && (if is_some (k_qpat k) then keys_sim ks es else keys_eqb ks es)
            | _, _ => false
            end
        | SigmaErr _ => existsb (fun v => refusable (fst v)) (ic_vals c)
        | Crash _ => false
        end
    end in
  let dom :=
    match ic_k c with
    | Some k => lcfg_eqb (ic_K c) (vb k) && negb (is_some (k_qpat k)) && wok (ic_extra c) &&
                fo_ok W (ic_f c) (ic_fo c) && forallb in_val_okb (ic_vals c) && negb (Nat.eqb (List.length (ic_vals c)) 0)
    | None => false
    end in
  bits (outcome_eqb m (ic_r c)) spec dom true.
