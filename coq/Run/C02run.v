(* C02 - judges of the correspondence suites.
   bit 1: model (Model/CondParse.v, Model/Cond.v) = implementation, on the parse tree of
          parse(False), on the postprocessed tree of .parsed, and on the truth table;
   bit 2: the specification (Spec/CondGrammar.v: sem of the generating expression, resp. of the
          reference reading ref_parse of a raw string) accepts what the implementation returned;
   bit 4: the case lies in the domain of C02_meaning; bit 8: non-trivial. *)
From Coq Require Import NArith List Bool Arith.
From PS Require Import Base.Chars Base.Outcome Model.CondParse Model.Cond Spec.Glob Spec.CondGrammar Run.Bits.
Import ListNotations.
Open Scope N_scope.

Definition quant_eqb (a b : quant) : bool :=
  match a, b with Q1, Q1 | QAny, QAny | QAll, QAll => true | _, _ => false end.

Fixpoint ptree_eqb (a b : ptree) {struct a} : bool :=
  match a, b with
  | PId x, PId y => str_eqb x y
  | PSel q p, PSel q' p' => quant_eqb q q' && str_eqb p p'
  | PNot x, PNot y => ptree_eqb x y
  | PAnd l, PAnd l' | POr l, POr l' =>
      (fix go (l l' : list ptree) : bool :=
         match l, l' with
         | [], [] => true
         | x :: r, y :: r' => ptree_eqb x y && go r r'
         | _, _ => false end) l l'
  | _, _ => false
  end.

Fixpoint ctree_eqb (a b : ctree) {struct a} : bool :=
  match a, b with
  | CLeaf x, CLeaf y => str_eqb x y
  | CNot None, CNot None => true
  | CNot (Some x), CNot (Some y) => ctree_eqb x y
  | CAnd l, CAnd l' | COr l, COr l' =>
      (fix go (l l' : list (option ctree)) : bool :=
         match l, l' with
         | [], [] => true
         | None :: r, None :: r' => go r r'
         | Some x :: r, Some y :: r' => ctree_eqb x y && go r r'
         | _, _ => false end) l l'
  | _, _ => false
  end.

Definition out_eqb {A} (eqb : A -> A -> bool) (a b : outcome A) : bool :=
  match a, b with
  | Ok x, Ok y => eqb x y
  | SigmaErr x, SigmaErr y => N.eqb x y
  | Crash x, Crash y => N.eqb x y
  | _, _ => false
  end.

Definition table_eqb := option_eqb (list_eqb Bool.eqb).
Definition is_cond_err {A} (x : outcome A) : bool :=
  match x with SigmaErr c => c =? E_Condition | _ => false end.
Definition is_ok {A} (x : outcome A) : bool := match x with Ok _ => true | _ => false end.

Definition agree (dets : list str) (s : str) (iparse : outcome ptree)
           (ipost : outcome (option ctree)) (itable : option (list bool)) : bool :=
  out_eqb ptree_eqb (run_parse s) iparse
  && out_eqb (option_eqb ctree_eqb) (run_post dets s) ipost
  && table_eqb (run_table dets s) itable.

(* the property, evaluated on what the implementation returned, against the expression e *)
Definition spec_expr (dets : list str) (e : expr) (iparse : outcome ptree)
           (ipost : outcome (option ctree)) (itable : option (list bool)) : bool :=
  (* the parse tree means what e means, for every assignment *)
  match iparse with
  | Ok t => list_eqb Bool.eqb (map (fun m => den dets (asg_of dets m) t) (masks dets))
                              (map (fun m => sem dets (asg_of dets m) e) (masks dets))
  | _ => false
  end
  &&
  (* the postprocessed condition tree: an error exactly for undefined names, else the same table *)
  (if defined dets e
   then is_ok ipost && table_eqb itable (Some (map (fun m => sem dets (asg_of dets m) e) (masks dets)))
   else is_cond_err ipost).

Fixpoint esize (e : expr) : nat :=
  match e with
  | EId _ | ESel _ _ => 1
  | ENot a => S (esize a)
  | EAnd a b | EOr a b => S (esize a + esize b)
  end.

Fixpoint expr_eqb (a b : expr) : bool :=
  match a, b with
  | EId x, EId y => str_eqb x y
  | ESel q p, ESel q' p' => quant_eqb q q' && str_eqb p p'
  | ENot x, ENot y => expr_eqb x y
  | EAnd x1 x2, EAnd y1 y2 | EOr x1 x2, EOr y1 y2 => expr_eqb x1 y1 && expr_eqb x2 y2
  | _, _ => false
  end.

(* the harness' speller is cross-checked inside Coq: the reference reader of the specification
   reads the generated text back as exactly the generating expression *)
Definition reads_back (s : str) (e : expr) : bool :=
  match lex s [] with
  | Ok ts => match ref_parse ts with Some e' => expr_eqb e e' | None => false end
  | _ => false
  end.

(* suite spell: (detection names, condition text, generating expression, impl parse(False),
   impl .parsed, impl truth table) *)
Definition judge_spell
  (c : list str * str * expr * outcome ptree * outcome (option ctree) * option (list bool)) : N :=
  let '(dets, s, e, iparse, ipost, itable) := c in
  bits (agree dets s iparse ipost itable)
       (spec_expr dets e iparse ipost itable && (negb (wf_expr e) || reads_back s e))
       (wf_expr e && defined dets e && inhabited dets e)
       (Nat.ltb 1 (esize e) || match e with ESel _ _ => true | _ => false end).

(* suite raw: arbitrary text *)
Fixpoint ids_of (t : ptree) : list str :=
  match t with
  | PId n => [n]
  | PSel _ _ => []
  | PNot a => ids_of a
  | PAnd l | POr l => flat_map ids_of l
  end.
(* in-order words of a parse tree *)
Fixpoint intersperse (w : str) (l : list (list str)) : list str :=
  match l with [] => [] | [x] => x | x :: r => x ++ w :: intersperse w r end.
Fixpoint yield (t : ptree) : list str :=
  match t with
  | PId n => [n]
  | PSel q p => [qword q; w_of; p]
  | PNot a => w_not :: yield a
  | PAnd l => intersperse w_and (map yield l)
  | POr l => intersperse w_or (map yield l)
  end.
Definition words_of (ts : list tok) : list str :=
  flat_map (fun t => match t with TW w => [w] | _ => [] end) ts.

Definition of_star (w : str) : bool := match w with 111 :: 102 :: 42 :: _ => true | _ => false end.
(* strings on which the grammar of the specification has no opinion: a reserved word in the
   place of a name (the implementation reads it as a name), "of*x" written without a blank *)
Definition lenient (ts : list tok) (iparse : outcome ptree) : bool :=
  existsb of_star (words_of ts)
  || match iparse with Ok t => existsb reserved (ids_of t) | _ => false end.

Definition judge_raw
  (c : list str * str * outcome ptree * outcome (option ctree) * option (list bool)) : N :=
  let '(dets, s, iparse, ipost, itable) := c in
  let a := agree dets s iparse ipost itable in
  match lex s [] with
  | Ok ts =>
      if lenient ts iparse then bits a true false true
      else match ref_parse ts with
           | Some e =>
               bits a (spec_expr dets e iparse ipost itable
                       && match iparse with Ok t => list_eqb str_eqb (yield t) (words_of ts) | _ => false end)
                    (defined dets e && inhabited dets e) true
           | None => bits a (is_cond_err iparse) false (nonempty ts)
           end
  | _ => bits a (is_cond_err iparse) false false
  end.

(* suite history: one rule object (or several: copies, rules from the same dict) is parsed, its
   detection set is changed, and it is parsed again; every parse is judged like a raw case against
   the detection names present AT THAT MOMENT (the model is a function of those names only).
   bits 1, 2, 4: all parses; bit 8: some parse. *)
Definition judge_hist
  (l : list (list str * str * outcome ptree * outcome (option ctree) * option (list bool))) : N :=
  let bs := map judge_raw l in
  bits (forallb (fun b => N.testbit b 0) bs) (forallb (fun b => N.testbit b 1) bs)
       (forallb (fun b => N.testbit b 2) bs) (existsb (fun b => N.testbit b 3) bs).
