(* Judges of the C06 correspondence suites.  T := unit: what the modifier chain makes of the values
   is irrelevant for the plain form; the queries of the implementation stand for it in the oracle. *)
From Coq Require Import NArith ZArith List Bool.
From PS Require Import Base.Chars Base.Outcome Model.SString Spec.Items Model.Serialize Spec.RoundTrip Run.Bits.
Import ListNotations.
Open Scope N_scope.

Definition pv_eqb (a b : pv) : bool :=
  match a, b with
  | PStrV x, PStrV y => str_eqb x y
  | PInt x, PInt y => Z.eqb x y
  | PFloatInt x, PFloatInt y => Z.eqb x y
  | PFloat x, PFloat y => str_eqb x y
  | PBool x, PBool y => Bool.eqb x y
  | PNull, PNull => true
  | _, _ => false
  end.
Definition mval_eqb (a b : mval) : bool :=
  match a, b with
  | MOne x, MOne y => pv_eqb x y
  | MMany x, MMany y => list_eqb pv_eqb x y
  | _, _ => false
  end.
Definition entry_eqb (a b : str * mval) : bool := str_eqb (fst a) (fst b) && mval_eqb (snd a) (snd b).
(* dicts are compared as mappings: the order of keys carries no meaning for the property *)
Definition perm_eqb {A} (eqb : A -> A -> bool) (a b : list A) : bool :=
  Nat.eqb (length a) (length b) && forallb (fun x => existsb (eqb x) b) a && forallb (fun y => existsb (fun x => eqb x y) a) b.
Fixpoint ddef_eqb (a b : ddef) : bool :=
  match a, b with
  | DVal x, DVal y => pv_eqb x y
  | DList x, DList y =>
      (fix go (x y : list ddef) : bool :=
         match x, y with
         | [], [] => true
         | p :: x', q :: y' => ddef_eqb p q && go x' y'
         | _, _ => false
         end) x y
  | DMap x, DMap y => perm_eqb entry_eqb x y
  | _, _ => false
  end.
Definition cval_eqb (a b : cval) : bool :=
  match a, b with
  | CNone, CNone => true
  | COne x, COne y => str_eqb x y
  | CMany x, CMany y => list_eqb str_eqb x y
  | _, _ => false
  end.
Definition plainsec := (list (str * ddef) * cval)%type.
Definition plainsec_eqb (a b : plainsec) : bool :=
  perm_eqb (fun x y => str_eqb (fst x) (fst y) && ddef_eqb (snd x) (snd y)) (fst a) (fst b)
  && cval_eqb (snd a) (snd b).
Definition out_eqb {A} (eqb : A -> A -> bool) (a b : outcome A) : bool :=
  match a, b with
  | Ok x, Ok y => eqb x y
  | SigmaErr x, SigmaErr y => N.eqb x y
  | Crash x, Crash y => N.eqb x y
  | _, _ => false
  end.

Definition apply_unit (f : option str) (ms : list mcls) (o : list sval) : outcome unit := Ok tt.
Definition m_load := load_dets apply_unit.
Definition m_plain (r : dets unit) := dets_plain r.

(* the specification on the implementation's output: the second dict equals the first and both
   objects convert to the same query; or serialisation refused with a Sigma error *)
Definition spec_rt (d1 d2 : outcome plainsec) (q1 q2 : str) : bool :=
  match d1 with
  | Ok x => out_eqb plainsec_eqb d2 (Ok x) && str_eqb q1 q2
  | SigmaErr _ => true
  | Crash _ => false
  end.

Definition nontriv_def (d : ddef) : bool :=
  match d with
  | DVal _ => false
  | DList _ => true
  | DMap m => existsb (fun kv => mem c_pipe (fst kv) || match snd kv with MMany _ => true | MOne (PStrV s) => existsb (fun c => N.eqb c c_bs || is_special c) s | _ => false end) m
              || Nat.ltb 1 (length m)
  end.

(* suite det: (source detections, source condition, impl to_dict, impl to_dict of the reloaded object,
               query of the source, query of the reloaded) *)
(* pur = (argument of the first from_dict after the call, the written dict after it was loaded,
          to_dict of a second load of that same dict): from_dict must leave its argument alone *)
Definition judge_det (c : list (str * ddef) * cval * outcome plainsec * outcome plainsec * str * str
                          * (plainsec * outcome plainsec * outcome plainsec)) : N :=
  let '(defs, cond, d1, d2, q1, q2, pur) := c in
  let '(a1, w1, d2b) := pur in
  let proc := from_dict_proc apply_unit (defs, cond) in
  let r := fst proc in
  let d1m := obind r m_plain in
  let d2m := obind d1m (fun x => obind (m_load (fst x) (snd x)) m_plain) in
  (* SigmaErr 50: the implementation could not reload its own dict because a modifier refused the
     written value; modifiers are abstract in the model, so this outcome is not compared (the oracle rejects it) *)
  let agree := out_eqb plainsec_eqb d1m d1 &&
               (match d2 with SigmaErr 50 => true | _ => out_eqb plainsec_eqb d2m d2 end) in
  let w1m := match d1m with Ok x => Ok (snd (from_dict_proc apply_unit x)) | e => e end in
  let agree := agree && plainsec_eqb (snd proc) a1 && out_eqb plainsec_eqb w1m w1 &&
               (match d2b with SigmaErr 50 => true | _ => out_eqb plainsec_eqb d2m d2b end) in
  let pure := plainsec_eqb (defs, cond) a1 && out_eqb plainsec_eqb w1 d1 &&
              (match d1 with Ok _ => out_eqb plainsec_eqb d2b d2 | _ => true end) in
  let dom := match r, d1m with Ok r', Ok _ => dom_dets r' | _, _ => false end in
  bits agree (spec_rt d1 d2 q1 q2 && pure) dom (existsb (fun nd => nontriv_def (snd nd)) defs).

(* suite hist: the object state after one pipeline transformation (read from the implementation:
   fields, modifier classes, original values or None), impl to_dict, query of the transformed object,
   query of the reloaded dict *)
Definition judge_hist (c : list (str * det unit) * list str * outcome plainsec * str * str) : N :=
  let '(ds, cond, d1, qt, qr) := c in
  let d1m := m_plain (mkDets ds cond) in
  let spec := match d1 with
              | Ok _ => str_eqb qt qr
              | SigmaErr _ => true
              | Crash _ => false
              end in
  bits (out_eqb plainsec_eqb d1m d1) spec
       (existsb (fun nd => has_disabled (snd nd)) ds)
       true.

(* ---------- documents: metadata writer ---------- *)
(* SigmaRuleBase.to_dict: which keys are written (compared as a set: key order carries no meaning).  A field is described by its
   shape in the loaded object: 0 = None, 1 = empty list, 2 = anything else. *)
Definition F_title := 0. Definition F_id := 1. Definition F_status := 2. Definition F_level := 3.
Definition F_author := 4. Definition F_description := 5. Definition F_name := 6.
Definition F_references := 7. Definition F_fields := 8. Definition F_falsepositives := 9. Definition F_scope := 10.
Definition F_tags := 11. Definition F_date := 12. Definition F_modified := 13.
Definition F_taxonomy := 14. Definition F_related := 15. Definition F_license := 16.
Definition F_logsource := 20. Definition F_detection := 21. Definition F_correlation := 22. Definition F_filter := 23.

Fixpoint shape_of (f : N) (l : list (N * N)) : N :=
  match l with [] => 0 | (k, s) :: t => if N.eqb k f then s else shape_of f t end.

(* kind: 0 rule, 1 correlation rule, 2 filter; custom: indices (>= 100) of custom attributes in input order *)
(* assigning to a key that is already in a dict keeps its position *)
Fixpoint dedup (seen l : list N) : list N :=
  match l with
  | [] => []
  | x :: r => if existsb (N.eqb x) seen then dedup seen r else x :: dedup (x :: seen) r
  end.
Definition meta_keys (kind : N) (shapes : list (N * N)) (custom : list N) : list N :=
  dedup [] ([F_title]
  ++ filter (fun f => negb (N.eqb (shape_of f shapes) 0)) [F_id; F_status; F_level; F_author; F_description; F_name]
  ++ filter (fun f => N.eqb (shape_of f shapes) 2) [F_references; F_fields; F_falsepositives; F_scope]
  ++ filter (fun f => N.eqb (shape_of f shapes) 2) [F_tags]
  ++ filter (fun f => negb (N.eqb (shape_of f shapes) 0)) [F_date; F_modified]
  ++ custom
  ++ (if N.eqb kind 0 then [F_logsource; F_detection]
      else if N.eqb kind 1 then [F_correlation] else [F_logsource; F_filter])).

(* suite doc: (kind, shapes, custom, keys of impl to_dict in order, canonical JSON of to_dict, of the
   to_dict of the reloaded object, of the to_dict after a YAML dump/load, queries of the three objects) *)
Definition spec_doc (j1 j2 jy : outcome str) (q1 q2 qy : str) : bool :=
  match j1 with
  | Ok x => out_eqb str_eqb j2 (Ok x) && out_eqb str_eqb jy (Ok x) && str_eqb q1 q2 && str_eqb q1 qy
  | SigmaErr _ => true
  | Crash _ => false
  end.
(* SigmaLogSource.to_dict: category, product, service, definition when not None, then the custom attributes;
   SigmaCorrelationRule.to_dict: type, rules, timespan, group-by, aliases, generate (only when true), condition *)
Fixpoint present (ks shapes : list N) : list N :=
  match ks, shapes with
  | k :: ks', s :: sh' => if N.eqb s 0 then present ks' sh' else k :: present ks' sh'
  | _, _ => []
  end.
Definition sub_keys (kind : N) (shapes custom : list N) (flag : bool) : list N :=
  if N.eqb kind 1 then [10; 11; 12; 13; 14] ++ (if flag then [15] else []) ++ [16]
  else present [0; 1; 2; 3] shapes ++ custom.

(* pur: for every from_dict call the canonical JSON of its argument before and after the call (source
   document, written dict, written dict on its second load); again: to_dict after loading the SAME written
   dict a second time and after dumping that same dict as YAML once it had been loaded.  The model
   (from_dict leaves its argument alone, loading is a function of the document) predicts after = before. *)
Definition args_unchanged (pur : list (str * str)) : bool := forallb (fun p => str_eqb (fst p) (snd p)) pur.
Definition judge_doc (c : N * list (N * N) * list N * list N * (list N * list N * bool * list N)
                          * outcome str * outcome str * outcome str * str * str * str
                          * (list (str * str) * list (outcome str))) : N :=
  let '(kind, shapes, custom, keys, sub, j1, j2, jy, q1, q2, qy, purity) := c in
  let '(pur, again) := purity in
  let '(sshapes, scustom, sflag, skeys) := sub in
  let agree := match j1 with
               | Ok _ => perm_eqb N.eqb (meta_keys kind shapes custom) keys
                         && perm_eqb N.eqb (sub_keys kind sshapes scustom sflag) skeys
               | _ => true end in
  let agree := agree && args_unchanged pur in
  let pure := args_unchanged pur &&
              match j1 with Ok _ => forallb (fun o => out_eqb str_eqb o j1) again | _ => true end in
  bits agree (spec_doc j1 j2 jy q1 q2 qy && pure) false
       (Nat.ltb 3 (length keys)).
