(* C14 - judge of the correspondence suite "hist": histories of pipeline API calls.
   bit 1: heap model (Model.Pipeline.mexec) = implementation
   bit 2: specification of the history (Spec.AbsPipeline.aexec: values only, concatenation,
          (priority, name) order, stage order) accepts the implementation's observation
   bit 4: every conversion of the history ran a pipeline that owned all its objects and was built for
          the requested format (premise of
          C14_behaviour_partial / C14_history_partial)
   bit 8: the history composes at least two non-empty pipelines *)
From Coq Require Import NArith ZArith List Bool.
From PS Require Import Base.Chars Base.Outcome Spec.AbsPipeline Model.Pipeline Run.Bits.
Import ListNotations.
Open Scope N_scope.

Definition kv_eqb (a b : str * str) := str_eqb (fst a) (fst b) && str_eqb (snd a) (snd b).
Definition dict_eqb := list_eqb kv_eqb.
Definition dict_sim (a b : dict) : bool :=
  forallb (fun kv => option_eqb str_eqb (lookup (fst kv) a) (lookup (fst kv) b)) (a ++ b).
Definition output_eqb (a b : output) : bool :=
  match a, b with
  | OList x, OList y => list_eqb str_eqb x y
  | OStr x, OStr y => str_eqb x y
  | _, _ => false
  end.
Definition obs_eqb (a b : list bool * dict) := list_eqb Bool.eqb (fst a) (fst b) && dict_eqb (snd a) (snd b).
Definition set_eqb (a b : list str) : bool :=
  forallb (fun x => existsb (str_eqb x) b) a && forallb (fun x => existsb (str_eqb x) a) b.
Definition result_cmp (veq : dict -> dict -> bool) (a b : result) : bool :=
  output_eqb (o_out a) (o_out b) && list_eqb obs_eqb (o_rules a) (o_rules b)
  && set_eqb (o_ids a) (o_ids b) && veq (o_vars a) (o_vars b).
Definition outcome_cmp (eq : result -> result -> bool) (a b : outcome result) : bool :=
  match a, b with
  | Ok x, Ok y => eq x y
  | SigmaErr x, SigmaErr y => N.eqb x y
  | Crash x, Crash y => N.eqb x y
  | _, _ => false
  end.
Definition def_size (d : pdef) : nat := length (d_items d) + length (d_post d) + length (d_fin d).
Fixpoint itree_leaves (e : itree) : nat := match e with ILeaf _ => 1 | IPlus a b => itree_leaves a + itree_leaves b end.
Definition composes (o : op) : bool :=
  match o with
  | OpTree e => Nat.leb 2 (itree_leaves e)
  | OpResolve s => Nat.leb 2 (length s)
  | OpSum l => Nat.leb 2 (length l)
  | _ => false
  end.
Definition ent_nonempty (e : str * rent nat) : bool :=
  match snd e with RCall d => Nat.ltb 0 (def_size d) | RSeq ds => existsb (fun d => Nat.ltb 0 (def_size d)) ds | RObj _ => false end.

(* operand pipelines, resolver table (identifier -> operand index | definition of a callable or YAML
   file), backend pipeline, output-format pipelines of default/test/state, rules, history,
   implementation's result *)
Definition hist_case := (list pdef * list (str * rent nat) * pdef * (pdef * pdef * pdef) * list rule * list op * outcome result)%type.
Definition judge_hist (c : hist_case) : N :=
  let '(defs, tn, bkd, (od, ot, os), rules, prog, impl) := c in
  let m := mexec defs tn bkd od ot os rules prog in
  let a := aexec (map adef defs) tn (apipe_of bkd) (by_fmt (apipe_of od) (apipe_of ot) (apipe_of os)) rules prog in
  bits (outcome_cmp (result_cmp dict_eqb) (fst m) impl)
       (outcome_cmp (result_cmp dict_sim) a impl)
       (snd m)
       (existsb composes prog &&
        Nat.leb 2 (length (filter (fun d => Nat.ltb 0 (def_size d)) (defs ++ [bkd; od; ot; os]))
                   + length (filter ent_nonempty tn))).
