(* C08 - correspondence judge: the model of Backend.convert instantiated for the shipped TextQueryTestBackend
   (formats default / test, optional pipeline with an embedding query post-processing step, event_count
   correlation rules) against the implementation's result, and the specification evaluated on the
   implementation's output using fresh single-rule conversions as the reference. *)
From Coq Require Import NArith List Bool.
From Coq Require String Ascii.
From PS Require Import Base.Chars Base.Outcome Model.Collection Spec.Collection Run.Bits.
Import ListNotations.
Open Scope N_scope.

(* compact encoding of ASCII strings in generated case files *)
Declare Scope s8_scope.
Delimit Scope s8_scope with s8.
String Notation String.string String.string_of_list_byte String.list_byte_of_string : s8_scope.
Definition Sx (s : String.string) : str := map Ascii.N_of_ascii (String.list_ascii_of_string s).

Record dr := { d_raw : outcome (list str);   (* pipeline + conditions + finish_query, from the rule source *)
               d_finfail : bool;             (* a post-processing item rejects this rule's queries *)
               d_index : str }.              (* pipeline state "index" after the pipeline ran on this rule *)
Record cr := { c_pre : outcome unit;         (* pipeline application on the correlation rule *)
               c_names : list str;           (* names of the referenced rules *)
               c_finfail : bool;
               c_index : str }.
Record cfg := { k_fmt : N;                   (* output format: 0 "default", 1 "test", 2 "state" *)
                k_pipe : bool }.             (* user pipeline with EmbedQueryTransformation("<", ">") *)

Definition s_open : str := [91;32].           (* "[ " *)
Definition s_close : str := [32;93].         (* " ]" *)
Definition s_idx : str := [105;110;100;101;120;61].   (* "index=" *)
Definition s_idx2 : str := [32;40].                   (* " (" *)
Definition s_idx3 : str := [41].                      (* ")" *)
Definition s_lt : str := [60].
Definition s_gt : str := [62].
Definition s_sub1 : str := [115;117;98;115;101;97;114;99;104;32;123;32].           (* "subsearch { " *)
Definition s_sub2 : str := [32;124;32;115;101;116;32;101;118;101;110;116;95;116;121;112;101;61;34].           (* pipe, set event_type=, opening double quote *)
Definition s_sub3 : str := [34;32;125].           (* closing double quote, closing brace *)
Definition s_nl : str := [10].
Definition s_agg : str := [10;124;32;97;103;103;114;101;103;97;116;101;32;119;105;110;100;111;119;61;53;109;105;110;32;99;111;117;110;116;40;41;32;97;115;32;101;118;101;110;116;95;99;111;117;110;116;32;98;121;32;117;10;124;32;119;104;101;114;101;32;101;118;101;110;116;95;99;111;117;110;116;32;62;61;32;50].

Fixpoint join (sep : str) (l : list str) : str :=
  match l with [] => [] | [x] => x | x :: r => x ++ sep ++ join sep r end.

(* ReplaceQueryTransformation("#[0-9]", "#"): the digit behind every '#' is dropped *)
Fixpoint strip_hash (q : str) : str :=
  match q with
  | [] => []
  | c :: r => match r with
              | d :: r' => if N.eqb c 35 && N.leb 48 d && N.leb d 57 then c :: strip_hash r' else c :: strip_hash r
              | [] => [c]
              end
  end.

Definition finq_c (K : cfg) (p : payload dr cr) (i : nat) (q : str) : outcome str :=
  let idx := match p with PD d => d_index d | PC c => c_index c end in
  let q1 := match k_fmt K with
            | 1 => s_open ++ q ++ s_close
            | 2 => s_idx ++ idx ++ s_idx2 ++ q ++ s_idx3
            | _ => q
            end in
  let q2 := if k_pipe K then s_lt ++ strip_hash q1 ++ s_gt else q1 in
  let ff := match p with PD d => d_finfail d | PC c => c_finfail c end in
  if ff then SigmaErr E_Transformation else Ok q2.

Definition cpost_c (c : cr) (qss : list (list str)) : outcome (list str) :=
  let search := match qss with
                | [[q]] => q
                | _ => join s_nl (flat_map (fun nq => map (fun q => s_sub1 ++ q ++ s_sub2 ++ fst nq ++ s_sub3) (snd nq))
                                           (combine (c_names c) qss))
                end in
  Ok [search ++ s_agg].

Definition convert_c (K : cfg) (fcs collect : bool) (C : list (rule dr cr)) :=
  convert str dr cr (list str) d_raw (finq_c K) c_pre cpost_c (fun qs => Ok qs) fcs collect C.

Definition ostrs_eqb (a b : outcome (list str)) : bool :=
  match a, b with
  | Ok x, Ok y => list_eqb str_eqb x y
  | SigmaErr x, SigmaErr y => N.eqb x y
  | Crash x, Crash y => N.eqb x y
  | _, _ => false
  end.
Definition errs_eqb (a b : list (nat * N)) : bool :=
  list_eqb (fun x y => Nat.eqb (fst x) (fst y) && N.eqb (snd x) (snd y)) a b.

(* ---- the specification on the implementation's output ----
   alone_i = what a fresh backend yields for rule i on its own (queries, Sigma error class, other exception).
   collecting: no query of a failing rule, exactly one record per failing rule, in order; all other rules'
   queries as on their own, those with the output switch on, in collection order.  Not collecting: the first
   error is raised.  A non-Sigma exception is never swallowed. *)
Fixpoint spec_go (collect : bool) (out : nat -> bool) (i : nat) (al : list (outcome (list str)))
         (qs : list str) (es : list (nat * N)) : outcome (list str) * list (nat * N) :=
  match al with
  | [] => (Ok qs, es)
  | Ok q :: r => spec_go collect out (S i) r (if out i then qs ++ q else qs) es
  | SigmaErr e :: r => if collect then spec_go collect out (S i) r qs (es ++ [(i, e)]) else (SigmaErr e, es)
  | Crash c :: _ => (Crash c, es)
  end.

Definition has_fail (al : list (outcome (list str))) : bool :=
  existsb (fun o => match o with Ok _ => false | _ => true end) al.

(* case: configuration, rules, implementation result + errors + (collection order unchanged?), fresh conversions *)
(* exactly one query per condition of a rule that converts and whose output is enabled *)
Fixpoint counts_ok (out : nat -> bool) (i : nat) (al : list (outcome (list str))) (ncs : list nat) : bool :=
  match al, ncs with
  | [], [] => true
  | o :: al', n :: ncs' =>
      match o with Ok q => if out i then Nat.eqb (length q) n else true | _ => true end && counts_ok out (S i) al' ncs'
  | _, _ => false
  end.

Definition judge_collection
  (c : cfg * bool * bool * list (rule dr cr) * outcome (list str) * list (nat * N) * bool * list (outcome (list str)) * list nat) : N :=
  let '(K, fcs, collect, C, ires, ierrs, order_ok, al, ncs) := c in
  let '(st, o) := convert_c K fcs collect C in
  let agree := ostrs_eqb o ires && errs_eqb (errors st) ierrs in
  let '(sres, serrs) := spec_go collect (out_enabled dr cr C) 0 al [] [] in
  let spec := order_ok && Nat.eqb (length al) (length C) && ostrs_eqb sres ires && errs_eqb serrs ierrs
              && counts_ok (out_enabled dr cr C) 0 al ncs in
  let nontriv := has_fail al || existsb (fun r => match r with Cor _ _ _ => true | _ => false end) C
                 || existsb (fun n => Nat.ltb 1 n) ncs in
  bits agree spec true nontriv.
