(* C12 judge: bit 1 the model of the pipeline applied to the rule as loaded = the implementation's rule
   after ProcessingPipeline.apply (detection trees, condition text, fields list); bit 2 the harness's
   hand-rewritten documents are the specification's rewrite, and the implementation's query for
   (rule, pipeline) has the same truth table as the implementation's query for the hand-rewritten
   rule converted without a pipeline (both read by the verified target parser); bit 4 the case lies in
   the domain of the proved theorems; bit 8 the pipeline changed the rule. *)
From Coq Require Import NArith List Bool Arith.
From PS Require Import Base.Chars Model.SString Model.Backend Spec.Target Model.Transform Spec.Rewrite
  Proofs.TransformP Run.Bits.
Import ListNotations.
Open Scope nat_scope.

Definition aval_eqb (a b : aval) : bool :=
  match a, b with
  | AStr c s, AStr c' s' => Bool.eqb c c' && sstring_eqb s s'
  | ANum x, ANum y => str_eqb x y
  | ABool x, ABool y => Bool.eqb x y
  | ANull, ANull => true
  | ARe r f, ARe r' f' => str_eqb r r' && str_eqb f f'
  | ARef f s e, ARef f' s' e' => str_eqb f f' && Bool.eqb s s' && Bool.eqb e e'
  | AQuery e i, AQuery e' i' => str_eqb e e' && str_eqb i i'
  | AOther t, AOther t' => str_eqb t t'
  | _, _ => false
  end.
Definition value_eqb (a b : value) : bool :=
  match a, b with
  | V x, V y => aval_eqb x y
  | VExp l, VExp l' => list_eqb aval_eqb l l'
  | _, _ => false
  end.
Definition ditem_eqb (a b : ditem) : bool :=
  opt_str_eqb (i_field a) (i_field b) && list_eqb value_eqb (i_vals a) (i_vals b) &&
  Bool.eqb (i_all a) (i_all b) && Bool.eqb (i_neg a) (i_neg b) &&
  (* applied_processing_items is a set *)
  forallb (fun x => mem_str x (i_applied b)) (i_applied a) && forallb (fun x => mem_str x (i_applied a)) (i_applied b).
Fixpoint det_eqb (a b : det) : bool :=
  match a, b with
  | DI x, DI y => ditem_eqb x y
  | DD l la, DD l' la' =>
      Bool.eqb la la' &&
      (fix go (l l' : list det) : bool :=
         match l, l' with
         | [], [] => true
         | x :: r, y :: r' => det_eqb x y && go r r'
         | _, _ => false
         end) l l'
  | _, _ => false
  end.
Fixpoint doc_eqb (a b : doc) : bool :=
  let fix go (l l' : list doc) : bool :=
      match l, l' with
      | [], [] => true
      | x :: r, y :: r' => doc_eqb x y && go r r'
      | _, _ => false
      end in
  match a, b with
  | Entry x, Entry y => ditem_eqb x y
  | All l, All l' => go l l'
  | Any l, Any l' => go l l'
  | Neg x, Neg y => doc_eqb x y
  | _, _ => false
  end.
Definition named_eqb {A} (e : A -> A -> bool) (a b : str * A) : bool :=
  str_eqb (fst a) (fst b) && e (snd a) (snd b).
Definition set_eqb (a b : list str) : bool :=
  forallb (fun x => mem_str x b) a && forallb (fun x => mem_str x a) b.
(* dicts: same key/value pairs *)
Definition dict_eqb (a b : list (str * str)) : bool :=
  forallb (fun p => opt_str_eqb (lookup_str (fst p) b) (Some (snd p))) a &&
  forallb (fun p => opt_str_eqb (lookup_str (fst p) a) (Some (snd p))) b.
Definition attrs_eqb (a b : rattrs) : bool :=
  opt_str_eqb (fst (a_logsource a)) (fst (a_logsource b)) &&
  opt_str_eqb (fst (snd (a_logsource a))) (fst (snd (a_logsource b))) &&
  opt_str_eqb (snd (snd (a_logsource a))) (snd (snd (a_logsource b))) &&
  dict_eqb (a_custom a) (a_custom b) && dict_eqb (a_state a) (a_state b) && set_eqb (a_applied a) (a_applied b).
Definition rule_eqb (a b : rule) : bool :=
  list_eqb (named_eqb det_eqb) (r_dets a) (r_dets b) && str_eqb (r_cond a) (r_cond b) &&
  list_eqb str_eqb (r_fields a) (r_fields b) && attrs_eqb (r_attrs a) (r_attrs b).

Inductive qres := QNone | QToks (ts : list tok) | QBad.

Definition lvl_std (o : op) : nat := match o with ONot => 1 | OAnd => 2 | OOr => 3 end.
Definition asg_of (mask : N) (a : nat) : bool := N.testbit mask (N.of_nat a).
Definition tt_eq (n : nat) (q1 q2 : qres) : bool :=
  match q1, q2 with
  | QNone, QNone => true
  | QToks t1, QToks t2 =>
      forallb (fun m => let asg := asg_of (N.of_nat m) in
                        match tparse lvl_std asg t1, tparse lvl_std asg t2 with
                        | Some a, Some b => Bool.eqb a b
                        | _, _ => false
                        end) (seq 0 (Nat.pow 2 n))
  | _, _ => false
  end.

Record tcase := {
  tc_pipe : list pitem;
  tc_in : rule;               (* rule as loaded (detections after modifiers) *)
  tc_out : rule;              (* implementation: rule after ProcessingPipeline.apply *)
  tc_rw : rdocs;              (* harness: hand-rewritten documents *)
  tc_attrs : rattrs;          (* harness: documented rule attributes after the pipeline (log source, custom attributes, state, applied) *)
  tc_fields : list str;       (* harness: documented fields list after the pipeline *)
  tc_q1 : qres;               (* implementation: query of (rule, pipeline) *)
  tc_q2 : qres;               (* implementation: query of the hand-rewritten rule, no pipeline *)
  tc_natoms : nat
}.

Definition judge_tr (c : tcase) : N :=
  let model := apply_pipeline (tc_pipe c) (tc_in c) in
  let spec := list_eqb (named_eqb doc_eqb) (rewrite_pipeline (tc_pipe c) (rdocs_of (tc_in c))) (tc_rw c)
              && tt_eq (tc_natoms c) (tc_q1 c) (tc_q2 c)
              && attrs_eqb (tc_attrs c) (r_attrs (tc_out c)) && list_eqb str_eqb (tc_fields c) (r_fields (tc_out c)) in
  bits (rule_eqb model (tc_out c) && rules_consistent (tc_pipe c) (tc_in c)) spec (pipeline_ok (tc_pipe c) (tc_in c))
       (* non-trivial: something other than the marks of applied items changed *)
       (negb (rule_eqb (tc_in c)
                       (mkRule (r_dets (tc_out c)) (r_cond (tc_out c)) (r_fields (tc_out c))
                               (mkA (a_logsource (r_attrs (tc_out c))) (a_custom (r_attrs (tc_out c)))
                                    (a_state (r_attrs (tc_out c))) (a_applied (r_attrs (tc_in c)))))) ||
        negb (list_eqb (named_eqb doc_eqb) (rdocs_of (tc_in c)) (tc_rw c))).

(* for --replay *)
Definition model_tr (c : tcase) : rule := apply_pipeline (tc_pipe c) (tc_in c).
Definition spec_tr (c : tcase) : rdocs := rewrite_pipeline (tc_pipe c) (rdocs_of (tc_in c)).
