From Coq Require Import NArith Bool.
Open Scope N_scope.
(* judge result: 1 model=impl, 2 spec accepts impl, 4 in proved domain, 8 non-trivial *)
Definition bits (agree spec dom nontriv : bool) : N :=
  (if agree then 1 else 0) + (if spec then 2 else 0) + (if dom then 4 else 0) + (if nontriv then 8 else 0).
