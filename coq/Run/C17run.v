(* Judge of the C17 correspondence suite.
   case = (model case record, implementation: values after the pipeline (None when unavailable),
           query outcome of the verification backend, of the verification backend with in-expressions,
           query outcome of the stock test backend) *)
From Coq Require Import NArith List Bool.
From PS Require Import Base.Chars Base.Outcome Model.SString Model.PyRegex Model.Placeholder
                       Spec.Items Spec.Expand Proofs.PlaceholderP Run.Bits.
Import ListNotations.
Open Scope N_scope.

Definition part_eqb (a b : part) : bool :=
  match a, b with
  | PStr x, PStr y => str_eqb x y
  | PMulti, PMulti | PSingle, PSingle => true
  | PPh x, PPh y => str_eqb x y
  | _, _ => false
  end.
Definition value_eqb (a b : value) : bool :=
  match a, b with
  | VS x, VS y | VR x, VR y => list_eqb part_eqb x y
  | VQ e i, VQ e' i' => str_eqb e e' && str_eqb i i'
  | _, _ => false
  end.
Definition ostr_eqb (a b : outcome str) : bool :=
  match a, b with
  | Ok x, Ok y => str_eqb x y
  | SigmaErr x, SigmaErr y => N.eqb x y
  | Crash x, Crash y => N.eqb x y
  | _, _ => false
  end.
(* same outcome class, text not compared *)
Definition oclass_eqb (a b : outcome str) : bool :=
  match a, b with
  | Ok _, Ok _ => true
  | SigmaErr x, SigmaErr y => N.eqb x y
  | Crash x, Crash y => N.eqb x y
  | _, _ => false
  end.

(* characters that only occur in a query as literal characters of a value: the percent sign (placeholder
   syntax) and the braces (template syntax of query expressions) *)
Definition is_mark (c : char) : bool := N.eqb c c_pct || N.eqb c 123 || N.eqb c 125.
Definition count_marks (s : str) : nat := length (filter is_mark s).
Definition sval_marks (x : sval) : nat :=
  match x with
  | XS l | XR l => length (filter (fun i => match i with Lit c => is_mark c | _ => false end) l)
  | XQ t => count_marks t
  end.
(* stock TextQueryTestBackend on the same rule and pipeline, looked at as a whole: it fails exactly when a
   failure is expected, and otherwise its query contains exactly the percent signs and braces that are literal
   characters of the expected values or of the finished query expressions - no %name%, {field} or {id} is
   left anywhere, whatever template (in-list, startswith, ...) the backend chose *)
Definition stock_ok (exp : list (option (list sval))) (r : outcome str) : bool :=
  match all_some exp with
  | None => match r with SigmaErr _ => true | _ => false end
  | Some groups => match r with
                   | Ok q => Nat.eqb (count_marks q) (fold_right (fun x n => (sval_marks x + n)%nat) 0%nat (concat groups))
                   | _ => false
                   end
  end.

Definition judge_expand (x : case * option (list value) * outcome str * outcome str * outcome str) : N :=
  let '(c, ipipe, iq, iqin, istock) := x in
  let m := run c in
  let agree :=
    match run_pipeline c with
    | Ok vals => option_eqb (list_eqb value_eqb) ipipe (Some vals)
    | _ => true
    end && ostr_eqb m iq && ostr_eqb (run_in c) iqin && oclass_eqb m istock in
  let exp := expected c in
  let spec := s_accepts (lhs_of c) (c_all c) exp iq && s_accepts_in (lhs_of c) (c_all c) exp iqin
              && stock_ok exp istock in
  let dom := match all_some exp with Some groups => flat_ok (c_all c) groups | None => true end in
  let nontriv := existsb (fun s => match s_source (c_re c) (map to_smod (c_mods c)) s with
                                   | Some (XS l) | Some (XR l) => match ph_of l with [] => false | _ => true end
                                   | _ => false end) (c_values c) in
  bits agree spec dom nontriv.

(* suite history: one pipeline object / one backend used for several conversions, the variable table
   changed in between. Every step is judged by the unchanged single-conversion judge against the table
   current at that step: conversion has no memory. Bits are combined: all steps agree / all accepted /
   all in the domain / some step non-trivial. *)
Definition judge_history (l : list (case * option (list value) * outcome str * outcome str * outcome str)) : N :=
  let bs := map judge_expand l in
  bits (forallb (fun b => N.testbit b 0) bs) (forallb (fun b => N.testbit b 1) bs)
       (forallb (fun b => N.testbit b 2) bs) (existsb (fun b => N.testbit b 3) bs).
