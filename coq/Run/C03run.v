(* Judges of the C03 correspondence suites. *)
From Coq Require Import NArith ZArith List Bool.
From PS Require Import Base.Chars Base.Outcome Model.SString Model.ModBytes Model.Modifiers
                       Spec.Items Spec.ModSpec Proofs.ModifiersP Run.Bits.
Import ListNotations.
Open Scope N_scope.

(* ---------- Python-side oracles, as used by the harness ---------- *)
(* \w of re for str patterns: exact for ASCII; a table for the non-ASCII code points the
   generators use (é ß ü Ω ² ٣ 中 𝐀 are word characters; every other generated code point -
   dashes U+2013..2015, €, ·, ©, NBSP, BOM, 😀 - is not) *)
Definition ascii_word (c : char) : bool :=
  ((48 <=? c) && (c <=? 57)) || ((65 <=? c) && (c <=? 90)) || ((97 <=? c) && (c <=? 122)) || (c =? 95).
Definition py_word (c : char) : bool :=
  if c <? 128 then ascii_word c else mem c [233; 223; 252; 937; 178; 1635; 20013; 119808].

(* re.compile succeeds, for patterns over the generated alphabet: literals, '.', '^', '$',
   backslash escapes, the quantifiers '*' '?' '+' with their lazy/possessive suffix.
   0 = nothing to repeat yet (start or after an assertion), 1 = repeatable item, 2 = just quantified *)
Definition is_quant (c : char) : bool := (c =? 42) || (c =? 63) || (c =? 43).
Fixpoint re_valid_go (fuel : nat) (st : N) (s : str) : bool :=
  match fuel with
  | O => false
  | S f =>
    match s with
    | [] => true
    | c :: s' =>
      if c =? c_bs then
        match s' with
        | [] => false
        | d :: s'' =>
            if (d =? 66) || (d =? 98) || (d =? 65) || (d =? 90) then re_valid_go f 0 s''   (* \B \b \A \Z *)
            else if mem d [97; 102; 110; 114; 116; 118; 100; 68; 115; 83; 119; 87; 48] then re_valid_go f 1 s''
            else if ((d <? 128) && ascii_word d && negb (d =? 95)) then false            (* bad escape / group ref *)
            else re_valid_go f 1 s''
        end
      else if is_quant c then
        if st =? 1 then
          match s' with
          | d :: s'' => if (d =? 63) || (d =? 43) then re_valid_go f 2 s'' else re_valid_go f 2 s'
          | [] => true
          end
        else false
      else if (c =? 94) || (c =? 36) then re_valid_go f 0 s'
      else if mem c [40; 41; 91; 123; 124] then false          (* outside the modelled fragment *)
      else re_valid_go f 1 s'
    end
  end.
Definition py_re_valid (s : str) : bool := re_valid_go (S (length s)) 0 s.

Definition mkO (cidrs : list str) : oracles :=
  {| word := py_word; re_ok := py_re_valid; cidr_ok := fun t => existsb (str_eqb t) cidrs |}.

(* ---------- equality of values ---------- *)
Definition part_eqb (a b : part) : bool :=
  match a, b with
  | PStr x, PStr y => str_eqb x y
  | PMulti, PMulti | PSingle, PSingle => true
  | PPh x, PPh y => str_eqb x y
  | _, _ => false
  end.
Definition ts_eqb (a b : tspart) : bool :=
  match a, b with
  | TMinute, TMinute | THour, THour | TDay, TDay | TWeek, TWeek | TMonth, TMonth | TYear, TYear => true
  | _, _ => false
  end.
Definition op_eqb (a b : cmpop) : bool :=
  match a, b with OLt, OLt | OLte, OLte | OGt, OGt | OGte, OGte => true | _, _ => false end.
Definition num_eqb (a b : num) : bool :=
  match a, b with
  | NInt x, NInt y => Z.eqb x y
  | NFloat x d, NFloat y e => Z.eqb x y && Pos.eqb d e
  | _, _ => false
  end.
Definition numv_eqb (a b : numv) : bool :=
  match a, b with
  | NPlain x, NPlain y => num_eqb x y
  | NTs p x, NTs q y => ts_eqb p q && Z.eqb x y
  | _, _ => false
  end.
Definition atom_eqb {S} (eqb : S -> S -> bool) (a b : atomv S) : bool :=
  match a, b with
  | AStr c x, AStr d y => Bool.eqb c d && eqb x y
  | ANum x, ANum y => numv_eqb x y
  | ABool x, ABool y => Bool.eqb x y
  | ANull, ANull => true
  | ARe x a1 a2 a3, ARe y b1 b2 b3 => eqb x y && Bool.eqb a1 b1 && Bool.eqb a2 b2 && Bool.eqb a3 b3
  | ACidr x, ACidr y => str_eqb x y
  | ACmp o x, ACmp p y => op_eqb o p && numv_eqb x y
  | AFieldRef x a1 a2, AFieldRef y b1 b2 => str_eqb x y && Bool.eqb a1 b1 && Bool.eqb a2 b2
  | AExists x, AExists y => Bool.eqb x y
  | _, _ => false
  end.
Fixpoint gval_eqb {S} (eqb : S -> S -> bool) (a b : gval S) {struct a} : bool :=
  match a, b with
  | VAtom x, VAtom y => atom_eqb eqb x y
  | VExp l, VExp m =>
      (fix go (l m : list (gval S)) : bool :=
         match l, m with
         | [], [] => true
         | x :: l', y :: m' => gval_eqb eqb x y && go l' m'
         | _, _ => false
         end) l m
  | _, _ => false
  end.
Definition mvals_eqb := list_eqb (gval_eqb (list_eqb part_eqb)).
Definition svals_eqb := list_eqb (gval_eqb (list_eqb item_eqb)).

(* the observation: values, value_linking is AND, negated; or the exception class *)
Definition obs := outcome (list mval * bool * bool).
Definition obs_of (r : outcome item_state) : obs :=
  match r with
  | Ok st => Ok (values st, link_and st, negated st)
  | SigmaErr c => SigmaErr c
  | Crash c => Crash c
  end.
Definition obs_eqb (a b : obs) : bool :=
  match a, b with
  | Ok (v, l, n), Ok (w, m, k) => mvals_eqb v w && Bool.eqb l m && Bool.eqb n k
  | SigmaErr x, SigmaErr y => N.eqb x y
  | Crash x, Crash y => N.eqb x y
  | _, _ => false
  end.

(* the specification accepts an observation of the implementation *)
Definition spec_accepts (O : oracles) (key : option str) (val : yin) (r : obs) : bool :=
  match r, sp_from_mapping O key val with
  | Ok (v, l, n), Some (w, m, k) => svals_eqb (map view v) w && Bool.eqb l m && Bool.eqb n k
  | SigmaErr _, None => true
  | _, _ => false
  end.

Definition yv_nontrivial (v : yv) : bool :=
  match v with
  | YStr s => existsb (fun c => mem c [c_bs; c_star; c_qm; c_pct; c_dash; c_slash]) s
  | _ => false
  end.

(* suite item: (key, value, valid CIDR texts among the source strings, implementation result).
   bit 4 = the premise of theorem C03_refines_spec_partial (Proofs.ModifiersP.in_domain), computed
   from the source input *)
Definition judge_item (c : option str * yin * list str * obs) : N :=
  let '(key, val, cidrs, r) := c in
  let O := mkO cidrs in
  let m := obs_of (from_mapping O key val) in
  let ids := snd (split_key key) in
  bits (obs_eqb m r) (spec_accepts O key val r) (in_domain key val)
       (negb (match ids with [] => true | _ => false end)
        && existsb yv_nontrivial (match val with YOne v => [v] | YMany l => l end)
        || (1 <? length ids)%nat).
