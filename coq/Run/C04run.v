(* Judge of the C04 correspondence suite. bit 1: model = implementation; bit 2: the specification
   (RFC 4648 text, UTF-16 byte content, occurrence at every alignment) accepts the implementation's
   values, computed from the source payload and the implementation output only. *)
From Coq Require Import NArith List Bool.
From PS Require Import Base.Chars Base.Outcome Model.SString Spec.Items Spec.Utf Spec.B64 Model.Enc Run.Bits.
Import ListNotations.
Open Scope N_scope.

(* implementation values: parts of a SigmaString together with bytes(value) (None: raised) *)
Inductive ival := IStr (v : sstring) (b : option (list N)) | IExp (l : list ival) | IOther.

Definition part_eqb (a b : part) : bool :=
  match a, b with
  | PStr x, PStr y => str_eqb x y
  | PMulti, PMulti | PSingle, PSingle => true
  | PPh x, PPh y => str_eqb x y
  | _, _ => false
  end.
Definition parts_eqb := list_eqb part_eqb.

(* ---------------- bit 1: model against implementation ---------------- *)
Fixpoint agree_val (x : sval) (y : ival) : bool :=
  match x, y with
  | VStr v, IStr w b => parts_eqb v w && option_eqb str_eqb (bytes_of w) b
  | VOther, IOther => true
  | VExp l, IExp l' =>
      (fix go (l : list sval) (l' : list ival) : bool :=
         match l, l' with
         | [], [] => true
         | a :: r, b :: r' => agree_val a b && go r r'
         | _, _ => false
         end) l l'
  | _, _ => false
  end.
Fixpoint forall2b {A B} (f : A -> B -> bool) (l : list A) (l' : list B) : bool :=
  match l, l' with
  | [], [] => true
  | a :: r, b :: r' => f a b && forall2b f r r'
  | _, _ => false
  end.
Definition agree (m : outcome (list sval)) (i : outcome (list ival)) : bool :=
  match m, i with
  | Ok l, Ok l' => forall2b agree_val l l'
  | SigmaErr a, SigmaErr b => N.eqb a b
  | Crash a, Crash b => N.eqb a b
  | _, _ => false
  end.

(* ---------------- bit 2: the specification on the implementation's values ---------------- *)
(* the chains the property speaks about: [wide | utf16be | utf16]? [base64 | base64offset]? [contains]? *)
Record shape := { sh_enc : option emod; sh_b64 : option emod; sh_contains : bool }.
Definition shape_of (ms : list emod) : option shape :=
  let '(e, ms1) := match ms with
                   | MWide :: r => (Some MWide, r) | MUtf16be :: r => (Some MUtf16be, r)
                   | MUtf16 :: r => (Some MUtf16, r) | _ => (None, ms) end in
  let '(b, ms2) := match ms1 with
                   | MBase64 :: r => (Some MBase64, r) | MBase64Offset :: r => (Some MBase64Offset, r)
                   | _ => (None, ms1) end in
  match ms2 with
  | [] => Some {| sh_enc := e; sh_b64 := b; sh_contains := false |}
  | [MContains] => Some {| sh_enc := e; sh_b64 := b; sh_contains := true |}
  | _ => None
  end.

Definition sitems_eqb := list_eqb sitem_eqb.
Definition is_wild (x : sitem) : bool := match x with SW _ => true | _ => false end.
Definition sbytes (l : list sitem) : list N := flat_map (fun x => match x with SB b => [b] | _ => [] end) l.

(* the byte content the specification demands after the character-encoding step *)
Definition enc_stream (e : option emod) (I : list item) : list sitem :=
  match e with
  | Some MWide => stream utf16le_char I
  | Some MUtf16be => stream utf16be_char I
  | Some MUtf16 => map SB bom_le ++ stream utf16le_char I
  | _ => stream utf8_char I
  end.

(* is every maximal run of bytes the UTF-8 form of some string? (a string value can carry it) *)
Fixpoint runs_valid (l : list sitem) (acc : list N) : bool :=
  match l with
  | [] => match utf8_dec acc with Some _ => true | None => false end
  | SB b :: r => runs_valid r (acc ++ [b])
  | SW _ :: r => match utf8_dec acc with Some _ => runs_valid r [] | None => false end
  end.

(* what "contains" may add around a value *)
Definition is_multi (x : sitem) : bool := match x with SW Multi => true | _ => false end.
Definition wrapc (c : bool) (e : list sitem) : list sitem :=
  if c then
    let e1 := match e with x :: _ => if is_multi x then e else SW Multi :: e | [] => [SW Multi] end in
    match rev e1 with x :: _ => if is_multi x then e1 else e1 ++ [SW Multi] | [] => e1 end
  else e.

Definition encoding_step (sh : shape) : bool :=
  match sh_enc sh, sh_b64 sh with None, None => false | _, _ => true end.

(* may this payload be rejected? *)
Definition reject_ok (sh : shape) (p : pval) (nonempty_chain : bool) : bool :=
  match p with
  | PVOther => nonempty_chain
  | PVStr s =>
      let I := iparse s in
      let E := enc_stream (sh_enc sh) I in
      (encoding_step sh && negb (forallb scalar (lits I)))
      || (match sh_enc sh with Some _ => negb (runs_valid E []) | None => false end)
      || (match sh_b64 sh with Some _ => existsb is_wild E | None => false end)
  end.

(* text of a value that is a plain literal (possibly wrapped by contains) *)
Definition val_text (c : bool) (v : sstring) : option str :=
  let t := lits (items v) in
  if sitems_eqb (vstream v) (wrapc c (map SB (utf8 t))) then Some t else None.

Definition bytes_match (c : bool) (v : sstring) (b : option (list N)) (expected : list N) : bool :=
  c || option_eqb str_eqb b (Some expected).

Definition accept (sh : shape) (sur : list (list N * list N)) (p : pval) (y : ival) : bool :=
  match p with
  | PVOther => match y with IOther => true | _ => false end
  | PVStr s =>
    let I := iparse s in
    let E := enc_stream (sh_enc sh) I in
    (negb (encoding_step sh) || forallb scalar (lits I)) &&
    match sh_b64 sh with
    | None =>
        match y with
        | IStr v b => sitems_eqb (vstream v) (wrapc (sh_contains sh) E)
                      && (existsb is_wild (vstream v) || negb (encoding_step sh)
                          || option_eqb str_eqb b (Some (sbytes E)))
        | _ => false
        end
    | Some MBase64 =>
        negb (existsb is_wild E) &&
        match y with
        | IStr v b =>
            let T := rfc4648 (sbytes E) in
            option_eqb str_eqb (val_text (sh_contains sh) v) (Some T)
            && bytes_match (sh_contains sh) v b (utf8 T)
        | _ => false
        end
    | Some _ =>
        negb (existsb is_wild E) &&
        match y with
        | IExp l =>
            let ts := map (fun z => match z with IStr v _ => val_text (sh_contains sh) v | _ => None end) l in
            let encs := map (fun ps => (Nat.modulo (length (fst ps)) 3,
                                        rfc4648 (fst ps ++ sbytes E ++ snd ps))) sur in
            forallb (fun t => match t with Some _ => true | None => false end) ts
            (* every byte string containing the payload: its Base64 text contains one of the values *)
            && forallb (fun e => existsb (fun t => match t with Some t => infixb t (snd e) | None => false end) ts) encs
            (* every value is implied by the payload alone: at one alignment it occurs whatever surrounds it *)
            && forallb (fun t => match t with
                                 | Some t => existsb (fun i => forallb (fun e => negb (Nat.eqb (fst e) i) || infixb t (snd e)) encs)
                                                     [0; 1; 2]%nat
                                 | None => false end) ts
        | _ => false
        end
    end
  end.

Definition is_crash {A} (o : outcome A) : bool := match o with Crash _ => true | _ => false end.

Definition spec_ok (ms : list emod) (ps : list pval) (sur : list (list N * list N))
           (r : outcome (list ival)) : bool :=
  match shape_of ms with
  | None => negb (is_crash r)             (* the property is silent about other chains; never a crash *)
  | Some sh =>
      match r with
      | Ok l => Nat.eqb (length l) (length ps) &&
                forallb (fun py => accept sh sur (fst py) (snd py)) (combine ps l)
      | SigmaErr _ => existsb (fun p => reject_ok sh p (negb (Nat.eqb (length ms) 0))) ps
      | Crash _ => false
      end
  end.

Definition in_domain (ms : list emod) (sur : list (list N * list N)) : bool :=
  match shape_of ms with
  | Some sh => (match sh_enc sh with Some MUtf16 => false | _ => true end)
               && forallb (fun ps => bytes_ok (fst ps) && bytes_ok (snd ps)) sur
  | None => false
  end.

Definition nontrivial (ms : list emod) (ps : list pval) : bool :=
  negb (Nat.eqb (length ms) 0) &&
  existsb (fun p => match p with PVStr (_ :: _) => true | _ => false end) ps.

Definition judge_chain (c : list emod * list pval * list (list N * list N) * outcome (list ival)) : N :=
  let '(ms, ps, sur, r) := c in
  bits (agree (from_mapping ms ps) r) (spec_ok ms ps sur r) (in_domain ms sur) (nontrivial ms ps).

(* suite pure: several observations of one chain (second application to the same value objects, the
   value objects themselves afterwards, original_value, to_plain() and reload); every observation
   is judged like a fresh application of its chain to its payloads *)
Definition judge_pure
  (c : list (list N * list N) * list (list emod * list pval * outcome (list ival))) : N :=
  let '(sur, views) := c in
  let bs := map (fun v => let '(ms, ps, r) := v in judge_chain (ms, ps, sur, r)) views in
  bits (forallb (fun b => N.testbit b 0) bs) (forallb (fun b => N.testbit b 1) bs)
       (forallb (fun b => N.testbit b 2) bs) (existsb (fun b => N.testbit b 3) bs).
