(* C20 - judge of the correspondence suite "sites".  A case is a site input together with the
   observable results of the implementation in several processes (different PYTHONHASHSEED, different
   seeds of the random module).
   bit 1: the model (evaluated under two different iteration orders and with the identifiers the
          process really drew) equals every run;
   bit 2: the specification on the implementation's output alone: all runs are identical and no query /
          error text contains a drawn identifier;
   bit 4: the input is in the domain of the theorems (fresh draws, closed filters);
   bit 8: non-trivial (a set with >= 2 elements is iterated / an identifier is drawn). *)
From Coq Require Import NArith List Bool Permutation.
From PS Require Import Base.Chars Model.Determinism Spec.DetSpec Proofs.DeterminismP Run.Bits.
Import ListNotations.
Open Scope N_scope.

Inductive itree := INone | IAtom (c : str) | INot (t : itree) | IOp (isand : bool) (l : list itree).
Fixpoint to_itree (q : qtree) : itree :=
  match q with
  | QNone => INone
  | QAtom c => IAtom c
  | QNot q => INot (to_itree q)
  | QBin o a b => IOp o [to_itree a; to_itree b]
  | QSel a l => IOp a (map IAtom l)
  end.
Fixpoint itree_eqb (a b : itree) {struct a} : bool :=
  match a, b with
  | INone, INone => true
  | IAtom x, IAtom y => str_eqb x y
  | INot x, INot y => itree_eqb x y
  | IOp o l, IOp o' l' =>
      Bool.eqb o o' &&
      (fix go (l l' : list itree) : bool :=
         match l, l' with
         | [], [] => true
         | x :: r, y :: r' => itree_eqb x y && go r r'
         | _, _ => false
         end) l l'
  | _, _ => false
  end.

(* one run of the implementation *)
Record irun := { i_ok : bool;                       (* false: a Sigma error was raised *)
                 i_text : str;                      (* query / rendered text, or the error message *)
                 i_fields : list (list str);
                 i_fm : list (str * list str);
                 i_tf : list (str * list str);
                 i_cn : list str;                   (* identifiers drawn by add_condition items *)
                 i_fn : list str;                   (* prefixes the filters ended up with *)
                 i_fd : list (list str);            (* candidate draws consumed by each filter application *)
                 i_tree : itree }.

Inductive top := TAdd (s : str) (t : list str) | TMerge (other : list (str * list str)).

Inductive site :=
| SStrict (nested : bool) (maps : list mapping) (dets : list (list str))
| SUnref (keys refs : list str)
| SCorr (unknown : list str)
| SCorrD (d : list (str * cval))
| SFlags (fl : list reflag)
| SNames (r : rule) (filters : list sfilter) (adds : list (str * bool))
| STracking (ops : list top)
| SDangling (dets refs : list str).

Definition strs_eqb := list_eqb str_eqb.
Definition kv_eqb (a b : str * list str) := str_eqb (fst a) (fst b) && strs_eqb (snd a) (snd b).
Definition dict_eqb := list_eqb kv_eqb.
Definition sort_keys (m : list (str * list str)) := isort (fun a b => str_leb (fst a) (fst b)) m.
Definition ostr_eqb := option_eqb str_eqb.

Definition run_tracking (O : order) (ops : list top) : tracking :=
  fold_left (fun st op => match op with
                          | TAdd s t => add_mapping O st s t
                          | TMerge other =>
                              merge O st (fold_left (fun o kv => add_mapping O o (fst kv) (snd kv)) other t_empty)
                          end) ops t_empty.

(* "<Class>:<name>" lines *)
Definition dd_prefix : str :=   (* "DanglingDetectionIssue:" *)
  [68;97;110;103;108;105;110;103;68;101;116;101;99;116;105;111;110;73;115;115;117;101;58].
Definition nl : str := [10].

(* rendering of the fixed regular expression "a.b" of the flags site by escape(("/",)) *)
Definition re_body : str := [97; 46; 98].

(* Error messages are compared from the first ": " on - that is where the code renders a set of names; the wording in
   front of it (and of messages without such a part) is no concern of this property, so a reworded message agrees. *)
Fixpoint after_colon (m : str) : str :=
  match m with
  | a :: ((b :: r) as t) => if N.eqb a 58 && N.eqb b 32 then r else after_colon t
  | _ => []
  end.
Definition msg_eqb (impl model : str) : bool := str_eqb (after_colon impl) (after_colon model).

(* does the model, under iteration order O, predict this run? *)
Definition agree (O : order) (s : site) (r : irun) : bool :=
  match s with
  | SStrict nested maps dets =>
      let '(dets', msg, st) := strict_run O nested maps dets in
      match msg with
      | Some m => negb (i_ok r) && msg_eqb (i_text r) m
      | None => i_ok r && list_eqb strs_eqb (i_fields r) dets' && dict_eqb (i_fm r) (fst st)
                && dict_eqb (i_tf r) (sort_keys (snd st))
      end
  | SUnref keys refs =>
      match unref_msg O keys refs with
      | Some m => negb (i_ok r) && msg_eqb (i_text r) m
      | None => i_ok r
      end
  | SCorr u =>
      match corr_msg O u with
      | Some m => negb (i_ok r) && msg_eqb (i_text r) m
      | None => i_ok r
      end
  | SCorrD d =>
      match corr_from_dict O d with
      | COk op z => i_ok r && str_eqb (i_text r) (op ++ [32] ++ z)
      | CErr m => negb (i_ok r) && msg_eqb (i_text r) m
      end
  | SFlags fl => i_ok r && prefixb (flag_prefix O fl ++ re_body ++ nl) (i_text r)
  | SNames ru fs adds =>
      (* the redraw loop, replayed on the draws the process really made, must accept exactly the prefix seen *)
      match choose (i_fd r) fs ru with
      | Some ch =>
          strs_eqb (map fst ch) (i_fn r) && forallb (fun x => match snd x with [] => true | _ => false end) ch
          && Nat.eqb (length (i_cn r)) (length adds)
          && match names_run ru (combine (i_fn r) fs) (combine (i_cn r) adds) with
             | RQ q => i_ok r && itree_eqb (to_itree q) (i_tree r)
             | RUndef n => negb (i_ok r) && str_eqb (i_text r) n
             end
      | None => false
      end
  | STracking ops =>
      let st := run_tracking O ops in
      i_ok r && dict_eqb (i_fm r) (fst st) && dict_eqb (i_tf r) (sort_keys (snd st))
  | SDangling dets refs =>
      i_ok r && str_eqb (i_text r) (join nl (map (fun n => dd_prefix ++ n) (dangling_names O dets refs)))
  end.

(* an occurrence of _cond_ / _filt_ followed by ten lower-case letters *)
Definition lower (c : N) : bool := N.leb 97 c && N.leb c 122.
Definition tag_cond : str := [95; 99; 111; 110; 100; 95].
Definition tag_filt : str := [95; 102; 105; 108; 116; 95].
Definition id_here (s : str) : bool :=
  (prefixb tag_cond s || prefixb tag_filt s)
  && (let t := firstn 10 (skipn 6 s) in Nat.eqb (length t) 10 && forallb lower t).
Fixpoint has_id (s : str) : bool :=
  match s with
  | [] => false
  | _ :: r => id_here s || has_id r
  end.

Fixpoint infixb (d s : str) : bool :=
  match s with
  | [] => match d with [] => true | _ => false end
  | _ :: r => prefixb d s || infixb d r
  end.
(* no identifier this very process drew occurs in its query / error text *)
Definition leaks (r : irun) : bool :=
  has_id (i_text r) || existsb (fun d => infixb d (i_text r)) (i_fn r ++ i_cn r).

Definition same_run (a b : irun) : bool :=
  Bool.eqb (i_ok a) (i_ok b) && str_eqb (i_text a) (i_text b)
  && list_eqb strs_eqb (i_fields a) (i_fields b) && dict_eqb (i_fm a) (i_fm b) && dict_eqb (i_tf a) (i_tf b)
  && itree_eqb (i_tree a) (i_tree b).

Definition spec_ok (runs : list irun) : bool :=
  match runs with
  | [] => false
  | r0 :: rest => forallb (same_run r0) rest && forallb (fun r => negb (leaks r)) runs
  end.

Definition draw_len : nat := 16.
Definition in_domain (s : site) (runs : list irun) : bool :=
  match s with
  | SNames ru fs adds =>
      forallb (fun r => Nat.eqb (length (i_fn r)) (length fs) && Nat.eqb (length (i_cn r)) (length adds)
                        && freshb draw_len ru (combine (i_fn r) fs) (combine (i_cn r) adds)) runs
  | _ => true
  end.

Definition two_plus {A} (l : list A) : bool := match l with _ :: _ :: _ => true | _ => false end.
Definition nontrivial (s : site) : bool :=
  match s with
  | SStrict _ maps dets => two_plus (norm (concat dets)) || existsb (fun m => existsb (fun kv => two_plus (snd kv)) m) maps
  | SUnref keys refs => two_plus (s_diff keys refs)
  | SCorr u => two_plus (norm u)
  | SCorrD d => two_plus d
  | SFlags fl => two_plus (flag_set fl)
  | SNames _ fs adds => match fs, adds with [], [] => false | _, _ => true end
  | STracking ops => two_plus ops
  | SDangling dets refs => two_plus (s_diff dets refs)
  end.

Definition judge_sites (c : site * list irun) : N :=
  let '(s, runs) := c in
  bits (forallb (agree ord_id s) runs && forallb (agree ord_rev s) runs)
       (spec_ok runs) (in_domain s runs) (nontrivial s).
