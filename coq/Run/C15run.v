From Coq Require Import NArith List Bool Arith.
From Coq Require Export String.   (* generated case files write strings as (lit "...") *)
From PS Require Import Base.Chars Base.Outcome Model.History Spec.Frame Run.Bits.
Import ListNotations.
Open Scope N_scope.

(* ---- environment from tables ---- *)
Definition nthN {A} (d : A) (l : list A) (n : N) : A := nth (N.to_nat n) l d.
Fixpoint lookupN {A} (d : A) (k : N) (l : list (N * A)) : A :=
  match l with [] => d | (k', v) :: r => if N.eqb k k' then v else lookupN d k r end.
Definition mk_env (ne : list bool) (bk : list (list item)) (fmt : list (list (N * list item)))
           (users : list (list item)) (parses : list (str * option ptree))
           (srcs : list (outcome (list str))) (files : list iid)
           (bkvars : list vars) (fmtvars : list (list (N * vars))) (uservars : list vars)
           (qexpr : list (option str)) (sdef : list (list (str * str))) (accepts : list (list N)) : env :=
  {| e_ne := nthN false ne; e_bk := nthN [] bk;
     e_fmt := fun c f => lookupN [] f (nthN [] fmt c);
     e_user := nthN [] users;
     e_accepts := fun m t => existsb (N.eqb t) (nthN [] accepts m);
     e_qexpr := nthN None qexpr; e_sdef := nthN [] sdef;
     e_bkvars := nthN [] bkvars;
     e_fmtvars := fun c f => lookupN [] f (nthN [] fmtvars c);
     e_uservars := nthN [] uservars;
     e_parse := fun k => match lookup k parses with Some (Some t) => Some t | _ => None end;
     e_src := nthN (SigmaErr 99) srcs;
     e_files := files |}.

(* ---- what the implementation reported for one operation ---- *)
Record isnap := { s_applied : list bool; s_ids : list str; s_state : list (str * str);
                  s_fmap : list (str * list str); s_fna : list (str * list str) }.
Record iout := { io_res : outcome (list str); io_errs : list N; io_snap : option isnap;
                 io_cache : option (N * N);         (* hits, misses of the parse cache - None: not an lru_cache any more *)
                 io_hints : option (list N);        (* classes in the type-hint cache - None: kept elsewhere *)
                 io_tpl_ok : bool;
                 io_vc : option (list (option (list str))) }.   (* value caches - None: kept elsewhere *)
(* internals are compared where the implementation still exposes them; the observable results always *)
Definition opt_agrees {A} (eqb : A -> A -> bool) (m : A) (i : option A) : bool :=
  match i with Some x => eqb m x | None => true end.

Definition incl_b {A} (eqb : A -> A -> bool) (a b : list A) : bool :=
  forallb (fun x => existsb (eqb x) b) a.
Definition seteq {A} (eqb : A -> A -> bool) (a b : list A) : bool :=
  incl_b eqb a b && incl_b eqb b a && Nat.eqb (List.length a) (List.length b).
Definition pair_eqb {A B} (ea : A -> A -> bool) (eb : B -> B -> bool) (x y : A * B) : bool :=
  ea (fst x) (fst y) && eb (snd x) (snd y).
Definition res_eqb (a b : outcome (list str)) : bool :=
  match a, b with
  | Ok x, Ok y => list_eqb str_eqb x y
  | SigmaErr x, SigmaErr y => N.eqb x y
  | Crash x, Crash y => N.eqb x y
  | _, _ => false end.
Definition snap_of (ps : pstate) : isnap :=
  {| s_applied := ps_applied ps; s_ids := ps_ids ps; s_state := ps_state ps; s_fmap := ps_fmap ps; s_fna := ps_fna ps |}.
Definition isnap_eqb (a b : isnap) : bool :=
  list_eqb Bool.eqb (s_applied a) (s_applied b)
  && seteq str_eqb (s_ids a) (s_ids b)
  && seteq (pair_eqb str_eqb str_eqb) (s_state a) (s_state b)
  && seteq (pair_eqb str_eqb (seteq str_eqb)) (s_fmap a) (s_fmap b)
  && seteq (pair_eqb str_eqb (seteq str_eqb)) (s_fna a) (s_fna b).
(* the API-observable part *)
Definition obs_eqb (r1 : outcome (list str)) (e1 : list N) (s1 : option isnap)
                   (r2 : outcome (list str)) (e2 : list N) (s2 : option isnap) : bool :=
  res_eqb r1 r2 && list_eqb N.eqb e1 e2 && option_eqb isnap_eqb s1 s2.
Definition out_agrees (m : out) (i : iout) : bool :=
  let o := out_obs m in
  obs_eqb (o_res o) (o_errs o) (option_map snap_of (o_snap o)) (io_res i) (io_errs i) (io_snap i)
  && opt_agrees (pair_eqb N.eqb N.eqb) (out_hits m, out_miss m) (io_cache i)
  && opt_agrees (list_eqb N.eqb) (out_hints m) (io_hints i) && Bool.eqb (out_tpl_ok m) (io_tpl_ok i)
  && opt_agrees (list_eqb (option_eqb (list_eqb str_eqb))) (out_vc m) (io_vc i).

Fixpoint all2 {A B} (f : A -> B -> bool) (a : list A) (b : list B) : bool :=
  match a, b with
  | [], [] => true
  | x :: a', y :: b' => f x y && all2 f a' b'
  | _, _ => false end.

Definition is_conv (o : op) : bool :=
  match o with OConvColl _ _ _ | OConvRule _ _ _ => true | _ => false end.
Definition retarget (o : op) : op :=
  match o with
  | OConvColl _ rs f => OConvColl 0 rs f
  | OConvRule _ r f => OConvRule 0 r f
  | o => o end.
Definition probed (o : op) : nat :=
  match o with OConvColl b _ _ | OConvRule b _ _ | OInit b _ => b | _ => 0%nat end.

(* convert(collection) from the results of converting every rule on its own (implementation outputs):
   queries concatenated up to the first raised error, collected errors concatenated, bookkeeping of the
   last rule that was processed *)
Fixpoint combine_each (l : list iout) (acc : list str) (errs : list N) (s : option isnap)
  : outcome (list str) * list N * option isnap :=
  match l with
  | [] => (Ok acc, errs, s)
  | i :: rest =>
      match io_res i with
      | Ok q => combine_each rest (acc ++ q) (errs ++ io_errs i) (io_snap i)
      | e => (e, errs, io_snap i)
      end
  end.
Definition rules_of_probe (o : op) : list op :=
  match o with OConvColl _ rs f => map (fun r => OConvColl 0 [r] f) rs | _ => [] end.

(* case: (environment, history whose last operation is the probe, implementation outputs per
   operation, implementation output of the probe in a fresh setup, implementation outputs of every
   rule of a probed collection on its own in a fresh setup) *)
Definition judge_history (c : env * list op * list iout * option iout * list iout) : N :=
  let '(E, ops, iouts, ifresh, ieach) := c in
  let hist := removelast ops in
  let '(w, outs_h) := run E init hist in
  match last (map Some ops) None with
  | None => bits false false false false
  | Some probe =>
      let '(w', out_p) := step E w probe in
      let agree_hist := all2 out_agrees (outs_h ++ [out_p]) iouts in
      (* the probe in a world where nothing has happened *)
      let cfg := nth (probed probe) (news ops) (0, None) in
      let collect := match nth_error (w_bks w) (probed probe) with Some bk => b_collect bk | None => false end in
      let opts := match nth_error (w_bks w) (probed probe) with Some bk => b_opts bk | None => [] end in
      let '(_, out_f) := step E (fst (step E init (ONew (fst cfg) (snd cfg) collect opts))) (retarget probe) in
      let w0 := fst (step E init (ONew (fst cfg) (snd cfg) collect opts)) in
      let agree_fresh := match ifresh with Some i => out_agrees out_f i | None => negb (is_conv probe) end
                         && all2 (fun o i => out_agrees (snd (step E w0 o)) i) (rules_of_probe probe) ieach in
      (* the property on the implementation's own outputs: after the history = fresh *)
      let spec := match ifresh, last (map Some iouts) None with
                  | Some f, Some i => obs_eqb (io_res i) (io_errs i) (io_snap i) (io_res f) (io_errs f) (io_snap f)
                                      && io_tpl_ok i
                                      && match probe, ieach with
                                         | OConvColl _ (_ :: _) _, _ :: _ =>
                                             let '(r, e, sn) := combine_each ieach [] [] None in
                                             obs_eqb (io_res i) (io_errs i) (io_snap i) r e sn
                                         | _, _ => true end
                  | None, _ => negb (is_conv probe)
                  | _, _ => false end in
      let dom := match probe, nth_error (w_bks w) (probed probe) with
                 | OConvRule _ _ f, Some bk => owns_ok E w bk && fmt_ok bk f
                 | _, _ => true end in
      bits (agree_hist && agree_fresh) spec dom (is_conv probe && existsb (fun o => is_conv o || match o with OInit _ _ => true | _ => false end) hist)
  end.

(* replay helper: the model's outputs *)
Definition model_history (c : env * list op * list iout * option iout * list iout) :=
  let '(E, ops, _, _, _) := c in
  map (fun o => (o_res (out_obs o), o_errs (out_obs o), option_map snap_of (o_snap (out_obs o)),
                 (out_hits o, out_miss o, out_hints o, out_tpl_ok o, out_vc o))) (snd (run E init ops)).
