From Coq Require Import NArith ZArith List Bool Ascii.
From Coq Require Export String.
From PS Require Import Base.Chars Base.Outcome Model.PipeExpr Model.PipeCond Spec.PipeSpec Run.Bits.
Import ListNotations.
Open Scope N_scope.

(* ---- short constructors used by the generated case terms ---- *)
(* printable-ASCII strings are written as Coq string literals (much cheaper to elaborate) *)
Definition q (s : string) : str := List.map (fun a => N.of_nat (nat_of_ascii a)) (list_ascii_of_string s).
(* dictionary of the strings the generator draws from (props/c13.py reads this list back) *)
Definition y0 := q " ".
Definition y1 := q "(a".
Definition y2 := q "(a or b)".
Definition y3 := q "(a or b) and c".
Definition y4 := q "(a)".
Definition y5 := q "(b)".
Definition y6 := q "(or-b)".
Definition y7 := q "*".
Definition y8 := q "-3".
Definition y9 := q ".".
Definition y10 := q ".x".
Definition y11 := q "0e95725d-7320-415d-80f7-004da920fc11".
Definition y12 := q "1".
Definition y13 := q "1 or 1".
Definition y14 := q "1 or not".
Definition y15 := q "123".
Definition y16 := q "2".
Definition y17 := q "2020-02-29".
Definition y18 := q "2020-02-30".
Definition y19 := q "2021-01-01".
Definition y20 := q "2023-12-31".
Definition y21 := q "3".
Definition y22 := q "5".
Definition y23 := q "7".
Definition y24 := q "?".
Definition y25 := q "?y".
Definition y26 := q "A".
Definition y27 := q "HIGH".
Definition y28 := q "K".
Definition y29 := q "M".
Definition y30 := q "MARK".
Definition y31 := q "N0T".
Definition y32 := q "N0T and".
Definition y33 := q "N0T and a".
Definition y34 := q "N0T or N0T".
Definition y35 := q "R".
Definition y36 := q "S".
Definition y37 := q "T2".
Definition y38 := q "Test".
Definition y39 := q "U".
Definition y40 := q "User".
Definition y41 := q "User.x".
Definition y42 := q "User1".
Definition y43 := q "User1_S".
Definition y44 := q "User2".
Definition y45 := q "User2_S".
Definition y46 := q "User_S".
Definition y47 := q "User_S_S".
Definition y48 := q "V".
Definition y49 := q "X".
Definition y50 := q "_".
Definition y51 := q "_S".
Definition y52 := q "_k".
Definition y53 := q "_k and _k".
Definition y54 := q "_k and and_1".
Definition y55 := q "_k and android".
Definition y56 := q "a".
Definition y57 := q "a a".
Definition y58 := q "a and".
Definition y59 := q "a and b".
Definition y60 := q "a and b and c".
Definition y61 := q "a and b or c".
Definition y62 := q "a and not (b or c)".
Definition y63 := q "a b".
Definition y64 := q "a or android".
Definition y65 := q "a or b".
Definition y66 := q "a or b and c".
Definition y67 := q "a or b or c".
Definition y68 := q "a or not".
Definition y69 := q "a or not b".
Definition y70 := q "a or x".
Definition y71 := q "a or zz9".
Definition y72 := q "a)".
Definition y73 := q "a.b".
Definition y74 := q "a.b.c".
Definition y75 := q "a.c".
Definition y76 := q "a.x".
Definition y77 := q "a1".
Definition y78 := q "a1_S".
Definition y79 := q "a2".
Definition y80 := q "a2_S".
Definition y81 := q "a_S".
Definition y82 := q "a_S.x".
Definition y83 := q "a_S1".
Definition y84 := q "a_S1_S".
Definition y85 := q "a_S2".
Definition y86 := q "a_S2_S".
Definition y87 := q "a_S_S".
Definition y88 := q "a_S_S_S".
Definition y89 := q "abc".
Definition y90 := q "all".
Definition y91 := q "and".
Definition y92 := q "and a".
Definition y93 := q "and_1".
Definition y94 := q "and_1 and c1".
Definition y95 := q "android".
Definition y96 := q "any".
Definition y97 := q "applied_processing_items".
Definition y98 := q "attack.execution".
Definition y99 := q "attack.t1059".
Definition y100 := q "author".
Definition y101 := q "b".
Definition y102 := q "b and a".
Definition y103 := q "b and or-b".
Definition y104 := q "b and x-y".
Definition y105 := q "b.x".
Definition y106 := q "b1".
Definition y107 := q "b1_S".
Definition y108 := q "b2".
Definition y109 := q "b2_S".
Definition y110 := q "b_S".
Definition y111 := q "b_S_S".
Definition y112 := q "bad".
Definition y113 := q "c".
Definition y114 := q "c.x".
Definition y115 := q "c1".
Definition y116 := q "c1 and a".
Definition y117 := q "c1 and and_1".
Definition y118 := q "c1 or zz9".
Definition y119 := q "c1_S".
Definition y120 := q "c2".
Definition y121 := q "c2_S".
Definition y122 := q "c_S".
Definition y123 := q "c_S_S".
Definition y124 := q "change_logsource".
Definition y125 := q "contains_detection_item".
Definition y126 := q "contains_field".
Definition y127 := q "contains_wildcard".
Definition y128 := q "critical".
Definition y129 := q "custom_attributes".
Definition y130 := q "cve.2020-1".
Definition y131 := q "d".
Definition y132 := q "date".
Definition y133 := q "deprecated".
Definition y134 := q "description".
Definition y135 := q "detection".
Definition y136 := q "dst_ip".
Definition y137 := q "dst_ip.x".
Definition y138 := q "dst_ip1".
Definition y139 := q "dst_ip1_S".
Definition y140 := q "dst_ip2".
Definition y141 := q "dst_ip2_S".
Definition y142 := q "dst_ip_S".
Definition y143 := q "dst_ip_S_S".
Definition y144 := q "e".
Definition y145 := q "end".
Definition y146 := q "eq".
Definition y147 := q "evil.exe".
Definition y148 := q "exclude_fields".
Definition y149 := q "experimental".
Definition y150 := q "falsepositives".
Definition y151 := q "field_name_mapping".
Definition y152 := q "field_name_prefix".
Definition y153 := q "field_name_suffix".
Definition y154 := q "fieldref".
Definition y155 := q "fields".
Definition y156 := q "flt".
Definition y157 := q "gt".
Definition y158 := q "gte".
Definition y159 := q "high".
Definition y160 := q "i".
Definition y161 := q "i1".
Definition y162 := q "i2".
Definition y163 := q "i3".
Definition y164 := q "i4".
Definition y165 := q "i5".
Definition y166 := q "id".
Definition y167 := q "in".
Definition y168 := q "include_fields".
Definition y169 := q "informational".
Definition y170 := q "is_null".
Definition y171 := q "is_sigma_correlation_rule".
Definition y172 := q "is_sigma_rule".
Definition y173 := q "k1".
Definition y174 := q "k2".
Definition y175 := q "k9".
Definition y176 := q "kw".
Definition y177 := q "l".
Definition y178 := q "level".
Definition y179 := q "license".
Definition y180 := q "linux".
Definition y181 := q "list".
Definition y182 := q "logsource".
Definition y183 := q "low".
Definition y184 := q "lt".
Definition y185 := q "lte".
Definition y186 := q "m".
Definition y187 := q "map".
Definition y188 := q "marker".
Definition y189 := q "match_string".
Definition y190 := q "match_value".
Definition y191 := q "me".
Definition y192 := q "medium".
Definition y193 := q "modified".
Definition y194 := q "mycustom".
Definition y195 := q "name".
Definition y196 := q "ne".
Definition y197 := q "net".
Definition y198 := q "nodot".
Definition y199 := q "nofield".
Definition y200 := q "nonexistent".
Definition y201 := q "nope".
Definition y202 := q "not (a and b)".
Definition y203 := q "not (a or b and c)".
Definition y204 := q "not 1".
Definition y205 := q "not N0T".
Definition y206 := q "not a".
Definition y207 := q "not a and b".
Definition y208 := q "not a or not b".
Definition y209 := q "not and_1".
Definition y210 := q "not android".
Definition y211 := q "not b".
Definition y212 := q "not c1".
Definition y213 := q "not not a".
Definition y214 := q "not notx".
Definition y215 := q "not_in".
Definition y216 := q "nota".
Definition y217 := q "notx".
Definition y218 := q "notx and 1".
Definition y219 := q "notx and and_1".
Definition y220 := q "or".
Definition y221 := q "or-b".
Definition y222 := q "or-b and and_1".
Definition y223 := q "or-b or not nota".
Definition y224 := q "other".
Definition y225 := q "p".
Definition y226 := q "p.".
Definition y227 := q "p.User".
Definition y228 := q "p.User_S".
Definition y229 := q "p.a".
Definition y230 := q "p.a_S".
Definition y231 := q "p.a_S_S".
Definition y232 := q "p.b".
Definition y233 := q "p.b_S".
Definition y234 := q "p.c".
Definition y235 := q "p.c_S".
Definition y236 := q "p.dst_ip".
Definition y237 := q "p.dst_ip_S".
Definition y238 := q "p.p.User".
Definition y239 := q "p.p.a".
Definition y240 := q "p.p.a_S".
Definition y241 := q "p.p.b".
Definition y242 := q "p.p.c".
Definition y243 := q "p.p.dst_ip".
Definition y244 := q "p.p.zz".
Definition y245 := q "p.zz".
Definition y246 := q "p.zz_S".
Definition y247 := q "process_creation".
Definition y248 := q "processing_item_applied".
Definition y249 := q "processing_state".
Definition y250 := q "r".
Definition y251 := q "re".
Definition y252 := q "references".
Definition y253 := q "rule_attribute".
Definition y254 := q "s".
Definition y255 := q "sel".
Definition y256 := q "set_custom_attribute".
Definition y257 := q "set_state".
Definition y258 := q "set_value".
Definition y259 := q "sigma".
Definition y260 := q "source".
Definition y261 := q "stable".
Definition y262 := q "star".
Definition y263 := q "status".
Definition y264 := q "sysmon".
Definition y265 := q "t".
Definition y266 := q "tag".
Definition y267 := q "tags".
Definition y268 := q "taxonomy".
Definition y269 := q "test".
Definition y270 := q "title".
Definition y271 := q "to_dict".
Definition y272 := q "u".
Definition y273 := q "unsupported".
Definition y274 := q "v".
Definition y275 := q "v1".
Definition y276 := q "v2".
Definition y277 := q "windows".
Definition y278 := q "x".
Definition y279 := q "x*".
Definition y280 := q "x-y".
Definition y281 := q "y".
Definition y282 := q "z".
Definition y283 := q "zz".
Definition y284 := q "zz.x".
Definition y285 := q "zz1".
Definition y286 := q "zz1_S".
Definition y287 := q "zz2".
Definition y288 := q "zz2_S".
Definition y289 := q "zz_S".
Definition y290 := q "zz_S_S".

(* attributes of the SigmaRule object that getattr finds (see props/c13.py static_attrs) *)
Definition mk_static (title : str) (id author : option str) (level status date : option N) : list (str * aval) :=
  let o {A} (f : A -> aval) (x : option A) := match x with Some a => f a | None => AUnsup end in
  [ (q "title", AStr title); (q "taxonomy", AStr (q "sigma")); (q "references", AList []); (q "falsepositives", AList []);
    (q "id", o AStr id); (q "level", o ALevel level); (q "status", o AStatus status); (q "author", o AStr author);
    (q "date", o ADate date) ]
  ++ List.map (fun n => (n, AUnsup))
       [ q "custom_attributes"; q "detection"; q "logsource"; q "description"; q "applied_processing_items";
         q "source"; q "to_dict"; q "name"; q "license"; q "modified" ].

Definition mkD (f : option str) (vs : list sval) (ap : sset) : ditem :=
  {| d_field := f; d_vals := vs; d_applied := ap |}.
Definition mkR ls tags static custom fields ap dets : rule :=
  {| r_ls := ls; r_tags := tags; r_static := static; r_custom := custom; r_fields := fields;
     r_applied := ap; r_dets := dets |}.
Definition mkW (r : rule) (st : list (str * stval)) (ft : list (str * sset)) : world :=
  {| w_rule := r; w_ps := {| p_state := st; p_ftrack := ft |} |}.
Definition mkG {C} (f : cform C) (l : option link) (e : option str) (n : bool) : rgroup C :=
  {| g_form := f; g_link := l; g_expr := e; g_neg := n |}.
Definition mkI id tr gr gd gf : ritem :=
  {| ri_id := id; ri_tr := tr; ri_rule := gr; ri_det := gd; ri_field := gf |}.

(* ---- equality of observations ---- *)
Definition sset_eqb (a b : sset) : bool := forallb (fun x => smem x b) a && forallb (fun x => smem x a) b.
Definition sval_eqb (a b : sval) : bool :=
  match a, b with
  | VStr x, VStr y | VRef x, VRef y | VRe x, VRe y => str_eqb x y
  | VNum x, VNum y => Z.eqb x y
  | VBool x, VBool y => Bool.eqb x y
  | VNull, VNull => true
  | _, _ => false
  end.
Definition ditem_eqb (a b : ditem) : bool :=
  option_eqb str_eqb (d_field a) (d_field b) && list_eqb sval_eqb (d_vals a) (d_vals b)
  && sset_eqb (d_applied a) (d_applied b).
Fixpoint dtree_eqb (a b : dtree) {struct a} : bool :=
  match a, b with
  | DLeaf x, DLeaf y => ditem_eqb x y
  | DNode l, DNode m =>
    (fix go (l m : list dtree) : bool :=
       match l, m with
       | [], [] => true
       | x :: l', y :: m' => dtree_eqb x y && go l' m'
       | _, _ => false
       end) l m
  | _, _ => false
  end.
(* observed values are compared with their Python type: True is not 1 in a snapshot *)
Definition num_eqb (a b : num) : bool :=
  match a, b with
  | NInt x, NInt y | NHalf x, NHalf y => Z.eqb x y
  | NBool x, NBool y => Bool.eqb x y
  | _, _ => false
  end.
Definition aval_eqb (a b : aval) : bool :=
  match a, b with
  | AStr x, AStr y => str_eqb x y
  | ANum x, ANum y => num_eqb x y
  | ADate x, ADate y | ALevel x, ALevel y | AStatus x, AStatus y => N.eqb x y
  | AList x, AList y => list_eqb str_eqb x y
  | AUnsup, AUnsup => true
  | _, _ => false
  end.
Definition stval_eqb (a b : stval) : bool :=
  match a, b with SStr x, SStr y => str_eqb x y | SNum x, SNum y => num_eqb x y | SNone, SNone => true | _, _ => false end.
Definition pair_eqb {A B} (ea : A -> A -> bool) (eb : B -> B -> bool) (x y : A * B) : bool :=
  ea (fst x) (fst y) && eb (snd x) (snd y).
Definition ls_eqb (a b : option str * option str * option str) : bool :=
  let '(a1, a2, a3) := a in let '(b1, b2, b3) := b in
  opt_str_eqb a1 b1 && opt_str_eqb a2 b2 && opt_str_eqb a3 b3.
Definition rule_eqb (a b : rule) : bool :=
  ls_eqb (r_ls a) (r_ls b) && list_eqb str_eqb (r_tags a) (r_tags b)
  && list_eqb (pair_eqb str_eqb aval_eqb) (r_custom a) (r_custom b)
  && list_eqb str_eqb (r_fields a) (r_fields b) && sset_eqb (r_applied a) (r_applied b)
  && list_eqb (pair_eqb str_eqb dtree_eqb) (r_dets a) (r_dets b).
(* field_name_applied_ids is a defaultdict: reading creates empty entries, so maps are compared by content *)
Definition ftrack_eqb (a b : list (str * sset)) : bool :=
  forallb (fun kv => sset_eqb (snd kv) (match assoc (fst kv) b with Some l => l | None => [] end)) a &&
  forallb (fun kv => sset_eqb (snd kv) (match assoc (fst kv) a with Some l => l | None => [] end)) b.
Definition world_eqb (track : bool) (a b : world) : bool :=
  rule_eqb (w_rule a) (w_rule b)
  && list_eqb (pair_eqb str_eqb stval_eqb) (p_state (w_ps a)) (p_state (w_ps b))
  && (negb track || ftrack_eqb (p_ftrack (w_ps a)) (p_ftrack (w_ps b))).
Definition err_eqb (a b : option (N * bool)) : bool := option_eqb (pair_eqb N.eqb Bool.eqb) a b.

(* ---- the specification evaluated on the implementation's snapshots ---- *)
Definition out_err {A} (o : outcome A) : option (N * bool) :=
  match o with Ok _ => None | SigmaErr t => Some (t, true) | Crash t => Some (t, false) end.

(* every error some condition of the item raises on some target of the state w *)
Definition item_errors (it : item) (T : ghost) (w : world) : list (option (N * bool)) :=
  let ps := w_ps w in
  let ls := rule_leaves (w_rule w) in
  let names := map Some (r_fields (w_rule w)) ++ map (@d_field) ls ++ map Some (flat_map refs ls) in
  map (fun kv => out_err (r_holds w (snd kv))) (n_conds (i_rule it)) ++
  flat_map (fun d => map (fun kv => out_err (d_holds ps d (snd kv))) (n_conds (i_det it))) ls ++
  flat_map (fun f => map (fun kv => out_err (f_holds T ps f (snd kv))) (n_conds (i_field it))) names ++
  match i_tr it with TChangeLogsource None None None => [Some (E_Logsource, true)] | _ => [] end.

(* walk the items along the implementation's snapshots: every snapshot must be what the
   specification's step makes of the previous snapshot *)
Fixpoint spec_walk (its : list item) (T : ghost) (w : world) (snaps : list (world * bool))
         (err : option (N * bool)) : bool :=
  match its with
  | [] => match snaps, err with [], None => true | _, _ => false end
  | it :: r =>
    match snaps with
    | [] => (* the implementation raised while applying this item *)
      match err, sp_step it T w with
      | Some e, Ok _ => false
      | Some e, _ => existsb (fun x => err_eqb x (Some e)) (item_errors it T w)
      | None, _ => false
      end
    | (w', b) :: snaps' =>
      match sp_step it T w with
      | Ok (ws, bs, T') => world_eqb false ws w' && Bool.eqb bs b && spec_walk r T' w' snaps' err
      | _ => false
      end
    end
  end.

(* declarative well-formedness of a configured group (what _check_conditions must accept) *)
Definition wf_group {C} (g : rgroup C) : bool :=
  match g_expr g with
  | None => true
  | Some s =>
    match parse_expr s, g_link g, g_form g with
    | Some e, None, CMap m =>
      forallb (fun i => match assoc i m with Some _ => true | None => false end) (ids e)
      && forallb (fun kv => smem (fst kv) (ids e)) m
    | _, _, _ => false
    end
  end.
Definition conds_new_ok (ri : ritem) : bool :=
  forallb (fun c => match rcond_new c with Ok _ => true | _ => false end) (map snd (form_conds (g_form (ri_rule ri))))
  && forallb (fun c => match dcond_new c with Ok _ => true | _ => false end) (map snd (form_conds (g_form (ri_det ri))))
  && forallb (fun c => match fcond_new c with Ok _ => true | _ => false end) (map snd (form_conds (g_form (ri_field ri)))).
Definition wf_ritem (ri : ritem) : bool :=
  conds_new_ok ri && wf_group (ri_rule ri) && wf_group (ri_det ri) && wf_group (ri_field ri).

(* the normal form the specification reads the configuration as *)
Definition norm_group {C} (g : rgroup C) : ngroup C :=
  match g_expr g, g_form g with
  | Some s, CMap m => {| n_conds := m; n_mode := match parse_expr s with Some e => MExpr e | None => MLink LAnd end; n_neg := g_neg g |}
  | _, f => {| n_conds := form_conds f; n_mode := MLink (match g_link g with Some l => l | None => LAnd end); n_neg := g_neg g |}
  end.
Definition norm_item (ri : ritem) : item :=
  {| i_id := ri_id ri; i_tr := ri_tr ri; i_rule := norm_group (ri_rule ri); i_det := norm_group (ri_det ri);
     i_field := norm_group (ri_field ri) |}.

Definition has_conds (it : item) : bool :=
  negb (no_conds (i_rule it)) || negb (no_conds (i_det it)) || negb (no_conds (i_field it)).

(* case: (configured items, rule and state before as encoded from the source, the same as read back
          from the implementation's objects, implementation:
          (error raised by ProcessingPipeline.from_dict, [(snapshot after item k, applied flag)], error raised by apply)) *)
Definition pcase : Type := list ritem * world * world * (option (N * bool) * list (world * bool) * option (N * bool)).
Definition judge_pipe (c : pcase) : N :=
  let '(ris, w0, w0impl, (berr, snaps, rerr)) := c in
  let m_build := build_all ris in
  let agree :=
      match m_build with
      | Ok its => match berr with
                  | None => let '(ms, me) := run its w0 in
                            world_eqb true w0 w0impl &&
                            list_eqb (pair_eqb (world_eqb true) Bool.eqb) ms snaps && err_eqb me rerr
                  | Some _ => false
                  end
      | o => err_eqb (out_err o) berr && match snaps with [] => true | _ => false end
      end in
  let wf := forallb wf_ritem ris in
  let its := map norm_item ris in
  let spec :=
      match berr with
      | Some (_, sigma) => sigma && negb wf
      | None => wf && spec_walk its [] w0 snaps rerr
      end in
  let dom := wf && forallb tracking_safe its
             && match rerr with None => true | _ => false end in
  bits agree spec dom (existsb has_conds its).

(* ---- suite expr: (text, the tree the text was generated from (if it was), implementation's tree) ---- *)
Fixpoint ex_eqb (a b : ex) : bool :=
  match a, b with
  | EId x, EId y => str_eqb x y
  | ENot x, ENot y => ex_eqb x y
  | EAnd x1 x2, EAnd y1 y2 | EOr x1 x2, EOr y1 y2 => ex_eqb x1 y1 && ex_eqb x2 y2
  | _, _ => false
  end.
Fixpoint words (e : ex) : list str :=
  match e with
  | EId w => [w]
  | ENot a => w_not :: words a
  | EAnd a b => words a ++ w_and :: words b
  | EOr a b => words a ++ w_or :: words b
  end.
Definition tok_words (ts : list tok) : list str :=
  flat_map (fun t => match t with TW w => [w] | _ => [] end) ts.
Fixpoint balanced (d : nat) (ts : list tok) : bool :=
  match ts with
  | [] => Nat.eqb d 0
  | TL :: r => balanced (S d) r
  | TR :: r => match d with O => false | S d' => balanced d' r end
  | _ :: r => balanced d r
  end.

Definition ecase : Type := str * option ex * option ex.
Definition judge_expr (c : ecase) : N :=
  let '(s, want, res) := c in
  let agree := option_eqb ex_eqb (parse_expr s) res in
  let spec :=
      match want with
      | Some t => option_eqb ex_eqb res (Some t)
      | None => match res with
                | Some t => match lex [] s with
                            | Some ts => list_eqb str_eqb (tok_words ts) (words t) && balanced 0 ts
                            | None => false
                            end
                | None => true
                end
      end in
  bits agree spec (match want with Some _ => true | None => false end)
       (existsb (fun x => (x =? c_space) || (x =? c_lpar)) s).
