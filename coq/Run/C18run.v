(* Judges of the C18 correspondence suites (evaluated by vm_compute on generated cases). *)
From Coq Require Import NArith List Bool.
From PS Require Import Base.Chars Base.Outcome Model.SString Spec.Items Model.Cidr Spec.Net Run.Bits.
Import ListNotations.
Open Scope N_scope.

(* 128-bit addresses are passed as their eight 16-bit groups *)
Definition A (groups : list N) : N := be_val 65536 groups.

Definition net_eqb (x y : net) : bool :=
  match x, y with
  | Net4 a l, Net4 b m => (a =? b) && (l =? m)
  | Net6 a l s, Net6 b m t => (a =? b) && (l =? m) && option_eqb str_eqb s t
  | _, _ => false
  end.
Definition strs_eqb := list_eqb str_eqb.

(* what the generator knows about the source text by construction *)
Inductive expect := ExpNet (n : net) | ExpInvalid | ExpUnknown.

Definition wf_n (n : net) : bool :=
  match n with
  | Net4 a l => wf_netb 32 a l
  | Net6 a l _ => wf_netb 128 a l
  end.

(* IPv6: the premises of theorem C18_v6_cover, exactly: well-formed network, every completely fixed
   group of every enumerated subnet non-zero (Spec.Net.fixed_nonzero6), and no scope id on a /128.
   The complement of fixed_nonzero6 is the input class of known finding D20. *)
Definition proved6 (n : net) : bool :=
  match n with
  | Net6 a l sc => wf_netb 128 a l && fixed_nonzero6 a l &&
                   (negb (l =? 128) || match sc with None => true | Some _ => false end)
  | _ => false
  end.

(* suite expand:
   (source text, expectation, implementation result = outcome (reported network, patterns),
    sample addresses of the network with the text ipaddress prints for them) *)
Definition judge_expand (c : str * expect * outcome (net * list str) * list (N * str)) : N :=
  let '(s, e, r, samples) := c in
  let agree :=
    match parse_cidr s, r with
    | None, SigmaErr t => t =? E_Type
    | Some n, Ok (n', pats) =>
        net_eqb n n' && match expand n with Ok l => strs_eqb l pats | _ => false end
        && forallb (fun at_ => str_eqb (show6 (fst at_)) (snd at_)) samples
    | _, _ => false
    end in
  let prop_ok (n : net) (pats : list str) :=
    wf_n n &&
    match n with
    | Net4 a l => exact_cover4 a l pats
    | Net6 a l sc =>
        (* the only address of a scoped /128 is written with its scope id *)
        let suffix := match sc with Some z => if l =? 128 then c_pcnt :: z else [] | None => [] end in
        forallb (fun at_ => negb (in_netb 128 a l (fst at_)) || covered pats (snd at_ ++ suffix)) samples
    end in
  let spec :=
    match e, r with
    | ExpInvalid, SigmaErr t => t =? E_Type
    | ExpInvalid, _ => false
    | ExpNet n, Ok (n', pats) => net_eqb n n' && prop_ok n pats
    | ExpNet _, _ => false
    | ExpUnknown, SigmaErr t => t =? E_Type
    | ExpUnknown, Ok (n', pats) => prop_ok n' pats
    | ExpUnknown, Crash _ => false
    end in
  let dom :=
    match r with
    | Ok (Net4 _ _, _) => true
    | Ok (n, _) => proved6 n
    | SigmaErr _ => true
    | Crash _ => false
    end in
  let nontriv :=
    match r with
    | Ok (Net4 _ l, _) => negb (l mod 8 =? 0)
    | Ok (Net6 _ l _, _) => negb (l =? 0) && negb (l =? 128)
    | _ => match e with ExpInvalid => true | _ => false end
    end in
  bits agree spec dom nontriv.

(* suite native: (source text, expected network, rendered [value; network; prefixlen; netmask],
                  query of a backend without cidr_expression for the same item, the quoted values of
                  that query as extracted by the harness) *)
(* convert_condition_field_eq_val_cidr without cidr_expression: the OR of the patterns; since the C01
   repair it is wrapped by group_expression "(...)" whenever more than one pattern remains an OR
   (the backend of impl/c18.py never renders in-lists) *)
Definition expanded_query (pats : list str) : str :=
  let q := join [c_space; 111; 114; c_space] (map (fun p => [102; c_eq; c_dq] ++ p ++ [c_dq]) pats) in
  match pats with
  | _ :: _ :: _ => [c_lpar] ++ q ++ [c_rpar]
  | _ => q
  end.

Definition judge_native (c : str * net * outcome (list str) * outcome str * list str) : N :=
  let '(s, n, r, q, qp) := c in
  let agree :=
    match parse_cidr s, r with
    | Some m, Ok fs => strs_eqb (native_fields m) fs &&
                       match expand m, q with
                       | Ok pats, Ok qt => str_eqb (expanded_query pats) qt
                       | _, _ => false
                       end
    | None, SigmaErr t => (t =? E_Type) && match q with SigmaErr t' => t' =? E_Type | _ => false end
    | _, _ => false
    end in
  (* the property on the implementation's output: reading the four fields back gives the expected
     network, its address, its length and the mask of that length *)
  let spec :=
    match r with
    | Ok [value; network; plen; mask] =>
        option_eqb net_eqb (parse_cidr value) (Some n) &&
        option_eqb net_eqb (parse_cidr network)
          (Some match n with Net4 a _ => Net4 a 32 | Net6 a _ sc => Net6 a 128 sc end) &&
        all_digits plen && (dec_val plen =? net_len n) &&
        match n with
        | Net4 _ l => option_eqb N.eqb (ip4_of_string mask) (Some (netmask_int 32 l))
        | Net6 _ l _ => option_eqb N.eqb (ip6_of_string mask) (Some (netmask_int 128 l))
        end &&
        (* canonical spelling: the value is the printed form of the expected network *)
        str_eqb value (addr_text n ++ [c_slash] ++ dec3 (net_len n)) &&
        (* the values of the query of the backend without native support are exact (IPv4) *)
        match n, q with
        | Net4 a l, Ok _ => exact_cover4 a l qp
        | Net4 _ _, _ => false
        | Net6 _ _ _, Crash _ => false
        | Net6 _ _ _, _ => true
        end
    | _ => false
    end in
  bits agree spec (match q with Crash _ => false | _ => true end) (negb (net_len n mod 8 =? 0)).

(* suite print6: (address, text printed by ipaddress): the RFC 5952 printer of the model *)
Definition judge_print6 (c : N * str) : N :=
  let '(a, t) := c in
  let ok := str_eqb (show6 a) t in
  bits ok (option_eqb N.eqb (ip6_of_string t) (Some a)) true (negb (a =? 0)).

(* suite render: the expansion as a backend without cidr_expression renders it, for the four combinations of
   convert_or_as_in x in_expressions_allow_wildcards.
   (source text, expected network, sample addresses with their ipaddress text,
    [(convert_or_as_in, in_expressions_allow_wildcards, query, harness reading: is it a value list?, its quoted values)])
   The harness reading is checked here (re-rendering it must give the query text back); the property is then
   decided on that structure with the semantics the backend declares for it (Spec.Net.rquery_matches /
   rquery_exact4): values of a value list are literals unless wildcards are allowed in lists. *)
Definition render_rq (q : rquery) : str :=
  match q with
  | RIn vs => render_expanded true true vs
  | ROr vs => render_expanded false false vs
  end.

Definition judge_render
  (c : str * net * list (N * str) * list (bool * bool * outcome str * bool * list str)) : N :=
  let '(s, n, samples, rs) := c in
  let mpats := match parse_cidr s with Some m => match expand m with Ok l => Some l | _ => None end | None => None end in
  let agree :=
    match mpats with
    | Some pats => forallb (fun r : bool * bool * outcome str * bool * list str => let '(o, a, q, _, _) := r in
                                     match q with Ok qt => str_eqb (render_expanded o a pats) qt | _ => false end) rs
                   && option_eqb net_eqb (parse_cidr s) (Some n)
    | None => false
    end in
  let suffix := match n with Net6 _ l (Some z) => if l =? 128 then c_pcnt :: z else [] | _ => [] end in
  let spec :=
    forallb (fun r : bool * bool * outcome str * bool * list str => let '(o, a, q, kin, vals) := r in
      match q with
      | Ok qt =>
          let rq := if kin then RIn vals else ROr vals in
          str_eqb (render_rq rq) qt &&
          match n with
          | Net4 b l => rquery_exact4 a b l rq
          | Net6 b l _ => forallb (fun at_ => negb (in_netb 128 b l (fst at_))
                                              || rquery_matches a rq (snd at_ ++ suffix)) samples
          end
      | _ => false
      end) rs in
  let dom := match n with Net4 _ _ => true | _ => proved6 n end in
  bits agree spec dom (negb (net_len n mod 8 =? 0)).
