(* C11 - judge of the correspondence suite "apply".
   A case: the source rules and filters (document order), collect_filters, the draws the
   implementation made, and what the implementation returned: per rule the detection map
   (name, object id), the condition strings and the postprocessed condition trees - once loaded
   without applying filters (source meaning), once with; and every filter's own condition tree over
   its own detections.
   bit 1: model (Model/Filter.v + condition model) = implementation: all draws consumed, same
          detection maps, same condition strings, same truth tables / error classes;
   bit 2: the specification evaluated on the implementation's output only: for every rule, with A
          the filters that the declarative applicability relation (Spec applies_b) selects, every
          condition has, for every assignment to the detection objects, the value
          (source condition) AND (all filter conditions of A), the rule's own detections are still
          there; with A empty the rule is exactly as without filters;
   bit 4: the premises of C11_meaning hold for every (rule, applicable filter) of the case;
   bit 8: some filter applies to some rule. *)
From Coq Require Import NArith ZArith List Bool Arith.
From Coq Require String Ascii.
From PS Require Import Base.Chars Base.Outcome Model.FCondParse Model.FCond Spec.FCondGrammar
                       Model.Filter Spec.FilterSpec Run.Bits.
Import ListNotations.
Open Scope N_scope.

(* compact input syntax for (ASCII) strings in generated case files *)
Definition S (s : String.string) : str := map Ascii.N_of_ascii (String.list_ascii_of_string s).
Export Coq.Strings.String.StringSyntax.
Delimit Scope string_scope with string.
Arguments S _%string.

(* the implementation's condition tree over detection objects *)
Inductive dtree :=
| DLeaf (d : N)
| DNot (a : option dtree)
| DAnd (l : list (option dtree))
| DOr (l : list (option dtree)).

Fixpoint deval (asgd : N -> bool) (t : dtree) {struct t} : option bool :=
  match t with
  | DLeaf d => Some (asgd d)
  | DNot None => None
  | DNot (Some a) => option_map negb (deval asgd a)
  | DAnd l => option_map (forallb (fun b => b))
                (all_some (map (fun a => match a with Some x => deval asgd x | None => None end) l))
  | DOr l => option_map (existsb (fun b => b))
                (all_some (map (fun a => match a with Some x => deval asgd x | None => None end) l))
  end.
Definition deval_top (asgd : N -> bool) (t : option dtree) : option bool :=
  match t with Some x => deval asgd x | None => None end.

Record rview := {
  v_dets : dets;
  v_conds : list str;
  v_trees : list (outcome (option dtree));
  v_same : bool                         (* to_dict() equal to the source's (Python ==) *)
}.

Record ccase := {
  cs_collect : bool;
  cs_draws : list str;
  cs_rules : list rule;
  cs_filters : list sfilter;
  cs_src : list rview;                  (* per rule (document order): loaded with collect_filters *)
  cs_ftrees : list (outcome (option dtree));   (* per filter: its own condition over its own detections *)
  cs_out : list rview;                  (* per rule: loaded with the filters applied *)
  cs_nobj : nat;                        (* number of detection objects of the case (informative) *)
  cs_d6 : bool                          (* some word starts with an operator word (sensitive to the D6 repair) *)
}.

(* assignments to the detection objects relevant for one rule: its own and those of all filters *)
Definition objs := list N.
Definition masks (n : objs) : list N := map N.of_nat (seq 0 (Nat.pow 2 (length n))).
Fixpoint obj_index (d : N) (l : objs) (i : N) : option N :=
  match l with [] => None | x :: r => if x =? d then Some i else obj_index d r (i + 1) end.
Definition asg_mask (n : objs) (m : N) (d : N) : bool :=
  match obj_index d n 0 with Some i => N.testbit m i | None => false end.

Definition obool_eqb := option_eqb Bool.eqb.
Definition det_eqb (a b : str * N) : bool := str_eqb (fst a) (fst b) && (snd a =? snd b).
Definition dets_eqb := list_eqb det_eqb.
Definition strs_eqb := list_eqb str_eqb.

Definition oclass {A} (x : outcome A) : N := match x with Ok _ => 0 | SigmaErr _ => 1 | Crash _ => 2 end.
Definition is_ok {A} (x : outcome A) : bool := match x with Ok _ => true | _ => false end.
Definition is_serr {A} (x : outcome A) : bool := match x with SigmaErr _ => true | _ => false end.

(* value table of an implementation tree *)
Definition itable (n : objs) (t : outcome (option dtree)) : list (option bool) :=
  match t with Ok x => map (fun m => deval_top (asg_mask n m) x) (masks n) | _ => [] end.
(* value table of the model's reading of a condition *)
Definition mtable (n : objs) (d : dets) (c : str) : list (option bool) :=
  match cond_tree d c with
  | Ok x => map (fun m => ceval_top (asg_of d (asg_mask n m)) x) (masks n)
  | _ => []
  end.

Fixpoint forallb2 {A B} (f : A -> B -> bool) (a : list A) (b : list B) : bool :=
  match a, b with
  | [], [] => true
  | x :: a', y :: b' => f x y && forallb2 f a' b'
  | _, _ => false
  end.

Fixpoint forallb3 {A B C} (f : A -> B -> C -> bool) (a : list A) (b : list B) (c : list C) : bool :=
  match a, b, c with
  | [], [], [] => true
  | x :: a', y :: b', z :: c' => f x y z && forallb3 f a' b' c'
  | _, _, _ => false
  end.

Definition objs_of (c : ccase) (r : rule) : objs :=
  map snd (r_dets r) ++ flat_map (fun f => map snd (f_dets f)) (cs_filters c).

(* ---------- bit 1 ---------- *)
Definition agree_rule (n : objs) (d6 : bool) (m : rule) (o : rview) : bool :=
  match r_kind m with
  | KCorrelation => true
  | KDetection =>
      dets_eqb (r_dets m) (v_dets o) && strs_eqb (r_conds m) (v_conds o) &&
      (d6 || forallb2 (fun c t => (oclass (cond_tree (r_dets m) c) =? oclass t) &&
                                  list_eqb obool_eqb (mtable n (r_dets m) c) (itable n t))
                      (r_conds m) (v_trees o))
  end.

Definition agree (c : ccase) : bool :=
  match load_collection (cs_collect c) (cs_draws c) (cs_filters c) (cs_rules c) with
  | Some (rs, []) => forallb3 (fun r0 m o => agree_rule (objs_of c r0) (cs_d6 c) m o) (cs_rules c) rs (cs_out c)
  | _ => false
  end.

(* ---------- bit 2 ---------- *)
Definition and_o (a b : option bool) : option bool :=
  match a, b with Some x, Some y => Some (x && y) | _, _ => None end.

Fixpoint prefix_dets (a b : dets) : bool :=
  match a, b with
  | [], _ => true
  | x :: a', y :: b' => det_eqb x y && prefix_dets a' b'
  | _ :: _, [] => false
  end.

Definition spec_rule (c : ccase) (r : rule) (s o : rview) : bool :=
  let n := objs_of c r in
  let A := if cs_collect c then []
           else map snd (filter (fun ft => applies_b (fst ft) r) (combine (cs_filters c) (cs_ftrees c))) in
  match A with
  | [] => v_same o && dets_eqb (v_dets s) (v_dets o) && strs_eqb (v_conds s) (v_conds o) &&
          forallb2 (fun a b => (oclass a =? oclass b) && list_eqb obool_eqb (itable n a) (itable n b))
                   (v_trees s) (v_trees o)
  | _ =>
      prefix_dets (v_dets s) (v_dets o) &&
      forallb2 (fun a b =>
                  if negb (is_ok a) then negb (is_ok b)                      (* no meaning before, none after *)
                  else if negb (forallb is_ok A) then cs_d6 c || negb (is_ok b)
                  else is_ok b &&
                       list_eqb obool_eqb (itable n b)
                         (fold_left (fun acc ft => map (fun xy => and_o (fst xy) (snd xy)) (combine acc (itable n ft)))
                                    A (itable n a)))
               (v_trees s) (v_trees o)
  end.

Definition spec (c : ccase) : bool :=
  (length (cs_filters c) =? length (cs_ftrees c))%nat &&
  forallb3 (fun r s o => match r_kind r with
                         | KCorrelation => v_same o
                         | KDetection => spec_rule c r s o end)
           (cs_rules c) (cs_src c) (cs_out c).

(* ---------- bit 4: premises of C11_meaning (decidable part; source conditions must load in the model) ---------- *)
Definition words_of (s : str) : list str :=
  match lex s [] with Ok ts => flat_map (fun t => match t with TW w => [w] | _ => [] end) ts | _ => [] end.

(* patterns = the word after "of" *)
Fixpoint pats_of (ws : list str) : list str :=
  match ws with
  | o :: r => match r with
              | p :: _ => if str_eqb o w_of then p :: pats_of r else pats_of r
              | [] => []
              end
  | [] => []
  end.

Definition plain_name (n : str) : bool := negb (is_keyword_ci n) && negb (str_eqb n w_them) && negb (us n).

Definition filter_plain (f : sfilter) : bool :=
  forallb plain_name (names (f_dets f)) &&
  forallb (fun w => negb (is_keyword_ci w) || existsb (str_eqb w) keywords) (words_of (f_cond f)).

Definition loads (n : objs) (d : dets) (c : str) : bool :=
  match cond_tree d c with
  | Ok (Some t) => forallb (fun m => match ceval (asg_of d (asg_mask n m)) t with Some _ => true | None => false end) (masks n)
  | _ => false
  end.

Definition dom_rule (c : ccase) (r : rule) : bool :=
  match r_kind r with
  | KCorrelation => true
  | KDetection =>
      let A := if cs_collect c then [] else filter (fun f => should_apply f r) (cs_filters c) in
      match A with
      | [] => true
      | _ => forallb (loads (objs_of c r) (r_dets r)) (r_conds r) &&
             forallb (fun p => negb (us p)) (flat_map (fun s => pats_of (words_of s)) (r_conds r)) &&
             forallb (fun f => filter_plain f && loads (objs_of c r) (f_dets f) (f_cond f)) A
      end
  end.

Definition dom (c : ccase) : bool := negb (cs_d6 c) && forallb (dom_rule c) (cs_rules c).

Definition nontrivial (c : ccase) : bool :=
  negb (cs_collect c) && existsb (fun r => existsb (fun f => should_apply f r) (cs_filters c)) (cs_rules c).

(* one generated case = one (rule set, filter set) pair with all its runs (seeds, forced draws,
   collect_filters); the bits are those of the conjunction over the runs *)
Record prun := { pr_collect : bool; pr_draws : list str; pr_out : list rview }.
Record pcase := {
  pc_rules : list rule; pc_filters : list sfilter; pc_src : list rview;
  pc_ftrees : list (outcome (option dtree)); pc_nobj : nat; pc_d6 : bool;
  pc_runs : list prun
}.
Definition case_of (p : pcase) (r : prun) : ccase :=
  {| cs_collect := pr_collect r; cs_draws := pr_draws r; cs_rules := pc_rules p; cs_filters := pc_filters p;
     cs_src := pc_src p; cs_ftrees := pc_ftrees p; cs_out := pr_out r; cs_nobj := pc_nobj p; cs_d6 := pc_d6 p |}.

Definition judge_apply (p : pcase) : N :=
  let cs := map (case_of p) (pc_runs p) in
  (* the premises do not depend on the draws: evaluated once, for the applying mode *)
  bits (forallb agree cs) (forallb spec cs)
       (dom (case_of p {| pr_collect := false; pr_draws := []; pr_out := [] |})) (existsb nontrivial cs).
(* per-run bits, for --replay / debugging *)
Definition judge_runs (p : pcase) : list N :=
  map (fun c => bits (agree c) (spec c) (dom c) (nontrivial c)) (map (case_of p) (pc_runs p)).

(* for --replay / debugging *)
Definition model_out (c : ccase) :=
  load_collection (cs_collect c) (cs_draws c) (cs_filters c) (cs_rules c).

(* --replay: per run, the judge bits and the model's rules (detection maps, condition strings as code points) *)
Definition model_runs (p : pcase) :=
  map (fun c => (bits (agree c) (spec c) (dom c) (nontrivial c),
                 match model_out c with
                 | Some (rs, rest) => Some (map (fun r => (r_dets r, r_conds r)) rs, rest)
                 | None => None end))
      (map (case_of p) (pc_runs p)).
