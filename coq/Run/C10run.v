(* Judges of the C10 correspondence suites. *)
From Coq Require Import String Ascii.
From Coq Require Import List NArith ZArith Bool Arith.
From PS Require Import Base.Chars Base.Outcome Model.Backend Spec.Target Model.BTree Model.Corr Spec.CorrSpec
                       Proofs.BackendDomP Proofs.CorrP Run.Bits.
Import ListNotations.
Open Scope list_scope.
Open Scope N_scope.

(* case files carry their texts as Coq string literals (UTF-8 bytes), decoded here into code points;
   this is harness glue: a decoding slip shows up as a disagreement on every non-ASCII case *)
Require Export Coq.Strings.String.
Fixpoint u8go (l : list N) (need : nat) (acc : N) : str :=
  match l with
  | [] => []
  | b :: r =>
    match need with
    | O => if b <? 128 then b :: u8go r 0 0
           else if b <? 224 then u8go r 1 (b - 192)
           else if b <? 240 then u8go r 2 (b - 224)
           else u8go r 3 (b - 240)
    | S k => let acc' := acc * 64 + (b - 128) in
             match k with O => acc' :: u8go r 0 0 | _ => u8go r k acc' end
    end
  end.
Definition u8 (s : string) : str := u8go (List.map N_of_ascii (list_ascii_of_string s)) 0 0.

(* own query of a referenced rule: its bracket tree (a query that is not a well-formed bracket text is
   kept as one text run; such a case is outside the theorem's domain) *)
Definition pq (s : str) : list node := match readc s with Some t => t | None => [T s] end.

Record ccase := {
  cc_K : kcfg; cc_P : list pitem; cc_r : crule;
  cc_impl : outcome str;        (* the implementation's query for the rule under test, or its error *)
  cc_xsrc : option cond         (* source tree of the extended condition (atoms index r_xrefs) *)
}.

Definition is_err {A} (o : outcome A) : bool := match o with Ok _ => false | _ => true end.
Definition asg_of (mask : N) (a : nat) : bool := N.testbit mask (N.of_nat a).

Definition xsem_ok (K : kcfg) (r : crule) (src : option cond) (t : list node) : bool :=
  match the_cond r with
  | CExt _ =>
    match find_x t, src with
    | Some xn, Some s =>
      match lex_nodes (map (fun rf => ruleid (rr_info rf)) (r_xrefs r)) xn with
      | Some toks =>
        forallb (fun m => let asg := asg_of (N.of_nat m) in
                          match tparse (lvl (k_cfg K)) asg toks with
                          | Some v => Bool.eqb v (den asg s)
                          | None => false
                          end)
                (seq 0 (Nat.pow 2 (List.length (r_xrefs r))))
      | None => false
      end
    | _, _ => false
    end
  | _ => true
  end.

Definition judge_corr (c : ccase) : N :=
  let K := cc_K c in let P := cc_P c in let r := cc_r c in
  let agree := match convc K P r, cc_impl c with
               | Ok t, Ok q => str_eqb (showc t) q
               | SigmaErr a, SigmaErr b => N.eqb a b
               | Crash a, Crash b => N.eqb a b
               | _, _ => false
               end in
  let spec := match cc_impl c with
              | Ok q => match readc q, expected K P r with
                        | Some t, Ok e => nodes_eqb (normalize (first_id r) t) e && xsem_ok K r (cc_xsrc c) t
                        | _, _ => false
                        end
              | _ => is_err (expected K P r)
              end in
  bits agree spec (dom K P r && xdom K r)
       (negb (match r_aliases r with [] => true | _ => false end) || is_ext (the_cond r)
        || (2 <=? List.length (referenced r))%nat || negb (match P with [] => true | _ => false end)).

(* suite multi: several correlation rules converted through one backend / pipeline object; every one
   of them is judged on its own by the unchanged model and specification, so its query must not
   depend on the other correlation rules of the rule set or on what was converted before *)
Definition judge_multi (l : list ccase) : N :=
  let bs := map judge_corr l in
  bits (forallb (fun b => N.testbit b 0) bs) (forallb (fun b => N.testbit b 1) bs)
       (forallb (fun b => N.testbit b 2) bs) (existsb (fun b => N.testbit b 3) bs).

(* used by --replay *)
Definition model_corr (c : ccase) : outcome str :=
  match convc (cc_K c) (cc_P c) (cc_r c) with Ok t => Ok (showc t) | SigmaErr a => SigmaErr a | Crash a => Crash a end.
Definition expected_corr (c : ccase) : outcome str :=
  match expected (cc_K c) (cc_P c) (cc_r c) with Ok t => Ok (showc t) | SigmaErr a => SigmaErr a | Crash a => Crash a end.

(* timespan suite: (spec text, implementation's (count, unit, seconds) or error) *)
Definition judge_ts (c : str * option (Z * N * Z)) : N :=
  let '(spec, r) := c in
  let agree := match parse_ts spec, r with
               | Some t, Some (n, u, s) => Z.eqb (t_count t) n && N.eqb (t_unit t) u && Z.eqb (t_seconds t) s
               | None, None => true
               | _, _ => false
               end in
  let ok := match r with
            | Some (n, u, s) => match unit_len u with Some len => Z.eqb s (n * len) | None => false end
                                && match rev spec with u' :: rc => N.eqb u u' && option_eqb Z.eqb (py_int (rev rc)) (Some n) | [] => false end
            | None => match rev spec with
                      | u :: rc => match py_int (rev rc), unit_len u with Some _, Some _ => false | _, _ => true end
                      | [] => true
                      end
            end in
  bits agree ok true (negb (match parse_ts spec with Some _ => false | None => true end)).
