(* C09 correspondence judges.
   suite orders : one rule set, one load path, a list of document orders; for every order the
     implementation's observable behaviour (exception class + phase, order of collection.rules by
     title, emitted queries, the queries the conversion callback saw per rule).
     The orders of a case form a HISTORY: they are loaded one after the other, in some modes from the very
     same parsed documents.  In the model loading is a function of the documents alone (pipeline ds), so
     every run - whatever was loaded before it - is compared with pipeline applied to the permuted
     documents, and with the first run of the case (same_class).
     bit 1: the model (Model.RefOrder.pipeline with the TextQueryTestBackend rendering) predicts all of it
     bit 2: the specification oracle (Spec.RefOrder), evaluated on the source documents and the
            implementation's output only
     bit 4: premise of the theorems (unique names/ids; unique titles so that rules can be told apart by title)
   suite oldsort : ties the model of the ORIGINAL ordering step (pysort with "is referenced by") to
     CPython's sorted() with the real SigmaRuleBase.__lt__ (documentation of defect D22). *)
From Coq Require Import NArith List Bool Arith.
From PS Require Import Base.Chars Base.Outcome Model.RefOrder Spec.RefOrder Run.Bits.
Import ListNotations.
Local Open Scope nat_scope.

Inductive ires :=
| ILoadErr (tag : N)                                   (* exception while loading *)
| IConvErr (tag : N) (order_load : list str)           (* exception in Backend.convert *)
| IOk (order_load order_conv : list str) (queries : list nat) (own : list (str * nat)).

Definition strs_eqb := list_eqb str_eqb.
Definition nats_eqb := list_eqb Nat.eqb.
Definition own_eqb (a b : str * nat) : bool := str_eqb (fst a) (fst b) && Nat.eqb (snd a) (snd b).
Definition dflt : doc := {| d_title := []; d_name := None; d_id := None; d_body := Plain [] |}.
Definition titles_of (ds : list doc) (ord : list nat) : list str := map (fun i => d_title (nth i ds dflt)) ord.

(* ---- bit 1 ---- *)
Definition agree_run (ds : list doc) (tab : list str) (run : list nat * ires) : bool :=
  let pd := map (fun i => nth i ds dflt) (fst run) in
  let q k := nth k tab [] in
  match snd run, pipeline str tq_plain tq_corr pd with
  | ILoadErr t, SigmaErr e => N.eqb t e && N.eqb e E_NotFound
  | IConvErr t ol, SigmaErr e =>
      N.eqb t e && N.eqb e E_Conversion &&
      match load pd with Ok (_, o1) => strs_eqb (titles_of pd o1) ol | _ => false end
  | IOk ol oc qs own, Ok c =>
      strs_eqb (titles_of pd (c_order_load c)) ol
      && strs_eqb (titles_of pd (c_order_conv c)) oc
      && strs_eqb (map snd (c_emitted c)) (map q qs)
      && list_eqb (fun a b => str_eqb (fst a) (fst b) && str_eqb (snd a) (snd b))
           (flat_map (fun iq => map (pair (d_title (nth (fst iq) pd dflt))) (snd iq)) (rev (c_results c)))
           (map (fun tk => (fst tk, q (snd tk))) own)
  | _, _ => false
  end.

(* ---- bit 2 ---- *)
Definition same_class (a b : ires) : bool :=
  match a, b with
  | ILoadErr x, ILoadErr y => N.eqb x y
  | IConvErr x _, IConvErr y _ => N.eqb x y
  | IOk _ _ qa oa, IOk _ _ qb ob => meq Nat.eqb qa qb && meq own_eqb oa ob
  | _, _ => false
  end.

Definition order_ok (ds : list doc) (check_topo : bool) (ord : list str) : bool :=
  meq str_eqb ord (map d_title ds) && (negb check_topo || topo_titles ds [] ord).

(* own queries (table indices) of the rule titled t, as seen by the conversion callback *)
Definition own_of (own : list (str * nat)) (t : str) : list nat :=
  map snd (filter (fun tk => str_eqb (fst tk) t) own).

Definition flags_ok (ds : list doc) (qs : list nat) (own : list (str * nat)) : bool :=
  let idx := seq 0 (length ds) in
  let sel (e : emission -> bool) :=
      flat_map (fun i => if e (emission_of ds i) then own_of own (d_title (nth i ds dflt)) else []) idx in
  let must := sel (fun e => match e with MustEmit => true | _ => false end) in
  let may := sel (fun e => match e with Unconstrained => true | _ => false end) in
  (* every rule produced at least one query of its own, the mandatory ones are all emitted, and what
     else is emitted belongs to rules the property leaves unconstrained *)
  forallb (fun i => negb (Nat.eqb (length (own_of own (d_title (nth i ds dflt)))) 0)) idx
  && match msub Nat.eqb qs must with
     | Some rest => mincl Nat.eqb rest may
     | None => false
     end.

Definition spec_run (ds : list doc) (first : ires) (run : list nat * ires) : bool :=
  let r := snd run in
  let uk := unique_keysb ds && unique_titlesb ds in
  let dang := has_danglingb ds in
  let acyc := acyclicb ds in
  same_class first r
  && (if dang then match r with ILoadErr t => N.eqb t E_NotFound | _ => false end
      else match r with ILoadErr _ => false | _ => true end)
  && (if negb dang && uk && acyc then match r with IOk _ _ _ _ => true | _ => false end else true)
  && (if uk && negb dang
      then match r with
           | ILoadErr _ => true
           | IConvErr _ ol => order_ok ds false ol && negb acyc
           | IOk ol oc qs own => order_ok ds acyc ol && order_ok ds acyc oc && flags_ok ds qs own
           end
      else true).

Definition is_perm_of_idx (n : nat) (p : list nat) : bool := meq Nat.eqb p (seq 0 n).

Definition judge_orders (c : list doc * list str * list (list nat * ires)) : N :=
  let '(ds, tab, runs) := c in
  let wf := forallb (fun r => is_perm_of_idx (length ds) (fst r)) runs in
  let first := match runs with r :: _ => snd r | [] => ILoadErr 0 end in
  bits (wf && forallb (agree_run ds tab) runs)
       (wf && forallb (spec_run ds first) runs)
       (unique_keysb ds && unique_titlesb ds)
       (existsb is_corr ds && (1 <? length ds) && (1 <? length runs)).

(* ---- suite oldsort: (number of rules, resolved references per rule, order returned by
        sorted(rules) with the real __lt__) ---- *)
Definition judge_oldsort (c : list (list nat) * list nat * list nat) : N :=
  let '(rr, input, out) := c in
  bits (nats_eqb (pysort (lt_ref rr) input) out) true true (1 <? length input).
