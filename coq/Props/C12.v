(* C12 - Each pipeline transformation equals its documented source-level rewrite.
   Only statements, each closed by `exact`, with Print Assumptions. *)
From Coq Require Import NArith List Bool.
From PS Require Import Base.Chars Model.SString Spec.Items Model.Transform Spec.Rewrite Proofs.SStringP Proofs.HashesP Proofs.TransformP
  Proofs.ReplaceP Proofs.AddCondP.
Import ListNotations.

(* The detection walk commutes with the entry-wise rewrite of the document: if every detection item the
   transformation touches is replaced by a tree that means what the documented rewrite of that entry
   means, the whole detection means what the rewritten document means - for trees of any size and
   nesting, every event (asg), every scope p. *)
Theorem C12_walk : forall asg p tr r,
  (forall i, p i = true -> sems asg (rep_list i (tr i)) = evals asg (opt_list (r i))) ->
  forall d, forall_items p d = true -> sem asg (walk_top tr d) = eval asg (subst_top r (doc_of d)).
Proof. exact walk_top_sem. Qed.
Print Assumptions C12_walk.

(* One processing item of any modelled type (field renaming 1:1 / 1:n / prefix / suffix / prefix mapping /
   keyword->field, drop, set_value, case, map_string, replace_string, convert_type, placeholders), any
   scope: every named detection of the transformed rule means what the rewritten document means. *)
Theorem C12_item : forall asg c t r, rule_sem_ok c t r = true ->
  meanings asg (apply_tspec c t r) = doc_meanings asg (rewrite_tspec c t (rdocs_of r)).
Proof. exact tspec_sem. Qed.
Print Assumptions C12_item.

(* chains and nested pipelines: the transformed rule IS the rewritten document *)
Theorem C12_pipeline_exact : forall ps r, pipeline_exact_ok ps r = true ->
  rdocs_of (apply_pipeline ps r) = rewrite_pipeline ps (rdocs_of r).
Proof. exact pipeline_exact. Qed.
Print Assumptions C12_pipeline_exact.

Theorem C12_pipeline : forall ps r, pipeline_ok ps r = true ->
  forall asg, meanings asg (apply_pipeline ps r) = doc_meanings asg (rewrite_pipeline ps (rdocs_of r)).
Proof. exact pipeline_sem. Qed.
Print Assumptions C12_pipeline.

(* keyword entries with modifiers keep substring semantics composed with the modifier (Spec.Rewrite.kw_value):
   '|all': [a, b*] with null -> [m, r] is any of [{m|contains|all: [a, b*]}, {r|contains|all: [a, b*]}] *)
Theorem C12_keyword_all :
  rdocs_of (apply_tspec no_conds (TFieldMap [(None, FMany [[109%N]; [114%N]])]) kwall_rule)
  = [([115%N], All [Any [Entry (mkI (Some [109%N]) [V (AStr false [PMulti; PStr [97%N]; PMulti]); V (AStr false [PMulti; PStr [98%N]; PMulti])] true false []);
                         Entry (mkI (Some [114%N]) [V (AStr false [PMulti; PStr [97%N]; PMulti]); V (AStr false [PMulti; PStr [98%N]; PMulti])] true false [])]])]
  /\ rdocs_of (apply_tspec no_conds (TFieldMap [(None, FMany [[109%N]; [114%N]])]) kwall_rule)
     = rewrite_tspec no_conds (TFieldMap [(None, FMany [[109%N]; [114%N]])]) (rdocs_of kwall_rule).
Proof. exact keyword_all_example. Qed.
Print Assumptions C12_keyword_all.

(* FULL STATEMENT for keyword -> field mapping (false of the faithful model, D28):
     forall asg c t r, meanings asg (apply_tspec c t r) = doc_meanings asg (rewrite_tspec c t (rdocs_of r))
   C12_item proves it on rule_sem_ok (keyword items mapped to a field carry no number and no value expansion);
   without the premise: *)
Theorem C12_keyword_number_refuted :
  exists asg c t r, meanings asg (apply_tspec c t r) <> doc_meanings asg (rewrite_tspec c t (rdocs_of r)).
Proof. exact keyword_number_refuted. Qed.
Print Assumptions C12_keyword_number_refuted.

(* one-to-many mapping of a negated item (D25, repaired in the code): inside C12_item's domain; the
   instance f|neq: v, f -> [a, b] spelled out *)
Theorem C12_onetomany_neq : forall asg,
  meanings asg (apply_tspec no_conds (TFieldMap [(Some [102%N], FMany [[97%N]; [98%N]])]) neq_rule)
  = [([115%N], Some (negb (asg (Some [97%N]) (AStr false [PStr [118%N]]) || asg (Some [98%N]) (AStr false [PStr [118%N]]))))].
Proof. exact onetomany_neq_example. Qed.
Print Assumptions C12_onetomany_neq.

(* ---------- identity instances: a transformation configured to match nothing changes nothing ---------- *)
(* scope (detection item / field name conditions) that matches no detection item *)
Theorem C12_identity_scope : forall c t r, is_addcond t = false -> is_rule_level t = false -> afn_of t = None ->
  (forall i, im_of c i = false) -> apply_tspec c t r = r.
Proof. exact identity_scope. Qed.
Print Assumptions C12_identity_scope.

(* rule conditions that do not match *)
Theorem C12_identity_rule_conditions : forall c t r, c_rule c = false -> apply_item (c, t) r = r.
Proof. intros c t r H. unfold apply_item. cbn [fst]. rewrite H. reflexivity. Qed.
Print Assumptions C12_identity_rule_conditions.

(* field name mappings that map nothing (empty mapping, no prefix matches): every detection keeps its
   meaning (items holding field references in scope are still marked as processed), condition and fields
   list are unchanged *)
Theorem C12_identity_fieldmap : forall asg c afn r, (forall f, afn f = FNone) ->
  meanings asg (apply_fieldmap c afn r) = meanings asg r /\
  r_cond (apply_fieldmap c afn r) = r_cond r /\ r_fields (apply_fieldmap c afn r) = r_fields r.
Proof. exact identity_fieldmap. Qed.
Print Assumptions C12_identity_fieldmap.

(* value transformations that leave every value (empty map_string mapping, unknown placeholder filter) *)
Theorem C12_identity_values : forall c tv r, (forall f v, tv f v = None) -> apply_values c tv r = r.
Proof. exact identity_values. Qed.
Print Assumptions C12_identity_values.

(* FULL STATEMENT for replace_string (false of the faithful model, D10 / D30):
     forall asg c tbl r, (forall p, tbl_sub tbl p = p) -> meanings asg (apply_tspec c (TReplace tbl) r) = meanings asg r
   proved part: no value in scope is a number, and every string in scope survives the round trip through
   its plain form (replace_value_ok; fails exactly for a literal backslash directly before a wildcard) *)
Theorem C12_identity_replace_string_partial : forall asg c tbl r,
  (forall p, tbl_sub tbl p = p) -> rule_ok (item_sem_ok c (TReplace tbl)) r = true ->
  meanings asg (apply_tspec c (TReplace tbl) r) = meanings asg r.
Proof. exact identity_replace. Qed.
Print Assumptions C12_identity_replace_string_partial.

Theorem C12_identity_replace_string_refuted :
  exists asg c r, meanings asg (apply_tspec c (TReplace []) r) <> meanings asg r.
Proof. exact replace_bswild_refuted. Qed.
Print Assumptions C12_identity_replace_string_refuted.

Theorem C12_identity_replace_string_number_refuted :
  exists asg c r, meanings asg (apply_tspec c (TReplace []) r) <> meanings asg r.
Proof. exact replace_number_refuted. Qed.
Print Assumptions C12_identity_replace_string_number_refuted.

(* the syntactic domain of the no-op instance: a value without placeholders in which no literal backslash
   stands directly before a wildcard comes back unchanged from a substitution that leaves its plain form alone *)
Theorem C12_replace_noop_roundtrip : forall sub l,
  rs_dom l = true -> contains_placeholder (canon l) = false ->
  sub (plain_items l) = plain_items l -> replace_sstring sub (canon l) = canon l.
Proof. exact replace_noop_roundtrip. Qed.
Print Assumptions C12_replace_noop_roundtrip.

(* ---------- add_condition ---------- *)
(* FULL STATEMENT: for every name. Proved for a fresh name (not defined in the rule, not referenced by the
   condition, matched by none of its selectors - which the drawn default name "_cond_..." is unless a
   selector pattern starts with "_"): the new condition `[not] name and (cond)` means the (negated) added
   detection AND the original condition evaluated in the original rule; m = meaning of the added
   detection, env = meanings of the rule's detections, selm = selector pattern matching. *)
Theorem C12_add_condition : forall selm (name : str) (m : option bool) (neg : bool) env c,
  fresh_env name env = true -> fresh_in selm name c = true ->
  ceval selm (dict_set name m env) (CAndE [(if neg then CNotE (CId name) else CId name); c])
  = comb true (opt_list (option_map (xorb neg) m) ++ opt_list (ceval selm env c)).
Proof. exact add_condition_sem. Qed.
Print Assumptions C12_add_condition.

(* an explicit name that a selector of the condition matches (`1 of them`) is captured; the hand-rewritten
   document has the same reading, so this is the boundary of the theorem, not a defect *)
Theorem C12_add_condition_captured_refuted :
  exists name m env c, fresh_env name env = true /\
    ceval (fun _ _ => true) (dict_set name m env) (CAndE [CId name; c])
    <> comb true (opt_list m ++ opt_list (ceval (fun _ _ => true) env c)).
Proof. exact add_condition_captured_refuted. Qed.
Print Assumptions C12_add_condition_captured_refuted.

(* a later item scoped by processing_item_applied sees the marks of an earlier item also on the copies of a
   one-to-many mapping (repaired in the code): case (id A); f -> [x, y]; set_value 1 if A was applied *)
Theorem C12_chain_marks :
  pipeline_ok [PItem cA (TCase CUpper); PItem no_conds (TFieldMap [(Some [102%N], FMany [[120%N]; [121%N]])]);
               PItem cC (TSetValue (ANum [49%N]))] chain_rule = true /\
  rdocs_of (apply_pipeline [PItem cA (TCase CUpper); PItem no_conds (TFieldMap [(Some [102%N], FMany [[120%N]; [121%N]])]);
                            PItem cC (TSetValue (ANum [49%N]))] chain_rule)
  = [([115%N], All [Any [Entry (mkI (Some [120%N]) [V (ANum [49%N])] false false [[67%N]; [65%N]]);
                         Entry (mkI (Some [121%N]) [V (ANum [49%N])] false false [[67%N]; [65%N]])]])].
Proof. exact chain_marks_example. Qed.
Print Assumptions C12_chain_marks.

(* ---------- hashes_fields, extract_fields ---------- *)
(* grouping the hashes by dict insertion = the fields in the order of their first occurrence, each with all
   its values (also when the occurrences of a field are not adjacent); C12_item / C12_pipeline cover
   hashes_fields with this lemma, including all-linked and negated items (repaired, fix 0dde42a) *)
Theorem C12_hashes_grouping : forall pairs, dict_group pairs = spec_group pairs.
Proof. exact dict_group_spec. Qed.
Print Assumptions C12_hashes_grouping.

Theorem C12_hashes_interleaved :
  rdocs_of (apply_tspec no_conds (THashes hashes_cfg) hashes_rule)
  = [([115%N], All [Any [Entry (mkI (Some [70%N; 77%N; 68%N; 53%N]) [V (AStr false [PStr [97%N]]); V (AStr false [PStr [99%N]])] false false []);
                         Entry (mkI (Some [70%N; 83%N; 72%N; 65%N; 49%N]) [V (AStr false [PStr [98%N]])] false false [])]])].
Proof. exact hashes_interleaved_example. Qed.
Print Assumptions C12_hashes_interleaved.

(* FULL STATEMENT for extract_fields fails for negated items (the new items are never negated, D34); C12_item
   proves it on rule_sem_ok (no negated item in scope is rewritten) *)
Theorem C12_extract_negated_refuted :
  exists asg c t r, meanings asg (apply_tspec c t r) <> doc_meanings asg (rewrite_tspec c t (rdocs_of r)).
Proof. exact extract_negated_refuted. Qed.
Print Assumptions C12_extract_negated_refuted.

(* ---------- rule-level attributes ---------- *)
(* change_logsource sets exactly the given attributes (omitted ones are cleared) and nothing else *)
Theorem C12_change_logsource : forall c c0 p s r,
  let r' := apply_tspec c (TChangeLogsource c0 p s) r in
  a_logsource (r_attrs r') = (c0, (p, s)) /\ r_dets r' = r_dets r /\ r_cond r' = r_cond r /\ r_fields r' = r_fields r /\
  a_custom (r_attrs r') = a_custom (r_attrs r) /\ a_state (r_attrs r') = a_state (r_attrs r).
Proof. exact change_logsource_exact. Qed.
Print Assumptions C12_change_logsource.

(* log source {category: pc, product: win}; change_logsource service: sys; field_name_prefix scoped by the rule
   condition logsource product: win does not apply any more *)
Theorem C12_change_logsource_follower :
  rules_consistent [PItem no_conds (TChangeLogsource None None (Some [115%N; 121%N; 115%N])); PItem c_win (TPrefix [119%N; 46%N])] ls_rule = true /\
  r_dets (apply_pipeline [PItem no_conds (TChangeLogsource None None (Some [115%N; 121%N; 115%N])); PItem c_win (TPrefix [119%N; 46%N])] ls_rule)
  = r_dets ls_rule.
Proof. exact change_logsource_follower_example. Qed.
Print Assumptions C12_change_logsource_follower.

(* non-vacuity: the premises are met by a rule with a keyword list, a negated item and nested lists *)
Example C12_premises_inhabited :
  let r := mkR [([115%N], DD [DD [DI (mkI None [V (AStr false [PStr [107%N]])] false false [])] true;
                              DI (mkI (Some [102%N]) [V (AStr false [PStr [118%N]]); V ANull] true true [])] false)] [115%N] [] in
  pipeline_ok [PItem no_conds (TFieldMap [(None, FMany [[109%N]; [110%N]]); (Some [102%N], FMany [[97%N]; [98%N]])])] r = true /\
  pipeline_ok [PItem no_conds TDrop; PNest no_conds [(no_conds, TCase CUpper)]] r = true.
Proof. split; reflexivity. Qed.
