(* C16 - A pipeline file cannot grant itself code execution, file or network access.
   Only statements, each closed by `exact`, with Print Assumptions. *)
From Coq Require Import NArith ZArith List Bool.
From PS Require Import Base.Chars Base.Outcome Model.Security Spec.Security Proofs.SecurityP.
Import ListNotations.

(* Every capability bit found on an instantiated object comes from the caller's arguments, whatever keys the
   document contains at any nesting depth: a top-level external-source item carries exactly the caller's
   allow_external_sources; every item nested below another item carries `false` (nested pipelines are built
   without the opt-in); post-processing items and finalizers are never external sources; every template object
   (post-processing or finalizer, nested to any depth) carries exactly the caller's allow_template_vars and
   vars_allowed_paths. *)
Theorem C16_caps_from_caller :
  forall E d a t tr, load_dict E d a = (Ok t, tr) ->
    let ot := obs_tree t in
    Forall (fun f => f = a_ext a) (flat_map top_flags (o_items ot)) /\
    Forall (fun f => f = false) (flat_map nested_flags (tree_nodes ot)) /\
    flat_map all_flags (o_post ot ++ o_fin ot) = [] /\
    Forall (tpl_is E (a_tv a) (a_ap a)) (tree_tpl_caps ot).
Proof. exact caps_from_caller. Qed.
Print Assumptions C16_caps_from_caller.
