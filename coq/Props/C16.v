(* C16 - A pipeline file cannot grant itself code execution, file or network access.
   Only statements, each closed by `exact`, with Print Assumptions.

   Vocabulary (Model/Security.v, Spec/Security.v):
     load_dict E d a        ProcessingPipeline.from_dict(d, allow_template_vars, vars_allowed_paths,
                            allow_external_sources) in environment E; returns (outcome tree, effect trace)
     load_yaml / load_resolver   from_yaml(.., source_path) and ProcessingPipelineResolver.resolve_pipeline(file)
     convert E t phs        Backend.convert of one rule whose values carry the placeholders phs
     effects                ERead path | ERun cmd | ENet url | EExec (real location of a vars file)
     env_on                 the gates' reading of PYSIGMA_ALLOW_EXTERNAL_SOURCES / PYSIGMA_ALLOW_VARS_EXECUTION
   All theorems quantify over every document d : yv (any keys, any nesting depth, any ill-typed value) and every
   environment E (variables, realpath oracle, which files/commands work). *)
From Coq Require Import String.
From Coq Require Import NArith ZArith List Bool.
From PS Require Import Base.Chars Base.Outcome Model.Security Spec.Security Proofs.SecurityP.
Import ListNotations.

(* ---- capabilities come from the caller only ---------------------------------------------------------------- *)
(* PLANNED STATEMENT (DESIGN): forall d a t, from_dict d a = Ok t -> every item's capability bits equal the caller's.
   This literal form is FALSE of the faithful model in the harmless direction: items nested below a `nest`
   transformation are built without the opt-in, so they carry `false` even when the caller passed `true`
   (C16_caps_equal_refuted).  What holds, for all documents and all nesting depths, is the exact description below;
   it implies that no bit ever exceeds the caller's (C16_caps_le_caller). *)
Theorem C16_caps_from_caller :
  forall E d a t tr, load_dict E d a = (Ok t, tr) ->
    let ot := obs_tree t in
    (* a top-level external-source item carries exactly the caller's allow_external_sources *)
    Forall (fun f => f = a_ext a) (flat_map top_flags (o_items ot)) /\
    (* every item nested below another one carries false *)
    Forall (fun f => f = false) (flat_map nested_flags (tree_nodes ot)) /\
    (* post-processing items and finalizers are never external sources *)
    flat_map all_flags (o_post ot ++ o_fin ot) = [] /\
    (* every template object at any depth carries exactly the caller's allow_template_vars and vars_allowed_paths,
       and one with a vars file exists only under a grant *)
    Forall (tpl_is E (a_tv a) (a_ap a)) (tree_tpl_caps ot).
Proof. exact caps_from_caller. Qed.
Print Assumptions C16_caps_from_caller.

Theorem C16_caps_le_caller :
  forall E d a t tr, load_dict E d a = (Ok t, tr) ->
    Forall (fun f => f = true -> a_ext a = true) (tree_ext_flags (obs_tree t)).
Proof. exact all_flags_le. Qed.
Print Assumptions C16_caps_le_caller.

Theorem C16_caps_equal_refuted :
  exists E d a t tr, load_dict E d a = (Ok t, tr) /\ a_ext a = true /\ In false (tree_ext_flags (obs_tree t)).
Proof. exact caps_equal_refuted. Qed.
Print Assumptions C16_caps_equal_refuted.

(* the same through from_yaml (allowed directories possibly derived from source_path) and through the resolver
   (no opt-in arguments at all) *)
Theorem C16_caps_from_caller_yaml :
  forall E d a src t tr, load_yaml E d a src = (Ok t, tr) ->
    Forall (fun f => f = true -> a_ext a = true) (tree_ext_flags (obs_tree t)) /\
    Forall (tpl_is E (a_tv a) (yaml_paths E (a_ap a) src)) (tree_tpl_caps (obs_tree t)).
Proof. exact caps_from_caller_yaml. Qed.
Print Assumptions C16_caps_from_caller_yaml.

Theorem C16_caps_resolver :
  forall E d spec t tr, load_resolver E d spec = (Ok t, tr) ->
    Forall (fun f => f = false) (tree_ext_flags (obs_tree t)) /\
    Forall (tpl_is E false (Some [render (removelast (real E spec))])) (tree_tpl_caps (obs_tree t)).
Proof. exact caps_resolver. Qed.
Print Assumptions C16_caps_resolver.

(* ---- non-interference: the opt-in keys of the document are irrelevant ----------------------------------------- *)
(* strip_doc removes allow_external_sources / allow_template_vars / vars_allowed_paths from every transformation
   and post-processing item (recursively through nested `items`), from every top-level finalizer, and the two
   template keys from every nested finalizer (recursively).  Loading - outcome, whole tree, effect trace - is
   unchanged.  (At the top level of the document and, for allow_external_sources, inside nested finalizers the
   keys are not ignored but rejected as unknown keys / parameters, so they are not stripped here.) *)
Theorem C16_doc_irrelevant :
  forall E d a, load_dict E (strip_doc d) a = load_dict E d a.
Proof. exact doc_irrelevant. Qed.
Print Assumptions C16_doc_irrelevant.

Theorem C16_doc_irrelevant_rel :
  forall E d d' a, same_modulo_optin_keys d d' -> load_dict E d a = load_dict E d' a.
Proof. exact doc_irrelevant_rel. Qed.
Print Assumptions C16_doc_irrelevant_rel.

(* ---- every effect sits behind a gate that only the caller or the environment opens ---------------------------- *)
(* while loading: only executions of vars files, each under allow_template_vars or the environment variable, and
   passing the allowed-path test when base directories are in force *)
Theorem C16_load_effects_gated :
  forall E d a, Forall (exec_ok E (a_tv a) (a_ap a)) (snd (load_dict E d a)).
Proof. exact load_trace_gated. Qed.
Print Assumptions C16_load_effects_gated.

(* while converting: only fetches of external sources, each under allow_external_sources or the environment variable *)
Theorem C16_convert_effects_gated :
  forall E d a t tr phs, load_dict E d a = (Ok t, tr) ->
    Forall (fun e => (exists s, e = effect_of s) /\ (a_ext a || env_on (e_ext E)) = true) (snd (convert E t phs)).
Proof. exact convert_trace_gated. Qed.
Print Assumptions C16_convert_effects_gated.

(* default arguments + environment not granting: no effect at all, at load time or in any conversion; a loaded
   pipeline contains no template with a vars file and no raised flag *)
Theorem C16_no_effect_default :
  forall E d, env_on (e_ext E) = false -> env_on (e_tv E) = false ->
    snd (load_dict E d default_args) = [] /\
    forall t, fst (load_dict E d default_args) = Ok t ->
      Forall (fun c => fst (fst c) = None) (tree_tpl_caps (obs_tree t)) /\
      Forall (fun f => f = false) (tree_ext_flags (obs_tree t)) /\
      forall phs, snd (convert E t phs) = [].
Proof. exact no_effect_default. Qed.
Print Assumptions C16_no_effect_default.

(* ... and the affected items fail with the Sigma security error exactly when first needed *)
Theorem C16_ext_use_denied :
  forall E s sel rem, env_on (e_ext E) = false -> existsb (handled sel) rem = true ->
    run_node E (NExt s sel false) rem = (SigmaErr E_Security, []).
Proof. exact ext_use_denied. Qed.
Print Assumptions C16_ext_use_denied.

Theorem C16_vars_use_denied :
  forall E ap p, env_on (e_tv E) = false -> tpl_init E false ap (Some p) = (SigmaErr E_Security, []).
Proof. exact vars_use_denied. Qed.
Print Assumptions C16_vars_use_denied.

(* the gates read the environment exactly as documented: the value is "1" or "true" in any letter case *)
Theorem C16_env_documented : forall v, env_on v = env_grants v.
Proof. exact env_on_documented. Qed.
Print Assumptions C16_env_documented.

(* ---- allowed-path containment ------------------------------------------------------------------------------- *)
(* the string test of _load_vars_from_file on realpaths implies component-wise containment: an executed vars file
   lies below one of the base directories in force.  (The converse does not hold: the base "/" admits nothing.) *)
Theorem C16_path_containment :
  forall E bases p, wf_real (real E) -> path_allowed E bases (realpath E p) = true ->
    exists b, In b bases /\ is_prefix (real E b) (real E p).
Proof. exact path_containment. Qed.
Print Assumptions C16_path_containment.

Theorem C16_exec_contained :
  forall E tv bases p o tr q, wf_real (real E) -> tpl_init E tv (Some bases) (Some p) = (o, tr) -> In (EExec q) tr ->
    q = real E p /\ (tv || env_on (e_tv E)) = true /\ exists b, In b bases /\ is_prefix (real E b) q.
Proof. exact exec_contained. Qed.
Print Assumptions C16_exec_contained.

(* a pipeline resolved from a file: whatever it contains, the only possible effects while loading are executions,
   under the environment variable, of vars files below the directory of the pipeline file *)
Theorem C16_resolver_contained :
  forall E d spec, wf_real (real E) -> (forall cs, Forall wf_comp cs -> real E (render cs) = cs) ->
    Forall (fun e => exists p, e = EExec (real E p) /\ env_on (e_tv E) = true /\
                               is_prefix (removelast (real E spec)) (real E p))
           (snd (load_resolver E d spec)).
Proof. exact resolver_contained. Qed.
Print Assumptions C16_resolver_contained.

(* ---- template evaluation ---------------------------------------------------------------------------------------- *)
(* post-processing templates and template finalizers (inline text or a file below `path`, at any nesting depth) are
   rendered inside Jinja2's sandbox: rendering adds no effect to a conversion, so with default arguments and a
   non-granting environment loading + converting has no effect whatever the template text says; a template that
   reaches for an underscore attribute (the way out of the sandbox: x.__class__, f.__globals__ ...) is refused with
   jinja2's SecurityError instead of being evaluated.  That Jinja2's sandbox itself is tight is outside the model;
   the correspondence check observes on the real objects that every template's environment is a sandbox that
   refuses such an expression, and renders hostile templates under the audit hook. *)
Theorem C16_render_no_effect :
  forall E d t phs, snd (convert_full E d t phs) = snd (convert E t phs).
Proof. exact render_no_effect. Qed.
Print Assumptions C16_render_no_effect.

Theorem C16_no_effect_default_full :
  forall E d, env_on (e_ext E) = false -> env_on (e_tv E) = false ->
    forall t, fst (load_dict E d default_args) = Ok t -> forall phs, snd (convert_full E d t phs) = [].
Proof. exact no_effect_default_full. Qed.
Print Assumptions C16_no_effect_default_full.

Theorem C16_unsafe_template_refused :
  forall E d t phs, doc_unsafe E d = true -> fst (convert E t phs) = Ok tt ->
    fst (convert_full E d t phs) = Crash C_Sandbox.
Proof. exact unsafe_template_refused. Qed.
Print Assumptions C16_unsafe_template_refused.

(* ---- the oracle evaluated on the implementation's observations (judge bit 2) accepts whatever the model does --- *)
Theorem C16_oracle_sound :
  forall E d a o tr1 phs, wf_real (real E) -> load_dict E d a = (o, tr1) ->
    let ot := match o with Ok t => Some (obs_tree t) | _ => None end in
    let tr2 := match o with Ok t => snd (convert E t phs) | _ => [] end in
    spec_ok a (env_grants (e_ext E)) (env_grants (e_tv E)) (real E) ot (tr1 ++ tr2) false false = true.
Proof. exact model_satisfies_spec. Qed.
Print Assumptions C16_oracle_sound.

(* ---- non-vacuity ------------------------------------------------------------------------------------------- *)
Definition ex_fs : env :=
  {| e_ext := None; e_tv := Some (lit "TRUE");
     real := fun s => if str_eqb s (lit "/a/link.py") then [lit "b"; lit "v.py"]
                      else if str_eqb s (lit "/a") then [lit "a"] else if str_eqb s (lit "/b") then [lit "b"] else [lit "a"; lit "v.py"];
     loadable := fun _ => true; fetch_ok := fun _ => true; tpl_file := fun _ _ => None |}.
Definition ex_doc : yv :=
  YMap [(k_transformations, YList [YMap [(k_type, YStr t_cmd); (k_cmd, YStr (lit "id")); (k_ext, YBool true)]]);
        (k_finalizers, YList [YMap [(k_type, YStr t_nested);
           (k_finalizers, YList [YMap [(k_type, YStr t_template); (k_template, YStr (lit "x")); (k_vars, YStr (lit "/a/v.py"));
                                       (k_tv, YBool true); (k_ap, YList [YStr (lit "/")])]])]])].
(* a document with smuggled keys loads, its flags are the caller's, the vars file is executed (environment grant,
   inside the allowed directory); the symlinked path is refused; the conversion needs the command and is denied *)
Example C16_premises_inhabited :
  wf_real (real ex_fs) /\
  (exists t, load_dict ex_fs ex_doc {| a_ext := false; a_tv := false; a_ap := Some [lit "/a"] |}
             = (Ok t, [EExec [lit "a"; lit "v.py"]]) /\
             tree_ext_flags (obs_tree t) = [false] /\
             fst (convert ex_fs t [lit "u"]) = SigmaErr E_Security) /\
  path_allowed ex_fs [lit "/a"] (realpath ex_fs (lit "/a/link.py")) = false /\
  strip_doc ex_doc <> ex_doc.
Proof.
  split; [|split; [|split]].
  - intros s. unfold ex_fs, real. destruct (str_eqb s (lit "/a/link.py")); [|destruct (str_eqb s (lit "/a")); [|destruct (str_eqb s (lit "/b"))]];
      repeat constructor; try discriminate; vm_compute; intros H; repeat (destruct H as [H|H]; [discriminate|]); exact H.
  - eexists. split; [vm_compute; reflexivity|]. split; vm_compute; reflexivity.
  - vm_compute. reflexivity.
  - vm_compute. discriminate.
Qed.
