(* C08 - A failing rule never changes other rules' output; every query is accounted for.
   Only statements, each closed by `exact`, with Print Assumptions.

   Reading guide.  `convert ... collect C` is the model of Backend.convert (Model/Collection.v; D12, D13 and the
   nested-correlation variant of D13 are repaired in the code and the model follows the repaired code).  It
   returns the state left behind (stored results, backend.errors as (position, class), emitted queries) and the
   returned value.  `trees C` unfolds the collection into one dependency tree per rule (Spec/Collection.v): a
   leaf for a detection rule - it mentions the rule and its two flags (output switch, back reference) and nothing
   else -, a node with the trees of the referenced rules for a correlation rule.  `alone t` converts such a tree
   with no collection, no backend state and no error list: "what converting that rule alone yields".
   The statements hold for every per-rule conversion function conv1, finalisation finq, correlation functions
   cpre/cpost, output finalisation finout, for both values of finalize_correlation_subqueries, and for
   collections of any length with any reference structure (forward and self references included). *)
From Coq Require Import NArith List Bool Sorted.
From PS Require Import Base.Outcome Model.Collection Spec.Collection Proofs.CollectionP Proofs.ClosureP Proofs.PerCondP.
Import ListNotations.

(* collecting mode: the result is the concatenation, in collection order, of the queries each rule yields on its
   own (nothing for a rule that fails or whose output is switched off); errors holds the records of exactly the
   failing rules; the stored results are the rules' own.  Premise: no non-Sigma exception (see C08_crash). *)
Theorem C08_accounting :
  forall (query drule crule output : Type) (conv1 : drule -> outcome (list query))
         (finq : payload drule crule -> nat -> query -> outcome query) (cpre : crule -> outcome unit)
         (cpost : crule -> list (list query) -> outcome (list query)) (finout : list query -> outcome output)
         (fcs : bool) (C : list (rule drule crule)),
    forallb (fun t => negb (is_crash (ret (alone query drule crule conv1 finq cpre cpost fcs t)))) (trees drule crule C) = true ->
    convert query drule crule output conv1 finq cpre cpost finout fcs true C =
    ({| results := map (sopt query drule crule conv1 finq cpre cpost fcs) (trees drule crule C);
        errors := exp_errors query drule crule conv1 finq cpre cpost fcs 0 (trees drule crule C);
        emitted := exp_queries query drule crule conv1 finq cpre cpost fcs (trees drule crule C) |},
     finout (exp_queries query drule crule conv1 finq cpre cpost fcs (trees drule crule C))).
Proof. exact accounting. Qed.
Print Assumptions C08_accounting.

(* exactly one (rule, error) record per failing rule, in collection order *)
Theorem C08_one_record_per_failure :
  forall (query drule crule : Type) (conv1 : drule -> outcome (list query))
         (finq : payload drule crule -> nat -> query -> outcome query) (cpre : crule -> outcome unit)
         (cpost : crule -> list (list query) -> outcome (list query)) (fcs : bool) (ts : list (dtree drule crule)),
    (forall k e, In (k, e) (exp_errors query drule crule conv1 finq cpre cpost fcs 0 ts) <->
                 exists t, nth_error ts k = Some t /\ ret (alone query drule crule conv1 finq cpre cpost fcs t) = SigmaErr e) /\
    StronglySorted (fun a b => fst a < fst b) (exp_errors query drule crule conv1 finq cpre cpost fcs 0 ts).
Proof.
  intros. split; [|apply exp_errors_sorted].
  intros k e. rewrite exp_errors_In, PeanoNat.Nat.sub_0_r. split; [tauto|]. intros H. split; [apply le_0_n|exact H].
Qed.
Print Assumptions C08_one_record_per_failure.

(* isolation: replace the contents of any set of detection rules at any positions by anything (failing at any
   stage or not); a detection rule d that stays has the same dependency tree - the leaf below, which mentions
   nothing but d and its flags - hence by C08_accounting the same stored result, the same emitted queries and
   the same error record in both collections *)
Theorem C08_isolation :
  forall (query drule crule : Type) (conv1 : drule -> outcome (list query))
         (finq : payload drule crule -> nat -> query -> outcome query) (cpre : crule -> outcome unit)
         (cpost : crule -> list (list query) -> outcome (list query)) (fcs : bool)
         (C C' : list (rule drule crule)) (i : nat) (d : drule),
    Forall2 (same_shape drule crule) C C' ->
    nth_error C i = Some (Det d) -> nth_error C' i = Some (Det d) ->
    nth_error (trees drule crule C') i = nth_error (trees drule crule C) i /\
    nth_error (trees drule crule C) i = Some (Leaf d (out_enabled drule crule C i) (has_backref drule crule C i)) /\
    alone query drule crule conv1 finq cpre cpost fcs (Leaf d (out_enabled drule crule C i) (has_backref drule crule C i))
    = finish query drule crule finq fcs (PD d) (out_enabled drule crule C i) (has_backref drule crule C i) (conv1 d).
Proof.
  intros query drule crule conv1 finq cpre cpost fcs C C' i d HS H H'. split; [|split].
  - symmetry. exact (isolation query drule crule conv1 finq cpre cpost C C' i d HS H H').
  - exact (tree_det drule crule C i d H).
  - reflexivity.
Qed.
Print Assumptions C08_isolation.

(* non-collecting mode: the error of the first failing rule (in collection order) is raised, nothing is recorded *)
Theorem C08_first_error :
  forall (query drule crule output : Type) (conv1 : drule -> outcome (list query))
         (finq : payload drule crule -> nat -> query -> outcome query) (cpre : crule -> outcome unit)
         (cpost : crule -> list (list query) -> outcome (list query)) (finout : list query -> outcome output)
         (fcs : bool) (C : list (rule drule crule)) (pre : list (dtree drule crule))
         (t : dtree drule crule) (post : list (dtree drule crule)),
    trees drule crule C = pre ++ t :: post ->
    forallb (fun t0 => is_ok (ret (alone query drule crule conv1 finq cpre cpost fcs t0))) pre = true ->
    is_ok (ret (alone query drule crule conv1 finq cpre cpost fcs t)) = false ->
    convert query drule crule output conv1 finq cpre cpost finout fcs false C =
    ({| results := map (sopt query drule crule conv1 finq cpre cpost fcs) pre;
        errors := [];
        emitted := exp_queries query drule crule conv1 finq cpre cpost fcs pre |},
     err_of (ret (alone query drule crule conv1 finq cpre cpost fcs t))).
Proof. exact first_error. Qed.
Print Assumptions C08_first_error.

(* no failing rule: both modes return every query and record nothing *)
Theorem C08_no_error :
  forall (query drule crule output : Type) (conv1 : drule -> outcome (list query))
         (finq : payload drule crule -> nat -> query -> outcome query) (cpre : crule -> outcome unit)
         (cpost : crule -> list (list query) -> outcome (list query)) (finout : list query -> outcome output)
         (fcs : bool) (C : list (rule drule crule)),
    forallb (fun t => is_ok (ret (alone query drule crule conv1 finq cpre cpost fcs t))) (trees drule crule C) = true ->
    forall collect : bool,
    convert query drule crule output conv1 finq cpre cpost finout fcs collect C =
    ({| results := map (sopt query drule crule conv1 finq cpre cpost fcs) (trees drule crule C);
        errors := [];
        emitted := exp_queries query drule crule conv1 finq cpre cpost fcs (trees drule crule C) |},
     finout (exp_queries query drule crule conv1 finq cpre cpost fcs (trees drule crule C))).
Proof. exact no_error. Qed.
Print Assumptions C08_no_error.

(* collecting mode does not swallow a non-Sigma exception: it propagates from the first rule that raises one,
   with the records collected so far *)
Theorem C08_crash :
  forall (query drule crule output : Type) (conv1 : drule -> outcome (list query))
         (finq : payload drule crule -> nat -> query -> outcome query) (cpre : crule -> outcome unit)
         (cpost : crule -> list (list query) -> outcome (list query)) (finout : list query -> outcome output)
         (fcs : bool) (C : list (rule drule crule)) (pre : list (dtree drule crule))
         (t : dtree drule crule) (post : list (dtree drule crule)) (c : N),
    trees drule crule C = pre ++ t :: post ->
    forallb (fun t0 => negb (is_crash (ret (alone query drule crule conv1 finq cpre cpost fcs t0)))) pre = true ->
    ret (alone query drule crule conv1 finq cpre cpost fcs t) = Crash c ->
    convert query drule crule output conv1 finq cpre cpost finout fcs true C =
    ({| results := map (sopt query drule crule conv1 finq cpre cpost fcs) pre;
        errors := exp_errors query drule crule conv1 finq cpre cpost fcs 0 pre;
        emitted := exp_queries query drule crule conv1 finq cpre cpost fcs pre |}, Crash c).
Proof. exact crash_propagates. Qed.
Print Assumptions C08_crash.

(* "alone" is literally the conversion of the one-rule collection *)
Theorem C08_alone_is_singleton :
  forall (query drule crule output : Type) (conv1 : drule -> outcome (list query))
         (finq : payload drule crule -> nat -> query -> outcome query) (cpre : crule -> outcome unit)
         (cpost : crule -> list (list query) -> outcome (list query)) (finout : list query -> outcome output)
         (fcs : bool) (d : drule) (collect : bool),
    convert query drule crule output conv1 finq cpre cpost finout fcs collect [Det d] =
    let rr := alone query drule crule conv1 finq cpre cpost fcs (Leaf d true false) in
    match ret rr with
    | Ok qs => ({| results := [stored rr]; errors := []; emitted := qs |}, finout qs)
    | SigmaErr e => if collect then ({| results := [stored rr]; errors := [(0, e)]; emitted := [] |}, finout [])
                    else (init query, SigmaErr e)
    | Crash c => (init query, Crash c)
    end.
Proof. exact alone_singleton. Qed.
Print Assumptions C08_alone_is_singleton.

(* the result a rule leaves for the correlation rules referring to it does not depend on its own output switch
   (generate: true / false of the referring rules): a correlation rule's query is the same in both cases *)
Theorem C08_stored_independent_of_output :
  forall (query drule crule : Type) (finq : payload drule crule -> nat -> query -> outcome query) (fcs : bool)
         (p : payload drule crule) (out out' br : bool) (raw : outcome (list query)),
    stored (finish query drule crule finq fcs p out br raw) = stored (finish query drule crule finq fcs p out' br raw).
Proof. exact stored_out_irrelevant. Qed.
Print Assumptions C08_stored_independent_of_output.

(* isolation for every rule, correlation rules included: the dependency tree of rule i - hence its outcome, stored
   result, emitted queries and error record - is determined by the rules reachable from i through backward
   references (and the reference structure); whatever happens to any other rule, at any position, is irrelevant *)
Theorem C08_isolation_closure :
  forall (drule crule : Type) (C C' : list (rule drule crule)),
    Forall2 (same_shape drule crule) C C' ->
    forall i, (forall k, reach drule crule C i k -> nth_error C k = nth_error C' k) ->
    nth_error (trees drule crule C) i = nth_error (trees drule crule C') i.
Proof. exact closure_isolation. Qed.
Print Assumptions C08_isolation_closure.

(* "exactly one query per condition": a detection rule whose output is enabled and whose conditions convert to
   qs emits exactly length qs queries, in the order of the conditions, the k-th one being the finalisation of
   the k-th condition's query with index k (finalize_query receives the position) - for both ways the
   stored/raw decision can go (back reference, finalize_correlation_subqueries) *)
Theorem C08_one_query_per_condition :
  forall (query drule crule : Type) (conv1 : drule -> outcome (list query))
         (finq : payload drule crule -> nat -> query -> outcome query) (cpre : crule -> outcome unit)
         (cpost : crule -> list (list query) -> outcome (list query)) (fcs : bool)
         (d : drule) (br : bool) (qs fqs : list query),
    conv1 d = Ok qs ->
    ret (alone query drule crule conv1 finq cpre cpost fcs (Leaf d true br)) = Ok fqs ->
    length fqs = length qs /\
    forall k, k < length qs ->
      exists q q', nth_error qs k = Some q /\ nth_error fqs k = Some q' /\ finq (PD d) k q = Ok q'.
Proof. exact leaf_one_query_per_condition. Qed.
Print Assumptions C08_one_query_per_condition.

(* a rule whose query finalisation fails: its outcome is that of the first condition (in order) whose
   finalisation fails; every earlier condition finalised *)
Theorem C08_first_failing_condition :
  forall (query drule crule : Type) (conv1 : drule -> outcome (list query))
         (finq : payload drule crule -> nat -> query -> outcome query) (cpre : crule -> outcome unit)
         (cpost : crule -> list (list query) -> outcome (list query)) (fcs : bool)
         (d : drule) (br : bool) (qs : list query),
    conv1 d = Ok qs ->
    is_okb (ret (alone query drule crule conv1 finq cpre cpost fcs (Leaf d true br))) = false ->
    exists k q, nth_error qs k = Some q /\
                ret (alone query drule crule conv1 finq cpre cpost fcs (Leaf d true br)) = recast (finq (PD d) k q) /\
                forall j qj, j < k -> nth_error qs j = Some qj -> is_okb (finq (PD d) j qj) = true.
Proof. exact leaf_first_failing_condition. Qed.
Print Assumptions C08_first_failing_condition.

(* output switched off (referenced without generate: true): nothing is emitted; the rule can only fail through a
   finalisation whose result the referring rules need *)
Theorem C08_output_off_emits_nothing :
  forall (query drule crule : Type) (conv1 : drule -> outcome (list query))
         (finq : payload drule crule -> nat -> query -> outcome query) (cpre : crule -> outcome unit)
         (cpost : crule -> list (list query) -> outcome (list query)) (fcs : bool)
         (d : drule) (br : bool) (qs : list query),
    conv1 d = Ok qs ->
    ret (alone query drule crule conv1 finq cpre cpost fcs (Leaf d false br)) = Ok [] \/
    (fcs || negb br = true /\ is_okb (Collection.fin_all query drule crule finq (PD d) 0 qs) = false /\
     ret (alone query drule crule conv1 finq cpre cpost fcs (Leaf d false br)) =
     recast (Collection.fin_all query drule crule finq (PD d) 0 qs)).
Proof. exact leaf_output_off. Qed.
Print Assumptions C08_output_off_emits_nothing.

(* non-vacuity: a collection with a failing rule in the middle, a rule referred to with generate: true and a
   correlation rule satisfies the premises, and the statement gives a non-trivial result *)
Example C08_premises_inhabited :
  let conv1 := fun d : nat => if Nat.eqb d 0 then SigmaErr 2%N else Ok [d; S d] in
  let finq := fun (_ : payload nat unit) (_ : nat) (q : nat) => Ok (q + 100) in
  let cpre := fun _ : unit => Ok tt in
  let cpost := fun (_ : unit) (qss : list (list nat)) => Ok [length (concat qss)] in
  let C := [Det 1; Det 0; Det 5; Cor tt [2; 1] true; Cor tt [0] false] in
  forallb (fun t => negb (is_crash (ret (alone nat nat unit conv1 finq cpre cpost false t)))) (trees nat unit C) = true /\
  exp_queries nat nat unit conv1 finq cpre cpost false (trees nat unit C) = [105; 106; 102] /\
  exp_errors nat nat unit conv1 finq cpre cpost false 0 (trees nat unit C) = [(1, 2%N); (3, E_Conversion)] /\
  convert nat nat unit (list nat) conv1 finq cpre cpost (fun qs => Ok qs) false true C =
  ({| results := [Some [1; 2]; None; Some [5; 6]; None; Some [102]]; errors := [(1, 2%N); (3, E_Conversion)];
      emitted := [105; 106; 102] |}, Ok [105; 106; 102]).
Proof. vm_compute. repeat split. Qed.
