(* C13 - A pipeline item acts exactly where its conditions hold.
   Only statements, each closed by `exact`, with Print Assumptions. *)
From Coq Require Import NArith ZArith List Bool.
From PS Require Import Base.Chars Base.Outcome Model.PipeExpr Model.PipeCond Spec.PipeSpec
     Proofs.PipeExprP Proofs.PipeCondP Proofs.PipeStepP.
Import ListNotations.

(* ---- condition expressions --------------------------------------------------------------- *)
(* every text of the documented expression language (identifiers over [A-Za-z0-9_-] other than the
   keywords, parentheses, prefix not, left-associative and / or, binding in this order; tokens
   separated by blanks) is accepted by parse_condition_expression and parsed to the tree it spells *)
Theorem C13_expr_parse :
  forall ts e, Forall tok_ok ts -> SOr ts e -> parse_expr (unlex ts) = Some e.
Proof. exact parse_expr_complete. Qed.
Print Assumptions C13_expr_parse.

(* the evaluator (match / match_detection_item / match_field_name of the expression classes)
   computes the boolean meaning of the tree whenever the referenced conditions have a truth value *)
Theorem C13_expr_eval :
  forall env benv e, (forall w, In w (ids e) -> env w = Ok (benv w)) -> eval_ex env e = Ok (den benv e).
Proof. exact eval_den. Qed.
Print Assumptions C13_expr_eval.

(* ---- _check_conditions / _resolve_condition_expression ---------------------------------- *)
(* an accepted configuration is read as: default linking "and", a mapping without expression becomes
   the list of its values in order; with an expression: no linking, a mapping, every identifier
   defined and every condition referenced.  Everything else is a SigmaConfigurationError. *)
Theorem C13_check_conditions :
  forall (g : rgroup rcond) n, build_group g = Ok n ->
  n_neg n = g_neg g /\
  match g_expr g with
  | None => n_conds n = form_conds (g_form g) /\
            n_mode n = MLink (match g_link g with Some l => l | None => LAnd end)
  | Some s => exists e m, parse_expr s = Some e /\ g_link g = None /\ g_form g = CMap m /\
                          n_conds n = m /\ n_mode n = MExpr e /\
                          (forall i, In i (ids e) -> assoc i m <> None) /\
                          (forall kv, In kv m -> In (fst kv) (ids e))
  end.
Proof. exact (@build_group_spec rcond). Qed.
Print Assumptions C13_check_conditions.

(* ---- the three gates ----------------------------------------------------------------------
   group_eval: a group without conditions holds; otherwise negation flag xor (all / any of the
   conditions | meaning of the expression); it has a truth value iff every condition has one.
   For every kind of condition, every linking, negation flag and expression: *)
Theorem C13_gate :
  forall (C : Type) (ev : C -> outcome bool) (g : ngroup C) b,
    wf_ngroup g -> (gate ev g = Ok b <-> group_eval ev g = Ok b).
Proof. exact (@gate_spec). Qed.
Print Assumptions C13_gate.

(* "an item without conditions always applies", for each of the three groups *)
Theorem C13_no_conditions :
  forall (C : Type) (ev : C -> outcome bool) (g : ngroup C), wf_ngroup g -> n_conds g = [] -> gate ev g = Ok true.
Proof. exact (@empty_group_always). Qed.
Print Assumptions C13_no_conditions.

Theorem C13_rule_gate :
  forall it w b, wf_ngroup (i_rule it) -> (match_rule_conditions it w = Ok b <-> applies_rule it w = Ok b).
Proof. exact rule_gate. Qed.
Print Assumptions C13_rule_gate.

Theorem C13_detitem_gate :
  forall it T ps d b, wf_ngroup (i_det it) -> wf_ngroup (i_field it) ->
    (match_detection_item it ps d = Ok b <-> applies_item it T ps d = Ok b).
Proof. exact detitem_gate. Qed.
Print Assumptions C13_detitem_gate.

(* the by-name bookkeeping is only trusted where it agrees with the history (see C13_history_field_refuted) *)
Theorem C13_field_gate :
  forall it T ps f b, wf_ngroup (i_field it) -> (no_fapplied (i_field it) \/ ghost_agrees T ps) ->
    (match_field_name it ps f = Ok b <-> applies_field it T ps f = Ok b).
Proof. exact field_gate. Qed.
Print Assumptions C13_field_gate.

(* ---- declarative meaning of the searching / shortcutting condition classes ---------------- *)
Theorem C13_cond_logsource :
  forall c p s w, rcond_eval w (RLogsource c p s) = Ok true <-> logsource_spec c p s (r_ls (w_rule w)).
Proof. exact logsource_meaning. Qed.
Print Assumptions C13_cond_logsource.

Theorem C13_cond_contains_field :
  forall f w, rcond_eval w (RContainsField f) = Ok true <-> contains_field_spec f (w_rule w).
Proof. exact contains_field_meaning. Qed.
Print Assumptions C13_cond_contains_field.

Theorem C13_cond_contains_item :
  forall f v w, rcond_eval w (RContainsItem f v) = Ok true <-> contains_item_spec f v (w_rule w).
Proof. exact contains_item_meaning. Qed.
Print Assumptions C13_cond_contains_item.

(* ---- history -------------------------------------------------------------------------------
   after running any list of items, processing_item_applied(id) holds on the rule iff it held before
   or some item with that id met its rule conditions at its turn *)
Theorem C13_history_rule :
  forall its w snaps err id, run its w = (snaps, err) ->
    (In id (r_applied (w_rule (final w snaps))) <-> In id (r_applied (w_rule w)) \/ In id (fired its w)).
Proof. exact history_rule. Qed.
Print Assumptions C13_history_rule.

Theorem C13_history_fired :
  forall its w id, In id (fired its w) <->
    exists pre it post wk w', its = pre ++ it :: post /\ reaches pre w wk /\ i_id it = id /\
                              step it wk = Ok (w', true).
Proof. exact fired_spec. Qed.
Print Assumptions C13_history_fired.

(* ---- the step: the transformation acts exactly where the item applies ----------------------
   FULL STATEMENT (false of the faithful model): for all items and states, one step of the model
   (ProcessingItem.apply: rule gate, then the transformation's loops over the fields list, the
   detection items, their field references and fields, calling the gates, marking what was touched)
   is the step of the specification sp_step: every target carries the effect iff the item applies to
   it on the state before the item; applied sets grow by exactly the item's id on exactly the
   targets that were changed; copies inherit history.
   Proved part: items that do not gate a field-name transformation by the field-name condition
   processing_item_applied (1:1 and 1:n mappings included). *)
Theorem C13_step_partial :
  forall it T w w' b,
    wf_ngroup (i_rule it) -> wf_ngroup (i_det it) -> wf_ngroup (i_field it) ->
    tracking_safe it = true ->
    step it w = Ok (w', b) ->
    exists ws T', sp_step it T w = Ok (ws, b, T') /\ same_obs ws w'.
Proof. exact step_meets_spec. Qed.
Print Assumptions C13_step_partial.

(* outside that domain the statement is refuted: *)
(* the field-name condition processing_item_applied does not see the items applied to a detection
   item's field *)
Theorem C13_history_field_refuted :
  exists it1 it2 w w1 w2 w2' T1 T2,
    has_fapplied (i_field it2) = true /\
    step it1 w = Ok (w1, true) /\ sp_step it1 [] w = Ok (w1, true, T1) /\
    step it2 w1 = Ok (w2, true) /\ sp_step it2 T1 w1 = Ok (w2', true, T2) /\
    r_dets (w_rule w2) <> r_dets (w_rule w2').
Proof. exact field_history_lost. Qed.
Print Assumptions C13_history_field_refuted.

(* non-vacuity: the grammar and the well-formedness premise are inhabited by non-trivial objects *)
Example C13_premises_inhabited :
  SOr [TW [97]; TW w_and; TW w_not; TL; TW [98]; TW w_or; TW [99]; TR]
      (EAnd (EId [97]) (ENot (EOr (EId [98]) (EId [99])))) /\
  wf_ngroup {| n_conds := [([97], RIsRule); ([98], RIsCorr)]; n_mode := MExpr (EAnd (EId [97]) (ENot (EId [98])));
               n_neg := true |}.
Proof.
  split.
  - apply so_and. apply (sd_and [TW [97]] (EId [97]) [TW w_not; TL; TW [98]; TW w_or; TW [99]; TR]).
    + apply sd_not, sn_atom, sa_id. reflexivity.
    + apply sn_not, sn_atom. apply (sa_par [TW [98]; TW w_or; TW [99]]).
      apply (so_or [TW [98]] (EId [98]) [TW [99]]).
      * apply so_and, sd_not, sn_atom, sa_id. reflexivity.
      * apply sd_not, sn_atom, sa_id. reflexivity.
  - unfold wf_ngroup. simpl. repeat split.
    + intros i [<-|[<-|[]]]; vm_compute; discriminate.
    + intros kv [<-|[<-|[]]]; simpl; auto.
    + repeat constructor; simpl; intuition discriminate.
Qed.

(* non-vacuity of C13_step_partial: a field-name transformation gated by two groups, applied to a rule
   with two detection items, satisfies every premise, and the step changes exactly one of them *)
Definition ex_item : item :=
  {| i_id := [109]; i_tr := TSuffix [95; 83];
     i_rule := {| n_conds := [([], RIsRule)]; n_mode := MLink LOr; n_neg := false |};
     i_det := {| n_conds := []; n_mode := MLink LAnd; n_neg := false |};
     i_field := {| n_conds := [([120], FInclude [[97]]); ([121], FState [107] (SNum (NInt 1)) OEq)];
                   n_mode := MExpr (EAnd (EId [120]) (ENot (EId [121]))); n_neg := false |} |}.
Example C13_step_inhabited :
  wf_ngroup (i_rule ex_item) /\ wf_ngroup (i_det ex_item) /\ wf_ngroup (i_field ex_item) /\
  tracking_safe ex_item = true /\
  exists w', step ex_item (world1 [[97]] [leaf [97] [VStr [120]]; leaf [98] [VNum 1%Z]]) = Ok (w', true) /\
             r_fields (w_rule w') = [[97; 95; 83]] /\
             r_dets (w_rule w') = [([115], DNode [DLeaf {| d_field := Some [97; 95; 83]; d_vals := [VStr [120]]; d_applied := [[109]] |};
                                                 leaf [98] [VNum 1%Z]])].
Proof.
  repeat split; try exact I.
  - intros i [<-|[<-|[]]]; vm_compute; discriminate.
  - intros kv [<-|[<-|[]]]; simpl; auto.
  - repeat constructor; simpl; intuition discriminate.
  - eexists. split; [vm_compute; reflexivity|]. split; reflexivity.
Qed.
