(* C13 - placeholder while the machinery is being built *)
From Coq Require Import NArith List Bool.
From PS Require Import Base.Chars Base.Outcome Model.PipeExpr Model.PipeCond Spec.PipeSpec.
