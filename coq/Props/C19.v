(* C19 - validation only observes: it is exact about references and changes nothing.
   Only statements, each closed by `exact`, with Print Assumptions.

   Model: Model/Validators.v (SigmaValidator.validate_rules with exclusions over a list of validator
   instances with their own tables; DanglingDetection / DanglingCondition over the unpostprocessed parse
   tree; IdentifierExistence / IdentifierUniqueness / DuplicateTitle / DuplicateFilename).
   Specification: Spec/ValidatorsSpec.v (Glob, Selected, Refers, HasSel, Unmatched, group, two_paths,
   ieq / MEquiv).  `validate E vs rules`: E exclusion table, vs the validator instances in the order
   the set happens to be iterated, rules in the order validated; the result is Ok issues or the
   SigmaConditionError the reference validators raise on a condition that does not parse. *)
From Coq Require Import NArith List Bool Permutation.
From PS Require Import Base.Chars Base.Outcome Model.VCond Model.Validators Spec.ValidatorsSpec Proofs.ValidatorsP Model.TagValidators Proofs.TagValidatorsP.
Import ListNotations.

(* the regular expression built from a selector pattern selects exactly the names the pattern
   denotes (glob reading of '*', "them", underscore rule) *)
Theorem C19_selector_exact : forall D p n, In n (resolve D p) <-> In n D /\ Selected p n.
Proof. exact resolve_spec. Qed.
Print Assumptions C19_selector_exact.

(* a detection is reported as unused if and only if no condition of the rule refers to it by name
   or by a matching selector (r: the rule, validated by a run in which the validator is present and
   not excluded for it; ts: the parse trees of its conditions) *)
Theorem C19_unused_iff :
  forall E vs rules l k n,
    validate E vs rules = Ok l ->
    (In (IUnused k n) l <->
     exists r ts, In r rules /\ r_key r = k /\ In VUnused vs /\ excluded E r VUnused = false /\
                  r_corr r = false /\ parse_all (r_conds r) = Ok ts /\
                  In n (r_dets r) /\ ~ exists t, In t ts /\ Refers (r_dets r) t n).
Proof. exact validate_unused_iff. Qed.
Print Assumptions C19_unused_iff.

(* a selector is reported as dangling if and only if it occurs in a condition and matches no detection *)
Theorem C19_dangling_iff :
  forall E vs rules l k p,
    validate E vs rules = Ok l ->
    (In (IDangling k p) l <->
     exists r ts, In r rules /\ r_key r = k /\ In VDangling vs /\ excluded E r VDangling = false /\
                  r_corr r = false /\ parse_all (r_conds r) = Ok ts /\
                  (exists t, In t ts /\ HasSel t p) /\ Unmatched (r_dets r) p).
Proof. exact validate_dangling_iff. Qed.
Print Assumptions C19_dangling_iff.

(* per rule, each unused detection / dangling selector is reported exactly once *)
Theorem C19_reference_issues_once :
  forall r ts, r_corr r = false -> parse_all (r_conds r) = Ok ts ->
    (forall l, v_check VUnused r = Ok l -> NoDup l) /\ (forall l, v_check VDangling r = Ok l -> NoDup l).
Proof. exact reference_issues_once. Qed.
Print Assumptions C19_reference_issues_once.

(* identifier, title and file-name issues name exactly the groups of (not excluded) rules that share
   the value: a group is reported iff it has at least two members; for file names iff the name is
   used under at least two different paths (two rules of the same file are not a collision) *)
Theorem C19_groups_exact :
  forall E vs rules l,
    validate E vs rules = Ok l ->
    (forall ks x, In (IIdColl ks x) l <-> In VIdUniq vs /\ ks = group E VIdUniq rules x /\ (2 <= length ks)%nat) /\
    (forall ks x, In (ITitle ks x) l <-> In VTitle vs /\ ks = group E VTitle rules x /\ (2 <= length ks)%nat) /\
    (forall ks x, In (IFile ks x) l <-> In VFile vs /\ ks = group E VFile rules x /\ two_paths E rules x).
Proof. exact groups_exact. Qed.
Print Assumptions C19_groups_exact.

(* for all iteration orders of the validator set and all orders of the rules: the same multiset of
   issues (a group being a set of rules), and the same decision whether an error is raised *)
Theorem C19_order_independent :
  forall E vs vs' rules rules',
    Permutation vs vs' -> Permutation rules rules' ->
    match validate E vs rules, validate E vs' rules' with
    | Ok l, Ok l' => MEquiv l l'
    | Ok _, _ | _, Ok _ => False
    | _, _ => True
    end.
Proof. exact order_independent. Qed.
Print Assumptions C19_order_independent.

(* exclusions suppress exactly the excluded validator for the excluded rule id: the issues of kind v
   in a run with exclusion table E are, in the same order, the issues validator v reports alone and
   without exclusions on the rules it is not excluded for *)
Theorem C19_exclusions_exact :
  forall E vs rules l v,
    validate E vs rules = Ok l -> NoDup vs -> In v vs ->
    validate [] [v] (seen E v rules) = Ok (filter (of_kind v) l).
Proof. exact exclusions_exact. Qed.
Print Assumptions C19_exclusions_exact.

(* validation raises iff a reference validator that runs on a rule meets a condition that does not parse *)
Theorem C19_raises_iff :
  forall E vs rules,
    (exists l, validate E vs rules = Ok l) <->
    forall r v, In r rules -> In v vs -> excluded E r v = false -> exists l, v_check v r = Ok l.
Proof. exact validate_raises_iff. Qed.
Print Assumptions C19_raises_iff.

Theorem C19_only_reference_validators_raise :
  forall v r, (forall l, v_check v r <> Ok l) ->
    (v = VUnused \/ v = VDangling) /\ r_corr r = false /\ forall ts, parse_all (r_conds r) <> Ok ts.
Proof. exact v_check_raises. Qed.
Print Assumptions C19_only_reference_validators_raise.

(* with distinct validator classes and distinct rule objects no issue is reported twice (so every
   `In` above is "exactly once") *)
Theorem C19_no_duplicates :
  forall E vs rules l,
    validate E vs rules = Ok l -> NoDup vs -> NoDup (map r_key rules) -> NoDup l.
Proof. exact validate_NoDup. Qed.
Print Assumptions C19_no_duplicates.

(* the executable tests the specification oracle of the correspondence check is built from decide
   the declarative notions used in the theorems above *)
Theorem C19_oracle_atoms :
  (forall p n, selectedb p n = true <-> Selected p n) /\
  (forall D n t, refersb D n t = true <-> Refers D t n) /\
  (forall t p, In p (sel_pats t) <-> HasSel t p) /\
  (forall D p, unmatchedb D p = true <-> Unmatched D p).
Proof. exact oracle_atoms. Qed.
Print Assumptions C19_oracle_atoms.

(* validator objects live across rules and across runs.  rule_part E vs r (Proofs/ValidatorsP.v) is
   what the validators that run on r return for r, computed from r alone.  Both calls of
   validate_rules on the same SigmaValidator return exactly these per-rule issues, rule by rule,
   followed by finalisation issues (which are never attached to a single rule): what a rule is told
   does not depend on the rules validated before it, on their ids, or on an earlier run *)
Theorem C19_rule_issues_independent_of_history :
  forall E vs rules l1 l2,
    validate_twice E vs rules = Ok (l1, l2) ->
    exists F1 F2,
      l1 = flat_map (rule_part E vs) rules ++ F1 /\ l2 = flat_map (rule_part E vs) rules ++ F2 /\
      Forall (fun i => ikey i = None) F1 /\ Forall (fun i => ikey i = None) F2.
Proof. exact second_run_per_rule. Qed.
Print Assumptions C19_rule_issues_independent_of_history.

(* ... and they are the issues the rule gets when it is validated alone *)
Theorem C19_rule_issues_as_if_alone :
  forall E vs rules l r,
    validate E vs rules = Ok l -> In r rules ->
    validate E vs [r] = Ok (rule_part E vs r ++ final_part E vs [r]) /\
    (forall i, In i (rule_part E vs r) -> In i l).
Proof. exact rule_part_alone. Qed.
Print Assumptions C19_rule_issues_as_if_alone.

(* validation only observes (tag validators, Model/TagValidators.v): the model of validator.validate
   returns the issues together with the rule's tags as the validator leaves them, the next validator
   sees what the previous one left; for every set and order of tag validators the tags come back as
   they were ... *)
Theorem C19_tags_observed_only : forall vs tags, snd (validate_tags vs tags) = tags.
Proof. exact tags_unchanged. Qed.
Print Assumptions C19_tags_observed_only.

(* ... hence every validator judges the source tags and the issues do not depend on the validator order *)
Theorem C19_tags_order_independent :
  forall vs vs' tags, Permutation vs vs' ->
    Permutation (fst (validate_tags vs tags)) (fst (validate_tags vs' tags)) /\
    snd (validate_tags vs tags) = snd (validate_tags vs' tags).
Proof. exact tags_order_independent. Qed.
Print Assumptions C19_tags_order_independent.

(* the TLP check is exact and case-sensitive: reported iff the tag is in the tlp namespace and its
   name, as written, is not a label of one of the TLP validators in the set *)
Theorem C19_tlp_exact :
  forall vs tags t,
    In (TITlp t) (fst (validate_tags vs tags)) <->
    In t tags /\ t_ns t = s_tlp /\
    exists v allowed, In v vs /\ tlp_allowed v = Some allowed /\ ~ In (t_name t) allowed.
Proof. exact tlp_exact. Qed.
Print Assumptions C19_tlp_exact.

(* non-vacuity: a collection on which every kind of issue arises *)
Open Scope N_scope.
Definition ex_rule (k : N) (i : option str) (t : str) (p : list str) (d : list str) (c : str) : rule :=
  {| r_key := k; r_corr := false; r_id := i; r_title := Some t; r_path := Some p; r_dets := d; r_conds := [c] |}.
Example C19_premises_inhabited :
  validate [] [VUnused; VDangling; VIdExist; VIdUniq; VTitle; VFile]
    [ ex_rule 0 (Some [49]) [84] [[100]; [97]] [[97]; [95; 98]] [49; 32; 111; 102; 32; 116; 104; 101; 109];   (* "1 of them" *)
      ex_rule 1 (Some [49]) [84] [[101]; [97]] [[97]] [97; 32; 97; 110; 100; 32; 49; 32; 111; 102; 32; 122; 42]; (* "a and 1 of z*" *)
      ex_rule 2 None [85] [[101]; [97]] [[110; 111; 116; 101]] [110; 111; 116; 101] ]                       (* "note" *)
  = Ok [ IUnused 0 [95; 98]; IDangling 1 [122; 42]; INoId 2;
         IIdColl [0; 1] [49]; ITitle [0; 1] [84]; IFile [0; 1; 2] [97] ].
Proof. vm_compute. reflexivity. Qed.
