(* C19 - validation only observes and is exact. *)
From Coq Require Import NArith List Bool.
From PS Require Import Base.Chars Base.Outcome Model.VCond Model.Validators Spec.ValidatorsSpec Proofs.ValidatorsP.
Import ListNotations.

Theorem C19_placeholder : True.
Proof. exact placeholder. Qed.
Print Assumptions C19_placeholder.
