(* C14 - Pipelines compose in a defined order: priority, then stage, then position.
   Only statements, each closed by `exact`, with Print Assumptions.
   Model: Model.Pipeline (heap of pipeline / item objects with the item -> owner back-pointer);
   specification: Spec.AbsPipeline (a pipeline IS items, post-processing items, finalizers, vars). *)
From Coq Require Import NArith ZArith List Bool Permutation Sorting.Sorted.
From PS Require Import Base.Chars Base.Outcome Spec.AbsPipeline Model.Pipeline Proofs.PipelineP Proofs.HistoryP.
Import ListNotations.
Open Scope N_scope.

(* p + q IS the concatenation: transformations, post-processing items and finalizers of p followed by
   q's, vars merged with q's values winning; and the sum owns every object it contains - whatever
   the operands were used for before (any heap h) *)
Theorem C14_refines_concat : forall h p q h' s,
  add h p q = (h', Ok s) -> abs h' s = aplus (abs h p) (abs h q) /\ owned h' s.
Proof. exact add_refines. Qed.
Print Assumptions C14_refines_concat.

(* exact domain of +: it raises (SigmaProcessingItemError / SigmaTransformationError) iff some item,
   post-processing item or finalizer object would occur twice in the concatenation (p + p) *)
Theorem C14_add_defined : forall h p q,
  snd (add h p q) =
  match first_dup [] (tagged (p_items p ++ p_items q) (p_post p ++ p_post q) (p_fin p ++ p_fin q)) with
  | None => Ok {| p_id := h_next h; p_items := p_items p ++ p_items q; p_post := p_post p ++ p_post q;
                  p_fin := p_fin p ++ p_fin q; p_prio := 0%Z; p_name := None |}
  | Some t => SigmaErr t
  end.
Proof. exact add_defined. Qed.
Print Assumptions C14_add_defined.

(* variables of the later pipeline override those of the earlier one *)
Theorem C14_vars_override : forall k p q, dict_ok (a_vars q) ->
  lookup k (a_vars (aplus p q)) = match lookup k (a_vars q) with Some v => Some v | None => lookup k (a_vars p) end.
Proof. intros k p q. exact (lookup_dmerge k (a_vars p) (a_vars q)). Qed.
Print Assumptions C14_vars_override.

(* every bracketing of + over a sequence of pipelines is the flat concatenation of that sequence;
   the variable map is "last definition wins" over the sequence. The right-hand sides mention only
   `leaves e`, so two bracketings of the same sequence agree: associativity *)
Theorem C14_bracketing : forall e h h' s,
  wf_heap h -> (forall p, In p (leaves e) -> valid h p) -> eval h e = (h', Ok s) ->
  p_items s = flat_map p_items (leaves e) /\ p_post s = flat_map p_post (leaves e) /\
  p_fin s = flat_map p_fin (leaves e) /\
  (forall k, lookup k (h_vars h' (p_id s)) = vars_lookup k (map (fun p => h_vars h (p_id p)) (leaves e))) /\
  valid h' s /\ match e with Leaf _ => True | Plus _ _ => owned h' s end.
Proof. exact eval_flat. Qed.
Print Assumptions C14_bracketing.

Theorem C14_assoc : forall h p q r h1 s1 h2 s2, wf_heap h -> valid h p -> valid h q -> valid h r ->
  eval h (Plus (Plus (Leaf p) (Leaf q)) (Leaf r)) = (h1, Ok s1) ->
  eval h (Plus (Leaf p) (Plus (Leaf q) (Leaf r))) = (h2, Ok s2) ->
  aeq (abs h1 s1) (abs h2 s2).
Proof. exact assoc3. Qed.
Print Assumptions C14_assoc.

(* the empty pipeline is the identity; `p + None` and `0 + p` (sum) are p itself *)
Theorem C14_identity : forall h p e h' s,
  p_items e = [] -> p_post e = [] -> p_fin e = [] -> h_vars h (p_id e) = [] -> dict_ok (h_vars h (p_id p)) ->
  (add h p e = (h', Ok s) -> abs h' s = abs h p) /\
  (add h e p = (h', Ok s) -> aeq (abs h' s) (abs h p)) /\
  add_opt h p None = (h, Ok p) /\ psum h [p] = (h, Ok p).
Proof. exact identity_all. Qed.
Print Assumptions C14_identity.

(* resolving a set of pipelines gives the same result - same heap, same pipeline object contents, same
   error - for every order in which they are named *)
Theorem C14_resolver_perm : forall h reg specs specs',
  Permutation specs specs' -> NoDup specs -> resolve h reg specs = resolve h reg specs'.
Proof. exact resolve_perm. Qed.
Print Assumptions C14_resolver_perm.

(* what that order is: a permutation of the named pipelines, ascending in (priority, name), and
   entries the order does not separate stay in argument order (stability) *)
Theorem C14_resolver_order : forall reg specs l, resolve_all p_name reg specs = Some l ->
  exists s, resolve_order p_name p_prio reg specs = Some (map fst s) /\ Permutation s l /\
    StronglySorted (fun a b => key_leb (info_key p_prio a) (info_key p_prio b) = true) s /\
    forall z, filter (eqv (info_leb p_prio) z) s = filter (eqv (info_leb p_prio) z) l.
Proof. exact (resolve_order_spec p_name p_prio). Qed.
Print Assumptions C14_resolver_order.

(* ... and the resolved pipeline is the concatenation in that order *)
Theorem C14_resolver_concat : forall h reg specs l h' s,
  wf_heap h -> (forall p, In p reg -> valid h p) ->
  resolve_order p_name p_prio reg specs = Some l -> l <> [] -> resolve h reg specs = (h', Ok s) ->
  p_items s = flat_map p_items l /\ p_post s = flat_map p_post l /\ p_fin s = flat_map p_fin l /\
  (forall k, lookup k (h_vars h' (p_id s)) = vars_lookup k (map (fun p => h_vars h (p_id p)) l)).
Proof. exact resolve_flat. Qed.
Print Assumptions C14_resolver_concat.

(* FULL STATEMENT (false of the faithful model, see C14_reuse_refuted):
     forall h f p rules, snd (m_run h f p rules) = abs_run f (abs h p) rules
   i.e. a pipeline converts every rule list like the abstract pipeline it denotes, in every history.
   Proved part: exactly the histories in which the pipeline (still) owns all its objects - which
   C14_refines_concat establishes for every sum at the moment it is built. *)
Theorem C14_behaviour_partial : forall h f p rules,
  owned h p -> snd (m_run h f p rules) = abs_run f (abs h p) rules.
Proof. exact behaviour. Qed.
Print Assumptions C14_behaviour_partial.

(* the history clause: after s = p + q, p's items are owned by s; a further addition p + r re-owns
   them, and s no longer converts like p's items followed by q's (defect D18) *)
Theorem C14_reuse_refuted :
  exists h p q r s t rules,
    owned h p /\ owned h q /\ owned h r /\
    snd (add h p q) = Ok s /\ snd (add (fst (add h p q)) p r) = Ok t /\
    snd (m_run (fst (add h p q)) FState s rules) = abs_run FState (abs (fst (add h p q)) s) rules /\
    snd (m_run (fst (add (fst (add h p q)) p r)) FState s rules)
      <> abs_run FState (abs (fst (add (fst (add h p q)) p r)) s) rules.
Proof. exact reuse_refuted. Qed.
Print Assumptions C14_reuse_refuted.

(* a backend runs its own pipeline, then the user's, then the output-format pipeline; abs_run is
   transformations (item order) -> conversion -> post-processing of every emitted query (item
   order) -> finalizers once on the whole output (in order) *)
Theorem C14_stage_order : forall h f bk user outf h' s rules, valid h outf ->
  init h f bk user outf = (h', Ok s) ->
  snd (m_run h' f s rules) =
  abs_run f (with_backend_vars f (aplus (match user with Some u => aplus (abs h bk) (abs h u) | None => abs h bk end)
                                        (abs h outf))) rules.
Proof. exact stage_order. Qed.
Print Assumptions C14_stage_order.

(* histories.  FULL STATEMENT (false, see C14_history_refuted): the premise `snd (mexec ...) = true`
   dropped, i.e. every history of API calls (bracketings of +, resolver calls, backend
   initialisations, conversions with and without re-initialisation, on two backend instances sharing
   the class-level pipelines, operands fresh or used) shows what the value-only specification of
   that history shows.  Proved part: the histories in which the initial objects are distinct and
   every conversion WITHOUT re-initialisation runs a pipeline that still owns its objects (the
   second component of mexec; conversions through Backend.convert() always qualify). *)
Theorem C14_history_partial : forall f defs bkd outd rules prog h0 l,
  mk_defs h_empty (defs ++ [bkd; outd]) = (h0, Ok l) ->
  snd (mexec f defs bkd outd rules prog) = true ->
  fst (mexec f defs bkd outd rules prog)
  = aexec f (map adef defs) (fst (fst (adef bkd))) (fst (fst (adef outd))) rules prog.
Proof. exact history_sound. Qed.
Print Assumptions C14_history_partial.

Theorem C14_history_refuted :
  exists f defs bkd outd rules prog l,
    snd (mk_defs h_empty (defs ++ [bkd; outd])) = Ok l /\
    snd (mexec f defs bkd outd rules prog) = false /\
    fst (mexec f defs bkd outd rules prog)
    <> aexec f (map adef defs) (fst (fst (adef bkd))) (fst (fst (adef outd))) rules prog.
Proof. exact history_refuted. Qed.
Print Assumptions C14_history_refuted.

(* non-vacuity: the premises are met by concrete pipelines, and a sum that is defined *)
Example C14_premises_inhabited :
  wf_heap w_h0 /\ valid w_h0 w_p /\ valid w_h0 w_q /\ owned w_h0 w_p /\
  snd (add w_h0 w_p w_q) = Ok w_s /\ owned (fst (add w_h0 w_p w_q)) w_s.
Proof. exact premises_inhabited. Qed.
Example C14_history_premises_inhabited :
  exists l, snd (mk_defs h_empty ([w_defA; w_defE (Some [98])] ++ [w_defE None; w_defE None])) = Ok l /\
  snd (mexec FState [w_defA; w_defE (Some [98])] (w_defE None) (w_defE None) w_rules w_prog_fresh) = true /\
  exists r, fst (mexec FState [w_defA; w_defE (Some [98])] (w_defE None) (w_defE None) w_rules w_prog_fresh) = Ok r.
Proof. exact history_inhabited. Qed.
