(* C14 - Pipelines compose in a defined order: priority, then stage, then position.
   Only statements, each closed by `exact`, with Print Assumptions.
   Model: Model.Pipeline (heap of pipeline / item objects with the item -> owner back-pointer);
   specification: Spec.AbsPipeline (a pipeline IS items, post-processing items, finalizers, vars). *)
From Coq Require Import NArith ZArith List Bool Permutation Sorting.Sorted.
From PS Require Import Base.Chars Base.Outcome Spec.AbsPipeline Model.Pipeline Proofs.PipelineP Proofs.HistoryP.
Import ListNotations.
Open Scope N_scope.

(* p + q IS the concatenation: transformations, post-processing items and finalizers of p followed by
   q's, vars merged with q's values winning; and the sum owns every object it contains - whatever
   the operands were used for before (any heap h) *)
Theorem C14_refines_concat : forall h p q h' s,
  add h p q = (h', Ok s) -> abs h' s = aplus (abs h p) (abs h q) /\ owned h' s.
Proof. exact add_refines. Qed.
Print Assumptions C14_refines_concat.

(* exact domain of +: it raises (SigmaProcessingItemError / SigmaTransformationError) iff some item,
   post-processing item or finalizer object would occur twice in the concatenation (p + p) *)
Theorem C14_add_defined : forall h p q,
  snd (add h p q) =
  match first_dup [] (tagged (p_items p ++ p_items q) (p_post p ++ p_post q) (p_fin p ++ p_fin q)) with
  | None => Ok {| p_id := h_next h; p_items := p_items p ++ p_items q; p_post := p_post p ++ p_post q;
                  p_fin := p_fin p ++ p_fin q; p_prio := 0%Z; p_name := None |}
  | Some t => SigmaErr t
  end.
Proof. exact add_defined. Qed.
Print Assumptions C14_add_defined.

(* variables of the later pipeline override those of the earlier one *)
Theorem C14_vars_override : forall k p q, dict_ok (a_vars q) ->
  lookup k (a_vars (aplus p q)) = match lookup k (a_vars q) with Some v => Some v | None => lookup k (a_vars p) end.
Proof. intros k p q. exact (lookup_dmerge k (a_vars p) (a_vars q)). Qed.
Print Assumptions C14_vars_override.

(* every bracketing of + over a sequence of pipelines is the flat concatenation of that sequence;
   the variable map is "last definition wins" over the sequence. The right-hand sides mention only
   `leaves e`, so two bracketings of the same sequence agree: associativity *)
Theorem C14_bracketing : forall e h h' s,
  wf_heap h -> (forall p, In p (leaves e) -> valid h p) -> eval h e = (h', Ok s) ->
  p_items s = flat_map p_items (leaves e) /\ p_post s = flat_map p_post (leaves e) /\
  p_fin s = flat_map p_fin (leaves e) /\
  (forall k, lookup k (h_vars h' (p_id s)) = vars_lookup k (map (fun p => h_vars h (p_id p)) (leaves e))) /\
  valid h' s /\ match e with Leaf _ => True | Plus _ _ => owned h' s end.
Proof. exact eval_flat. Qed.
Print Assumptions C14_bracketing.

Theorem C14_assoc : forall h p q r h1 s1 h2 s2, wf_heap h -> valid h p -> valid h q -> valid h r ->
  eval h (Plus (Plus (Leaf p) (Leaf q)) (Leaf r)) = (h1, Ok s1) ->
  eval h (Plus (Leaf p) (Plus (Leaf q) (Leaf r))) = (h2, Ok s2) ->
  aeq (abs h1 s1) (abs h2 s2).
Proof. exact assoc3. Qed.
Print Assumptions C14_assoc.

(* the empty pipeline is the identity; `p + None` and `0 + p` (sum) are p itself *)
Theorem C14_identity : forall h p e h' s,
  p_items e = [] -> p_post e = [] -> p_fin e = [] -> h_vars h (p_id e) = [] -> dict_ok (h_vars h (p_id p)) ->
  (add h p e = (h', Ok s) -> abs h' s = abs h p) /\
  (add h e p = (h', Ok s) -> aeq (abs h' s) (abs h p)) /\
  add_opt h p None = (h, Ok p) /\ psum h [p] = (h, Ok p).
Proof. exact identity_all. Qed.
Print Assumptions C14_identity.

(* the resolver table maps identifiers (unrelated to the pipelines' `name`) to registered objects or
   to callables / YAML files that yield a fresh pipeline per resolution.  For EVERY table, naming the
   entries in any order combines the same entries in the same order: the stable ascending
   (priority, identifier) order of the entries *)
Theorem C14_resolver_entries_perm : forall (t : list (str * rent ppl)) specs specs',
  Permutation specs specs' -> NoDup specs ->
  resolve_order tab_nm ent_prio t specs = resolve_order tab_nm ent_prio t specs'.
Proof. exact resolve_entries_perm. Qed.
Print Assumptions C14_resolver_entries_perm.

(* on tables of registered objects that is the identical result - same heap, same pipeline object
   contents, same error - for every order in which they are named *)
Theorem C14_resolver_perm : forall h c t specs specs', objs_only t ->
  Permutation specs specs' -> NoDup specs -> resolve h c t specs = resolve h c t specs'.
Proof. exact resolve_perm. Qed.
Print Assumptions C14_resolver_perm.

(* what that order is: a permutation of the named entries, ascending in (priority, identifier), and
   entries the order does not separate stay in argument order (stability) *)
Theorem C14_resolver_order : forall (t : list (str * rent ppl)) specs l, resolve_all tab_nm t specs = Some l ->
  exists s, resolve_order tab_nm ent_prio t specs = Some (map fst s) /\ Permutation s l /\
    StronglySorted (fun a b => key_leb (info_key ent_prio a) (info_key ent_prio b) = true) s /\
    forall z, filter (eqv (info_leb ent_prio) z) s = filter (eqv (info_leb ent_prio) z) l.
Proof. exact (resolve_order_spec tab_nm ent_prio). Qed.
Print Assumptions C14_resolver_order.

(* ... and the resolved pipeline is the concatenation in that order *)
Theorem C14_resolver_concat : forall h c t specs l h' c' s,
  wf_heap h -> objs_only t -> (forall e, In e t -> valid h (ent_ppl e)) ->
  resolve_order tab_nm ent_prio t specs = Some l -> l <> [] -> resolve h c t specs = ((h', c'), Ok s) ->
  p_items s = flat_map p_items (map ent_ppl l) /\ p_post s = flat_map p_post (map ent_ppl l) /\
  p_fin s = flat_map p_fin (map ent_ppl l) /\
  (forall k, lookup k (h_vars h' (p_id s)) = vars_lookup k (map (fun p => h_vars h (p_id p)) (map ent_ppl l))).
Proof. exact resolve_flat. Qed.
Print Assumptions C14_resolver_concat.

(* tables with callables / YAML files (no callable with a memory): the pipelines that resolve()
   sums - Model.Pipeline.resolve: psum over map fst (isort (info_leb p_prio) infos) - are, one by one
   and in this order, the entries of the permutation-invariant (priority, identifier) order of
   C14_resolver_entries_perm: the registered object itself, or a fresh pipeline with the content of
   the callable's / file's definition *)
Theorem C14_resolver_instances : forall h c t specs l hc infos, no_seq t ->
  resolve_all tab_nm t specs = Some l -> minst_all h c l = (hc, Ok infos) ->
  Forall2 inst_of (map fst (isort (info_leb ent_prio) l)) (map fst (isort (info_leb p_prio) infos)).
Proof. exact resolve_instances. Qed.
Print Assumptions C14_resolver_instances.

(* FULL STATEMENT (false of the faithful model, see C14_reuse_refuted):
     forall h f p rules, snd (m_run h f p rules) = abs_run f (abs h p) rules
   i.e. a pipeline converts every rule list like the abstract pipeline it denotes, in every history.
   Proved part: exactly the histories in which the pipeline (still) owns all its objects - which
   C14_refines_concat establishes for every sum at the moment it is built. *)
Theorem C14_behaviour_partial : forall h f p rules,
  owned h p -> snd (m_run h f p rules) = abs_run f (abs h p) rules.
Proof. exact behaviour. Qed.
Print Assumptions C14_behaviour_partial.

(* the history clause: after s = p + q, p's items are owned by s; a further addition p + r re-owns
   them, and s no longer converts like p's items followed by q's (defect D18) *)
Theorem C14_reuse_refuted :
  exists h p q r s t rules,
    owned h p /\ owned h q /\ owned h r /\
    snd (add h p q) = Ok s /\ snd (add (fst (add h p q)) p r) = Ok t /\
    snd (m_run (fst (add h p q)) FState s rules) = abs_run FState (abs (fst (add h p q)) s) rules /\
    snd (m_run (fst (add (fst (add h p q)) p r)) FState s rules)
      <> abs_run FState (abs (fst (add (fst (add h p q)) p r)) s) rules.
Proof. exact reuse_refuted. Qed.
Print Assumptions C14_reuse_refuted.

(* a backend runs its own pipeline, then the user's, then the output-format pipeline; abs_run is
   transformations (item order) -> conversion -> post-processing of every emitted query (item
   order) -> finalizers once on the whole output (in order) *)
Theorem C14_stage_order : forall h f bk user outf h' s rules, valid h outf ->
  init h f bk user outf = (h', Ok s) ->
  snd (m_run h' f s rules) =
  abs_run f (with_backend_vars f (aplus (match user with Some u => aplus (abs h bk) (abs h u) | None => abs h bk end)
                                        (abs h outf))) rules.
Proof. exact stage_order. Qed.
Print Assumptions C14_stage_order.

(* histories on two backend objects of one class.  FULL STATEMENT (false, see C14_history_refuted and
   C14_history_format_refuted): the premise `snd (mexec ...) = true` dropped, i.e. every history of
   API calls (bracketings of +, sums, resolver calls, init_processing_pipeline / convert() /
   convert_rule() with the output format and the user pipeline chosen per call, operands fresh or
   used) shows what the value-only specification of that history shows: every conversion runs the
   backend's pipeline, then the user pipeline the backend object currently has, then the output-format
   pipeline OF THE FORMAT REQUESTED BY THAT CALL, in the stage order of abs_run.
   Proved part: the histories in which the initial objects are distinct, the resolver table holds
   registered objects (`tn_objs`; callables / files are covered by the correspondence only) and every
   convert_rule() on an already initialised backend object finds a pipeline that still owns its
   objects and was built for the requested format (second component of mexec).  Backend.convert()
   re-initialises and therefore always qualifies - for every sequence of formats and user pipelines. *)
Theorem C14_history_partial : forall defs tn bkd od ot os rules prog h0 l,
  tn_objs tn ->
  mk_defs h_empty (defs ++ [bkd; od; ot; os]) = (h0, Ok l) ->
  snd (mexec defs tn bkd od ot os rules prog) = true ->
  fst (mexec defs tn bkd od ot os rules prog)
  = aexec (map adef defs) tn (apipe_of bkd) (by_fmt (apipe_of od) (apipe_of ot) (apipe_of os)) rules prog.
Proof. exact history_sound. Qed.
Print Assumptions C14_history_partial.

(* D18: a later addition re-owns the items *)
Theorem C14_history_refuted :
  exists defs tn bkd od ot os rules prog l,
    tn_objs tn /\ snd (mk_defs h_empty (defs ++ [bkd; od; ot; os])) = Ok l /\
    snd (mexec defs tn bkd od ot os rules prog) = false /\
    fst (mexec defs tn bkd od ot os rules prog)
    <> aexec (map adef defs) tn (apipe_of bkd) (by_fmt (apipe_of od) (apipe_of ot) (apipe_of os)) rules prog.
Proof. exact history_refuted. Qed.
Print Assumptions C14_history_refuted.

(* D30: convert_rule() for another format keeps the pipeline built for the earlier one
   (witness: convert(test) then convert_rule(state)) *)
Theorem C14_history_format_refuted :
  exists defs tn bkd od ot os rules prog l,
    tn_objs tn /\ snd (mk_defs h_empty (defs ++ [bkd; od; ot; os])) = Ok l /\
    snd (mexec defs tn bkd od ot os rules prog) = false /\
    fst (mexec defs tn bkd od ot os rules prog)
    <> aexec (map adef defs) tn (apipe_of bkd) (by_fmt (apipe_of od) (apipe_of ot) (apipe_of os)) rules prog.
Proof. exact history_format_refuted. Qed.
Print Assumptions C14_history_format_refuted.

(* non-vacuity: the premises are met by concrete pipelines, and a sum that is defined *)
Example C14_premises_inhabited :
  wf_heap w_h0 /\ valid w_h0 w_p /\ valid w_h0 w_q /\ owned w_h0 w_p /\
  snd (add w_h0 w_p w_q) = Ok w_s /\ owned (fst (add w_h0 w_p w_q)) w_s.
Proof. exact premises_inhabited. Qed.
Example C14_history_premises_inhabited :
  exists l, snd (mk_defs h_empty ([w_defA; w_defE (Some [98])] ++ [w_defE None; w_defE None; w_defE None; w_defE None])) = Ok l /\
  snd (mexec [w_defA; w_defE (Some [98])] [] (w_defE None) (w_defE None) (w_defE None) (w_defE None) w_rules w_prog_fresh) = true /\
  exists r, fst (mexec [w_defA; w_defE (Some [98])] [] (w_defE None) (w_defE None) (w_defE None) (w_defE None) w_rules w_prog_fresh) = Ok r.
Proof. exact history_inhabited. Qed.
