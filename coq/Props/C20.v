(* C20 - output is byte-identical across processes, hash seeds and random draws.
   Only statements, each closed by `exact`, with Print Assumptions. *)
From Coq Require Import NArith List Bool Permutation.
From PS Require Import Base.Chars Model.Determinism Spec.DetSpec Proofs.DeterminismP.
Import ListNotations.

(* error messages that list the elements of a set (unmapped fields, unreferenced condition items,
   invalid correlation condition items) do not depend on the iteration order of the set *)
Theorem C20_messages_order_free :
  forall O O' s keys refids unknown,
    sorted_join O s = sorted_join O' s /\
    unref_msg O keys refids = unref_msg O' keys refids /\
    corr_msg O unknown = corr_msg O' unknown.
Proof.
  intros. split; [apply sorted_join_order_free | split; [apply unref_msg_order_free | apply corr_msg_order_free]].
Qed.
Print Assumptions C20_messages_order_free.

(* the same join without sorted() - the code before the repair (D21) - does depend on it *)
Theorem C20_errmsg_unsorted_refuted : exists O O' s, unsorted_join O s <> unsorted_join O' s.
Proof. exact unsorted_join_refuted. Qed.
Print Assumptions C20_errmsg_unsorted_refuted.

(* regular expression flags: the compiled flag word and the rendered (?ims) prefix *)
Theorem C20_regex_flags_order_free :
  forall O O' fl, py_flags O fl = py_flags O' fl /\ flag_prefix O fl = flag_prefix O' fl.
Proof. intros. split; [apply py_flags_order_free | apply flag_prefix_order_free]. Qed.
Print Assumptions C20_regex_flags_order_free.

(* names reported by the dangling detection / dangling condition validators *)
Theorem C20_issue_names_order_free :
  forall O O' d r, dangling_names O d r = dangling_names O' d r /\ unknown_refs O r = unknown_refs O' r.
Proof. intros. split; [apply dangling_names_order_free | apply unknown_refs_order_free]. Qed.
Print Assumptions C20_issue_names_order_free.
