(* C20 - output is byte-identical across processes, hash seeds and random draws.
   Only statements, each closed by `exact`/`apply` of a lemma of Proofs/, with Print Assumptions.

   Model/Determinism.v lists the places of the library where the iteration order of a set or a draw of
   the random module can flow into queries, error records or validation issues.  Iteration order is an
   arbitrary O : order (any function with Permutation (ord O l) l), drawn identifiers are arbitrary
   strings.  The theorems say that no modelled output depends on O, and - for fresh draws - none on the
   drawn identifiers. *)
From Coq Require Import NArith List Bool Permutation.
From PS Require Import Base.Chars Model.Determinism Spec.DetSpec Proofs.DeterminismP Proofs.NamesP Proofs.TrackingP Proofs.RedrawP.
Import ListNotations.

(* ---- iteration order ------------------------------------------------------------------- *)

(* field-name mappings (one-to-many targets are lists: their order is the order of the pipeline file),
   tracking of the mappings in sets, nested pipelines merging their tracking into the outer one, and the
   strict-mapping check reading the tracking: the final field names of the rule, the error message, the
   source->targets dict are equal for all iteration orders; the reverse dict is equal at every key *)
Theorem C20_order_free :
  forall O O' nested mps dets,
    let '(d, m, st) := strict_run O nested mps dets in
    let '(d', m', st') := strict_run O' nested mps dets in
    d = d' /\ m = m' /\ fst st = fst st' /\ forall k, lookup k (snd st) = lookup k (snd st').
Proof. exact strict_run_order_free. Qed.
Print Assumptions C20_order_free.

(* one tracking operation, from any state *)
Theorem C20_tracking_order_free :
  forall O O' st s t,
    let st1 := add_mapping O st s t in let st2 := add_mapping O' st s t in
    fst st1 = fst st2 /\ forall k, lookup k (snd st1) = lookup k (snd st2).
Proof. exact add_mapping_order_free. Qed.
Print Assumptions C20_tracking_order_free.

(* the reverse-mapping update before the repair (loop variable used after the loop over a set) *)
Theorem C20_tracking_old_refuted :
  exists O O' st s t k,
    lookup k (snd (add_mapping_old O st s t)) <> lookup k (snd (add_mapping_old O' st s t)).
Proof. exact tracking_old_refuted. Qed.
Print Assumptions C20_tracking_old_refuted.

(* error messages that list the elements of a set (unmapped fields, unreferenced condition items,
   invalid correlation condition items) *)
Theorem C20_messages_order_free :
  forall O O' s keys refids unknown,
    sorted_join O s = sorted_join O' s /\
    unref_msg O keys refids = unref_msg O' keys refids /\
    corr_msg O unknown = corr_msg O' unknown.
Proof.
  intros. split; [apply sorted_join_order_free | split; [apply unref_msg_order_free | apply corr_msg_order_free]].
Qed.
Print Assumptions C20_messages_order_free.

(* SigmaCorrelationCondition.from_dict finds the operator by iterating the set operators() and taking the
   first operator that is a key of the condition dict.  The whole function (which of the two checks fails,
   error text, operator and count) is independent of the iteration order - because the check "exactly one
   operator key" counts ALL keys, whatever their value *)
Theorem C20_corr_condition_order_free :
  forall O O' d, corr_from_dict O d = corr_from_dict O' d.
Proof. exact corr_from_dict_order_free. Qed.
Print Assumptions C20_corr_condition_order_free.

(* if the check ignores null-valued items ({gte: 2, lte: null}) the operator found depends on the order *)
Theorem C20_corr_condition_weak_check_refuted :
  exists O O' d, corr_from_dict_weak O d <> corr_from_dict_weak O' d.
Proof. exact corr_from_dict_weak_refuted. Qed.
Print Assumptions C20_corr_condition_weak_check_refuted.

(* FULL STATEMENT for the code before the repair (D21) is false: the join without sorted() *)
Theorem C20_errmsg_refuted : exists O O' s, unsorted_join O s <> unsorted_join O' s.
Proof. exact unsorted_join_refuted. Qed.
Print Assumptions C20_errmsg_refuted.

(* regular expression flags: the compiled flag word and the rendered (?ims) prefix *)
Theorem C20_regex_flags_order_free :
  forall O O' fl, py_flags O fl = py_flags O' fl /\ flag_prefix O fl = flag_prefix O' fl.
Proof. intros. split; [apply py_flags_order_free | apply flag_prefix_order_free]. Qed.
Print Assumptions C20_regex_flags_order_free.

(* names reported by the dangling detection / dangling condition validators *)
Theorem C20_issue_names_order_free :
  forall O O' d r, dangling_names O d r = dangling_names O' d r /\ unknown_refs O r = unknown_refs O' r.
Proof. intros. split; [apply dangling_names_order_free | apply unknown_refs_order_free]. Qed.
Print Assumptions C20_issue_names_order_free.

(* ---- random draws ---------------------------------------------------------------------- *)

(* FULL STATEMENT (false of the faithful model, see the three refutations below):
     forall r PF PF' CA CA', map snd PF = map snd PF' -> map snd CA = map snd CA' ->
       names_run r PF CA = names_run r PF' CA'
   proved part: fresh draws (freshb: equal length, leading underscore, no star, pairwise different, no
   detection name collides, the rule neither names nor matches - by a pattern starting with '_' - a
   drawn name, filters only name their own detections).  Then the resolved condition equals the
   nameless specification: rule condition AND every filter condition resolved in the filter's own
   name space, with the added conditions in front. *)
Theorem C20_no_internal_ids_partial :
  forall L r PF CA,
    freshb L r PF CA = true ->
    names_run r PF CA = spec_names r (map snd PF) (map snd CA).
Proof. exact names_spec. Qed.
Print Assumptions C20_no_internal_ids_partial.

Theorem C20_draw_free_partial :
  forall L r PF PF' CA CA',
    map snd PF = map snd PF' -> map snd CA = map snd CA' ->
    freshb L r PF CA = true -> freshb L r PF' CA' = true ->
    names_run r PF CA = names_run r PF' CA'.
Proof. exact names_draw_free. Qed.
Print Assumptions C20_draw_free_partial.

(* identifiers only name detections: every atom of a result is the content of a detection of the rule,
   of a filter or of an added condition - never a name *)
Theorem C20_atoms_are_contents :
  forall r PF CA q,
    NoDup (map fst (all_dets r PF CA)) -> names_run r PF CA = RQ q ->
    forall a, In a (atoms q) -> In a (map snd (all_dets r PF CA)).
Proof. exact names_atoms_contents. Qed.
Print Assumptions C20_atoms_are_contents.

(* outside the premise: a rule-level pattern starting with '_' (known finding C20-F1) *)
Theorem C20_draw_underscore_refuted :
  exists r CA CA', map snd CA = map snd CA' /\ names_run r [] CA <> names_run r [] CA'.
Proof. exact names_underscore_refuted. Qed.
Print Assumptions C20_draw_underscore_refuted.

(* outside the premise: a filter naming a detection it does not define; the error text contains the
   drawn prefix (known finding C20-F2) *)
Theorem C20_filter_error_text_refuted :
  exists r PF PF', map snd PF = map snd PF' /\ names_run r PF [] <> names_run r PF' [].
Proof. exact names_filter_error_refuted. Qed.
Print Assumptions C20_filter_error_text_refuted.

(* outside the premise: a draw equal to a detection name of the rule (probability 26^-10, D16) *)
Theorem C20_draw_collision_refuted :
  exists r CA CA', map snd CA = map snd CA' /\ names_run r [] CA <> names_run r [] CA'.
Proof. exact names_collision_refuted. Qed.
Print Assumptions C20_draw_collision_refuted.

(* ---- adversarial draw sequences for filter prefixes --------------------------------------- *)

(* the redraw loop of SigmaFilter.apply_on_rule (draw until no detection name of the rule starts with the
   prefix), run on ANY candidate sequence per filter application - the same draw again and again, the same
   draw first in every application (random module re-seeded before each apply_filters call), earlier
   prefixes coming back - accepts only prefixes that satisfy `fresh`.  The premise is draw independent:
   shape of the candidates (what random.choices(ascii_lowercase, k=10) can return), unique dict keys, the
   rule condition names no identifier / pattern starting with '_', every filter defines a detection and
   only names its own *)
Theorem C20_redraw_makes_fresh :
  forall L r streams fs ch,
    choose streams fs r = Some ch -> static_okb L r streams fs = true ->
    freshb L r (combine (map fst ch) fs) [] = true.
Proof. exact redraw_makes_fresh. Qed.
Print Assumptions C20_redraw_makes_fresh.

(* hence, for every draw sequence on which the loop terminates, a rule with any number of filters (same
   or different detection names, `them` and wildcard selectors) resolves to the nameless specification *)
Theorem C20_filters_any_draw_sequence :
  forall L r streams fs ch,
    choose streams fs r = Some ch -> static_okb L r streams fs = true ->
    names_run r (combine (map fst ch) fs) [] = spec_names r fs [].
Proof. exact filters_any_draws. Qed.
Print Assumptions C20_filters_any_draw_sequence.

Theorem C20_filters_draw_sequence_free :
  forall L r fs streams streams' ch ch',
    choose streams fs r = Some ch -> choose streams' fs r = Some ch' ->
    static_okb L r streams fs = true -> static_okb L r streams' fs = true ->
    names_run r (combine (map fst ch) fs) [] = names_run r (combine (map fst ch') fs) [].
Proof. exact filters_draw_sequence_free. Qed.
Print Assumptions C20_filters_draw_sequence_free.

(* with the weaker acceptance test "none of this filter's own renamed identifiers exists yet" two filters
   with different detection names can share a prefix, and the result depends on the draw sequence *)
Theorem C20_weak_redraw_refuted :
  exists r fs streams streams' ch ch',
    choose_weak streams fs r = Some ch /\ choose_weak streams' fs r = Some ch' /\
    static_okb 16 r streams fs = true /\ static_okb 16 r streams' fs = true /\
    names_run r (combine (map fst ch) fs) [] <> names_run r (combine (map fst ch') fs) [].
Proof. exact weak_redraw_refuted. Qed.
Print Assumptions C20_weak_redraw_refuted.

(* non-vacuity: the premise holds for a rule with a selector, two filters (one using `them`) and two
   added conditions *)
Example C20_premises_inhabited :
  freshb 16 w_rule4 [(dn s_filt 97, w_filter_ok); (dn s_filt 98, w_filter_ok)]
            [(dn s_cond 97, ([97; 48], false)); (dn s_cond 98, ([97; 49], true))] = true.
Proof. exact fresh_inhabited. Qed.
Example C20_redraw_example :
  (option_map (map fst) (choose [[w_pa]; [w_pa; w_pb]] [w_fa; w_fb] w_rule2) = Some [w_pa; w_pb])
  /\ (static_okb 16 w_rule2 [[w_pa]; [w_pa; w_pb]] [w_fa; w_fb] = true).
Proof. split; vm_compute; reflexivity. Qed.
