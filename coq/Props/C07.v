(* C07 - Malformed documents raise Sigma errors only; collecting mode never raises.
   Only statements, each closed by `exact`, with Print Assumptions.

   The statements are about Model/Loader.v (the loaders as they are in the working tree after the
   `fix:` commits listed in known_findings.d/C07.json) for EVERY library `L` (uuid.UUID, int(), re.compile,
   ipaddress.ip_network, the pyparsing grammar of extended conditions may answer anything) and every
   document `d` (unbounded YAML values, non-string and duplicate-looking keys included).

   C07_holds strict collect  :=  strict is not Crash /\ collect is not Crash /\
        exists errs, collect = Ok errs /\ (errs = [] -> strict = Ok []) /\ (errs = e :: _ -> strict = SigmaErr e)
   i.e. only Sigma errors escape, collecting mode returns, its error list is empty exactly when strict
   loading succeeds, and its first error is the one strict loading raises.

   FULL STATEMENT  forall kind L d, C07_holds (load kind L false d) (load kind L true d)
   is false of the faithful model (refutations below): it is proved on the stated domains. *)
From Coq Require Import NArith ZArith List Bool.
From PS Require Import Base.Chars Base.Outcome Model.Yaml Model.Loader Model.CollLoader Spec.LoaderSpec Proofs.LoaderP Proofs.CollLoaderP.
Import ListNotations.

(* the executable oracle used on the implementation's output is the specification *)
Theorem C07_spec_executable : forall s c, c07_okb s c = true <-> C07_holds s c.
Proof. exact c07_okb_spec. Qed.
Print Assumptions C07_spec_executable.

(* rules: the whole property, for every document that is a map and whose detection items stay in the
   modelled fragment of the modifier machinery (rule_dom: wide/utf16/utf16be meet ASCII text only) *)
Theorem C07_rule_holds_partial :
  forall L d, rule_dom d = true -> C07_holds (load_rule L false d) (load_rule L true d).
Proof. exact rule_holds. Qed.
Print Assumptions C07_rule_holds_partial.

(* filters: the same *)
Theorem C07_filter_holds_partial :
  forall L d, filter_dom d = true -> C07_holds (load_filter L false d) (load_filter L true d).
Proof. exact filter_holds. Qed.
Print Assumptions C07_filter_holds_partial.

(* a document that is not a map escapes as AttributeError, in both modes (finding nonmap-document) *)
Theorem C07_nonmap_refuted : forall L c, load_rule L c (YList [YStr [97%N]]) = Crash X_Attr.
Proof. exact nonmap_refuted. Qed.
Print Assumptions C07_nonmap_refuted.

(* correlation rules: only Sigma errors escape, in both modes, when the document is a map and every
   entry of `rules` is a string *)
Theorem C07_corr_sigma_only_partial :
  forall L d c, corr_dom d = true -> sigma_only (load_corr L c d).
Proof. exact corr_sigma_only. Qed.
Print Assumptions C07_corr_sigma_only_partial.

(* without that premise a TypeError escapes (finding corr-nonstring-rule-reference) *)
Theorem C07_corr_sigma_only_refuted : exists L d x, forall c, load_corr L c d = Crash x.
Proof. exact corr_sigma_only_refuted. Qed.
Print Assumptions C07_corr_sigma_only_refuted.

(* correlation rules: whenever collecting mode returns, the whole property holds ... *)
Theorem C07_corr_holds_partial :
  forall L d, corr_dom d = true -> (exists errs, load_corr L true d = Ok errs) ->
              C07_holds (load_corr L false d) (load_corr L true d).
Proof. exact corr_holds_partial. Qed.
Print Assumptions C07_corr_holds_partial.

(* ... but collecting mode does raise (finding corr-collect-raises): condition / alias / consistency
   errors of a correlation rule are raised by from_dict and __post_init__ instead of being collected *)
Theorem C07_corr_collect_total_refuted :
  exists L d e, corr_dom d = true /\ load_corr L true d = SigmaErr e.
Proof. exact corr_collect_total_refuted. Qed.
Print Assumptions C07_corr_collect_total_refuted.

(* what escapes from collecting mode is a Sigma error of a document that strict mode rejects as well *)
Theorem C07_corr_collect_raise_is_invalid :
  forall L d e, load_corr L true d = SigmaErr e -> exists e', load_corr L false d = SigmaErr e'.
Proof. exact corr_collect_raise_is_invalid. Qed.
Print Assumptions C07_corr_collect_raise_is_invalid.

(* for all three loaders and without any premise: if collecting mode returns, strict mode raises exactly
   the first collected error, or succeeds when nothing was collected *)
Theorem C07_collect_first_error :
  forall L stage2 final d errs,
    load_with L stage2 final true d = Ok errs ->
    load_with L stage2 final false d = match errs with [] => Ok [] | e :: _ => SigmaErr e end.
Proof. exact load_with_agrees. Qed.
Print Assumptions C07_collect_first_error.

(* ---- the three statements of the design, over rules, correlation rules and filters at once ---- *)
(* FULL: forall L k c d, sigma_only (load L k c d).  Proved for documents in dom k (a map; detection items in
   the modelled fragment for rules and filters; string rule references for correlation rules). *)
Theorem C07_sigma_only_partial : forall L k c d, dom k d = true -> sigma_only (load L k c d).
Proof. exact sigma_only_all. Qed.
Print Assumptions C07_sigma_only_partial.

(* FULL: forall L k d, exists errs, load L k true d = Ok errs.  Proved for rules and filters on dom k;
   refuted for correlation rules (C07_corr_collect_total_refuted). *)
Theorem C07_collect_total_partial :
  forall L k d, k <> KCorr -> dom k d = true -> exists errs, load L k true d = Ok errs.
Proof. exact collect_total_all. Qed.
Print Assumptions C07_collect_total_partial.

(* full strength, no premise: whenever collecting mode returns, its error list is empty exactly when
   strict loading succeeds, and its first error is exactly what strict loading raises *)
Theorem C07_collect_iff :
  forall L k d errs, load L k true d = Ok errs -> collect_iff (load L k false d) errs.
Proof. exact collect_iff_all. Qed.
Print Assumptions C07_collect_iff.

(* ---- collections: SigmaCollection.from_dicts(docs, collect_errors, None, collect_filters, resolve_references)
        (Model/CollLoader.v: dispatch on action / kind, merging with the global and the previous rule, propagation
        of the members' errors, filter application on placeholders, reference resolution) ---- *)
(* full strength, no premise, every combination of collect_filters / resolve_references: whenever collecting
   mode returns a collection, strict mode raises exactly its first error, or returns too when there is none *)
Theorem C07_coll_collect_first_error :
  forall L cf rr ds errs, load_coll L true cf rr ds = Ok errs ->
    load_coll L false cf rr ds = match errs with [] => Ok [] | e :: _ => SigmaErr e end.
Proof. exact coll_agrees. Qed.
Print Assumptions C07_coll_collect_first_error.

(* only Sigma errors escape from loading a collection, in both modes and for every flag combination, when every
   document the loop hands to a loader (after merging with the global / previous rule) lies in that loader's domain;
   in particular applying a filter never indexes the empty condition list of a placeholder *)
Theorem C07_coll_sigma_only_partial :
  forall L c cf rr ds, coll_dom ds = true -> sigma_only (load_coll L c cf rr ds).
Proof. exact coll_sigma_only. Qed.
Print Assumptions C07_coll_sigma_only_partial.

(* collecting mode returns for collections without correlation rules whose filters are collected, not applied
   (the way load_ruleset reads a file) *)
Theorem C07_coll_collect_total_partial :
  forall L rr ds, forallb item_dom_rf (plan ds) = true -> exists errs, load_coll L true true rr ds = Ok errs.
Proof. exact coll_collect_total. Qed.
Print Assumptions C07_coll_collect_total_partial.

(* with filters applied inside the constructor it does not (finding collection-postprocessing-raises): a filter whose
   log source is the placeholder meets a rule *)
Theorem C07_coll_postprocessing_refuted :
  exists L ds e, coll_dom ds = true /\ load_coll L true false true ds = SigmaErr e /\
                 exists errs, load_coll L true true false ds = Ok errs.
Proof. exact coll_post_refuted. Qed.
Print Assumptions C07_coll_postprocessing_refuted.

(* non-vacuity: a rule with modifier chains lies in the domain and loads without errors; the
   correlation witness of the refutation lies in corr_dom *)
Example C07_premises_inhabited :
  rule_dom w_rule = true /\ load_rule lib_w true w_rule = Ok [] /\ load_rule lib_w false w_rule = Ok [] /\
  corr_dom w_corr_nofield = true.
Proof. exact premises_inhabited. Qed.
