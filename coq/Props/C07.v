(* C07 - placeholder while the machinery is assembled *)
From Coq Require Import NArith List Bool.
From PS Require Import Base.Outcome Spec.LoaderSpec.
Theorem C07_spec_executable : forall s c, c07_okb s c = true <-> C07_holds s c.
Proof. exact c07_okb_spec. Qed.
Print Assumptions C07_spec_executable.
