(* C17 - placeholders expand completely or conversion fails; never emitted as text.
   Only statements, each closed by `exact`, with Print Assumptions.

   FULL STATEMENT (not proved as one theorem; see the pieces below and DESIGN.md section 7 C17):
     forall c, flat_ok (c_all c) (expected groups of c) ->
               s_accepts (lhs_of c) (c_all c) (expected c) (run c) = true
   i.e. the query of every case reads back as exactly the values the specification Spec/Expand.v
   expects, or the run fails with a Sigma error when the specification demands a failure. It is false
   without the premise (C17_linking_refuted). What is proved: the expansion step itself
   (C17_cross_product, C17_replace_error, C17_handled_gone, and C17_step_spec / C17_pipeline_spec: model = specification
   for value-list and wildcard items and whole pipelines of them), the rendering guards and the read-back
   of every emitted literal (C17_no_raw_string, C17_no_raw_regex), and their composition over a whole
   run (C17_run_ok_resolved, C17_unresolved_fails). Not proved: agreement of the one-pass placeholder
   scanner ph_go with the look-ahead reader xread, and of read_query with the OR/AND joiner. Both are
   exercised on every correspondence case (judge bit 2 evaluates them on the implementation's output). *)
From Coq Require Import NArith List Bool.
From PS Require Import Base.Chars Base.Outcome Model.SString Model.PyRegex Model.Placeholder
                       Spec.Items Spec.Expand Proofs.ConvertP Proofs.PlaceholderP.
Import ListNotations.

(* replace_placeholders with callback cb = the substitution of every combination of the callback's
   results, taken over the cartesian product in placeholder order (leftmost placeholder outermost,
   each result list in its own order), every result merged. Unbounded in the value, the number of
   placeholders and the sizes of the result lists. *)
Theorem C17_cross_product :
  forall (cb : str -> outcome (list sstring)) (f : str -> list sstring) (v : sstring),
    merge v = v ->
    (forall n, In n (placeholders v) -> cb n = Ok (f n)) ->
    replace_placeholders cb v = Ok (map (fun ch => merge (subst v ch)) (cartesian (map f (ph_names v)))).
Proof. exact cross_product. Qed.
Print Assumptions C17_cross_product.

(* it fails only with the failure of the callback on one of the value's own placeholders *)
Theorem C17_replace_error :
  forall cb v, (forall l, replace_placeholders cb v <> Ok l) ->
               exists n, In n (placeholders v) /\ cb n = replace_placeholders cb v.
Proof. intros cb v. exact (rp_error cb v []). Qed.
Print Assumptions C17_replace_error.

(* after a value-list or wildcard transformation every resulting value holds exactly the placeholders
   the transformation does not handle (include / exclude), in their original order: handled ones are
   gone from every result, the others are all still there as placeholder objects - for strings,
   keywords and regular expressions alike *)
Theorem C17_handled_gone :
  forall vs t x rs, item_ok t = true -> base_kind t -> apply_value vs t x = Ok rs ->
    Forall (fun r => placeholders (vparts r) =
                     filter (fun n => negb (handled t n)) (placeholders (vparts x))) rs.
Proof. exact handled_gone. Qed.
Print Assumptions C17_handled_gone.

(* one value-list / wildcard transformation of the model is the specification's step Spec.Expand.s_step
   (stated on items, independently of the recursion of the code: all combinations of the tables of the
   handled placeholders only, leftmost placeholder outermost, tables in configuration order, unhandled
   placeholders kept): same values in the same order, and it fails exactly when the specification demands
   a failure (missing / empty / ill-typed table, or an expanded regular expression that does not compile) *)
Theorem C17_step_spec :
  forall vs t x, item_ok t = true -> base_kind t -> has_parts x ->
    match x with VR v => compile_ok v = true | _ => True end ->
    match apply_value vs t x with
    | Ok rs => s_step (tabs_of vs) (to_sitem t) (sv x) = Some (map sv rs)
    | SigmaErr _ => s_step (tabs_of vs) (to_sitem t) (sv x) = None
    | Crash _ => False
    end.
Proof. exact base_step_spec. Qed.
Print Assumptions C17_step_spec.

(* ... and so is every pipeline of such items, of any length and in any order, on any list of string,
   keyword and (compiled) regular-expression values: the model's values after the pipeline are the
   specification's values, in the same order; it fails exactly when the specification demands it *)
Theorem C17_pipeline_spec :
  forall vs field ts, Forall (fun t => item_ok t = true /\ base_kind t) ts ->
    forall l, Forall good l ->
    match apply_pipeline vs ts l with
    | Ok rs => s_pipeline (tabs_of vs) field (map to_sitem ts) (map sv l) = Some (map sv rs)
    | SigmaErr _ => s_pipeline (tabs_of vs) field (map to_sitem ts) (map sv l) = None
    | Crash _ => False
    end.
Proof. exact pipeline_spec. Qed.
Print Assumptions C17_pipeline_spec.

(* strings and keywords: a literal is only emitted for a placeholder-free value, and under a well-formed
   escaping configuration it reads back as exactly the value's characters and wildcards; so every
   percent sign in it is a literal character of the value *)
Theorem C17_no_raw_string :
  forall K v q, wf_escaping K = true -> convert K v = Ok q ->
    tread K q = Some (filter_items K (items v)) /\ forall n, ~ In (Ph n) (items v).
Proof. exact string_no_raw. Qed.
Print Assumptions C17_no_raw_string.

(* regular expressions (after the fix: commit a34cd87 in the code under verification): the same *)
Theorem C17_no_raw_regex :
  forall v q, render_re v = Ok q -> rx_unescape q = Some (to_plain false v) /\ placeholders v = [].
Proof. exact regex_no_raw. Qed.
Print Assumptions C17_no_raw_regex.

(* a whole run that produces a query has resolved every placeholder of every value *)
Theorem C17_run_ok_resolved :
  forall c q, run c = Ok q ->
    exists vals, run_pipeline c = Ok vals /\ Forall (fun x => placeholders (vparts x) = []) vals.
Proof. exact run_ok_resolved. Qed.
Print Assumptions C17_run_ok_resolved.

(* and if the pipeline leaves a placeholder in any string, keyword or regular-expression value the run
   fails with a Sigma error (SigmaPlaceholderError, or the SigmaValueError of a query expression that
   needs a field) - it never yields a query and never a non-Sigma exception *)
Theorem C17_unresolved_fails :
  forall c vals, run_pipeline c = Ok vals ->
    Exists (fun x => placeholders (vparts x) <> []) vals ->
    exists e, run c = SigmaErr e /\ (e = E_Placeholder \/ e = E_Value).
Proof. exact unresolved_fails. Qed.
Print Assumptions C17_unresolved_fails.

(* finding C17-F1: under `all` the replacements of one value are AND-linked with everything else, which the
   specification rejects; the same case without `all` is accepted *)
Theorem C17_linking_refuted :
  exists c q, run c = Ok q /\ s_accepts (lhs_of c) (c_all c) (expected c) (Ok q) = false
              /\ s_accepts (lhs_of c) false (expected c)
                   (run {| c_field := c_field c; c_re := c_re c; c_all := false; c_mods := c_mods c;
                           c_values := c_values c; c_items := c_items c; c_vars := c_vars c |}) = true.
Proof. exact linking_refuted. Qed.
Print Assumptions C17_linking_refuted.

(* non-vacuity: premises are inhabited by a non-trivial value, callback and configuration *)
Example C17_premises_inhabited :
  let v := [PStr [97]; PPh [120]; PMulti; PPh [121]] in
  merge v = v /\ wf_escaping K17 = true /\
  replace_placeholders (fun n => Ok [[PStr n]; [PMulti]]) v =
    Ok [[PStr [97; 120]; PMulti; PStr [121]]; [PStr [97; 120]; PMulti; PMulti];
        [PStr [97]; PMulti; PMulti; PStr [121]]; [PStr [97]; PMulti; PMulti; PMulti]].
Proof. repeat split; reflexivity. Qed.
