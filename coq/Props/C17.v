(* C17 - placeholders expand completely or conversion fails; never emitted as text. *)
From Coq Require Import NArith List Bool.
From PS Require Import Base.Chars Base.Outcome Model.SString Model.PyRegex Model.Placeholder
                       Spec.Items Spec.Expand Proofs.PlaceholderP.
Import ListNotations.

Theorem C17_string_guard : forall K v q, convert K v = Ok q -> placeholders v = [].
Proof. exact convert_ok_no_ph. Qed.
Print Assumptions C17_string_guard.
