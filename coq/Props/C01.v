(* C01 - the converted query is logically equivalent to the Sigma rule (structural part:
   AND/OR/NOT, grouping by target precedence, in-list shortcut, expansions, exists/NOT forms). *)
From Coq Require Import List Arith Bool.
From PS Require Import Model.Backend Spec.Target Proofs.BackendP Proofs.BackendMainP Proofs.BackendDomP.
From PS Require Import Base.Outcome Model.SString Model.StrOp Spec.Items Proofs.StrOpP.
Import ListNotations.

(* For every backend configuration (any of the six precedence orders, parenthesize, in-list
   flags, with or without wildcards in lists) and every condition tree in the domain, the emitted
   token sequence, read by the target language's own precedence rules, denotes exactly the boolean
   function of the tree - for every truth assignment of the atomic predicates.
   Domain (wfb): operators/expansions have arguments; in not-equals mode a NOT stands directly
   above a leaf with a negated template; the NOT(exists) rewrite needs NOT to bind tightest. *)
Theorem C01_structure : forall K asg c, cfg_ok K = true -> wfb K c = true ->
  exists f, pe (lvl K) asg f 3 (conv K false c) = Some (den asg c, []).
Proof. exact structure_b. Qed.
Print Assumptions C01_structure.

Theorem C01_fuel_irrelevant : forall K asg f f' i ts x, cfg_ok K = true ->
  pe (lvl K) asg f i ts = Some x -> f <= f' -> pe (lvl K) asg f' i ts = Some x.
Proof. exact fuel_irrelevant. Qed.
Print Assumptions C01_fuel_irrelevant.

(* FULL STATEMENT in not-equals mode (forall c, ...) is false of the faithful model: *)
Theorem C01_noteq_group_refuted : exists c asg, tparse lvl_std asg (conv K_ne false c) <> Some (den asg c).
Proof. exact noteq_group_refuted. Qed.
Print Assumptions C01_noteq_group_refuted.
Theorem C01_noteq_number_refuted : exists c asg, tparse lvl_std asg (conv K_ne false c) <> Some (den asg c).
Proof. exact noteq_number_refuted. Qed.
Print Assumptions C01_noteq_number_refuted.
Theorem C01_noteq_double_refuted : exists c asg, tparse lvl_std asg (conv K_ne false c) <> Some (den asg c).
Proof. exact noteq_double_refuted. Qed.
Print Assumptions C01_noteq_double_refuted.
Theorem C01_noteq_notexists_refuted : exists c asg, tparse lvl_std asg (conv K_ne false c) <> Some (den asg c).
Proof. exact noteq_notexists_refuted. Qed.
Print Assumptions C01_noteq_notexists_refuted.
Theorem C01_notexists_loose_not_refuted : exists c asg, tparse lvl_odd asg (conv K_odd false c) <> Some (den asg c).
Proof. exact notexists_loose_not_refuted. Qed.
Print Assumptions C01_notexists_loose_not_refuted.

(* string operator selection (startswith / endswith / contains / wildcard-match / equals shortcuts):
   whichever template is chosen, operator + sliced value denote the source pattern - as item lists
   (except the single '*' rendered as contains "", which is '**'), hence for every subject string *)
Theorem C01_string_operator_pattern : forall K v o x, str_op K v = (o, Ok x) ->
  pattern o (items x) = items v \/ (o = OpContains /\ items v = [Multi] /\ items x = []).
Proof. exact str_op_pattern. Qed.
Print Assumptions C01_string_operator_pattern.
Theorem C01_string_operator_sem : forall K v o x, str_op K v = (o, Ok x) ->
  forall s, wild_match (pattern o (items x)) s = wild_match (items v) s.
Proof. exact str_op_sem. Qed.
Print Assumptions C01_string_operator_sem.
