(* C01 - the converted query is logically equivalent to the Sigma rule (structural part:
   AND/OR/NOT, grouping by target precedence, in-list shortcut, expansions, exists/NOT forms). *)
From Coq Require Import List Arith Bool.
From PS Require Import Model.Backend Spec.Target Proofs.BackendP Proofs.BackendMainP Proofs.BackendDomP.
From PS Require Import Base.Outcome Model.SString Model.StrOp Spec.Items Proofs.StrOpP.
Import ListNotations.

(* For every backend configuration (any of the six precedence orders, parenthesize, in-list
   flags, with or without wildcards in lists) and every condition tree in the domain, the emitted
   token sequence, read by the target language's own precedence rules, denotes exactly the boolean
   function of the tree - for every truth assignment of the atomic predicates.
   Domain (wfb): operators/expansions have arguments; in not-equals mode a NOT stands directly
   above a leaf with a negated template; the NOT(exists) rewrite needs NOT to bind tightest. *)
Theorem C01_structure : forall K asg c, cfg_ok K = true -> wfb K c = true ->
  exists f, pe (lvl K) asg f 3 (conv K false c) = Some (den asg c, []).
Proof. exact structure_b. Qed.
Print Assumptions C01_structure.

Theorem C01_fuel_irrelevant : forall K asg f f' i ts x, cfg_ok K = true ->
  pe (lvl K) asg f i ts = Some x -> f <= f' -> pe (lvl K) asg f' i ts = Some x.
Proof. exact fuel_irrelevant. Qed.
Print Assumptions C01_fuel_irrelevant.

(* FULL STATEMENT in not-equals mode (forall c, ...) is false of the faithful model: *)
Theorem C01_noteq_group_refuted : exists c asg, tparse lvl_std asg (conv K_ne false c) <> Some (den asg c).
Proof. exact noteq_group_refuted. Qed.
Print Assumptions C01_noteq_group_refuted.
Theorem C01_noteq_number_refuted : exists c asg, tparse lvl_std asg (conv K_ne false c) <> Some (den asg c).
Proof. exact noteq_number_refuted. Qed.
Print Assumptions C01_noteq_number_refuted.
Theorem C01_noteq_double_refuted : exists c asg, tparse lvl_std asg (conv K_ne false c) <> Some (den asg c).
Proof. exact noteq_double_refuted. Qed.
Print Assumptions C01_noteq_double_refuted.
Theorem C01_noteq_notexists_refuted : exists c asg, tparse lvl_std asg (conv K_ne false c) <> Some (den asg c).
Proof. exact noteq_notexists_refuted. Qed.
Print Assumptions C01_noteq_notexists_refuted.
Theorem C01_notexists_loose_not_refuted : exists c asg, tparse lvl_odd asg (conv K_odd false c) <> Some (den asg c).
Proof. exact notexists_loose_not_refuted. Qed.
Print Assumptions C01_notexists_loose_not_refuted.

(* string operator selection (startswith / endswith / contains / wildcard-match / equals shortcuts):
   whichever template is chosen, operator + sliced value denote the source pattern - as item lists
   (except the single '*' rendered as contains "", which is '**'), hence for every subject string *)
Theorem C01_string_operator_pattern : forall K v o x, str_op K v = (o, Ok x) ->
  pattern o (items x) = items v \/ (o = OpContains /\ items v = [Multi] /\ items x = []).
Proof. exact str_op_pattern. Qed.
Print Assumptions C01_string_operator_pattern.
Theorem C01_string_operator_sem : forall K v o x, str_op K v = (o, Ok x) ->
  forall s, wild_match (pattern o (items x)) s = wild_match (items v) s.
Proof. exact str_op_sem. Qed.
Print Assumptions C01_string_operator_sem.

(* ---- leaves: rendering of one detection-item leaf by the verification backend, read back ---- *)
From PS Require Import Base.Chars Model.FieldName Model.Leaf Spec.Atom Proofs.LeafP.
(* For every flag set of the verification backend (always-quoting), every field name, every value kind
   and both template contexts: the text rendered for the leaf, read by the target language's own rules
   (delimiters, quoted/escaped field names, operator keywords, quoted string literals, escaped regular
   expressions), yields an atom that names the same field and the same predicate with the requested
   polarity - or, for value kinds without negated template, the text is the positive one and the caller
   has to negate (Model/Backend.v: negatable). *)
Theorem C01_leaf_faithful : forall extra k neg f fo pm v txt,
  wok extra = true -> k_qpat k = None ->
  fo_ok (W_of extra) f fo = true -> val_ok (W_of extra) f v = true ->
  render_leaf (vb k) neg f fo pm v = Ok txt ->
  exists a, atom_decode (W_of extra) txt = Some a /\
    (acceptb neg f v a = true \/ (neg = true /\ render_leaf (vb k) false f fo pm v = Ok txt)).
Proof. intros extra k neg f fo pm v txt Hw Hq. exact (leaf_faithful (W_of extra) (Wspec_W_of extra Hw) k Hq neg f fo pm v txt). Qed.
Print Assumptions C01_leaf_faithful.
(* values without a field (keywords): strings, numbers, regular expressions *)
Theorem C01_leaf_unbound_faithful : forall extra k pm v txt,
  wok extra = true -> k_qpat k = None -> val_ok (W_of extra) [c_us] v = true ->
  (match v with LStr cased _ => cased = false | _ => True end) ->
  render_val (vb k) pm v = Ok txt ->
  exists a, atom_decode (W_of extra) txt = Some a /\ acceptb false [c_us] v a = true.
Proof. intros extra k pm v txt Hw Hq. exact (leaf_unbound_faithful (W_of extra) (Wspec_W_of extra Hw) k Hq pm v txt). Qed.
Print Assumptions C01_leaf_unbound_faithful.
(* an accepted string atom matches exactly the subjects the source pattern matches, with the source's
   case sensitivity and the requested polarity *)
Theorem C01_leaf_string_meaning : forall neg f cased sv a c op l,
  acceptb neg f (LStr cased sv) a = true -> a_pred a = AStr c op l ->
  a_field a = f /\ c = cased /\ a_neg a = neg /\
  forall subj, wild_match (apattern op l) subj = wild_match (items sv) subj.
Proof. exact accepted_string_meaning. Qed.
Print Assumptions C01_leaf_string_meaning.
(* FULL STATEMENT (false of the faithful model): C01_leaf_faithful without the premise val_ok for CIDR
   values, and C01_leaf_unbound_faithful for case-sensitive keywords. *)
Theorem C01_leaf_cidr_raw_field_refuted : exists f fo v txt,
  render_leaf (vb k_all) false f fo (fun _ => false) v = Ok txt /\
  exists a, atom_decode (W_of []) txt = Some a /\ acceptb false f v a = false.
Proof. exact cidr_raw_field_refuted. Qed.
Print Assumptions C01_leaf_cidr_raw_field_refuted.
Theorem C01_leaf_unbound_cased_refuted : exists sv txt,
  render_val (vb k_all) false (LStr true sv) = Ok txt /\
  exists a, atom_decode (W_of []) txt = Some a /\ acceptb false [c_us] (LStr true sv) a = false.
Proof. exact unbound_cased_refuted. Qed.
Print Assumptions C01_leaf_unbound_cased_refuted.

(* ---- whole queries: splitting the text into operators, parentheses and atom texts ---- *)
From PS Require Import Spec.Lex Proofs.LexP.
(* Lexing the rendered token sequence by the target language's rules gives the token sequence back, for
   atom texts of the checkable shape (delimited up to the first unescaped closing delimiter, or a
   quoted field name plus word, or a word that is not an operator) ... *)
Theorem C01_lex_show : forall atxt ftxt vtxt ts,
  (forall t, In t ts -> is_atom t = true -> shapeb (stxt atxt ftxt vtxt t) = true) -> sep_ok ts = true ->
  lex (show vb_syntax atxt ftxt vtxt ts) = Some (map (ltok_of atxt ftxt vtxt) ts).
Proof. exact lex_show. Qed.
Print Assumptions C01_lex_show.
(* ... and every token sequence the conversion produces separates its atoms, for every configuration
   and every condition tree *)
Theorem C01_conv_separates : forall K c un, sep_ok (conv K un c) = true.
Proof. intros K c un. exact (conv_sep_ok K c un). Qed.
Print Assumptions C01_conv_separates.
(* every leaf rendered by the verification backend is one lexical unit ... *)
From PS Require Import Proofs.LeafLexP.
Theorem C01_leaf_lexical : forall extra k neg f fo pm v txt,
  wok extra = true -> k_qpat k = None ->
  fo_ok (W_of extra) f fo = true -> val_ok (W_of extra) f v = true -> lex_ok f v = true ->
  render_leaf (vb k) neg f fo pm v = Ok txt -> shapeb txt = true.
Proof. intros extra k neg f fo pm v txt Hw Hq. exact (leaf_shape (W_of extra) (Wspec_W_of extra Hw) k Hq neg f fo pm v txt). Qed.
Print Assumptions C01_leaf_lexical.
(* ... so a query assembled by the conversion from such leaves is split back into exactly its tokens *)
Theorem C01_query_lexes : forall K tree un atxt ftxt vtxt,
  (forall t, In t (conv K un tree) -> is_atom t = true -> shapeb (stxt atxt ftxt vtxt t) = true) ->
  lex (show vb_syntax atxt ftxt vtxt (conv K un tree)) = Some (map (ltok_of atxt ftxt vtxt) (conv K un tree)).
Proof. intros K tree un atxt ftxt vtxt H. apply lex_show; [exact H|apply conv_sep_ok]. Qed.
Print Assumptions C01_query_lexes.
(* field in (v1, ..., vn) / field contains-all (...): the rendered list, read by the target language's list
   reader, gives the keys of exactly the values in order, and the text is one lexical unit *)
From PS Require Import Spec.Query Proofs.InListP.
Theorem C01_inlist_faithful : forall extra k disj f fo vals txt,
  wok extra = true -> k_qpat k = None -> fo_ok (W_of extra) f fo = true ->
  vals <> [] -> forallb in_val_okb vals = true ->
  render_in (vb k) disj f fo vals = Ok txt ->
  shapeb txt = true /\
  exists es, all_some (map (fun v => key_of_val f (fst v)) vals) = Some es /\ in_decode (W_of extra) txt = Some (disj, es).
Proof. intros extra k disj f fo vals txt Hw Hq. exact (inlist_faithful (W_of extra) (Wspec_W_of extra Hw) k Hq disj f fo vals txt). Qed.
Print Assumptions C01_inlist_faithful.

(* ---- end to end: render the tree, read the text back, parse ---- *)
From PS Require Import Proofs.QueryP.
(* reading a rendered token sequence (lexing, decoding every atom, identifying it with its reference
   predicate) gives the token sequence back, up to the field number of in-lists, which the parser ignores *)
Theorem C01_read_show : forall W keys atxt ftxt vtxt ts,
  (forall t, In t ts -> is_atom t = true -> shapeb (stxt atxt ftxt vtxt t) = true) -> sep_ok ts = true ->
  Forall (atom_reads W keys atxt ftxt vtxt) ts ->
  read_query W keys (show vb_syntax atxt ftxt vtxt ts) = Some (map norm_tok ts).
Proof. exact read_show. Qed.
Print Assumptions C01_read_show.
(* For every configuration and every condition tree in the domain of C01_structure whose atoms are rendered
   as lexical units that decode to their reference predicates (which C01_leaf_faithful, C01_leaf_lexical and
   C01_inlist_faithful provide for the leaves the verification backend renders): the query TEXT, read by the
   target language's reader and parsed by its precedence rules, denotes exactly the boolean function of the
   tree, for every truth assignment. *)
Theorem C01_query_meaning : forall W keys atxt ftxt vtxt K asg c,
  cfg_ok K = true -> wfb K c = true ->
  (forall t, In t (conv K false c) -> is_atom t = true -> shapeb (stxt atxt ftxt vtxt t) = true) ->
  Forall (atom_reads W keys atxt ftxt vtxt) (conv K false c) ->
  exists ts, read_query W keys (show vb_syntax atxt ftxt vtxt (conv K false c)) = Some ts /\
             exists f, pe (lvl K) asg f 3 ts = Some (den asg c, []).
Proof. exact query_meaning. Qed.
Print Assumptions C01_query_meaning.

(* ---- the fixed fuel of the entry point tparse (the function the judge evaluates) always suffices ---- *)
From PS Require Import Proofs.FuelP.
Theorem C01_tparse_complete : forall K asg f ts v,
  pe (lvl K) asg f 3 ts = Some (v, []) -> tparse (lvl K) asg ts = Some v.
Proof. exact tparse_complete. Qed.
Print Assumptions C01_tparse_complete.
Theorem C01_structure_tparse : forall K asg c, cfg_ok K = true -> wfb K c = true ->
  tparse (lvl K) asg (conv K false c) = Some (den asg c).
Proof. intros K asg c HK Hw. destruct (structure_b K asg c HK Hw) as [f Hf]. exact (tparse_complete K asg f _ _ Hf). Qed.
Print Assumptions C01_structure_tparse.
Theorem C01_query_meaning_tparse : forall W keys atxt ftxt vtxt K asg c,
  cfg_ok K = true -> wfb K c = true ->
  (forall t, In t (conv K false c) -> is_atom t = true -> shapeb (stxt atxt ftxt vtxt t) = true) ->
  Forall (atom_reads W keys atxt ftxt vtxt) (conv K false c) ->
  exists ts, read_query W keys (show vb_syntax atxt ftxt vtxt (conv K false c)) = Some ts /\
             tparse (lvl K) asg ts = Some (den asg c).
Proof.
  intros W keys atxt ftxt vtxt K asg c HK Hw Hs Hr.
  destruct (query_meaning W keys atxt ftxt vtxt K asg c HK Hw Hs Hr) as [ts [Hq [f Hf]]].
  exists ts. split; [exact Hq|exact (tparse_complete K asg f _ _ Hf)].
Qed.
Print Assumptions C01_query_meaning_tparse.

(* ---- the reference meaning (Spec/Ref.v) and its numbering ---- *)
From Coq Require Import NArith.
From PS Require Import Spec.Ref Proofs.RefP.
(* The run compares the query with the reference over the numbers of the distinct reference predicates:
   the numbered combination under an assignment of the numbers has the value of the combination of
   predicates under the valuation that reads each predicate's number ... *)
Theorem C01_ref_numbering : forall ks asg c, den asg (number ks c) = rden (fun k => asg (idx ks k)) c.
Proof. exact number_den. Qed.
Print Assumptions C01_ref_numbering.
(* ... and every valuation of the predicates (one that does not distinguish predicates with equal keys) is
   the reading of an assignment of the numbers given by keys_of: the comparison under all assignments is a
   comparison under all valuations of the reference predicates. *)
Theorem C01_ref_valuations : forall c val d, respects val ->
  rden val c = den (fun i => val (nth i (keys_of c []) d)) (number (keys_of c []) c).
Proof. exact ref_valuations. Qed.
Print Assumptions C01_ref_valuations.
(* The truth table the run enumerates (rows m < 2^n, bit i of m for predicate number i) is complete: every
   valuation of the reference predicates is one of its rows. *)
Theorem C01_ref_table_complete : forall c val, respects val ->
  let ks := keys_of c [] in
  exists m, In m (seq 0 (Nat.pow 2 (length ks))) /\
    rden val c = den (fun a => N.testbit (N.of_nat m) (N.of_nat a)) (number ks c).
Proof. exact ref_table_complete. Qed.
Print Assumptions C01_ref_table_complete.
