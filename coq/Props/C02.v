(* C02 - Condition text parses to the boolean function it spells.
   Only statements, each closed by `exact`, with Print Assumptions.

   Model: Model/CondParse.v (lexer + token-level PEG mirroring pyparsing's infix_notation after the
   Keyword repair), Model/Cond.v (selector resolution, postprocessing, truth value).
   Specification: Spec/CondGrammar.v (Spells: generative stratified grammar + layout; sem), Spec/Glob.v. *)
From Coq Require Import NArith List Bool.
From PS Require Import Base.Chars Base.Outcome Model.CondParse Model.Cond Spec.Glob Spec.CondGrammar
                       Proofs.GlobP Proofs.CondParseP Proofs.CondP Proofs.CondSoundP.
Import ListNotations.

(* Every spelling s of every well-formed expression e (any redundant parentheses, any blanks, names
   that begin with or contain keywords, names that are quantifier words) is accepted, and the parse
   tree has the truth value of e under EVERY valuation of names and selectors - in particular for
   all detection sets and all assignments.  Hence NOT > AND > OR, left association, parentheses
   override, names are whole words; and no string has two readings with different meanings. *)
Theorem C02_parse :
  forall e s, wf_expr e = true -> Spells s e ->
    exists t, parse s = Ok t /\ forall vid vsel, denv vid vsel t = semv vid vsel e.
Proof. exact parse_complete. Qed.
Print Assumptions C02_parse.

(* the same for every algebra whose n-ary nodes agree with a binary operation (truth values, lists of
   names, ...): the parse tree is the expression up to flattening of same-operator runs *)
Theorem C02_parse_fold :
  forall e s, wf_expr e = true -> Spells s e ->
    exists t, parse s = Ok t /\
      forall A a_id a_sel a_not a_bin e_bin, @lawful A a_bin e_bin ->
        foldt a_id a_sel a_not a_bin t = folde a_id a_sel a_not e_bin e.
Proof. exact parse_complete_fold. Qed.
Print Assumptions C02_parse_fold.

(* the entry point's fuel always suffices: no verdict of the model is an artefact of the fuel *)
Theorem C02_parse_fuel : forall s, parse s <> Crash E_Fuel.
Proof. exact parse_never_out_of_fuel. Qed.
Print Assumptions C02_parse_fuel.

(* pattern.replace("*", ".*") + re.fullmatch (as modelled: backtracking over literals and '.*', DOTALL
   after the repair) decides the declarative glob relation, for all patterns and all names *)
Theorem C02_glob : forall p n, rmatch (compile p) n = true <-> Glob p n.
Proof. exact rmatch_Glob. Qed.
Print Assumptions C02_glob.

(* selector resolution: exactly the matching detections, in document order, and the underscore rule *)
Theorem C02_selector :
  forall dets p,
    resolve dets p = filter (selected p) dets /\
    forall n, In n (resolve dets p) <->
              In n dets /\ (p = w_them \/ Glob p n) /\ (us p = true \/ us n = false).
Proof. exact selector_spec. Qed.
Print Assumptions C02_selector.

(* FULL STATEMENT (false of the faithful model, see C02_empty_selector_refuted):
     forall e s dets, wf_expr e = true -> Spells s e -> defined dets e = true ->
       exists t c, parse s = Ok t /\ post dets t = Ok c /\
                   forall asg, ceval_top asg c = Some (sem dets asg e)
   proved part: every selector of e selects at least one detection *)
Theorem C02_meaning_partial :
  forall e s dets,
    wf_expr e = true -> Spells s e -> defined dets e = true -> inhabited dets e = true ->
    exists t c, parse s = Ok t /\ post dets t = Ok (Some c) /\
                forall asg, ceval asg c = Some (sem dets asg e).
Proof. exact meaning. Qed.
Print Assumptions C02_meaning_partial.

(* "a and 1 of x*" over detections a, b: the selector becomes None inside the AND node *)
Theorem C02_empty_selector_refuted :
  exists dets e s, wf_expr e = true /\ Spells s e /\ defined dets e = true /\
    forall c, run_post dets s = Ok c -> exists asg, ceval_top asg c <> Some (sem dets asg e).
Proof. exact empty_selector_refuted. Qed.
Print Assumptions C02_empty_selector_refuted.

(* a name that is not a detection of the rule is an error, whatever else the condition contains *)
Theorem C02_undefined_reported :
  forall e s dets, wf_expr e = true -> Spells s e -> defined dets e = false ->
    exists t, parse s = Ok t /\ post dets t = SigmaErr E_Condition.
Proof. exact undefined_reported. Qed.
Print Assumptions C02_undefined_reported.

(* no junk is accepted: whatever the parser accepts is a spelling - by the same grammar, with the two
   leniencies of the implementation spelled out in Spec.CondGrammar.SpellsL (a reserved word standing
   for a name where the operator reading fails, "of" fused with a pattern starting with '*') - of an
   expression that has the meaning of the returned tree under every valuation. Unbalanced parentheses,
   missing operands or operators, '*' in names, '-' in patterns, other characters: all rejected. *)
Theorem C02_reject :
  forall s t, parse s = Ok t ->
    exists e, SpellsLenient s e /\ forall vid vsel, denv vid vsel t = semv vid vsel e.
Proof. exact accepted_is_spelled. Qed.
Print Assumptions C02_reject.

(* no text has two readings with different meanings (a consequence of C02_parse: the parser is a function) *)
Theorem C02_unambiguous :
  forall s e1 e2, wf_expr e1 = true -> wf_expr e2 = true -> Spells s e1 -> Spells s e2 ->
    forall vid vsel, semv vid vsel e1 = semv vid vsel e2.
Proof. exact unambiguous. Qed.
Print Assumptions C02_unambiguous.

(* the grammar of C02_reject contains the grammar of C02_parse *)
Theorem C02_strict_is_lenient :
  forall i ts e, SpellsT i ts e -> wf_expr e = true -> SpellsL i ts e.
Proof. exact strict_is_lenient. Qed.
Print Assumptions C02_strict_is_lenient.

(* non-vacuity: hostile names are well-formed, and spellings exist *)
Definition s_notepad : str := [110;111;116;101;112;97;100].
Example C02_premises_inhabited :
  wf_expr (EOr (EAnd (EId s_notepad) (ENot (EId w_1))) (ESel QAll [95; 42])) = true /\
  Spells (render [TW w_not; TW s_notepad]) (ENot (EId s_notepad)) /\
  parse (render [TW w_not; TW s_notepad]) = Ok (PNot (PId s_notepad)) /\
  parse s_notepad = Ok (PId s_notepad).
Proof.
  split; [reflexivity|]. split; [|split; reflexivity].
  exists [TW w_not; TW s_notepad]. split.
  - apply render_lay. repeat constructor; discriminate.
  - apply (sp_up 2), (sp_up 1). apply (sp_not [TW s_notepad]). apply (sp_up 0), sp_id.
Qed.
