From PS Require Import Base.Chars.
Theorem C02_placeholder : True.
Proof. exact I. Qed.
Print Assumptions C02_placeholder.
