(* C11 - placeholder, replaced below *)
From Coq Require Import NArith List Bool.
From PS Require Import Base.Chars Model.Filter Spec.FilterSpec.
Theorem C11_untouched : forall draws f r, should_apply f r = false -> apply_on_rule draws f r = Some (r, draws).
Proof. intros draws f r H. unfold apply_on_rule. rewrite H. reflexivity. Qed.
Print Assumptions C11_untouched.
