(* C11 - A filter narrows exactly the rules it targets and nothing else.
   Only statements, each closed by `exact`, with Print Assumptions.

   Model: Model/Filter.v (SigmaLogSource.__contains__, SigmaFilter._should_apply_on_rule /
   apply_on_rule after the repairs of D14 and D16, SigmaCollection.apply_filters), reading conditions
   through Model/FCondParse.v + Model/FCond.v (the C02 model of sigma/conditions.py).
   Specification: Spec/FilterSpec.v (applies, narrowed: truth tables over detection OBJECTS),
   Spec/FCondGrammar.v (Spells, wf_expr, sem). *)
From Coq Require Import NArith ZArith List Bool.
From PS Require Import Base.Chars Base.Outcome Model.FCondParse Model.FCond Spec.FGlob Spec.FCondGrammar
                       Model.Filter Spec.FilterSpec Proofs.FilterP Proofs.FilterStackP.
Import ListNotations.

(* A filter is applied to a rule iff the rule is a detection rule, every attribute of the filter's
   log source has the same value in the rule's, and the rule list is 'any' or contains a reference
   naming the rule (by id when the text is a UUID, else by name). *)
Theorem C11_applies_iff : forall f r, should_apply f r = true <-> applies f r.
Proof. exact should_apply_iff. Qed.
Print Assumptions C11_applies_iff.

(* the executable applicability relation evaluated by the specification oracle of the correspondence
   check is that specification *)
Theorem C11_oracle_applies : forall f r, applies_b f r = true <-> applies f r.
Proof. exact applies_b_spec. Qed.
Print Assumptions C11_oracle_applies.

(* FULL STATEMENT (false of the faithful model, see the four refutations below):
     forall draws f r r' rest, should_apply f r = true -> apply_on_rule draws f r = Some (r', rest) -> narrowed r f r'
   Proved part. For EVERY sequence of draws (any lower-case strings; the re-draw loop picks the first
   one no identifier of the rule starts with) and whatever prefix results: if
     - the filter condition is a spelling (any blanks / redundant parentheses) of a well-formed
       expression over the filter's detections with inhabited selectors (reads), whose identifiers
       and patterns are not keywords of the rewrite in any letter case and not 'them' (plain),
     - no filter detection name begins with '_',
     - every rule condition is such a spelling over the rule's detections and none of its selector
       patterns begins with '_',
   then the rule keeps its detections, the filter's detections are appended under prefixed names,
   every new condition loads, and for EVERY truth assignment to the detection objects its value is
   (value of the rule condition over the rule's bindings) AND (value of the filter condition over the
   filter's bindings): no rule selector captures a filter detection, no filter identifier or
   selector a rule detection - for overlapping names on both sides, names beginning with
   operator/keyword words, digits, '-' (and '_' on the rule side). *)
Theorem C11_meaning_partial :
  forall draws f r ef r' rest,
    should_apply f r = true ->
    Forall (fun d => lower_draw d = true) draws ->
    NoDup (names (f_dets f)) ->
    reads (f_dets f) (f_cond f) ef -> plain ef = true ->
    (forall n, In n (names (f_dets f)) -> us n = false) ->
    Forall (fun c => exists e, reads (r_dets r) c e /\ no_us_patterns e = true) (r_conds r) ->
    apply_on_rule draws f r = Some (r', rest) ->
    (exists p, r_dets r' = r_dets r ++ map (ren p) (f_dets f)) /\ narrowed r f r'.
Proof. exact meaning_main. Qed.
Print Assumptions C11_meaning_partial.

(* the same with the exact condition on the rule's patterns, for any well-formed prefix that is fresh
   for the rule (this is the form that composes when filters are stacked: the patterns left by an
   earlier filter begin with '_filt_<other prefix>_') *)
Theorem C11_meaning_prefix_partial :
  forall p f r ef,
    wf_prefix p = true -> fresh p (r_dets r) = true -> NoDup (names (f_dets f)) ->
    reads (f_dets f) (f_cond f) ef -> plain ef = true ->
    (forall n, In n (names (f_dets f)) -> us n = false) ->
    Forall (fun c => exists e, reads (r_dets r) c e /\ clean p (names (f_dets f)) e = true) (r_conds r) ->
    r_dets (apply_with p f r) = r_dets r ++ map (ren p) (f_dets f) /\ narrowed r f (apply_with p f r).
Proof. exact meaning_with. Qed.
Print Assumptions C11_meaning_prefix_partial.

(* the text-level core: the regular-expression rewrite maps a spelling of the filter expression to a
   spelling of the renamed expression, and "(c) and (f)" spells the conjunction *)
Theorem C11_rewrite_spells :
  forall p c e fc ef, forallb is_wordc p = true -> Spells c e -> Spells fc ef -> plain ef = true ->
    Spells (new_cond c (rewrite p fc)) (EAnd e (rename p ef)).
Proof. exact spells_new_cond. Qed.
Print Assumptions C11_rewrite_spells.

(* a rule the filter does not target is returned as it is, and no draw is consumed *)
Theorem C11_untouched : forall draws f r, should_apply f r = false -> apply_on_rule draws f r = Some (r, draws).
Proof. exact untouched. Qed.
Print Assumptions C11_untouched.

(* STACKED FILTERS, whole collection (SigmaCollection.apply_filters: for every rule, fold apply_on_rule
   over all filters; one shared stream of draws of equal length, as random.choices(..., k=10) gives).
   If every rule is as in C11_meaning_partial (rule_ok) and every filter that targets it is as there
   (filter_ok), then every condition of every rule of the collection loads and its value is, for EVERY
   truth assignment to the detection objects, the value of the source condition AND the values of the
   conditions of exactly the filters that target the rule (stacked): the patterns a filter leaves in
   the condition never select the detections of a later filter, because the re-draw loop (repair of
   D16) keeps the prefixes distinct. *)
Theorem C11_collection_partial :
  forall L fs rs draws rs' rest,
    draws_ok L draws ->
    Forall (fun r => rule_ok r /\ Forall (fun f => should_apply f r = true -> filter_ok f) fs) rs ->
    apply_filters draws fs rs = Some (rs', rest) ->
    Forall2 (fun r r' => stacked r fs r') rs rs'.
Proof. exact collection_main. Qed.
Print Assumptions C11_collection_partial.

(* all other rules - those no filter targets, in particular every correlation rule - leave the
   collection exactly as they entered it *)
Theorem C11_collection_untouched :
  forall fs draws r, Forall (fun f => should_apply f r = false) fs -> apply_all draws fs r = Some (r, draws).
Proof. exact collection_untouched. Qed.
Print Assumptions C11_collection_untouched.

Theorem C11_correlation_never : forall r f, r_kind r = KCorrelation -> should_apply f r = false.
Proof. exact correlation_never. Qed.
Print Assumptions C11_correlation_never.

(* outside the premises - each witness is replayed against the real code (known_findings.d/C11.json) *)
(* D15: a rule pattern beginning with '_' ("not 1 of _*") captures the filter's detections *)
Theorem C11_underscore_capture_refuted :
  exists draws f r r' rest, should_apply f r = true /\ apply_on_rule draws f r = Some (r', rest) /\ ~ narrowed r f r'.
Proof. exact underscore_capture_refuted. Qed.
Print Assumptions C11_underscore_capture_refuted.

(* a filter detection named like a keyword ("Not") is not renamed in the condition: the rule's own "Not" is used *)
Theorem C11_keyword_name_refuted :
  exists draws f r r' rest, should_apply f r = true /\ apply_on_rule draws f r = Some (r', rest) /\ ~ narrowed r f r'.
Proof. exact keyword_name_refuted. Qed.
Print Assumptions C11_keyword_name_refuted.

(* a filter detection "_u" is not selected by the filter's "1 of them", but is after renaming *)
Theorem C11_underscore_filter_name_refuted :
  exists draws f r r' rest, should_apply f r = true /\ apply_on_rule draws f r = Some (r', rest) /\ ~ narrowed r f r'.
Proof. exact underscore_filter_name_refuted. Qed.
Print Assumptions C11_underscore_filter_name_refuted.

(* a rule condition with unbalanced parentheses ("a) or (b") has no value alone but one after the filter *)
Theorem C11_unbalanced_refuted :
  exists draws f r r' rest c c', should_apply f r = true /\ apply_on_rule draws f r = Some (r', rest) /\
    r_conds r = [c] /\ r_conds r' = [c'] /\
    (forall asgd, cond_value (r_dets r) c asgd = None) /\
    (forall asgd, exists z, cond_value (r_dets r') c' asgd = Some z).
Proof. exact unbalanced_refuted. Qed.
Print Assumptions C11_unbalanced_refuted.

(* non-vacuity: rule {sel, flt} " sel or 1 of fl*", filter {flt, sel} " not 1 of them" meet all premises *)
Example C11_premises_inhabited :
  should_apply ex_filter ex_rule = true /\
  Forall (fun d => lower_draw d = true) [draw_a] /\
  NoDup (names (f_dets ex_filter)) /\
  reads (f_dets ex_filter) (f_cond ex_filter) ex_ef /\ plain ex_ef = true /\
  (forall n, In n (names (f_dets ex_filter)) -> us n = false) /\
  Forall (fun c => exists e, reads (r_dets ex_rule) c e /\ no_us_patterns e = true) (r_conds ex_rule) /\
  exists r' rest, apply_on_rule [draw_a] ex_filter ex_rule = Some (r', rest).
Proof. exact premises_inhabited. Qed.
