(* C03 - Value modifiers produce exactly the values the specification defines.
   Only statements, each closed by `exact`, with Print Assumptions.

   Model:  Model/Modifiers.v  (from_mapping = modifier table + apply loop + every modify()),
   Spec:   Spec/ModSpec.v     (sp_from_mapping: the same chain on the item view of strings),
           Spec/Items.v       (wild_match: which strings a pattern denotes).
   All theorems hold for every oracle O (Python's \w, re.compile success, ip_network success). *)
From Coq Require Import NArith ZArith List Bool.
From PS Require Import Base.Chars Base.Outcome Model.SString Model.Modifiers Spec.Items Spec.ModSpec
                       Proofs.ModSpecP Proofs.ModifiersP.
Import ListNotations.

(* ---- admissibility: SigmaErr or Ok, never a Python crash (full statement; holds after the
   `fix:` commits for the empty regular expression and for 're' on non-string values) ---- *)
Theorem C03_no_crash : forall O key val c, from_mapping O key val <> Crash c.
Proof. exact from_mapping_nocrash. Qed.
Print Assumptions C03_no_crash.

(* ---- the chain: values, value linking and negation stored on the detection item equal those of
   the specification, and a chain is rejected exactly when the specification does not define it.
   FULL STATEMENT (false of the faithful model, see the two refutations):
       forall O key val, refines O key val
   proved on the domain in_domain: modifiers other than the five encoding modifiers (C04), no
   'expand' before a 'windash', integers that survive float(), no empty string under a 're' that is
   not the first modifier ---- *)
Theorem C03_refines_spec_partial :
  forall O key val, in_domain key val = true ->
    match from_mapping O key val with
    | Ok st => sp_from_mapping O key val = Some (map view (values st), link_and st, negated st)
    | SigmaErr _ => sp_from_mapping O key val = None
    | Crash _ => False
    end.
Proof. exact from_mapping_refines. Qed.
Print Assumptions C03_refines_spec_partial.

Theorem C03_admissible_iff_partial :
  forall O key val, in_domain key val = true ->
    ((exists c, from_mapping O key val = SigmaErr c) <-> sp_from_mapping O key val = None).
Proof. exact rejected_iff. Qed.
Print Assumptions C03_admissible_iff_partial.

(* 'f|expand|windash: %_windash%' yields the five dash characters *)
Theorem C03_windash_placeholder_refuted : ~ refines O0 key_expand_windash val_windash_ph.
Proof. exact refines_refuted_windash. Qed.
Print Assumptions C03_windash_placeholder_refuted.

(* 'f: 9007199254740993' is stored as the float 9007199254740992.0 *)
Theorem C03_number_refuted :
  (exists z, sigma_number (YInt z) <> Ok (NInt z)) /\
  ~ refines O0 (Some [102%N]) (YOne (YInt 9007199254740993)).
Proof. exact number_refuted_both. Qed.
Print Assumptions C03_number_refuted.

(* ---- 'all' / 'neq': only the flags change, and the flags never influence the values ---- *)
Theorem C03_all_neq_frame :
  forall O field,
    (forall applied st, step O field applied MAll st =
        Ok {| values := values st; link_and := true; negated := negated st |}) /\
    (forall applied st, step O field applied MNeq st =
        Ok {| values := values st; link_and := link_and st; negated := true |}) /\
    (forall ms applied st st', run_chain O field applied ms st = Ok st' ->
        link_and st' = (link_and st || existsb is_all ms) /\
        negated st' = (negated st || existsb is_neq ms)) /\
    (forall ms applied st1 st2, values st1 = values st2 ->
        same_values (run_chain O field applied ms st1) (run_chain O field applied ms st2)).
Proof. exact all_neq_frame. Qed.
Print Assumptions C03_all_neq_frame.

(* ---- contains / startswith / endswith on strings: what the stored pattern matches.
   [no_empty v] holds for every value the parser or another modifier produces. ---- *)
Theorem C03_contains_sem :
  forall v s, no_empty v = true ->
    (wild_match (items (add_multi_back (add_multi_front v))) s = true <->
     exists a m b, s = a ++ m ++ b /\ wild_match (items v) m = true).
Proof. exact contains_sem_model. Qed.
Print Assumptions C03_contains_sem.

Theorem C03_startswith_sem :
  forall v s, no_empty v = true ->
    (wild_match (items (add_multi_back v)) s = true <->
     exists m b, s = m ++ b /\ wild_match (items v) m = true).
Proof. exact startswith_sem_model. Qed.
Print Assumptions C03_startswith_sem.

Theorem C03_endswith_sem :
  forall v s, no_empty v = true ->
    (wild_match (items (add_multi_front v)) s = true <->
     exists a m, s = a ++ m /\ wild_match (items v) m = true).
Proof. exact endswith_sem_model. Qed.
Print Assumptions C03_endswith_sem.

(* only missing wildcards are added: applying the modifier twice changes nothing more *)
Theorem C03_wildcard_idem :
  forall l, sp_contains (sp_contains l) = sp_contains l /\ sp_back (sp_back l) = sp_back l /\
            sp_front (sp_front l) = sp_front l.
Proof. exact wildcard_idem. Qed.
Print Assumptions C03_wildcard_idem.

(* ---- modifiers that change the type keep the content ---- *)
Theorem C03_type_change_content :
  forall O field applied c v n b fi fm fs o p,
    modify O field applied MCased (AStr c v) = Ok (VAtom (AStr true v)) /\
    modify O field applied (MCmp o) (ANum n) = Ok (VAtom (ACmp o n)) /\
    modify O field applied (MFlag FI) (ARe v fi fm fs) = Ok (VAtom (ARe v true fm fs)) /\
    modify O field applied (MFlag FM) (ARe v fi fm fs) = Ok (VAtom (ARe v fi true fs)) /\
    modify O field applied (MFlag FS) (ARe v fi fm fs) = Ok (VAtom (ARe v fi fm true)) /\
    modify O field applied (MTs p) (ANum n) = Ok (VAtom (ANum (NTs p (num_trunc n)))) /\
    (forall z, num_trunc (NPlain (NInt z)) = z) /\
    (forall r, modify O field applied MExists (ABool b) = Ok r -> r = VAtom (AExists b)) /\
    (forall r, modify O field applied MCidr (AStr c v) = Ok r -> r = VAtom (ACidr (to_plain false v))) /\
    (forall r, modify O field applied MFieldref (AStr c v) = Ok r ->
               r = VAtom (AFieldRef (to_plain false v) false false) /\ contains_special v = false) /\
    (forall s r, modify O field applied MRe (AStr c (from_str s)) = Ok r ->
               exists w, r = VAtom (ARe w false false false) /\ items w = iparse_noesc s).
Proof. exact type_change_content. Qed.
Print Assumptions C03_type_change_content.

(* ---- windash: the stored values are exactly the dash variants.
   FULL STATEMENT (false: C03_windash_placeholder_refuted): for every well-formed v.
   proved for values without a placeholder named _windash; [w] is any word-character class ---- *)
Theorem C03_windash_exact_partial :
  forall w v, wfp v = true -> no_wd_ph v = true ->
    map items (windash w v) = variants w false (items v).
Proof. exact windash_items. Qed.
Print Assumptions C03_windash_exact_partial.

(* ... and the variant set is what the specification says: x is listed iff it has the length of l,
   carries one of the five dash characters at every parameter position (a literal '-' or '/' not
   preceded by a literal word character and followed by one) and the item of l everywhere else;
   nothing is listed twice; there are 5^k variants *)
Theorem C03_windash_variants :
  forall w, w c_dash = false /\ w c_slash = false ->
    forall l,
      (forall x, In x (variants w false l) <-> is_variant w false l x) /\
      NoDup (variants w false l) /\
      length (variants w false l) = Nat.pow 5 (count_params w false l).
Proof. exact windash_variants. Qed.
Print Assumptions C03_windash_variants.

(* ---- expand: the lookbehind scanner plus the replace("\\%", "%") on the segments reads a
   well-formed value exactly as the item-level specification does ---- *)
Theorem C03_expand_exact :
  forall v, wfp v = true -> items (insert_placeholders v) = sp_expand (items v).
Proof. exact insert_placeholders_items. Qed.
Print Assumptions C03_expand_exact.

(* ... and the item-level reading is sound: every placeholder of the result was a placeholder of the
   input or stands for a %name% of the input (name not empty, free of '%', between two literal '%');
   a value without a literal '%' is left alone ---- *)
Theorem C03_expand_sound :
  (forall l n, In (Ph n) (sp_expand l) ->
     In (Ph n) l \/
     (n <> [] /\ ~ In c_pct n /\ exists pre post, l = pre ++ Lit c_pct :: map Lit n ++ Lit c_pct :: post)) /\
  (forall l, existsb (fun i => match i with Lit c => N.eqb c c_pct | _ => false end) l = false -> sp_expand l = l).
Proof. exact (conj expand_sound expand_no_pct). Qed.
Print Assumptions C03_expand_sound.

(* ---- the premises are met: parsed values are well-formed, well-formedness is preserved ---- *)
Theorem C03_wellformed_values :
  (forall s, wfp (parse true s) = true /\ no_ph (parse true s) = true /\ wfp (parse false s) = true) /\
  (forall v, wfp v = true -> wfp (add_multi_front v) = true /\ wfp (add_multi_back v) = true /\
                             wfp (insert_placeholders v) = true) /\
  (forall w v, wfp v = true -> no_ph v = true ->
               Forall (fun x => wfp x = true /\ no_ph x = true) (windash w v)).
Proof. exact wellformed_values. Qed.
Print Assumptions C03_wellformed_values.

Example C03_premises_inhabited :
  in_domain (Some [102;124;119;105;110;100;97;115;104;124;99;111;110;116;97;105;110;115;124;97;108;108]%N)
            (YMany [YStr [45;97;32;47;98]%N; YStr [42;120]%N]) = true /\
  wfp [PStr [45;97]%N; PMulti] = true /\ no_wd_ph [PStr [45;97]%N; PPh [120]%N] = true.
Proof. exact premises_inhabited. Qed.
