(* placeholder, replaced below *)
From Coq Require Import NArith List Bool.
From PS Require Import Base.Chars Base.Outcome Model.SString Model.Modifiers.
Import ListNotations.
Theorem C03_table_size : length modifier_mapping = 33%nat.
Proof. reflexivity. Qed.
Print Assumptions C03_table_size.
