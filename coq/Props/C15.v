(* C15 - converting a rule gives the same result whatever was converted before.
   Only statements, each closed by `exact`, with Print Assumptions.

   World = parse cache + type-hint cache + backend class templates + value cache of every
   external-source transformation object + owner link of every
   processing item object + per-rule fields of every pipeline object + backends (Model/History.v).
   A history is any list of operations {load, new backend, init pipeline, convert collection,
   convert rule}; failing conversions are conversions of rules that fail (at the pipeline, in the
   condition parser, at an undefined identifier, in an external source (security check, fetch, parse),
   while rendering, while rendering inside a negated not-equals leaf - Sigma errors and backend
   NotImplementedError).  `ideal_obs_*` (Spec/Frame.v) is a function of the rule, the pipeline
   definitions and the backend configuration only. *)
From Coq Require Import NArith List Bool String.
From PS Require Import Base.Chars Base.Outcome Model.History Spec.Frame Proofs.History15P Proofs.HistoryRefP Proofs.HistorySharingP Proofs.HistoryHintsP.
Import ListNotations.

(* convert(collection) after ANY history, on ANY backend of that history - shared pipeline objects
   or not - yields queries, errors, collected errors and pipeline bookkeeping that are a function of
   the rules, the pipeline definitions and the backend configuration alone *)
Theorem C15_frame_collection : forall E ops b bk fmt rs,
  let w := fst (run E init ops) in
  nth_error (w_bks w) b = Some bk ->
  out_obs (snd (step E w (OConvColl b rs fmt))) = ideal_obs_coll E (b_cls bk) (b_user bk) (b_collect bk) (b_opts bk) fmt rs.
Proof. exact frame_coll_reachable. Qed.
Print Assumptions C15_frame_collection.

(* FULL STATEMENT for convert_rule (false of the faithful model, see the two refutations):
     forall E ops b bk fmt r, nth_error (w_bks (fst (run E init ops))) b = Some bk ->
       out_obs (snd (step E _ (OConvRule b r fmt))) = ideal_obs_rule E (b_cls bk) (b_user bk) (b_collect bk) (b_opts bk) fmt r
   proved part: the items of the backend's pipeline object still point to that object (no later
   init of another backend took them over) and the object was built for the format asked for *)
Theorem C15_frame_rule_partial : forall E ops b bk fmt r,
  let w := fst (run E init ops) in
  nth_error (w_bks w) b = Some bk -> owns_ok E w bk = true -> fmt_ok bk fmt = true ->
  out_obs (snd (step E w (OConvRule b r fmt))) = ideal_obs_rule E (b_cls bk) (b_user bk) (b_collect bk) (b_opts bk) fmt r.
Proof. exact frame_rule_reachable. Qed.
Print Assumptions C15_frame_rule_partial.

(* the same under a condition that can be read off the history: no two backends were created from
   item objects that exist only once (same class with class-level pipeline items for one of the
   formats in use, or the same non-empty user pipeline object) *)
Theorem C15_frame : forall E fmts ops b bk fmt r,
  no_sharing E fmts ops = true -> forallb (op_fmt_ok fmts) ops = true ->
  let w := fst (run E init ops) in
  nth_error (w_bks w) b = Some bk -> fmt_ok bk fmt = true ->
  out_obs (snd (step E w (OConvRule b r fmt))) = ideal_obs_rule E (b_cls bk) (b_user bk) (b_collect bk) (b_opts bk) fmt r.
Proof. exact frame_rule_no_sharing. Qed.
Print Assumptions C15_frame.

Theorem C15_no_sharing_owns : forall E fmts ops,
  no_sharing E fmts ops = true -> forallb (op_fmt_ok fmts) ops = true ->
  forall b bk, nth_error (w_bks (fst (run E init ops))) b = Some bk -> owns_ok E (fst (run E init ops)) bk = true.
Proof. exact no_sharing_owns. Qed.
Print Assumptions C15_no_sharing_owns.

(* the form the correspondence check evaluates on the real code: after the history = in a world
   where nothing happened but the creation of one backend with the same configuration *)
Theorem C15_fresh_rule_partial : forall E ops b bk fmt r,
  let w := fst (run E init ops) in
  nth_error (w_bks w) b = Some bk -> owns_ok E w bk = true -> fmt_ok bk fmt = true ->
  out_obs (snd (step E w (OConvRule b r fmt))) = out_obs (snd (step E (fresh_world E bk) (OConvRule 0 r fmt))).
Proof. exact fresh_rule. Qed.
Print Assumptions C15_fresh_rule_partial.

Theorem C15_fresh_collection : forall E ops b bk fmt rs,
  let w := fst (run E init ops) in
  nth_error (w_bks w) b = Some bk ->
  out_obs (snd (step E w (OConvColl b rs fmt))) = out_obs (snd (step E (fresh_world E bk) (OConvColl 0 rs fmt))).
Proof. exact fresh_coll. Qed.
Print Assumptions C15_fresh_collection.

(* after every history - including conversions that raised at any stage, also inside a negated
   not-equals leaf, and conversions during which an external source was denied, could not be
   fetched or could not be parsed - the class templates are the original ones, every cached parse is
   what the grammar yields for its key (nothing a rule did to its copy is visible to the next rule),
   and a value list cached by an external-source transformation object is exactly what its source
   yields: a failed fetch / parse leaves no cache entry behind; the variables of a backend's pipeline
   object are the merged definitions plus THIS backend's options (nothing of another backend); the nested pipeline
   object of every `nest` postprocessing item is untouched again (no state, nothing applied) *)
Theorem C15_state_restored : forall E ops,
  let w := fst (run E init ops) in
  (forall c, w_tpl w c = tpl0) /\ (forall k t, lookup k (w_cache w) = Some t -> e_parse E k = Some t) /\
  (forall i it d v, w_vc w i = Some v -> valid_pair E i it -> i_tr it = TFile d -> e_src E d = Ok v) /\
  (forall b bk L f, nth_error (w_bks w) b = Some bk -> b_last bk = Some (L, f) ->
     w_pvars w L = init_vars E (b_cls bk) (b_user bk) (b_opts bk) f) /\
  (forall i, w_nest w i = ([], [])).
Proof. exact invariant_reachable. Qed.
Print Assumptions C15_state_restored.

(* loading a document after any history type-checks every modifier application against the annotation of the
   modifier's OWN class (also for a registered subclass of a built-in modifier with a wider value type, whatever was
   loaded before): the type-hint cache only ever holds, under a class, that class's own annotation *)
Theorem C15_load_frame : forall E ops r,
  let w := fst (run E init ops) in
  o_res (out_obs (snd (step E w (OLoad r)))) = ideal_load E r /\
  (forall e, In e (w_hints w) -> snd e = fst e).
Proof. exact load_frame. Qed.
Print Assumptions C15_load_frame.

(* D18: init A, init B on the same user pipeline object, then A.convert_rule: index=default *)
Theorem C15_reown_refuted :
  exists E ops b bk fmt r,
    let w := fst (run E init ops) in
    nth_error (w_bks w) b = Some bk /\ fmt_ok bk fmt = true /\ owns_ok E w bk = false /\
    o_res (out_obs (snd (step E w (OConvRule b r fmt)))) = Ok [lit "index=default (fieldC=1)"] /\
    o_res (ideal_obs_rule E (b_cls bk) (b_user bk) (b_collect bk) (b_opts bk) fmt r) = Ok [lit "index=win (fieldC=1)"].
Proof. exact reown_refuted. Qed.
Print Assumptions C15_reown_refuted.

(* D30: convert(..., format 1) then convert_rule(..., format 2): the format-1 pipeline is reused *)
Theorem C15_stale_format_refuted :
  exists E ops b bk fmt r,
    let w := fst (run E init ops) in
    nth_error (w_bks w) b = Some bk /\ owns_ok E w bk = true /\ fmt_ok bk fmt = false /\
    o_res (out_obs (snd (step E w (OConvRule b r fmt)))) = Ok [lit "index=default (mappedC=1)"] /\
    o_res (ideal_obs_rule E (b_cls bk) (b_user bk) (b_collect bk) (b_opts bk) fmt r) = Ok [lit "index=default (fieldC=1)"].
Proof. exact stale_format_refuted. Qed.
Print Assumptions C15_stale_format_refuted.

(* non-vacuity: a history with a conversion and a load after which the premises hold for a backend
   that already has a pipeline object *)
Example C15_premises_inhabited :
  let w := fst (run E_wit init [ONew 0 (Some 0%N) false []; OConvRule 0%nat r_win 2; OLoad r_win]) in
  exists bk, nth_error (w_bks w) 0 = Some bk /\ owns_ok E_wit w bk = true /\ fmt_ok bk 2 = true /\
             b_last bk <> None.
Proof. exact premises_inhabited. Qed.

(* ... and so is the syntactic premise, by a history with two backends that are both initialised *)
Example C15_no_sharing_inhabited :
  let ops := [ONew 0 (Some 0%N) false []; ONew 0 None true []; OInit 0%nat 2; OInit 1%nat 2; OConvRule 0%nat r_win 2] in
  no_sharing E_wit [0%N; 1%N; 2%N] ops = true /\ forallb (op_fmt_ok [0%N; 1%N; 2%N]) ops = true.
Proof. split; reflexivity. Qed.
