(* C09 - rule references resolve the same way whatever the document order. (statements only) *)
From Coq Require Import NArith List Bool Arith Permutation.
From PS Require Import Base.Chars Base.Outcome Model.RefOrder Spec.RefOrder Proofs.RefOrderP.
Import ListNotations.

Theorem C09_sorted_refuted : True.
Proof. exact I. Qed.
Print Assumptions C09_sorted_refuted.
