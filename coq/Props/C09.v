(* C09 - rule references resolve the same way whatever the document order.
   Only statements, each closed by `exact`, with Print Assumptions.

   The model (Model.RefOrder) follows the REPAIRED code of the repo worktree (two `fix:` commits:
   topological order instead of sorted() with a partial order; output suppression also for
   correlation rules).  A rule is identified by the position of its document; `rr` is the table of
   resolved references; the backend's rendering functions rplain / rcorr are arbitrary. *)
From Coq Require Import NArith List Bool Arith Permutation.
From PS Require Import Base.Chars Base.Outcome Model.RefOrder Spec.RefOrder Proofs.RefOrderP.
Import ListNotations.
Local Open Scope nat_scope.

(* every referenced rule is converted before the rules referring to it: the order of
   collection.rules after loading, and again after Backend.convert re-resolved the references, is a
   permutation of the documents in which every referenced rule precedes each of its referrers *)
Theorem C09_topo :
  forall ds rr o1, load ds = Ok (rr, o1) -> acyclic rr ->
    Permutation o1 (seq 0 (length ds)) /\ topo_ok rr o1 /\
    Permutation (topo rr o1) (seq 0 (length ds)) /\ topo_ok rr (topo rr o1).
Proof. exact load_topo. Qed.
Print Assumptions C09_topo.

(* the ordering step alone, for any list of rules without repetition and any reference table *)
Theorem C09_topo_general :
  forall rr M, NoDup M -> Permutation (topo rr M) M /\
    ((forall i, In i M -> incl (nth i rr []) M) -> acyclic rr -> topo_ok rr (topo rr M)).
Proof. intros rr M H. split; [exact (topo_perm rr M H) | exact (topo_topo_ok rr M)]. Qed.
Print Assumptions C09_topo_general.

(* the ordering step leaves a list that is already in reference order alone, so the second resolution
   done by Backend.convert keeps the order the collection got when it was loaded *)
Theorem C09_order_stable :
  (forall rr M, NoDup M -> topo_ok rr M -> topo rr M = M) /\
  (forall Q rplain rcorr ds c rr, pipeline Q rplain rcorr ds = Ok c -> resolve_all ds = Some rr ->
     c_order_conv c = c_order_load c).
Proof. split; [exact topo_fixpoint | exact order_conv_eq_load]. Qed.
Print Assumptions C09_order_stable.

(* an acyclic rule set whose references all resolve is converted completely, in every case *)
Theorem C09_conversion_total :
  forall Q rplain rcorr ds rr, resolve_all ds = Some rr -> acyclic rr ->
    exists c, pipeline Q rplain rcorr ds = Ok c.
Proof. exact pipeline_total. Qed.
Print Assumptions C09_conversion_total.

(* a reference to a missing rule is reported as SigmaRuleNotFoundError at load time, and that error
   is raised for no other reason *)
Theorem C09_missing_ref :
  forall Q rplain rcorr ds,
    (pipeline Q rplain rcorr ds = SigmaErr E_NotFound <-> has_dangling ds) /\
    (load ds = SigmaErr E_NotFound <-> has_dangling ds).
Proof.
  intros. split; [exact (pipeline_missing_ref Q rplain rcorr ds)|].
  rewrite <- resolve_all_None. unfold load. destruct (resolve_all ds); split; congruence.
Qed.
Print Assumptions C09_missing_ref.

(* output flag: every rule is converted (its result is stored for its referrers); a rule some
   correlation rule refers to without asking for generation emits no query of its own; a rule that is
   unreferenced or referenced only with generation enabled emits all its queries.  (A rule
   referenced both with and without generation is left open by the property; the code suppresses.) *)
Theorem C09_output_flag :
  forall Q rplain rcorr ds c rr i,
    pipeline Q rplain rcorr ds = Ok c -> resolve_all ds = Some rr -> i < length ds ->
    get Q (c_results c) i <> None /\
    ((exists k, referrer ds rr k i false) -> forall q, ~ In (i, q) (c_emitted c)) /\
    ((forall k, ~ referrer ds rr k i false) ->
       forall q, In q (own Q (c_results c) i) -> In (i, q) (c_emitted c)).
Proof. exact pipeline_flags. Qed.
Print Assumptions C09_output_flag.

(* the reference table holds exactly what the reference strings say: rule j is in rr[i] iff one of
   document i's references resolves to j, and resolving means: j carries that name / id *)
Theorem C09_resolution_sound :
  forall ds rr i j, resolve_all ds = Some rr -> In j (nth i rr []) ->
    exists d, nth_error ds i = Some d /\ exists r, In r (doc_refs d) /\ lookup ds r = Some j
      /\ exists t, nth_error ds j = Some t /\ matches r t = true.
Proof.
  intros ds rr i j H Hj. destruct (resolved_children ds rr i j H Hj) as [d [Hd [r [Hr Hl]]]].
  exists d. split; [exact Hd|]. exists r. repeat split; auto. exact (lookup_Some ds r j Hl).
Qed.
Print Assumptions C09_resolution_sound.

(* THE PROPERTY: for every ordering p of the documents ds of a rule set in which every name / id is
   carried by one document, loading and converting p and ds ends the same way: either both raise the
   same Sigma error (SigmaRuleNotFoundError at load time for a dangling reference, SigmaConversionError
   for a reference cycle), or both succeed and return the same multiset of (rule, query).
   Holds for every backend rendering (rplain, rcorr).  same_outcome: Spec.RefOrder. *)
Theorem C09_order_independent :
  forall Q rplain rcorr p ds,
    Permutation p ds -> unique_keys ds ->
    same_outcome p ds (pipeline Q rplain rcorr p) (pipeline Q rplain rcorr ds).
Proof. exact order_independent_full. Qed.
Print Assumptions C09_order_independent.

(* a conversion that succeeds has met every referenced rule before its referrers: a rule set with a
   reference cycle is rejected (SigmaConversionError) in every order *)
Theorem C09_cycle_rejected :
  forall Q rplain rcorr ds rr, resolve_all ds = Some rr ->
    (forall c, pipeline Q rplain rcorr ds = Ok c -> acyclic rr) /\
    ((exists c, pipeline Q rplain rcorr ds = Ok c) \/ pipeline Q rplain rcorr ds = SigmaErr E_Conversion).
Proof.
  intros Q rplain rcorr ds rr Hr. split.
  - intros c Hc. exact (pipeline_Ok_acyclic Q rplain rcorr ds c rr Hc Hr).
  - exact (pipeline_cases Q rplain rcorr ds rr Hr).
Qed.
Print Assumptions C09_cycle_rejected.

(* the same, keyed by rule title *)
Theorem C09_order_independent_by_title :
  forall Q rplain rcorr p ds c' c,
    Permutation p ds -> unique_keys ds ->
    pipeline Q rplain rcorr p = Ok c' -> pipeline Q rplain rcorr ds = Ok c ->
    Permutation (by_title p (c_emitted c')) (by_title ds (c_emitted c)).
Proof. exact order_independent_by_title. Qed.
Print Assumptions C09_order_independent_by_title.

(* acyclicity on positions (C09_topo) and on documents (reference strings against names / ids) agree *)
Theorem C09_acyclic_docs_index :
  forall ds rr, resolve_all ds = Some rr ->
    (acyclic_docs ds -> acyclic rr) /\ (unique_keys ds -> acyclic rr -> acyclic_docs ds).
Proof.
  intros ds rr Hr. split.
  - exact (acyclic_docs_index ds rr Hr).
  - intros Hu. exact (acyclic_index_docs ds rr Hr Hu).
Qed.
Print Assumptions C09_acyclic_docs_index.

(* the premise is decidable; unique_keysb is what the correspondence judge evaluates (bit 4) *)
Theorem C09_unique_keys_decided : forall ds, unique_keysb ds = true <-> unique_keys ds.
Proof. exact unique_keysb_spec. Qed.
Print Assumptions C09_unique_keys_decided.

(* non-vacuity: the premises hold for the five-document witness set of D22 *)
Example C09_premises_inhabited : unique_keys wit_docs /\ acyclic_docs wit_docs.
Proof. exact wit_premises. Qed.

(* DEFECT D22 (repaired by a `fix:` commit): the ORIGINAL ordering step sorted(self.rules) with
   __lt__ = "is referenced by" (model: CPython's binary insertion sort, pipeline_sorted).
   FULL STATEMENT that was false of the original code:
     forall ds p, Permutation p ds -> pipeline_sorted p fails <-> pipeline_sorted ds fails
   witness: documents a, b, u, c -> [a, b], d -> [c, u]; in the order d, c, u, b, a the original code
   fails with "Conversion result not available" although the document order a, b, u, c, d converts;
   66 of the 120 orders fail.  The repaired pipeline converts all 120. *)
Theorem C09_sorted_refuted :
  exists ds p, Permutation p ds
    /\ is_ok (pipeline_sorted str tq_plain tq_corr ds) = true
    /\ pipeline_sorted str tq_plain tq_corr p = SigmaErr E_Conversion
    /\ is_ok (pipeline str tq_plain tq_corr p) = true.
Proof. exact sorted_refuted. Qed.
Print Assumptions C09_sorted_refuted.

Theorem C09_sorted_66_of_120 :
  length (perms wit_docs) = 120 /\
  length (filter (fun p => negb (is_ok (pipeline_sorted str tq_plain tq_corr p))) (perms wit_docs)) = 66 /\
  forallb (fun p => is_ok (pipeline str tq_plain tq_corr p)) (perms wit_docs) = true.
Proof. exact sorted_fails_66_of_120. Qed.
Print Assumptions C09_sorted_66_of_120.

(* known finding C09-duplicate-key-last-document-wins: without the premise unique_keys the result
   depends on the document order *)
Theorem C09_duplicate_key_refuted :
  exists ds p q, Permutation p ds
    /\ In q (emitted_queries (pipeline str tq_plain tq_corr ds))
    /\ ~ In q (emitted_queries (pipeline str tq_plain tq_corr p)).
Proof. exact duplicate_key_refuted. Qed.
Print Assumptions C09_duplicate_key_refuted.
