(* C05 - String values keep their exact characters and wildcards in every rendering.
   Only statements, each closed by `exact`, with Print Assumptions. *)
From Coq Require Import NArith List Bool.
From Coq Require Import ZArith.
From PS Require Import Base.Chars Base.Outcome Model.SString Model.Slice Spec.Items Proofs.SStringP Proofs.ConvertP Proofs.SliceP Proofs.QuoteP Model.FieldName Proofs.FieldNameP Model.RxEscape Proofs.RxEscapeP.
Import ListNotations.

(* the parser of SigmaString.__init__ reads a source string exactly as the specification's
   item reader does, and produces the canonical grouping of those items *)
Theorem C05_parse_spec : forall s, parse true s = canon (iparse s) /\ items (parse true s) = iparse s.
Proof. intros s. split; [exact (parse_canon s) | exact (parse_items s)]. Qed.
Print Assumptions C05_parse_spec.

(* FULL STATEMENT (false of the faithful model, see the refutations below):
     forall l, parse true (to_plain false (canon l)) = canon l
   proved part: values in which no literal backslash is directly followed by a wildcard, a literal
   wildcard character or another backslash *)
Theorem C05_plain_roundtrip_partial :
  forall l, no_bs_adjacent l = true -> parse true (to_plain false (canon l)) = canon l.
Proof. exact plain_roundtrip. Qed.
Print Assumptions C05_plain_roundtrip_partial.

Theorem C05_plain_roundtrip_refuted :
  exists l, parse true (to_plain false (canon l)) <> canon l.
Proof. exact plain_roundtrip_refuted. Qed.
Print Assumptions C05_plain_roundtrip_refuted.

(* the target literal, read back by the target language's own escaping rules, yields exactly the
   literal characters and wildcard positions of the value (minus the filtered characters) *)
Theorem C05_convert_decode :
  forall K v q, wf_escaping K = true -> convert K v = Ok q ->
                tread K q = Some (filter_items K (items v)).
Proof. exact convert_decode. Qed.
Print Assumptions C05_convert_decode.

(* no break-out: the quoted literal emitted by convert_value_str, read by the target's own rules
   (opening quote, escape + any character, wildcard tokens, first unescaped quote closes), ends exactly
   at its last character and yields the value's items - no source character terminates the literal *)
Theorem C05_quoted_decode :
  forall K q v s, wf_quoting K q = true -> convert_quoted K q v = Ok s ->
                  qread (with_quote K q) q s = Some (filter_items K (items v)).
Proof. exact quoted_decode. Qed.
Print Assumptions C05_quoted_decode.

(* without the premise the statement is false, already for the shipped test backend *)
Theorem C05_unescaped_escape_refuted :
  exists v q, convert test_backend_cfg v = Ok q /\ tread test_backend_cfg q <> Some (items v).
Proof. exact convert_unescaped_escape_refuted. Qed.
Print Assumptions C05_unescaped_escape_refuted.

(* the regular-expression form denotes the same pattern, for every set of extra escaped characters *)
Theorem C05_regex_decode :
  forall custom v q, to_regex custom v = Ok q -> rdecode q = Some (items v).
Proof. exact regex_decode. Qed.
Print Assumptions C05_regex_decode.

(* the slices the backend takes to strip wildcards for startswith / endswith / contains keep
   exactly the remaining items: v[:k], v[:-k] (startswith uses v[:-1]), v[k:] (endswith uses v[1:])
   and v[1:-1] of a value starting with a wildcard (contains) *)
Theorem C05_slice_prefix : forall v k r, (0 <= k <= Z.of_nat (slen v))%Z ->
  getitem v None (Some k) = Ok r -> items r = firstn (Z.to_nat k) (items v).
Proof. exact slice_prefix. Qed.
Print Assumptions C05_slice_prefix.
Theorem C05_slice_prefix_neg : forall v k r, (0 < k <= Z.of_nat (slen v))%Z ->
  getitem v None (Some (- k)%Z) = Ok r -> items r = firstn (length (items v) - Z.to_nat k) (items v).
Proof. exact slice_prefix_neg. Qed.
Print Assumptions C05_slice_prefix_neg.
Theorem C05_slice_suffix : forall v k r, (0 <= k)%Z ->
  getitem v (Some k) None = Ok r -> items r = skipn (Z.to_nat k) (items v).
Proof. exact slice_suffix. Qed.
Print Assumptions C05_slice_suffix.
Theorem C05_slice_strip : forall p v r, (match p with PStr _ => False | _ => True end) ->
  getitem (p :: v) (Some 1%Z) (Some (-1)%Z) = Ok r -> items r = removelast (tl (items (p :: v))).
Proof. exact slice_strip. Qed.
Print Assumptions C05_slice_strip.
(* a slice with both bounds inside one plain part re-parses that substring: not faithful *)
Theorem C05_slice_inner_refuted : exists v r,
  getitem v (Some 1%Z) (Some 2%Z) = Ok r /\ items r <> firstn 1 (skipn 1 (items v)).
Proof. exists [PStr [97%N; c_star; 98%N]]. eexists. split; [reflexivity|]. vm_compute. discriminate. Qed.
Print Assumptions C05_slice_inner_refuted.

(* a rendered field name decodes to the original name: whenever the escape pattern covers the
   escape character itself and a quoted name has its quote characters escaped (or contains none) *)
Theorem C05_field_roundtrip : forall K ec pat, f_escape K = Some [ec] -> forall qd f,
  esc_covered ec pat 0 f ->
  (forall x, f_quote K = Some x -> qd = true -> x <> ec /\ (f_escape_quote K = true \/ ~ In x f)) ->
  fread (Some ec) (f_quote K) (match f_quote K with Some _ => qd | None => false end)
        (escape_and_quote_field K pat qd f) = Some f.
Proof. exact field_roundtrip. Qed.
Print Assumptions C05_field_roundtrip.
Theorem C05_field_quote_unescaped_refuted : exists f,
  fread None (Some 39%N) true (escape_and_quote_field test_backend_fcfg (fun _ => false) true f) <> Some f.
Proof. exact field_quote_unescaped_refuted. Qed.
Print Assumptions C05_field_quote_unescaped_refuted.

(* SigmaRegularExpression.escape with single-character escaped sequences that include the escape
   character itself: the target's reading of the escaped regular expression is the source text *)
Theorem C05_rx_escape_roundtrip : forall e cs s,
  rx_unescape (map (fun x => [x]) cs) [e] true
              (rx_escape (map (fun x => [x]) cs) [e] true false [] s) = s.
Proof. exact rx_escape_roundtrip. Qed.
Print Assumptions C05_rx_escape_roundtrip.

(* non-vacuity: the premises are met by a non-trivial configuration and value *)
Example C05_premises_inhabited :
  wf_escaping {| e_esc := Some c_bs; e_multi := Some [c_star]; e_single := Some [c_qm];
                 e_add := [c_bs; c_dq]; e_filter := [] |} = true /\
  no_bs_adjacent [Lit c_bs; Lit 97%N; Multi; Lit c_star] = true.
Proof. split; reflexivity. Qed.

(* ---- through the backend: the complete leaf renderer of TextQueryBackend on a string value ---- *)
From PS Require Import Model.StrOp Model.Leaf Spec.Atom Proofs.LeafStrP.
(* For every flag set of the verification backend (always-quoting), every field name and every string
   value, in both template contexts: the rendered text (operator selection, slicing, escaping, quoting of
   the value; escaping and quoting of the field name), decoded by the target language's own rules, is a
   string atom on the original field name with the source's case sensitivity whose pattern matches
   exactly the subjects the source pattern matches. *)
Theorem C05_backend_string_leaf : forall extra k neg f fo pm cased sv txt,
  wok extra = true -> k_qpat k = None ->
  fo_ok (W_of extra) f fo = true -> val_ok (W_of extra) f (LStr cased sv) = true ->
  render_leaf (vb k) neg f fo pm (LStr cased sv) = Ok txt ->
  exists a c op l, atom_decode (W_of extra) txt = Some a /\ a_pred a = AStr c op l /\
    a_field a = f /\ c = cased /\
    forall subj, wild_match (apattern op l) subj = wild_match (items sv) subj.
Proof. exact backend_string_leaf. Qed.
Print Assumptions C05_backend_string_leaf.
