(* C18 - CIDR expansion matches exactly the addresses of the network.
   Only statements, each closed by `exact`, with Print Assumptions.

   Vocabulary (Spec/Net.v, Model/Cidr.v):
     wf_net bits base len   len <= bits, base < 2^bits, host bits of base clear
     in_net bits base len a base <= a < base + 2^(bits-len)
     pat_matches p s        the pattern p, read as a Sigma string ('*' = wildcard), matches the text s
     show4 / show6          dotted-quad text / RFC 5952 text of an address
     expand4 / expand6      the pattern lists of SigmaCIDRExpression.expand() *)
From Coq Require Import NArith List Bool.
From PS Require Import Base.Chars Base.Outcome Model.SString Spec.Items Model.Cidr Spec.Net Proofs.CidrP Proofs.Cidr6P Proofs.Cidr6CoverP.
Import ListNotations.
Open Scope N_scope.

(* IPv4, exactness: a dotted-quad address is matched by some produced pattern iff it lies in the network *)
Theorem C18_v4_exact :
  forall base len, wf_net 32 base len -> forall a, a < 2 ^ 32 ->
    ((exists p, In p (expand4 base len) /\ pat_matches p (show4 a) = true) <-> in_net 32 base len a).
Proof. exact v4_exact. Qed.
Print Assumptions C18_v4_exact.

(* IPv4, irredundancy: every address of the network is matched by exactly one pattern (no two patterns
   overlap), addresses outside by none; every pattern matches some address of the network (so removing
   any pattern loses addresses); the list has no duplicates *)
Theorem C18_v4_irredundant :
  forall base len, wf_net 32 base len ->
    (forall a, a < 2 ^ 32 ->
       length (filter (fun p => pat_matches p (show4 a)) (expand4 base len))
       = if in_netb 32 base len a then 1%nat else 0%nat) /\
    (forall p, In p (expand4 base len) ->
       exists a, a < 2 ^ 32 /\ in_net 32 base len a /\ pat_matches p (show4 a) = true) /\
    NoDup (expand4 base len).
Proof. exact v4_irredundant. Qed.
Print Assumptions C18_v4_irredundant.

(* IPv4, count: 2^((8 - len mod 8) mod 8) patterns *)
Theorem C18_v4_count :
  forall base len, wf_net 32 base len ->
    length (expand4 base len) = N.to_nat (2 ^ ((8 - len mod 8) mod 8)).
Proof. exact v4_count. Qed.
Print Assumptions C18_v4_count.

(* the reader used by the correspondence check to decide exactness on integer ranges is correct:
   a pattern it accepts matches exactly the addresses of the range it returns *)
Theorem C18_pattern_range4_correct :
  forall p lo hi, pattern_range4 p = Some (lo, hi) ->
    forall a, a < 2 ^ 32 -> (pat_matches p (show4 a) = true <-> lo <= a /\ a < hi).
Proof. exact pattern_range4_ok. Qed.
Print Assumptions C18_pattern_range4_correct.

(* soundness of the oracle that decides IPv4 exactness on the implementation's output in the
   correspondence check (bit 2): if it accepts a pattern list for a network, every address is matched
   by exactly one pattern when it lies in the network and by none otherwise *)
Theorem C18_exact_cover4_sound :
  forall base len pats, exact_cover4 base len pats = true ->
    forall a, a < 2 ^ 32 ->
      length (filter (fun p => pat_matches p (show4 a)) pats)
      = if in_netb 32 base len a then 1%nat else 0%nat.
Proof. exact exact_cover4_sound. Qed.
Print Assumptions C18_exact_cover4_sound.

(* ---------------------------------------------------------------- IPv6
   Textual form: "the address" always means the compressed text ipaddress prints (RFC 5952: lower-case
   hex groups without leading zeros, the leftmost longest run of two or more zero groups written "::"),
   i.e. show6. The exploded form (2001:0db8:0000:...) and other spellings are NOT meant and are in
   general not matched by the patterns.

   FULL STATEMENT (false of the faithful model, see C18_v6_cover_refuted):
     forall a len x, wf_net 128 a len -> in_net 128 a len x ->
       exists pats, expand6 a len None = Ok pats /\ covered pats (show6 x) = true
   It holds - and is proved, C18_v6_cover - on the domain fixed_nonzero6: every completely fixed 16-bit
   group of every nibble-aligned subnet the expansion enumerates is non-zero (then no fixed group can
   take part in "::" compression, the texts of all addresses of a subnet share the fixed groups and the
   fixed nibbles of the partly fixed group, and the texts of the first and the last address differ
   right after them). The complement of that domain is the input class of known finding D20.
   A scoped /128 is excluded: its single pattern is the address text with the scope id. *)
Theorem C18_v6_cover :
  forall a len sc x,
    wf_net 128 a len -> (len = 128 -> sc = None) -> fixed_nonzero6 a len = true -> in_net 128 a len x ->
    exists pats, expand6 a len sc = Ok pats /\ covered pats (show6 x) = true.
Proof. exact v6_cover. Qed.
Print Assumptions C18_v6_cover.

(* IPv6 patterns are NOT exact, not even on that domain: they also match addresses outside the network
   (2001:db8::/33 yields "2001:db8:*", which matches 2001:db8:8000::; 1234:5678:1:ab00::/56 yields
   "1234:5678:1:ab*", which matches 1234:5678:1:ab::). The property only demands coverage for IPv6; the
   over-approximation is recorded here as a proved fact about the code, replayed on the real code. *)
Theorem C18_v6_exact_refuted :
  exists a len y pats,
    wf_net 128 a len /\ fixed_nonzero6 a len = true /\ y < 2 ^ 128 /\ ~ in_net 128 a len y /\
    expand6 a len None = Ok pats /\ covered pats (show6 y) = true.
Proof. exact v6_exact_refuted. Qed.
Print Assumptions C18_v6_exact_refuted.

(* what had been proved before C18_v6_cover: the prefix lengths 0 and 128 with no premise on the groups *)
Theorem C18_v6_cover_partial :
  forall a len x, wf_net 128 a len -> len = 0 \/ len = 128 -> in_net 128 a len x ->
    exists pats, expand6 a len None = Ok pats /\ covered pats (show6 x) = true.
Proof. exact v6_cover_trivial. Qed.
Print Assumptions C18_v6_cover_partial.

Theorem C18_v6_cover_refuted :
  exists a len x pats,
    wf_net 128 a len /\ in_net 128 a len x /\
    expand6 a len None = Ok pats /\ covered pats (show6 x) = false.
Proof. exact v6_cover_refuted. Qed.
Print Assumptions C18_v6_cover_refuted.

(* expand() raises nothing on a validated network (holds since the repair of D29: before it a scoped
   /128 such as fe80::1%eth0/128 raised IndexError) *)
Theorem C18_expand_total : forall n, exists pats, expand n = Ok pats.
Proof. exact expand_total. Qed.
Print Assumptions C18_expand_total.

(* backend rendering of the expansion (no cidr_expression): whatever convert_or_as_in and
   in_expressions_allow_wildcards are, the query the model renders - a value list only when the list may
   hold the patterns, else the (grouped) OR - read with the semantics the backend declares for value lists
   (literals unless wildcards are allowed) matches exactly the texts the pattern list matches.
   Premise: the patterns consist of plain characters and '*' (checked per case by the correspondence). *)
Theorem C18_render_semantics :
  forall or_as_in allow_wild pats t,
    forallb pat_chars pats = true ->
    rquery_matches allow_wild (render_struct or_as_in allow_wild pats) t = covered pats t.
Proof. exact render_semantics. Qed.
Print Assumptions C18_render_semantics.

(* non-vacuity: the premises are inhabited by a non-trivial network: 10.0.0.0/7 gives the two patterns "10." and "11." followed by the wildcard *)
Example C18_premises_inhabited :
  wf_net 32 167772160 7 /\ expand4 167772160 7 = [[49;48;46;42]; [49;49;46;42]].
Proof. split; [repeat split; vm_compute; congruence | vm_compute; reflexivity]. Qed.
