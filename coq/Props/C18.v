(* C18 - CIDR expansion matches exactly the addresses of the network.
   Only statements, each closed by `exact`, with Print Assumptions. *)
From Coq Require Import NArith List Bool.
From PS Require Import Base.Chars Base.Outcome Model.SString Spec.Items Model.Cidr Spec.Net Proofs.CidrP.
Import ListNotations.
Open Scope N_scope.

Theorem C18_v6_cover_refuted :
  exists a len x pats,
    wf_net 128 a len /\ in_net 128 a len x /\
    expand6 a len None = Ok pats /\ covered pats (show6 x) = false.
Proof. exact v6_cover_refuted. Qed.
Print Assumptions C18_v6_cover_refuted.
