(* C06 - Serialising a rule and loading it again preserves its meaning.
   Only statements, each closed by `exact`, with Print Assumptions.

   The model (Model/Serialize.v) covers the detection part: from_dict of the detections section,
   SigmaDetectionItem.to_plain (original values, key reconstruction through the reverse modifier
   table), SigmaDetection.to_plain (filter of None results, single-result shortcut, type cases,
   duplicate-key merge), SigmaDetections.to_dict.  What the modifier chain makes of the values is an
   arbitrary function `apply_mods` of (field, modifier classes, original values): every theorem
   holds for all such functions, so equality of the reloaded object gives equality of its condition
   trees, hence of the queries of every backend. *)
From Coq Require Import NArith ZArith List Bool.
From PS Require Import Base.Chars Base.Outcome Model.SString Spec.Items Model.Serialize Spec.RoundTrip
                       Proofs.SerializeP.
Import ListNotations.

(* the key written for an item is read back as the same field and modifier classes
   (reverse_modifier_mapping is a right inverse of modifier_mapping, no identifier contains '|') *)
Theorem C06_key_roundtrip :
  forall f ms, field_ok f -> parse_key (key_of f ms) = Ok (f, ms).
Proof. exact parse_key_of. Qed.
Print Assumptions C06_key_roundtrip.

(* every loaded field name satisfies the premise of the previous theorem *)
Theorem C06_loaded_field_ok : forall k f ms, parse_key k = Ok (f, ms) -> field_ok f.
Proof. exact parse_key_field. Qed.
Print Assumptions C06_loaded_field_ok.

(* FULL STATEMENT (false of the faithful model, see the refutations below):
     forall d r d', load d = Ok r -> to_dict r = Ok d' ->
       exists r', load d' = Ok r' /\ to_dict r' = Ok d' /\ cond_trees r' = cond_trees r
   proved part: on the domain dom_dets (Spec/RoundTrip.v: no literal backslash directly before a
   wildcard / literal wildcard character / backslash in non-regex strings (D10); written keys of one
   mapping pairwise different; no unbound null keyword; nested detections not all single plain values)
   the reloaded object is the SAME object, for every behaviour of the modifiers *)
Theorem C06_idempotent_partial :
  forall (T : Type) (apply_mods : option str -> list mcls -> list sval -> outcome T)
         defs c (r : dets T) defs' c',
    load_dets apply_mods defs c = Ok r -> dom_dets r = true -> dets_plain r = Ok (defs', c') ->
    exists r', load_dets apply_mods defs' c' = Ok r' /\ dets_plain r' = Ok (defs', c') /\ r' = r.
Proof.
  intros T ap defs c r defs' c' Hl Hd Hp. exists r.
  split; [exact (dets_reload ap defs c r defs' c' Hl Hd Hp) | split; [exact Hp | reflexivity]].
Qed.
Print Assumptions C06_idempotent_partial.

(* the same for one detection definition, any nesting depth *)
Theorem C06_detection_reload :
  forall (T : Type) (apply_mods : option str -> list mcls -> list sval -> outcome T) d (r : det T) d',
    load_def apply_mods d = Ok r -> dom r = true -> det_plain r = Ok d' -> load_def apply_mods d' = Ok r.
Proof. intros T ap d r d' Hl. exact (plain_reload ap r d' (load_inv ap d r Hl)). Qed.
Print Assumptions C06_detection_reload.

(* outside the domain the reloaded object differs (each witness replayed on the real code) *)
Theorem C06_idempotent_refuted_backslash :
  rt_differs [([115], DMap [([102], MOne (PStrV [92; 92; 42]))])]%N (COne [115]%N).
Proof. exact refuted_backslash. Qed.
Print Assumptions C06_idempotent_refuted_backslash.

Theorem C06_idempotent_refuted_alias_merge :
  exists defs c, rt_differs defs c.
Proof. eexists _, _. exact refuted_alias_merge. Qed.
Print Assumptions C06_idempotent_refuted_alias_merge.

Theorem C06_idempotent_refuted_null_keyword :
  exists defs c, rt_differs defs c.
Proof. eexists _, _. exact refuted_null_keyword. Qed.
Print Assumptions C06_idempotent_refuted_null_keyword.

Theorem C06_idempotent_refuted_nested_singles :
  exists defs c, rt_differs defs c.
Proof. eexists _, _. exact refuted_nested_singles. Qed.
Print Assumptions C06_idempotent_refuted_nested_singles.

(* fail closed: an object in which a transformation disabled the plain conversion of some item
   (original_value = None) is never written: to_plain ends in an error *)
Theorem C06_fail_closed_disabled :
  forall (T : Type) (r : det T), has_disabled r = true -> is_err (det_plain r) = true.
Proof. intros T. exact disabled_fails. Qed.
Print Assumptions C06_fail_closed_disabled.

Example C06_premises_inhabited :
  exists r d', load_dets apply_any sample_defs (CMany [[115]; [116]])%N = Ok r /\ dom_dets r = true /\
               dets_plain r = Ok d'.
Proof. exact premises_inhabited. Qed.

(* the merge path (two items written under the same key, e.g. through modifier aliases or after two
   fields were mapped to one): two single values become one key|all item holding both values ... *)
Theorem C06_merge_two_singles :
  forall k a b, infixb s_neq k = false -> infixb s_all k = false ->
    merge_all [] [(k, MOne a); (k, MOne b)] = Ok [((k ++ s_all)%list, MMany [a; b])].
Proof. exact merge_two_singles. Qed.
Print Assumptions C06_merge_two_singles.

(* ... and negated items are never merged (not a and not b is not not (a and b)): Sigma error *)
Theorem C06_merge_negated_refused :
  forall k v1 v2 md, infixb s_neq k = true -> md_get k md = Some v1 ->
    merge_step md (k, v2) = SigmaErr E_Value.
Proof. exact merge_neq_refused. Qed.
Print Assumptions C06_merge_negated_refused.

(* MEANING PRESERVATION OF THE MERGE PATH.  A written mapping is read as the AND of its entries; an entry
   is the AND (if `all` is among its modifier identifiers) or the OR of the atoms (key without `all`, value);
   h says which atoms hold and is arbitrary.  Whenever the merge loop of SigmaDetection.to_plain succeeds
   on the items' entries (any number of colliding keys, existing key|all scalar or list, any order), the
   mapping it writes holds under h exactly when all items hold: no term is lost, none is added. *)
Theorem C06_merge_preserves_meaning :
  forall h es md, Forall (fun kv => key_wf (fst kv)) es -> merge_all [] es = Ok md ->
    den_map h (map (fun kv => (fst kv, unwrap1 (snd kv))) md) = den_map h es.
Proof. exact merge_written_sound. Qed.
Print Assumptions C06_merge_preserves_meaning.

(* the premise key_wf ("|all" in k agrees with from_mapping's reading of the key) holds for every key
   to_plain writes *)
Theorem C06_written_keys_wf : forall f ms, field_ok f -> key_wf (key_of f ms).
Proof. exact key_of_wf. Qed.
Print Assumptions C06_written_keys_wf.

(* ARGUMENT PURITY.  from_dict modelled as the procedure Python runs (document passed by reference):
   the caller's dict is the same after the call, so the same dict can be loaded again (or dumped as
   YAML, or compared with to_dict of the loaded object) with the same result.  The correspondence ties
   this to the code: the argument after every from_dict call is part of the observed output and must
   equal the model's (i.e. the argument before the call). *)
Theorem C06_load_leaves_argument :
  forall (T : Type) (ap : option str -> list mcls -> list sval -> outcome T) arg,
    snd (from_dict_proc ap arg) = arg.
Proof. reflexivity. Qed.
Print Assumptions C06_load_leaves_argument.

Theorem C06_load_twice_same :
  forall (T : Type) (ap : option str -> list mcls -> list sval -> outcome T) arg,
    fst (from_dict_proc ap (snd (from_dict_proc ap arg))) = fst (from_dict_proc ap arg).
Proof. reflexivity. Qed.
Print Assumptions C06_load_twice_same.
