(* C04 - Encoding modifiers find the payload in encoded data at every alignment.
   Only statements, each closed by `exact`, with Print Assumptions.
   Model: Model.Enc (sigma/modifiers.py SigmaBase64Modifier, SigmaBase64OffsetModifier, SigmaWideModifier,
   SigmaUTF16BEModifier, SigmaUTF16Modifier, sigma/types.py SigmaString.__bytes__, after the repairs D7, D8, D29).
   Specification: Spec.B64 (RFC 4648 over bit strings, "occurs in"), Spec.Utf (UTF-8, UTF-16). *)
From Coq Require Import NArith Arith List Bool.
From PS Require Import Base.Chars Base.Outcome Model.SString Spec.Items Spec.Utf Spec.B64 Model.Enc
     Proofs.B64P Proofs.UtfP Proofs.EncP Proofs.ChainP.
Import ListNotations.
Open Scope N_scope.

(* b64encode (three octets -> four characters, arithmetic) is RFC 4648 for every octet string *)
Theorem C04_b64 : forall p, bytes_ok p = true -> b64 p = rfc4648 p.
Proof. exact b64_rfc4648. Qed.
Print Assumptions C04_b64.

(* CPython's strict UTF-8 decoder, as used by the wide modifiers, accepts exactly the UTF-8 forms of
   strings of Unicode scalar values and returns that string *)
Theorem C04_utf8_decoder_exact :
  (forall bs s, utf8_dec bs = Some s -> utf8 s = bs /\ forallb scalar s = true) /\
  (forall s, forallb scalar s = true -> utf8_dec (utf8 s) = Some s).
Proof. exact (conj utf8_dec_sound utf8_dec_complete). Qed.
Print Assumptions C04_utf8_decoder_exact.

(* base64: the value is the standard Base64 text of the payload's UTF-8 bytes *)
Theorem C04_base64_value : forall v x, contains_placeholder v = false -> mod_str MBase64 v = Ok x ->
  exists w, x = VStr w /\ all_lit (items v) = true /\ items w = map Lit (rfc4648 (utf8 (lits (items v)))).
Proof. exact base64_value. Qed.
Print Assumptions C04_base64_value.

(* ... and it rejects only wildcards and strings that cannot be encoded *)
Theorem C04_base64_reject : forall m v e, m = MBase64 \/ m = MBase64Offset -> mod_str m v = SigmaErr e ->
  contains_special v = true \/ forallb scalar (to_plain true v) = false.
Proof. exact base64_reject. Qed.
Print Assumptions C04_base64_reject.

(* wide / utf16be: the bytes of the value are the UTF-16LE / UTF-16BE encoding of the payload,
   wildcards and placeholders stay where they are *)
Theorem C04_wide_bytes : forall v x, mod_str MWide v = Ok x ->
  exists w, x = VStr w /\ vstream w = stream utf16le_char (items v).
Proof. exact wide_bytes. Qed.
Print Assumptions C04_wide_bytes.

Theorem C04_utf16be_bytes : forall v x, mod_str MUtf16be v = Ok x ->
  exists w, x = VStr w /\ vstream w = stream utf16be_char (items v).
Proof. exact utf16be_bytes. Qed.
Print Assumptions C04_utf16be_bytes.

(* they reject only when a string part cannot be encoded, or when no string value at all has the
   required bytes (so that rejecting is the only alternative) *)
Theorem C04_wide_reject : forall (f : char -> list N) v e, recode (flat_map f) v = SigmaErr e ->
  exists s, In (PStr s) v /\
    (forallb scalar s = false \/ forall s', forallb scalar s' = true -> utf8 s' <> flat_map f s).
Proof. exact recode_reject. Qed.
Print Assumptions C04_wide_reject.

(* FULL STATEMENT for utf16 (false of the faithful model, finding D9):
     forall v w, mod_str MUtf16 v = Ok (VStr w) -> vstream w = map SB bom_le ++ stream utf16le_char (items v)
   proved part: the content is UTF-16LE, but the mark in front of it is EF BB BF *)
Theorem C04_utf16_bytes_partial : forall v x, mod_str MUtf16 v = Ok x ->
  exists w, x = VStr w /\ vstream w = map SB [239; 187; 191] ++ stream utf16le_char (items v).
Proof. exact utf16_bytes_partial. Qed.
Print Assumptions C04_utf16_bytes_partial.

Theorem C04_utf16_bom_refuted : exists v w, mod_str MUtf16 v = Ok (VStr w) /\
  vstream w <> map SB bom_le ++ stream utf16le_char (items v).
Proof. exact utf16_bom_refuted. Qed.
Print Assumptions C04_utf16_bom_refuted.

(* base64offset, on octet strings: the i-th slice is exactly the text of the complete 6-bit groups of
   the payload's bits after its first 0 / 4 / 2 bits ... *)
Theorem C04_offset_slices : forall i p, (i < 3)%nat -> bytes_ok p = true ->
  variant i p = payload_text i p /\ length (variant i p) = ((8 * length p - lead_bits i) / 6)%nat.
Proof. exact (fun i p Hi Hp => conj (variant_payload_text i p Hi Hp) (variant_length i p Hi Hp)). Qed.
Print Assumptions C04_offset_slices.

(* ... every byte string that contains the payload has a Base64 text that contains one of the three values ... *)
Theorem C04_offset_hit : forall pre p suf, bytes_ok (pre ++ p ++ suf) = true ->
  exists i, (i < 3)%nat /\ infix (variant i p) (rfc4648 (pre ++ p ++ suf)).
Proof. exact offset_hit_rfc. Qed.
Print Assumptions C04_offset_hit.

(* ... every value is implied by the payload alone: whatever surrounds the payload at alignment i,
   value i stands at the corresponding position of the text ... *)
Theorem C04_offset_payload_only : forall i pre p suf,
  (length pre mod 3 = i)%nat -> p <> [] -> bytes_ok (pre ++ p ++ suf) = true ->
  occurs_at (4 * (length pre / 3) + start_off i)%nat (variant i p) (rfc4648 (pre ++ p ++ suf)).
Proof. exact offset_payload_only_rfc. Qed.
Print Assumptions C04_offset_payload_only.

(* ... and no value contains padding *)
Theorem C04_offset_no_padding : forall i p, ~ In c_pad (payload_text i p).
Proof. exact payload_text_no_padding. Qed.
Print Assumptions C04_offset_no_padding.

(* the base64offset modifier returns these three texts for the UTF-8 bytes of the payload *)
Theorem C04_offset_value : forall v x, contains_placeholder v = false -> mod_str MBase64Offset v = Ok x ->
  exists w0 w1 w2, x = VExp [VStr w0; VStr w1; VStr w2] /\ all_lit (items v) = true
    /\ bytes_ok (utf8 (lits (items v))) = true
    /\ items w0 = map Lit (variant 0 (utf8 (lits (items v))))
    /\ items w1 = map Lit (variant 1 (utf8 (lits (items v))))
    /\ items w2 = map Lit (variant 2 (utf8 (lits (items v)))).
Proof. exact base64offset_value. Qed.
Print Assumptions C04_offset_value.

(* end to end, from the source text of the value: chains  base64, wide|base64, utf16be|base64 *)
Theorem C04_chain_base64 : forall e f s xs, enc_fun e = Some f ->
  from_mapping (e ++ [MBase64]) [PVStr s] = Ok xs ->
  exists w, xs = [VStr w] /\ all_lit (iparse s) = true
            /\ items w = map Lit (rfc4648 (flat_map f (lits (iparse s)))).
Proof. exact chain_base64. Qed.
Print Assumptions C04_chain_base64.

(* chains  base64offset, wide|base64offset, utf16be|base64offset: for every byte string that contains
   the encoded payload, the RFC 4648 text of that byte string contains one of the produced values *)
Theorem C04_chain_base64offset : forall e f s xs, enc_fun e = Some f ->
  from_mapping (e ++ [MBase64Offset]) [PVStr s] = Ok xs ->
  let B := flat_map f (lits (iparse s)) in
  exists w0 w1 w2, xs = [VExp [VStr w0; VStr w1; VStr w2]] /\ all_lit (iparse s) = true
    /\ items w0 = map Lit (variant 0 B) /\ items w1 = map Lit (variant 1 B) /\ items w2 = map Lit (variant 2 B)
    /\ (forall pre suf, bytes_ok pre = true -> bytes_ok suf = true ->
          exists w, In w [w0; w1; w2] /\ infix (lits (items w)) (rfc4648 (pre ++ B ++ suf))).
Proof. exact chain_base64offset. Qed.
Print Assumptions C04_chain_base64offset.

(* a value or a Sigma error: no chain of these modifiers ends in any other exception *)
Theorem C04_no_crash : forall ms ps c, from_mapping ms ps <> Crash c.
Proof. exact from_mapping_no_crash. Qed.
Print Assumptions C04_no_crash.

(* the boolean search of the correspondence judge decides "occurs in" *)
Theorem C04_infixb_spec : forall v t, infixb v t = true <-> infix v t.
Proof. exact infixb_spec. Qed.
Print Assumptions C04_infixb_spec.

(* non-vacuity: the premises are inhabited by non-trivial values *)
Example C04_premises_inhabited :
  bytes_ok ([255; 1] ++ utf8 [228; 98] ++ [32]) = true /\
  enc_fun [MWide] = Some utf16le_char /\
  (exists xs, from_mapping ([MWide] ++ [MBase64Offset]) [PVStr [97; 92; 42; 98]] = Ok xs) /\
  (exists x, mod_str MWide [PStr [65664; 128]] = Ok x) /\
  (exists e, mod_str MWide [PStr [233]] = SigmaErr e) /\
  variant 1 (utf8 [228; 98]) = [79; 107; 89].
Proof.
  split; [reflexivity|]. split; [reflexivity|].
  split; [eexists; vm_compute; reflexivity|].
  split; [eexists; vm_compute; reflexivity|].
  split; [eexists; vm_compute; reflexivity|]. vm_compute. reflexivity.
Qed.
