(* C04 - placeholder, theorems follow *)
From Coq Require Import NArith List Bool.
