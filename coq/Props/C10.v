(* C10 - correlation queries carry every element of the correlation rule.
   Only statements, each closed by `exact`, with Print Assumptions.
   Model/Corr.v is the model of the converter for the verification backend of impl/c10.py (every
   template element is a tagged bracket <tag|...>); Spec/CorrSpec.v `expected` is the tree the
   property demands, built per element from the rule document, the referenced rules' own queries
   and the per-name renaming of the pipeline. *)
From Coq Require Import List NArith ZArith Bool.
From PS Require Import Base.Chars Base.Outcome Model.Backend Spec.Target Model.BTree Model.Corr Spec.CorrSpec
                       Proofs.BackendDomP Proofs.BTreeP Proofs.CorrP.
Import ListNotations.

(* the text format is lossless: printing a well-formed bracket tree and reading the text back gives
   the tree (unbounded depth and width; the reader's fuel always suffices) *)
Theorem C10_tree_roundtrip : forall l, wfl l = true -> readc (showc l) = Some l.
Proof. exact read_show. Qed.
Print Assumptions C10_tree_roundtrip.

(* FULL STATEMENT (false of the faithful model, see the refutations below):
     forall K P r t, clean_rule r = true -> convc K P r = Ok t ->
       exists t', readc (showc t) = Some t' /\ expected K P r = Ok (normalize (first_id r) t')
   proved part: for every backend variant K (precedence, templates present or absent, timespan mode,
   finalisation), every pipeline P of field mappings / prefixes / suffixes with or without log source
   conditions and every correlation rule r (any type, any number of referenced rules with any number
   of queries each, any aliases / group-by / fields / condition) in the domain
     dom = all names bracket-free
           /\ alias entries and rule references that mean the same rule are spelled the same
           /\ every conditioned pipeline item applies to all referenced rules or to none,
   the emitted text reads back to a tree that equals the specification's tree: every referenced
   rule's own queries (plain or correlation rule alike: finalised iff the backend opts in) in
   reference order with name-or-id tags, per-rule alias normalisations with
   renamed targets, time span, group-by, fields, operator, count, field, percentile, rule ids. *)
Theorem C10_readback_partial : forall K P r t, dom K P r = true -> convc K P r = Ok t ->
  exists t', readc (showc t) = Some t' /\ expected K P r = Ok (normalize (first_id r) t').
Proof. exact readback. Qed.
Print Assumptions C10_readback_partial.

Theorem C10_alias_other_identifier_refuted :
  exists K P r t, clean_rule r = true /\ convc K P r = Ok t /\ expected K P r <> Ok (normalize (first_id r) t).
Proof. exact alias_other_identifier_refuted. Qed.
Print Assumptions C10_alias_other_identifier_refuted.

Theorem C10_conditioned_renaming_refuted :
  exists K P r t, clean_rule r = true /\ convc K P r = Ok t /\ expected K P r <> Ok (normalize (first_id r) t).
Proof. exact conditioned_renaming_refuted. Qed.
Print Assumptions C10_conditioned_renaming_refuted.

(* the time span: seconds = count x unit length for each of the seven units (and nothing else is a
   unit), the count is Python's int() of everything before the unit, and the number printed in
   seconds mode reads back as exactly count x unit length *)
Theorem C10_timespan : forall spec t, parse_ts spec = Some t ->
  exists len, unit_len (t_unit t) = Some len /\ t_seconds t = (t_count t * len)%Z /\
              py_int (render_ts TsSeconds spec t) = Some (t_count t * len)%Z /\
              (exists body, spec = body ++ [t_unit t] /\ py_int body = Some (t_count t)).
Proof. exact timespan_seconds. Qed.
Print Assumptions C10_timespan.

Theorem C10_unit_table :
  unit_len 115 = Some 1%Z /\ unit_len 109 = Some 60%Z /\ unit_len 104 = Some 3600%Z /\
  unit_len 100 = Some 86400%Z /\ unit_len 119 = Some 604800%Z /\ unit_len 77 = Some 2629746%Z /\
  unit_len 121 = Some 31556952%Z /\
  (forall u, u <> 115 -> u <> 109 -> u <> 104 -> u <> 100 -> u <> 119 -> u <> 77 -> u <> 121 -> unit_len u = None)%N.
Proof. exact unit_table. Qed.
Print Assumptions C10_unit_table.

(* str(int) followed by int() is the identity (counts, percentiles, seconds) *)
Theorem C10_int_roundtrip : forall z, py_int (dec_of_Z z) = Some z.
Proof. exact py_int_dec. Qed.
Print Assumptions C10_int_roundtrip.

(* an extended condition keeps its and/or/not structure: for each of the six precedence orders, with
   or without `parenthesize`, the emitted tokens, read by the target language's own precedence rules,
   denote the boolean function of the condition tree over the rule references - for every truth
   assignment (instance of C01_structure with rule references as atoms) *)
Theorem C10_extended_structure : forall K asg t, cfg_ok K = true -> xshape t = true ->
  exists f, pe (lvl K) asg f 3 (conv (xcfg K) false t) = Some (den asg t, []).
Proof. exact ext_structure. Qed.
Print Assumptions C10_extended_structure.

(* FULL STATEMENT for the rule references inside an extended condition (each printed atom carries the
   name-or-id that tags the rule's queries in the search part) is false of the faithful model: *)
Theorem C10_extended_reference_spelling_refuted :
  exists K r t xn, convc K [] r = Ok t /\ find_x t = Some xn /\
                   lex_nodes (map (fun rf => ruleid (rr_info rf)) (referenced r)) xn = None.
Proof. exact extended_reference_spelling_refuted. Qed.
Print Assumptions C10_extended_reference_spelling_refuted.

(* the pipeline on the correlation rule, item by item with its error cases, is the per-name renaming:
   fields and group-by name by name (alias names untouched), alias targets and condition field by the
   renaming that must yield exactly one name *)
Theorem C10_pipeline_per_name : forall P cats st st', run_pipeline P cats st = Ok st' ->
  ps_fields st' = flat_map (renl P cats) (ps_fields st) /\
  Forall2 (al_rel (ren1 P cats)) (ps_aliases st) (ps_aliases st') /\
  ps_gb st' = option_map (flat_map (reng P cats (map fst (ps_aliases st)))) (ps_gb st) /\
  cf_rel (ren1 P cats) (ps_cf st) (ps_cf st').
Proof. exact run_pipeline_spec. Qed.
Print Assumptions C10_pipeline_per_name.

(* field-name pipelines rename alias targets and the condition field consistently with the renaming
   applied to the referenced rules: the new name in the correlation query is what the pipeline makes
   of that very field in each referenced rule (ref_fields is the pipeline run on that rule) *)
Theorem C10_mapping_consistent : forall K P r st,
  sdom K P r = true ->
  run_pipeline P (flat_map (fun rf => ri_cats (rr_info rf)) (referenced r))
    {| ps_fields := r_fields r; ps_aliases := r_aliases r; ps_gb := r_gb r;
       ps_cf := match the_cond r with CBasic _ _ f _ => f | CExt _ => FNone end |} = Ok st ->
  Forall2 (fun am am' : str * list (str * nat * str) =>
             fst am = fst am' /\
             Forall2 (fun e e' : str * nat * str =>
                        fst e = fst e' /\
                        forall rf, In rf (referenced r) ->
                                   ref_fields P (ri_cats (rr_info rf)) [snd e] = [snd e'])
                     (snd am) (snd am'))
          (r_aliases r) (ps_aliases st)
  /\ match the_cond r, ps_cf st with
     | CBasic _ _ (FOne x) _, FOne y =>
         forall rf, In rf (referenced r) -> ref_fields P (ri_cats (rr_info rf)) [x] = [y]
     | _, _ => True
     end.
Proof. exact mapping_consistent. Qed.
Print Assumptions C10_mapping_consistent.

(* non-vacuity: a two-rule correlation with aliases, group-by and a renaming pipeline lies in the
   domain and converts; so do an extended condition over two rules and a correlation rule that
   references another correlation rule on a backend without sub-query finalisation *)
Example C10_premises_inhabited :
  dom K0 P_good r_good = true /\ (exists t, convc K0 P_good r_good = Ok t) /\
  dom K0 [] r_hex = true /\ cfg_ok (k_cfg K0) = true /\
  dom K0 [] r_nested = true /\ (exists t, convc K0 [] r_nested = Ok t).
Proof. exact premises_inhabited. Qed.
