(* C10 - correlation queries carry every element of the correlation rule. *)
From Coq Require Import List NArith ZArith Bool.
From PS Require Import Base.Chars Base.Outcome Model.Backend Spec.Target Model.BTree Model.Corr Spec.CorrSpec
                       Proofs.BackendDomP Proofs.BTreeP Proofs.CorrP.
Import ListNotations.
