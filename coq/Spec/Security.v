(* C16 - specification: what it means that a pipeline document cannot grant itself capabilities.
   Stated over what can be observed from outside: the capability flags found on instantiated objects, the
   trace of effects (process / file / network / exec of a vars file), the caller's arguments and the two
   environment variables.  Nothing here refers to how documents are parsed. *)
From Coq Require Import String Ascii.
From Coq Require Import NArith ZArith List Bool.
From PS Require Import Base.Chars Base.Outcome Model.Security.
Import ListNotations.
Open Scope N_scope.

(* ---------- the documented environment opt-in: the value is "1" or "true" in any letter case ---------- *)
Fixpoint case_variants (s : str) : list str :=
  match s with
  | [] => [[]]
  | c :: r => flat_map (fun v => [c :: v; (c - 32) :: v]) (case_variants r)
  end.
Definition env_grants (v : option str) : bool :=
  match v with None => false | Some s => mem_str s (s_one :: case_variants s_true) end.

(* ---------- component-wise containment ---------- *)
Definition is_prefix (b p : list str) : Prop := exists rest, p = b ++ rest.
Fixpoint is_prefixb (b p : list str) : bool :=
  match b, p with
  | [], _ => true
  | x :: b', y :: p' => str_eqb x y && is_prefixb b' p'
  | _ :: _, [] => false
  end.

(* a realpath oracle is well formed when every component is non-empty and free of the separator *)
Definition wf_comp (c : str) : Prop := c <> [] /\ ~ In c_sl c.
Definition wf_real (r : str -> list str) : Prop := forall s, Forall wf_comp (r s).

(* ---------- what an observer sees of the instantiated pipeline ---------- *)
Inductive onode :=
| OExt (s : source) (flag : bool)
| OTpl (vars : option str) (tv : bool) (ap : option (list str))
| OPlain
| ONest (l : list onode).
Record otree := { o_items : list onode; o_post : list onode; o_fin : list onode }.

Fixpoint obs (n : node) : onode :=
  match n with
  | NExt s _ f => OExt s f
  | NTpl v tv ap => OTpl v tv ap
  | NWild _ | NPlain => OPlain
  | NGuard _ n' => obs n'
  | NNest l => ONest (map obs l)
  end.
Definition obs_tree (t : tree) : otree :=
  {| o_items := map obs (t_items t); o_post := map obs (t_post t); o_fin := map obs (t_fin t) |}.

(* capability flags found on the objects: an item's own flag, the flags of everything nested below it,
   and the capability pairs of template objects at any depth *)
Fixpoint all_flags (n : onode) : list bool :=
  match n with
  | OExt _ f => [f]
  | ONest l => flat_map all_flags l
  | _ => []
  end.
Definition top_flags (n : onode) : list bool := match n with OExt _ f => [f] | _ => [] end.
Definition nested_flags (n : onode) : list bool := match n with ONest l => flat_map all_flags l | _ => [] end.
Fixpoint tpl_caps (n : onode) : list (option str * bool * option (list str)) :=
  match n with
  | OTpl v tv ap => [(v, tv, ap)]
  | ONest l => flat_map tpl_caps l
  | _ => []
  end.
Definition tree_nodes (t : otree) : list onode := o_items t ++ o_post t ++ o_fin t.
Definition tree_ext_flags (t : otree) := flat_map all_flags (tree_nodes t).
Definition tree_tpl_caps (t : otree) := flat_map tpl_caps (tree_nodes t).

(* ---------- the property on one observation ---------- *)
(* an effect is permitted only by the caller's opt-in or the environment; an executed vars file lies,
   component-wise, below one of the base directories in force *)
Definition effect_permitted (a : args) (gext gtv : bool) (physb : str -> list str) (e : effect) : bool :=
  match e with
  | ERead _ | ERun _ _ | ENet _ => a_ext a || gext
  | EExec p =>
    (a_tv a || gtv) &&
    match a_ap a with None => true | Some bs => existsb (fun b => is_prefixb (physb b) p) bs end
  end.

(* observed flags never exceed what the caller passed *)
Definition ap_within (physb : str -> list str) (observed inforce : option (list str)) : bool :=
  match observed, inforce with
  | _, None => true
  | None, Some _ => false
  | Some o, Some e => forallb (fun b => existsb (fun b' => is_prefixb (physb b') (physb b)) e) o
  end.
Definition flags_permitted (a : args) (physb : str -> list str) (t : otree) : bool :=
  forallb (fun f => implb f (a_ext a)) (tree_ext_flags t) &&
  forallb (fun c => let '(_, tv, ap) := c in implb tv (a_tv a) && ap_within physb ap (a_ap a)) (tree_tpl_caps t).

(* without a grant for vars execution no successfully loaded pipeline contains a template with vars *)
Definition no_vars_without_grant (a : args) (gtv : bool) (t : otree) : bool :=
  (a_tv a || gtv) || forallb (fun c => let '(v, _, _) := c in match v with None => true | Some _ => false end) (tree_tpl_caps t).

(* `unsandboxed`: some template object of the loaded pipeline evaluates its template outside Jinja2's sandbox
   (a document could then reach os / subprocess from the template text: an ungated effect) *)
Definition spec_ok (a : args) (gext gtv : bool) (physb : str -> list str)
           (t : option otree) (trace : list effect) (leak unsandboxed : bool) : bool :=
  forallb (effect_permitted a gext gtv physb) trace &&
  match t with Some t => flags_permitted a physb t && no_vars_without_grant a gtv t | None => true end &&
  implb leak (a_ext a || gext) && negb unsandboxed.

(* ---------- documents equal up to the opt-in keys at item positions ---------- *)
(* strip_doc removes the three opt-in keys from every transformation and post-processing item (recursively
   through the `items` of nested items) and from every top-level finalizer, and the two template keys from
   every nested finalizer (recursively through `finalizers`).  Two documents are equal modulo the opt-in keys
   when their stripped forms coincide. *)
Fixpoint strip_item (d : yv) : yv :=
  match d with
  | YMap m =>
    YMap (remove_keys [k_tv; k_ap; k_ext]
            (map (fun kv => match kv with
                            | (k, YList l) => if str_eqb k_items k then (k, YList (map strip_item l)) else kv
                            | _ => kv
                            end) m))
  | _ => d
  end.
Fixpoint strip_fin (top : bool) (d : yv) : yv :=
  match d with
  | YMap m =>
    YMap (remove_keys (if top then [k_tv; k_ap; k_ext] else [k_tv; k_ap])
            (map (fun kv => match kv with
                            | (k, YList l) => if str_eqb k_finalizers k then (k, YList (map (strip_fin false) l)) else kv
                            | _ => kv
                            end) m))
  | _ => d
  end.
Definition strip_doc (d : yv) : yv :=
  match d with
  | YMap m =>
    YMap (map (fun kv =>
                 match kv with
                 | (k, YList l) =>
                   if str_eqb k k_transformations then (k, YList (map strip_item l))
                   else if str_eqb k k_postprocessing then (k, YList (map strip_item l))
                   else if str_eqb k k_finalizers then (k, YList (map (strip_fin true) l))
                   else kv
                 | _ => kv
                 end) m)
  | _ => d
  end.
Definition same_modulo_optin_keys (d d' : yv) : Prop := strip_doc d = strip_doc d'.
