(* Specification of the Unicode encoding forms used by the encoding modifiers:
   UTF-8 (RFC 3629) and UTF-16 (RFC 2781) of a string of code points. *)
From Coq Require Import NArith List Bool.
From PS Require Import Base.Chars Model.SString Spec.Items.
Import ListNotations.
Open Scope N_scope.

(* Unicode scalar values: code points that are not surrogates *)
Definition scalar (c : N) : bool := (c <? 55296) || ((57343 <? c) && (c <? 1114112)).

Definition utf8_char (c : N) : list N :=
  if c <? 128 then [c]
  else if c <? 2048 then [192 + c / 64; 128 + c mod 64]
  else if c <? 65536 then [224 + c / 4096; 128 + (c / 64) mod 64; 128 + c mod 64]
  else [240 + c / 262144; 128 + (c / 4096) mod 64; 128 + (c / 64) mod 64; 128 + c mod 64].
Definition utf8 (s : str) : list N := flat_map utf8_char s.

(* 16-bit code units: BMP characters stand for themselves, the others are split into a high
   (D800 + upper ten bits) and a low (DC00 + lower ten bits) surrogate of c - 10000h *)
Definition utf16_units (c : N) : list N :=
  if c <? 65536 then [c]
  else [55296 + (c - 65536) / 1024; 56320 + (c - 65536) mod 1024].
Definition le2 (u : N) : list N := [u mod 256; u / 256].
Definition be2 (u : N) : list N := [u / 256; u mod 256].
Definition utf16le_char (c : N) : list N := flat_map le2 (utf16_units c).
Definition utf16be_char (c : N) : list N := flat_map be2 (utf16_units c).
Definition utf16le (s : str) : list N := flat_map utf16le_char s.
Definition utf16be (s : str) : list N := flat_map utf16be_char s.
Definition bom_le : list N := [255; 254].     (* U+FEFF in little-endian byte order *)

(* The byte content of a value that may contain wildcards: every literal character contributes
   its encoding, wildcards and placeholders stay in place. *)
Inductive sitem := SB (b : N) | SW (i : item).
Definition stream (f : char -> list N) (l : list item) : list sitem :=
  flat_map (fun i => match i with Lit c => map SB (f c) | w => [SW w] end) l.
(* the bytes of a value = UTF-8 of its characters *)
Definition vstream (v : sstring) : list sitem := stream utf8_char (items v).

Definition lits (l : list item) : str :=
  flat_map (fun i => match i with Lit c => [c] | _ => [] end) l.
Definition all_lit (l : list item) : bool :=
  forallb (fun i => match i with Lit _ => true | _ => false end) l.

Definition sitem_eqb (a b : sitem) : bool :=
  match a, b with
  | SB x, SB y => N.eqb x y
  | SW x, SW y => item_eqb x y
  | _, _ => false
  end.
