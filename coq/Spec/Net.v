(* Specification side of C18: membership of an address in a network as an integer range, the
   Sigma wildcard semantics of a produced pattern (Spec.Items.wild_match on the pattern read as a
   Sigma string), and an executable reader of IPv4 patterns into integer ranges (pattern_range4,
   proved correct in Proofs/CidrP.v) with which exactness is decided on ranges, not samples. *)
From Coq Require Import NArith List Bool.
From PS Require Import Base.Chars Model.SString Spec.Items Model.Cidr.
Import ListNotations.
Open Scope N_scope.

Definition wf_net (bits base len : N) : Prop :=
  len <= bits /\ base < 2 ^ bits /\ base mod 2 ^ (bits - len) = 0.
Definition wf_netb (bits base len : N) : bool :=
  (len <=? bits) && (base <? 2 ^ bits) && (base mod 2 ^ (bits - len) =? 0).

Definition in_net (bits base len a : N) : Prop := base <= a /\ a < base + 2 ^ (bits - len).
Definition in_netb (bits base len a : N) : bool := (base <=? a) && (a <? base + 2 ^ (bits - len)).

(* a produced pattern is handed to SigmaString(...): '*' is the multi-character wildcard *)
Definition pat_matches (p s : str) : bool := wild_match (iparse p) s.

(* ------------------------------------------------------------ IPv4 patterns as integer ranges *)
(* table of (o, dec3 o ++ ".") and (o, dec3 o) for the 256 octets *)
Definition octet_dot_table : list (N * str) :=
  Eval vm_compute in map (fun o => (o, dec3 o ++ [c_dot])) (nseq 256).
Definition octet_table : list (N * str) :=
  Eval vm_compute in map (fun o => (o, dec3 o)) (nseq 256).

(* the unique octet o with  dec3 o ++ "."  a prefix of s, and what follows *)
Definition read_octet_dot (s : str) : option (N * str) :=
  match find (fun ot => prefixb (snd ot) s) octet_dot_table with
  | Some (o, t) => Some (o, skipn (length t) s)
  | None => None
  end.

Fixpoint p256 (w : nat) : N := match w with O => 1 | S w' => 256 * p256 w' end.

(* w octets are still to be read, acc is the value of those read so far; result [lo, hi) *)
Fixpoint prange4 (w : nat) (acc : N) (s : str) : option (N * N) :=
  match w with
  | O => None
  | S w' =>
    if str_eqb s [c_star] then Some (acc * p256 w, (acc + 1) * p256 w)
    else match w' with
         | O => match find (fun ot => str_eqb (snd ot) s) octet_table with
                | Some (o, _) => Some (acc * 256 + o, acc * 256 + o + 1)
                | None => None
                end
         | S _ => match read_octet_dot s with
                  | Some (o, r) => prange4 w' (acc * 256 + o) r
                  | None => None
                  end
         end
  end.
Definition pattern_range4 (p : str) : option (N * N) := prange4 4 0 p.

(* ------------------------------------------------------------ ranges tiling an interval *)
Fixpoint insert_range (x : N * N) (l : list (N * N)) : list (N * N) :=
  match l with
  | [] => [x]
  | y :: r => if fst x <=? fst y then x :: y :: r else y :: insert_range x r
  end.
Definition sort_ranges (l : list (N * N)) : list (N * N) := fold_right insert_range [] l.
(* consecutive non-empty ranges from lo up to exactly hi *)
Fixpoint tiles (lo hi : N) (l : list (N * N)) : bool :=
  match l with
  | [] => lo =? hi
  | (a, b) :: r => (a =? lo) && (a <? b) && tiles b hi r
  end.

(* the patterns denote pairwise disjoint non-empty ranges whose union is exactly the network *)
Definition exact_cover4 (base len : N) (pats : list str) : bool :=
  match opt_all (map pattern_range4 pats) with
  | Some rs => tiles base (base + 2 ^ (32 - len)) (sort_ranges rs)
  | None => false
  end.

(* ------------------------------------------------------------ IPv6: coverage of given addresses *)
Definition covered (pats : list str) (text : str) : bool := existsb (fun p => pat_matches p text) pats.

(* ------------------------------------------------------------ IPv6: the domain of the coverage theorem *)
(* every completely fixed 16-bit group of every nibble-aligned subnet the expansion enumerates is
   non-zero (so no fixed group can take part in '::' compression) *)
Definition nonzero_groups (l : list N) : bool := forallb (fun g => negb (g =? 0)) l.
Definition fixed_nonzero6 (a len : N) : bool :=
  let diff := (4 - len mod 4) mod 4 in
  forallb (fun sub => nonzero_groups (firstn (N.to_nat ((len + diff) / 16)) (groups6 sub)))
          (subnets 128 a len diff).

(* ------------------------------------------------------------ the rendered query, read with the semantics
   the backend declares: the values of a value list are literals unless the backend allows wildcards in
   lists; the values of equality atoms joined by OR are wildcard patterns *)
Inductive rquery := RIn (vals : list str) | ROr (vals : list str).
Definition value_matches (wild : bool) (v text : str) : bool :=
  if wild then pat_matches v text else str_eqb v text.
Definition rquery_matches (allow_wild : bool) (q : rquery) (text : str) : bool :=
  match q with
  | RIn vs => existsb (fun v => value_matches allow_wild v text) vs
  | ROr vs => existsb (fun v => pat_matches v text) vs
  end.
(* the integer ranges its values denote (IPv4): a literal containing '*' is no address text at all *)
Definition rquery_exact4 (allow_wild : bool) (base len : N) (q : rquery) : bool :=
  match q with
  | ROr vs => exact_cover4 base len vs
  | RIn vs => if allow_wild then exact_cover4 base len vs
              else forallb (fun v => negb (mem c_star v)) vs && exact_cover4 base len vs
  end.
